import CnlProofs.Scaled
import CnlProofs.ScaledFloat
import CnlProofs.ScaledMixed
import CnlModel.Wrap
import CnlModel.ElasticNarrow
import CnlProofs.CIntLemmas
/-!
# C04 — integer ↔ integer conversions between `scaled_integer`s preserve the value or truncate toward zero

Notation as in C01.  The model is `scaled/convert_operator.h` (integer → integer, same radix):
`static_cast<Result>(scale<eS - eD, ρ>(from))` — the source representation is multiplied by
`ρ^(eS-eD)` (`eS ≥ eD`) or divided by `ρ^(eD-eS)` (`eS < eD`) **in the source's promoted type**, then
converted to the destination representation type `D` (`D.wrap`: the value itself when it fits `D`).

`scaleTrunc ρ k v` is the exact value of `v · ρ^k` truncated toward zero to an integer.
`CvtOk S k ρ v` is the restriction: for `k ≥ 0` the power is well-formed and the scaled intermediate
`v · ρ^k` fits `promote S`; for `k < 0` the divisor `ρ^(-k)` is a value of `promote S`
(`PowFits` — this is exactly "the instantiation compiles", for signed and unsigned representations and
every radix: `power_wellformed_iff_representable`.  As found, an unsigned `promote S` with radix ≠ 2
wrapped the power silently when it did not fit and the quotient was wrong — the repaired finding
`C04.unsigned_power_value_wraps`, `unsigned_power_wraps_unrepaired_refuted`; `power_value` now asserts
at every step of the repeated multiplication that the product fits).

* `convert_exact_or_truncated` — the result is `D.wrap (scaleTrunc ρ (eS-eD) v)` at exponent `eD`.
* `convert_value_preserved` — `eS ≥ eD` (or `ρ^(eD-eS)` divides `v`) and the value fits `D`: the result
  denotes exactly the source's value (`den`).
* `convert_truncates_toward_zero` — `eS < eD`: the result `q` has the sign of `v` (or is zero) and
  `0 ≤ |v| − |q|·ρ^(eD-eS) < ρ^(eD-eS)`: less than one unit of the destination's last place is
  lost, toward zero, for both signs; in terms of denoted values `den q ≤ den v < den (q+1)` for
  `v ≥ 0` and `den (q-1) < den v ≤ den q` for `v ≤ 0`.
* `convert_same_exponent` — equal exponents: the built-in conversion of the representation.
* different radixes (model `CnlModel.ScaledMixed`, section "Different radixes" at the end):
  `mixed_radix_exact_or_truncated` — the result is the exact quotient
  `(v · rS^eS⁺ · rD^eD⁻).tdiv (rS^eS⁻ · rD^eD⁺)` converted to `D`, never UB, whenever the powers are well-formed and
  the numerator fits the source representation type; `mixed_radix_fits`, `mixed_radix_value_preserved` (exact when
  the divisor divides), `mixed_radix_truncates_toward_zero` (sign and `< 1` unit lost, in denoted values).

## Floating point (radix 2)

Model: `CnlModel.ScaledFloat` — `toFloat f ρ rep e = Float(rep) * power_value<Float, e, ρ>()`,
`fromFloat f ρ D eD x = static_cast<D>(x * power_value<Float, -eD, ρ>())`, over the IEEE formats `Fmt` of
`CnlModel.CFloat` (binary32, binary64, x87 extended).  Spec: `CnlSpec.ScaledFloat` (`IsNearestEven`,
`IsExact`: dyadic rationals compared in a common unit).  All theorems are for **radix 2** (the literal `2`
in `toFloat f 2 …`); radix 10 is the open class `C04.non_binary_radix_float_not_correctly_rounded`
(`to_float_radix10_not_correctly_rounded`).  Hypotheses: `FmtOk f` (≥ 2 significand bits, `emin ≤ 0`,
`prec − 1 ≤ emax`), `PowNormal f e` (`emin ≤ e ≤ emax`, `−e ≤ emax`: the powers `2^e`, `2^|e|` that
`power_value` computes are normal numbers — then a non-zero `rep · 2^e` is never subnormal),
`CastFinite f rep` (`Float(rep)` is finite; fails only for 128-bit representations into binary32, see
`to_float_cast_overflow_counterexample`).

* `to_float_correctly_rounded` — `toFloat f 2 rep e` is the format's round-to-nearest-even of the exact dyadic
  `rep · 2^e`; when the rounded product is finite (`ProductFinite`) it satisfies `IsNearestEven` (a finite
  datum; no finite datum is closer; an equally close different datum exists only if the significand is even);
  otherwise it is the infinity of the sign of `rep`.
* `to_float_exact` — `|rep| < 2^prec` (or, `to_float_exact_of_significant_bits`, at most `prec` significant
  bits): the result is exactly `rep · 2^e`.
* `float_round_trip` — source digits `≤ prec`: scaled → float → the same scaled type is the identity (signed and
  unsigned representations, zero, negative values, the lowest value `−2^digits`).
* `from_float_exact_or_truncated` — float → scaled: exact when the value is a multiple of `2^eD`, otherwise
  truncated toward zero (less than one unit lost, for both signs); undefined (`ub`) when the truncated value does
  not fit `D`, as `static_cast` of an out-of-range floating value is.
-/
namespace Cnl.C04
open Cnl Cnl.Spec Cnl.Layered Cnl.ScaledP

/-- the conversion computes the scaled value truncated toward zero, converted to `D` -/
theorem convert_exact_or_truncated (D S : IntTy) (hS : 1 ≤ S.bits) (eD eS : Int) (ρ : Nat) (hρ : 2 ≤ ρ)
    (v : Int) (hv : S.InRange v) (hok : CvtOk S (eS - eD) ρ v) :
    Layered.cast (.sc (.int D) eD ρ) (sc S eS ρ v) = .ok (sc D eD ρ (D.wrap (scaleTrunc ρ (eS - eD) v))) :=
  cast_eval D S hS eD eS ρ hρ v hv hok

/-- … the value itself when it fits the destination representation -/
theorem convert_fits (D S : IntTy) (hD : 1 ≤ D.bits) (hS : 1 ≤ S.bits) (eD eS : Int) (ρ : Nat) (hρ : 2 ≤ ρ)
    (v : Int) (hv : S.InRange v) (hok : CvtOk S (eS - eD) ρ v) (hfit : D.InRange (scaleTrunc ρ (eS - eD) v)) :
    Layered.cast (.sc (.int D) eD ρ) (sc S eS ρ v) = .ok (sc D eD ρ (scaleTrunc ρ (eS - eD) v)) := by
  rw [cast_eval D S hS eD eS ρ hρ v hv hok, IntTy.wrap_id hD hfit]

/-- widening the resolution (`eS ≥ eD`): result `v · ρ^(eS-eD)` at exponent `eD`, the same value -/
theorem convert_value_preserved (D S : IntTy) (hD : 1 ≤ D.bits) (hS : 1 ≤ S.bits) (eD eS : Int) (hle : eD ≤ eS)
    (ρ : Nat) (hρ : 2 ≤ ρ) (v : Int) (hv : S.InRange v)
    (hw : PowOk S (eS - eD).toNat ρ) (hmid : (promote S).InRange (aligned ρ eS eD v))
    (hfit : D.InRange (aligned ρ eS eD v)) :
    Layered.cast (.sc (.int D) eD ρ) (sc S eS ρ v) = .ok (sc D eD ρ (aligned ρ eS eD v))
    ∧ den ρ (aligned ρ eS eD v) eD = den ρ v eS := by
  have hk : 0 ≤ eS - eD := by omega
  have hst : scaleTrunc ρ (eS - eD) v = aligned ρ eS eD v := by simp only [scaleTrunc, hk, ite_true, aligned]
  refine ⟨?_, den_aligned ρ hρ hle v⟩
  rw [← hst]
  apply convert_fits D S hD hS eD eS ρ hρ v hv _ (hst ▸ hfit)
  unfold CvtOk; simp only [hk, ite_true]; exact ⟨hw, hmid⟩

/-- coarsening the resolution (`eS < eD`): truncation toward zero, for both signs -/
theorem convert_truncates_toward_zero (D S : IntTy) (hD : 1 ≤ D.bits) (hS : 1 ≤ S.bits) (eD eS : Int) (hlt : eS < eD)
    (ρ : Nat) (hρ : 2 ≤ ρ) (v : Int) (hv : S.InRange v)
    (hw : PowFits S (eD - eS).toNat ρ) (hfit : D.InRange (v.tdiv (pw ρ (eD - eS).toNat))) :
    let p := pw ρ (eD - eS).toNat
    let q := v.tdiv p
    Layered.cast (.sc (.int D) eD ρ) (sc S eS ρ v) = .ok (sc D eD ρ q)
    ∧ (0 ≤ v → 0 ≤ q ∧ q * p ≤ v ∧ v < q * p + p)
    ∧ (v ≤ 0 → q ≤ 0 ∧ v ≤ q * p ∧ q * p - p < v)
    ∧ (0 ≤ v → den ρ q eD ≤ den ρ v eS ∧ den ρ v eS < den ρ (q + 1) eD)
    ∧ (v ≤ 0 → den ρ (q - 1) eD < den ρ v eS ∧ den ρ v eS ≤ den ρ q eD) := by
  intro p q
  have hk : ¬ (0 ≤ eS - eD) := by omega
  have hn : (-(eS - eD)).toNat = (eD - eS).toNat := by congr 1; omega
  have hst : scaleTrunc ρ (eS - eD) v = q := by simp only [scaleTrunc, hk, ite_false, hn, q, p]
  have hpos : 0 < p := pw_pos hρ _
  have htz : (0 ≤ v → 0 ≤ q ∧ q * p ≤ v ∧ v < q * p + p) ∧ (v ≤ 0 → q ≤ 0 ∧ v ≤ q * p ∧ q * p - p < v) :=
    tdiv_toward_zero v p hpos
  have hcast : Layered.cast (.sc (.int D) eD ρ) (sc S eS ρ v) = .ok (sc D eD ρ q) := by
    rw [← hst]
    apply convert_fits D S hD hS eD eS ρ hρ v hv _ (hst ▸ hfit)
    unfold CvtOk; simp only [hk, ite_false, hn]; exact hw
  -- a destination representation `x` denotes `x · p` source units
  have hden : ∀ x : Int, den ρ x eD = den ρ (x * p) eS := fun x => (den_aligned ρ hρ (Int.le_of_lt hlt) x).symm
  refine ⟨hcast, htz.1, htz.2, fun h0 => ?_, fun h0 => ?_⟩
  · have := htz.1 h0
    rw [hden q, hden (q + 1), den_le_iff ρ hρ, den_lt_iff ρ hρ, Int.add_mul]
    omega
  · have := htz.2 h0
    rw [hden q, hden (q - 1), den_le_iff ρ hρ, den_lt_iff ρ hρ, Int.sub_mul]
    omega

/-- coarsening is exact when no non-zero digit is dropped -/
theorem convert_exact_when_divisible (D S : IntTy) (hD : 1 ≤ D.bits) (hS : 1 ≤ S.bits) (eD eS : Int) (hlt : eS < eD)
    (ρ : Nat) (hρ : 2 ≤ ρ) (v : Int) (hv : S.InRange v)
    (hw : PowFits S (eD - eS).toNat ρ) (q : Int) (hdiv : v = q * pw ρ (eD - eS).toNat) (hfit : D.InRange q) :
    Layered.cast (.sc (.int D) eD ρ) (sc S eS ρ v) = .ok (sc D eD ρ q) ∧ den ρ q eD = den ρ v eS := by
  have hpos : 0 < pw ρ (eD - eS).toNat := pw_pos hρ _
  have hq : v.tdiv (pw ρ (eD - eS).toNat) = q := by
    rw [hdiv]; exact Int.mul_tdiv_cancel q (by omega)
  have h := convert_truncates_toward_zero D S hD hS eD eS hlt ρ hρ v hv hw (hq ▸ hfit)
  simp only [hq] at h
  refine ⟨h.1, ?_⟩
  rw [hdiv]; exact (den_aligned ρ hρ (Int.le_of_lt hlt) q).symm

/-- equal exponents: the built-in conversion of the representation, no restriction -/
theorem convert_same_exponent (D S : IntTy) (e : Int) (ρ : Nat) (v : Int) :
    Layered.cast (.sc (.int D) e ρ) (sc S e ρ v) = .ok (sc D e ρ (D.wrap v)) := by
  rw [cast_sc_sc, convert_eq]; simp

/-- `scaleTrunc` is what its name says: the exact scaled value `v · ρ^k`, truncated toward zero -/
theorem scaleTrunc_spec (ρ : Nat) (hρ : 2 ≤ ρ) (k v : Int) :
    (0 ≤ k → scaleTrunc ρ k v = v * pw ρ k.toNat) ∧
    (k < 0 → IsRounded .truncate v (pw ρ (-k).toNat) (scaleTrunc ρ k v)) := by
  constructor
  · intro h; simp only [scaleTrunc, h, ite_true]
  · intro h
    have : ¬ 0 ≤ k := by omega
    simp only [scaleTrunc, this, ite_false]
    have hpos := pw_pos hρ (-k).toNat
    exact roundDiv_truncate v _ (by omega)

/-- the restriction is exactly well-formedness: `power_value<S, k, ρ>` compiles if and only if `ρ^k` is
a value of the promoted type (every radix; signed and unsigned alike since the repair), and then it is
that value.  Hence the conversions above are total on the instantiations that compile. -/
theorem power_wellformed_iff_representable (S : IntTy) (k ρ : Nat) (hρ : 2 ≤ ρ) (hρi : (ρ:Int) ≤ 2147483647) :
    ((∃ v, powerValueInt S k ρ = .ok v) ↔ PowFits S k ρ)
    ∧ (PowFits S k ρ → powerValueInt S k ρ = .ok (if k = 0 then S else promote S, pw ρ k)) := by
  refine ⟨(powerValueInt_ok_iff S k ρ hρ hρi).trans (powOk_iff_fits S k ρ hρ), fun h => ?_⟩
  rw [powerValueInt_eq S k ρ hρ h.ok, IntTy.wrap_id (promote_bits_pos S) h]

/-- repaired finding `C04.unsigned_power_value_wraps`: **as found** (`scaleIntOrig` over
`powerValueIntOrig`), `power_value<uint32_t, 10, 10>` wrapped to `10^10 mod 2^32 = 1410065408`, so
converting `scaled_integer<uint32_t, power<-10, 10>>` with representation `2·10^9` (the value `0.2`) to
`power<0, 10>` — `static_cast<uint32_t>(scale<-10, 10>(rep))` — yielded `1`, not `0` (and `3` for the
largest representation).  `PowFits` fails there; the repaired `power_value` is ill-formed
(`static_assert`), as it always was for signed representations. -/
theorem unsigned_power_wraps_unrepaired_refuted :
    scaleIntOrig (-10) 10 (u32, 2000000000) = .ok (u32, 1)
    ∧ scaleIntOrig (-10) 10 (u32, 4294967295) = .ok (u32, 3)
    ∧ powerValueIntOrig u32 10 10 = .ok (u32, 1410065408)
    ∧ scaleTrunc 10 (-10 - 0) 2000000000 = 0 ∧ scaleTrunc 10 (-10 - 0) 4294967295 = 0 ∧ ¬ PowFits u32 10 10
    ∧ powerValueInt u32 10 10 = .ill "power_value: attempted operation will result in overflow"
    ∧ Layered.cast (.sc (.int u32) 0 10) (sc u32 (-10) 10 2000000000)
        = .ill "power_value: attempted operation will result in overflow" := by decide +kernel

/-- the repair changed nothing where the power was representable -/
theorem power_unchanged_where_representable (S : IntTy) (k ρ : Nat) (hρ : 2 ≤ ρ) (h : PowFits S k ρ) :
    powerValueIntOrig S k ρ = powerValueInt S k ρ :=
  powerValueIntOrig_eq S k ρ hρ h

example : PowFits u32 9 10 ∧ powerValueInt u32 9 10 = .ok (u32, 1000000000) ∧ ¬ PowFits i32 10 10
    ∧ PowFits u64 19 10 ∧ ¬ PowFits u64 20 10 ∧ PowFits u8 9 10 := by decide +kernel

/-! ## Floating point, radix 2 -/

section Float
open Cnl.ScaledFloat Cnl.ScaledFloatSpec Cnl.ScaledFloatP Cnl.FloatP Cnl.FloatFaithful

/-- **scaled → floating point is correctly rounded.**  The result is the format's round-to-nearest-even of the
exact value `rep · 2^e` (`Fmt.ofDyadic`); if that is finite it is a nearest datum of the format with ties to even
(`IsNearestEven`, stated on exact dyadics), and otherwise the conversion overflows to `±∞`.
Rounding `rep` to `prec` bits and then scaling by `2^e` loses nothing further because a non-zero product is
never subnormal when `2^e` itself is normal. -/
theorem to_float_correctly_rounded (f : Fmt) (hf : FmtOk f) (rep : Int) (e : Int)
    (hpw : PowNormal f e) (hc : CastFinite f rep) :
    toFloat f 2 rep e = f.ofDyadic (decide (rep < 0)) rep.natAbs e
    ∧ (ProductFinite f rep e → IsNearestEven f rep e (toFloat f 2 rep e))
    ∧ (¬ ProductFinite f rep e → toFloat f 2 rep e = .inf (decide (rep < 0))) :=
  ⟨toFloat_eq_ofDyadic f hf rep e hpw hc, toFloat_nearest f hf rep e hpw hc, toFloat_overflow f hf rep e hpw hc⟩

/-- plain sufficient conditions for the two range hypotheses: `|rep| < 2^emax` and `|rep| · 2^e < 2^emax` -/
theorem to_float_range_sufficient (f : Fmt) (hf : FmtOk f) (rep : Int) (e : Int) :
    (rep.natAbs < 2^f.emax.toNat → CastFinite f rep)
    ∧ ((rep.natAbs.log2 : Int) + 1 + e ≤ f.emax → ProductFinite f rep e) :=
  ⟨castFinite_of_lt f hf, productFinite_of_lt f rep e⟩

/-- at most `prec` significant bits in the representation (`G prec |rep|`: `|rep| = M · 2^t`, `M < 2^prec`):
the conversion is exact -/
theorem to_float_exact_of_significant_bits (f : Fmt) (hf : FmtOk f) (rep : Int) (e : Int) (hpw : PowNormal f e)
    (hG : G f.prec rep.natAbs) (hcast : (rep.natAbs.log2 : Int) ≤ f.emax)
    (hmax : (rep.natAbs.log2 : Int) + e ≤ f.emax) :
    IsExact rep e (toFloat f 2 rep e) :=
  (toFloat_exact f hf rep e hpw hG hcast hmax).2

/-- **the destination has at least as many significand digits as the value uses**: exactly `rep · 2^e` -/
theorem to_float_exact (f : Fmt) (hf : FmtOk f) (rep : Int) (e : Int) (hpw : PowNormal f e)
    (hbits : rep.natAbs < 2^f.prec) (hmax : (rep.natAbs.log2 : Int) + e ≤ f.emax) :
    IsExact rep e (toFloat f 2 rep e) := by
  have hp := prec_pos hf
  have hL : rep.natAbs.log2 < f.prec ∨ rep.natAbs = 0 := by
    by_cases h0 : rep.natAbs = 0
    · exact Or.inr h0
    · exact Or.inl (log2_lt_prec h0 hbits)
  have hcast : (rep.natAbs.log2 : Int) ≤ f.emax := by
    have := hf.2.2
    rcases hL with h | h
    · omega
    · rw [h]; simp [Nat.log2_zero]; omega
  exact to_float_exact_of_significant_bits f hf rep e hpw (G_of_lt hp hbits) hcast hmax

/-- **round trip**: a scaled integer whose representation type `S` has at most `prec` digits, converted to the
floating type and back to the same scaled type, is unchanged -/
theorem float_round_trip (f : Fmt) (hf : FmtOk f) (S : IntTy) (rep : Int) (e : Int)
    (hv : S.InRange rep) (hd : S.digits ≤ f.prec)
    (hpw : PowNormal f e) (hpf : PowF f e)
    (hcast : (S.digits : Int) ≤ f.emax) (hmax : (S.digits : Int) + e ≤ f.emax) :
    fromFloat f 2 S e (toFloat f 2 rep e) = .ok rep := by
  have hL := log2_le_of_inRange hv (Int.le_refl (S.digits : Int))
  exact round_trip f hf S rep e hpw hpf (G_of_inRange hv (prec_pos hf) hd) (by omega) (by omega) hv

/-- **floating point → scaled**: `x = (-1)^s · m · 2^e` (any finite value of the format, `m < 2^prec`, subnormals
included) converts to `x / 2^eD` exactly when that is an integer and otherwise to its truncation toward zero;
the conversion is undefined when that integer does not fit `D` (`intoRange`) -/
theorem from_float_exact_or_truncated (f : Fmt) (hf : FmtOk f) (hneg : f.emin < 0) (D : IntTy) (eD : Int)
    (hp : PowF f eD) (s : Bool) (m : Nat) (e : Int) (hx : ScaleFits f eD m e) :
    (eD ≤ e → fromFloat f 2 D eD (.fin s m e) = intoRange D (sval s m * 2^(e - eD).toNat))
    ∧ (e < eD →
        fromFloat f 2 D eD (.fin s m e) = intoRange D ((sval s m).tdiv (2^(eD - e).toNat))
        ∧ (0 ≤ sval s m → 0 ≤ (sval s m).tdiv (2^(eD - e).toNat)
              ∧ (sval s m).tdiv (2^(eD - e).toNat) * 2^(eD - e).toNat ≤ sval s m
              ∧ sval s m < (sval s m).tdiv (2^(eD - e).toNat) * 2^(eD - e).toNat + 2^(eD - e).toNat)
        ∧ (sval s m ≤ 0 → (sval s m).tdiv (2^(eD - e).toNat) ≤ 0
              ∧ sval s m ≤ (sval s m).tdiv (2^(eD - e).toNat) * 2^(eD - e).toNat
              ∧ (sval s m).tdiv (2^(eD - e).toNat) * 2^(eD - e).toNat - 2^(eD - e).toNat < sval s m)
        ∧ (∀ q : Int, sval s m = q * 2^(eD - e).toNat → (sval s m).tdiv (2^(eD - e).toNat) = q)) := by
  have hev := fromFloat_fits f hf hneg D eD hp s m e hx
  constructor
  · intro h
    have h0 : 0 ≤ e - eD := by omega
    rw [hev]; simp only [roundDyadic, h0, ite_true]
  · intro h
    have h0 : ¬ 0 ≤ e - eD := by omega
    have en : (-(e - eD)).toNat = (eD - e).toNat := by congr 1; omega
    have hpos := two_pow_pos (eD - e).toNat
    have htz := tdiv_toward_zero (sval s m) (2^(eD - e).toNat) hpos
    refine ⟨?_, htz.1, htz.2, fun q hq => ?_⟩
    · rw [hev]; simp only [roundDyadic, h0, ite_false, roundShift, en]
    · rw [hq]; exact Int.mul_tdiv_cancel q (by omega)

/-- **Outside the radix hypothesis** (open class `C04.non_binary_radix_float_not_correctly_rounded`; witness
`C04 tof 10 i16 -1 f64 -32767`): `scaled_integer<int16_t, power<-1, 10>>` with representation `-32767` converts
to `double` as `-32767 · (1/10)` — two roundings — one unit in the last place away from the correctly rounded
`-3276.7` -/
theorem to_float_radix10_not_correctly_rounded :
    toFloat binary64 10 (-32767) (-1) = .fin true 0x19996666666667 (-41)
    ∧ binary64.roundND true 32767 10 = .fin true 0x19996666666666 (-41) := by decide +kernel

/-- **Outside `CastFinite`**: a 128-bit representation can exceed the largest binary32 value, the cast to `float`
overflows before the scaling, and the result is `∞` although `rep · 2^e` is far inside the range -/
theorem to_float_cast_overflow_counterexample :
    toFloat binary32 2 (2^128 - 1) (-10) = .inf false
    ∧ binary32.ofDyadic false (2^128 - 1) (-10) = .fin false 8388608 95
    ∧ ¬ CastFinite binary32 (2^128 - 1) ∧ PowNormal binary32 (-10) := by decide +kernel

end Float

/-! Non-vacuity -/

section FloatExamples
open Cnl.ScaledFloat Cnl.ScaledFloatSpec Cnl.ScaledFloatP Cnl.FloatP Cnl.FloatFaithful
-- 16777217 = 2^24 + 1 has 25 significant bits: binary32 must round (a tie, to even); the product is finite
example : FmtOk binary32 ∧ PowNormal binary32 (-3) ∧ CastFinite binary32 16777217 ∧ ProductFinite binary32 16777217 (-3) := by
  decide +kernel
example : toFloat binary32 2 16777217 (-3) = .fin false 8388608 (-2) := by decide +kernel
example : IsNearestEven binary32 16777217 (-3) (toFloat binary32 2 16777217 (-3)) :=
  (to_float_correctly_rounded binary32 fmtOk_binary32 16777217 (-3) (by decide) (by decide +kernel)).2.1 (by decide +kernel)
-- overflow: 3 · 2^127 exceeds the largest binary32 value
example : PowNormal binary32 127 ∧ CastFinite binary32 (-3) ∧ ¬ ProductFinite binary32 (-3) 127
    ∧ toFloat binary32 2 (-3) 127 = .inf true := by decide +kernel
-- exact: -12345 has 14 bits
example : IsExact (-12345) (-7) (toFloat binary32 2 (-12345) (-7)) :=
  to_float_exact binary32 fmtOk_binary32 (-12345) (-7) (by decide) (by decide +kernel) (by decide +kernel)
example : toFloat binary32 2 (-12345) (-7) = .fin true 12641280 (-17) := by decide +kernel
-- round trip through binary32 for a 16-bit and through x87 extended for an unsigned 64-bit representation
example : fromFloat binary32 2 i16 (-7) (toFloat binary32 2 (-32768) (-7)) = .ok (-32768) :=
  float_round_trip binary32 fmtOk_binary32 i16 (-32768) (-7) (by decide) (by decide) (by decide) (by decide) (by decide) (by decide)
example : fromFloat x87ext 2 u64 20 (toFloat x87ext 2 18446744073709551615 20) = .ok 18446744073709551615 :=
  float_round_trip x87ext fmtOk_x87ext u64 18446744073709551615 20 (by decide +kernel) (by decide) (by decide) (by decide) (by decide) (by decide)
-- float → scaled: -5.75 = -23 · 2^-2 at resolution 2^-1 is -11 (= -5.5, toward zero); at resolution 2^-3 it is exact
example : ScaleFits binary32 (-1) 23 (-2) ∧ PowF binary32 (-1)
    ∧ fromFloat binary32 2 i8 (-1) (.fin true 23 (-2)) = .ok (-11)
    ∧ fromFloat binary32 2 i8 (-3) (.fin true 23 (-2)) = .ok (-46) := by decide +kernel
end FloatExamples

-- narrowing conversion of a negative value: -7·2^-2 = -1.75 → -1 (toward zero), into 8 bits
example : Layered.cast (.sc (.int i8) 0 2) (sc i32 (-2) 2 (-7)) = .ok (sc i8 0 2 (-1)) := by decide
example : PowFits i32 (0 - (-2) : Int).toNat 2 ∧ i8.InRange ((-7 : Int).tdiv (pw 2 (0 - (-2) : Int).toNat)) := by
  decide +kernel
-- widening, radix 10: 12·10^1 = 120 → 12000·10^-2
example : Layered.cast (.sc (.int i64) (-2) 10) (sc i16 1 10 12) = .ok (sc i64 (-2) 10 12000) := by decide +kernel
example : CvtOk i16 (1 - (-2)) 10 12 := by decide
-- the value does not fit the destination: reduced modulo 2^8
example : Layered.cast (.sc (.int u8) 0 2) (sc i32 0 2 300) = .ok (sc u8 0 2 44) := by decide

/-! ## Different radixes (`CnlModel.ScaledMixed`)

`scaled_integer<S, power<eS, rS>>` → `scaled_integer<D, power<eD, rD>>` with `rS ≠ rD` (the same code serves
`rS = rD`, but that case takes the single-`scale` route above).  The code keeps the running value in a variable of
the SOURCE representation type `S` and applies up to four `scale` steps, every multiplication before every
division: `· rS^eS` (`eS > 0`), `· rD^(-eD)` (`eD < 0`), `/ rS^(-eS)` (`eS < 0`), `/ rD^eD` (`eD > 0`); each step is
computed in `promote S` and assigned back to the variable; the final value is converted to `D`.

Write `x⁺ = max x 0`, `x⁻ = max (-x) 0` (`Int.toNat x`, `Int.toNat (-x)`); the *numerator* is
`v · rS^eS⁺ · rD^eD⁻` and the *divisor* `rS^eS⁻ · rD^eD⁺`, so the source value `v · rS^eS` equals
`(numerator / divisor) · rD^eD`.  The restriction, as the code realises "the destination can represent it / only
low-order digits are lost": the four `power_value` instantiations are well-formed (`PowOk`, i.e. each power is a value
of `promote S` — `powOk_iff_fits`; vacuous for the unused sign of each exponent) and the numerator fits the source
representation type `S` (then so does the intermediate `v · rS^eS⁺`).  Outside it a signed multiplication may
overflow (UB) or the assignment back to `S` reduces modulo `2^bits`; the model follows the code there too
(differentially validated) but no theorem is claimed.
-/
section MixedRadix
open Cnl.ScaledMixedP

/-- nested truncating division by positive numbers is one truncating division by the product -/
theorem nested_truncating_division (a b c : Int) (hb : 0 < b) (hc : 0 < c) : (a.tdiv b).tdiv c = a.tdiv (b * c) :=
  tdiv_tdiv_pos a b c hb hc

/-- **different radixes**: the conversion is defined (never UB, never ill-formed) and its result is the exact
quotient `numerator / divisor` truncated toward zero, converted to the destination representation type -/
theorem mixed_radix_exact_or_truncated (S D : IntTy) (hS : 1 ≤ S.bits) (eS eD : Int) (rS rD : Nat)
    (hrS : 2 ≤ rS) (hrD : 2 ≤ rD) (v : Int) (hv : S.InRange v)
    (hpS : PowOk S eS.toNat rS ∧ PowOk S (-eS).toNat rS) (hpD : PowOk S eD.toNat rD ∧ PowOk S (-eD).toNat rD)
    (hfit : S.InRange (v * pw rS eS.toNat * pw rD (-eD).toNat)) :
    ScaledMixed.convert S eS rS D eD rD v
      = .ok (Cnl.convert D (S, (v * pw rS eS.toNat * pw rD (-eD).toNat).tdiv (pw rS (-eS).toNat * pw rD eD.toNat)))
    ∧ S.InRange (v * pw rS eS.toNat) :=
  ⟨convert_eval S D hS eS eD rS rD hrS hrD v hv ⟨hpS.1, hpS.2, hpD.1, hpD.2, hfit⟩,
   inRange_of_mul_ge_one (pw_ge_one hrD _) hfit⟩

/-- … the truncated quotient itself when it fits the destination representation type -/
theorem mixed_radix_fits (S D : IntTy) (hS : 1 ≤ S.bits) (hD : 1 ≤ D.bits) (eS eD : Int) (rS rD : Nat)
    (hrS : 2 ≤ rS) (hrD : 2 ≤ rD) (v : Int) (hv : S.InRange v)
    (hpS : PowOk S eS.toNat rS ∧ PowOk S (-eS).toNat rS) (hpD : PowOk S eD.toNat rD ∧ PowOk S (-eD).toNat rD)
    (hfit : S.InRange (v * pw rS eS.toNat * pw rD (-eD).toNat))
    (hdst : D.InRange ((v * pw rS eS.toNat * pw rD (-eD).toNat).tdiv (pw rS (-eS).toNat * pw rD eD.toNat))) :
    ScaledMixed.convert S eS rS D eD rD v
      = .ok (D, (v * pw rS eS.toNat * pw rD (-eD).toNat).tdiv (pw rS (-eS).toNat * pw rD eD.toNat)) := by
  rw [(mixed_radix_exact_or_truncated S D hS eS eD rS rD hrS hrD v hv hpS hpD hfit).1]
  simp only [Cnl.convert, IntTy.wrap_id hD hdst]

/-- **exact**: when the divisor divides the numerator (`numerator = q · divisor`; in particular whenever
`eS ≥ 0 ≥ eD`, where the divisor is 1) and `q` fits `D`, the result is `q` and it denotes exactly the source's
value: `q · rD^eD = v · rS^eS` -/
theorem mixed_radix_value_preserved (S D : IntTy) (hS : 1 ≤ S.bits) (hD : 1 ≤ D.bits) (eS eD : Int) (rS rD : Nat)
    (hrS : 2 ≤ rS) (hrD : 2 ≤ rD) (v : Int) (hv : S.InRange v)
    (hpS : PowOk S eS.toNat rS ∧ PowOk S (-eS).toNat rS) (hpD : PowOk S eD.toNat rD ∧ PowOk S (-eD).toNat rD)
    (hfit : S.InRange (v * pw rS eS.toNat * pw rD (-eD).toNat))
    (q : Int) (hdiv : v * pw rS eS.toNat * pw rD (-eD).toNat = q * (pw rS (-eS).toNat * pw rD eD.toNat))
    (hdst : D.InRange q) :
    ScaledMixed.convert S eS rS D eD rD v = .ok (D, q) ∧ den rD q eD = den rS v eS := by
  have hpos : 0 < pw rS (-eS).toNat * pw rD eD.toNat := denom_pos hrS hrD eS eD
  have hq : (v * pw rS eS.toNat * pw rD (-eD).toNat).tdiv (pw rS (-eS).toNat * pw rD eD.toNat) = q := by
    rw [hdiv]; exact Int.mul_tdiv_cancel q (by omega)
  refine ⟨?_, (den_dst_eq_src_iff rS rD hrS hrD eS eD v q).2 hdiv.symm⟩
  rw [← hq]
  exact mixed_radix_fits S D hS hD eS eD rS rD hrS hrD v hv hpS hpD hfit (hq ▸ hdst)

/-- **truncated toward zero**: the result `q` has the sign of `v` (or is zero), less than one unit of the
destination's last place is lost, toward zero, for both signs:
`q · rD^eD ≤ v · rS^eS < (q+1) · rD^eD` for `v ≥ 0` and `(q-1) · rD^eD < v · rS^eS ≤ q · rD^eD` for `v ≤ 0` -/
theorem mixed_radix_truncates_toward_zero (S D : IntTy) (hS : 1 ≤ S.bits) (hD : 1 ≤ D.bits) (eS eD : Int)
    (rS rD : Nat) (hrS : 2 ≤ rS) (hrD : 2 ≤ rD) (v : Int) (hv : S.InRange v)
    (hpS : PowOk S eS.toNat rS ∧ PowOk S (-eS).toNat rS) (hpD : PowOk S eD.toNat rD ∧ PowOk S (-eD).toNat rD)
    (hfit : S.InRange (v * pw rS eS.toNat * pw rD (-eD).toNat))
    (hdst : D.InRange ((v * pw rS eS.toNat * pw rD (-eD).toNat).tdiv (pw rS (-eS).toNat * pw rD eD.toNat))) :
    let n := v * pw rS eS.toNat * pw rD (-eD).toNat
    let p := pw rS (-eS).toNat * pw rD eD.toNat
    let q := n.tdiv p
    ScaledMixed.convert S eS rS D eD rD v = .ok (D, q)
    ∧ (0 ≤ v → 0 ≤ q ∧ q * p ≤ n ∧ n < q * p + p)
    ∧ (v ≤ 0 → q ≤ 0 ∧ n ≤ q * p ∧ q * p - p < n)
    ∧ (0 ≤ v → den rD q eD ≤ den rS v eS ∧ den rS v eS < den rD (q + 1) eD)
    ∧ (v ≤ 0 → den rD (q - 1) eD < den rS v eS ∧ den rS v eS ≤ den rD q eD) := by
  intro n p q
  have hpos : 0 < p := denom_pos hrS hrD eS eD
  have htz := tdiv_toward_zero n p hpos
  have hn0 : 0 ≤ v → 0 ≤ n := numer_nonneg hrS hrD eS eD
  have hn1 : v ≤ 0 → n ≤ 0 := numer_nonpos hrS hrD eS eD
  have hle := den_dst_le_src_iff rS rD hrS hrD eS eD v
  have hlt := den_src_lt_dst_iff rS rD hrS hrD eS eD v
  have hlt' := den_dst_lt_src_iff rS rD hrS hrD eS eD v
  have hle' := den_src_le_dst_iff rS rD hrS hrD eS eD v
  refine ⟨mixed_radix_fits S D hS hD eS eD rS rD hrS hrD v hv hpS hpD hfit hdst,
    fun h => htz.1 (hn0 h), fun h => htz.2 (hn1 h), fun h => ?_, fun h => ?_⟩
  · have := htz.1 (hn0 h)
    refine ⟨(hle q).2 this.2.1, (hlt (q + 1)).2 ?_⟩
    show n < (q + 1) * p
    rw [Int.add_mul, Int.one_mul]; exact this.2.2
  · have := htz.2 (hn1 h)
    refine ⟨(hlt' (q - 1)).2 ?_, (hle' q).2 this.2.1⟩
    show (q - 1) * p < n
    rw [Int.sub_mul, Int.one_mul]; exact this.2.2

-- the input a seeded defect got wrong (it divided before multiplying): 2·10^1 = 20 → 5·2^2
example : ScaledMixed.convert i32 1 10 i32 2 2 2 = .ok (i32, 5) := by decide +kernel
example : ScaledMixed.convert i32 1 10 i32 2 2 2 = .ok (i32, 5) :=
  mixed_radix_fits i32 i32 (by decide) (by decide) 1 2 10 2 (by decide) (by decide) 2 (by decide)
    (by decide) (by decide) (by decide +kernel) (by decide +kernel)
-- both exponents negative, negative value: -37·10^-1 = -3.7 → -29·2^-3 = -3.625 (toward zero)
example : ScaledMixed.convert i16 (-1) 10 i8 (-3) 2 (-37) = .ok (i8, -29) := by decide +kernel
example : (PowOk i16 (-1 : Int).toNat 10 ∧ PowOk i16 (- -1 : Int).toNat 10)
    ∧ (PowOk i16 (-3 : Int).toNat 2 ∧ PowOk i16 (- -3 : Int).toNat 2)
    ∧ i16.InRange (-37 * pw 10 (-1 : Int).toNat * pw 2 (- -3 : Int).toNat)
    ∧ i8.InRange ((-37 * pw 10 (-1 : Int).toNat * pw 2 (- -3 : Int).toNat).tdiv
        (pw 10 (- -1 : Int).toNat * pw 2 (-3 : Int).toNat)) := by decide +kernel
-- exact: 3·10^2 = 300 = 75·2^2, both exponents positive, into an unsigned destination
example : ScaledMixed.convert i16 2 10 u8 2 2 3 = .ok (u8, 75)
    ∧ (3 * pw 10 (2 : Int).toNat * pw 2 (-2 : Int).toNat = 75 * (pw 10 (-2 : Int).toNat * pw 2 (2 : Int).toNat)) := by
  decide +kernel
-- outside the restriction (the numerator does not fit the source type): the stored intermediate wraps
example : ¬ i8.InRange (100 * pw 10 (1 : Int).toNat * pw 2 (-2 : Int).toNat)
    ∧ ScaledMixed.convert i8 1 10 i32 2 2 100 = .ok (i32, -6) := by decide +kernel

end MixedRadix


/-! ## `from_rep`/`to_rep` and `wrap`/`unwrap` are exact inverses (model `CnlModel/Wrap.lean`, lines `C04w`)

`unwrap_wrap`, `wrap_unwrap` (every nest of scaled_integer / overflow_integer / rounding_integer layers, every built-in
argument type, every value: type and value come back), `toRep_fromRep_*`, `fromRep_toRep_*`; for archetypes that fix
their own storage type (`elastic_integer`) the value comes back exactly when the storage holds it
(`unwrap_wrap_value`, `toRep_fromRep_el`) — otherwise the conversion into the storage is the built-in one, which the
correspondence lines observe.  `wide_integer` archetypes are not modelled here. -/
namespace WrapInverse
open Cnl.Wrap


theorem leafTy_rebind_pure (T : Ty) (hT : PureNest T) (R : IntTy) : leafTy (rebind T R) = some R := by
  induction T with
  | int t => simp [rebind, leafTy]
  | sc r e x ih => simpa [rebind, leafTy] using ih hT
  | ov r t ih => simpa [rebind, leafTy] using ih hT
  | rd r m ih => simpa [rebind, leafTy] using ih hT
  | flt _ => exact absurd hT (by simp [PureNest])
  | el _ _ _ => exact absurd hT (by simp [PureNest])
  | wd _ _ _ => exact absurd hT (by simp [PureNest])
  | fr _ _ _ _ => exact absurd hT (by simp [PureNest])

theorem rebind_rebind (T : Ty) (R S : IntTy) : rebind (rebind T R) S = rebind T S := by
  induction T with
  | int t => simp [rebind]
  | sc r e x ih => simp [rebind, ih]
  | ov r t ih => simp [rebind, ih]
  | rd r m ih => simp [rebind, ih]
  | flt _ => simp [rebind]
  | el d n ih => cases n <;> simp [rebind]
  | wd _ _ _ => simp [rebind]
  | fr _ _ _ _ => simp [rebind]

/-- **`unwrap(wrap<T>(r)) = r`** for every nest `T` of scaled_integer / overflow_integer / rounding_integer layers, every
built-in argument type and EVERY value: type and value come back (the nest is rebuilt around the argument's type,
nothing is converted). -/
theorem unwrap_wrap (T : Ty) (hT : PureNest T) (r : TV) (hb : 1 ≤ r.1.bits) (hr : r.1.InRange r.2) :
    (wrap T r).bind unwrap = some r := by
  have h := leafTy_rebind_pure T hT r.1
  simp [wrap, unwrap, h, convert, IntTy.wrap_id hb hr]

/-- for an archetype that fixes its own storage (`elastic_integer` at the bottom of the nest): the value comes back
exactly when that storage holds it -/
theorem unwrap_wrap_value (T : Ty) (r : TV) (L : IntTy) (hL : leafTy (rebind T r.1) = some L) (hb : 1 ≤ L.bits)
    (hfit : L.InRange r.2) : (wrap T r).bind unwrap = some (L, r.2) := by
  simp [wrap, unwrap, hL, convert, IntTy.wrap_id hb hfit]

/-- **`wrap<T>(unwrap(x)) = x`** for every number `x` whose type is `T` rebuilt around its own innermost type (in
particular for every `x` of a pure nest type `T`) -/
theorem wrap_unwrap (x : Num) (L : IntTy) (hL : leafTy x.1 = some L) (hb : 1 ≤ L.bits) (hx : L.InRange x.2)
    (hself : rebind x.1 L = x.1) : (unwrap x).bind (wrap x.1) = some x := by
  simp [wrap, unwrap, hL, hself, convert, IntTy.wrap_id hb hx]

theorem rebind_self_pure (T : Ty) (hT : PureNest T) (L : IntTy) (hL : leafTy T = some L) : rebind T L = T := by
  induction T with
  | int t => simp [leafTy] at hL; simp [rebind, hL]
  | sc r e x ih => simp [leafTy] at hL; simp [rebind, ih hT hL]
  | ov r t ih => simp [leafTy] at hL; simp [rebind, ih hT hL]
  | rd r m ih => simp [leafTy] at hL; simp [rebind, ih hT hL]
  | flt _ => exact absurd hT (by simp [PureNest])
  | el _ _ _ => exact absurd hT (by simp [PureNest])
  | wd _ _ _ => exact absurd hT (by simp [PureNest])
  | fr _ _ _ _ => exact absurd hT (by simp [PureNest])

/-- **`to_rep(from_rep<T>(r)) = r`** for the three wrapper archetypes: the layer is rebuilt around the argument's
type, value untouched — for EVERY value of every built-in type -/
theorem toRep_fromRep_sc (a : Ty) (e : Int) (q : Nat) (r : TV) : (fromRep (.sc a e q) r).bind toRep = some r := by
  simp [fromRep, toRep]
theorem toRep_fromRep_ov (a : Ty) (t : OvTag) (r : TV) : (fromRep (.ov a t) r).bind toRep = some r := by
  simp [fromRep, toRep]
theorem toRep_fromRep_rd (a : Ty) (m : RdMode) (r : TV) : (fromRep (.rd a m) r).bind toRep = some r := by
  simp [fromRep, toRep]

/-- **`from_rep<T>(to_rep(x)) = x`** for a wrapper over a built-in representation -/
theorem fromRep_toRep_sc (R : IntTy) (e : Int) (q : Nat) (v : Int) :
    (toRep (.sc (.int R) e q, v)).bind (fromRep (.sc (.int R) e q)) = some (.sc (.int R) e q, v) := by
  simp [fromRep, toRep]
theorem fromRep_toRep_ov (R : IntTy) (t : OvTag) (v : Int) :
    (toRep (.ov (.int R) t, v)).bind (fromRep (.ov (.int R) t)) = some (.ov (.int R) t, v) := by
  simp [fromRep, toRep]
theorem fromRep_toRep_rd (R : IntTy) (m : RdMode) (v : Int) :
    (toRep (.rd (.int R) m, v)).bind (fromRep (.rd (.int R) m)) = some (.rd (.int R) m, v) := by
  simp [fromRep, toRep]

/-- `elastic_integer<D, N>`: `to_rep(from_rep(r))` gives the value back exactly when the storage type holds it -/
theorem toRep_fromRep_el (d : Nat) (n : IntTy) (r : TV) (L : IntTy)
    (hL : Elastic.repTy d ⟨n.bits, r.1.signed⟩ = some L) (hb : 1 ≤ L.bits) (hfit : L.InRange r.2) :
    (fromRep (.el d (.int n)) r).bind toRep = some (L, r.2) := by
  simp [fromRep, toRep, hL, convert, IntTy.wrap_id hb hfit]

-- non-vacuity: a three-layer nest around a 64-bit argument; an elastic leaf that holds / does not hold the argument
example : (wrap (.sc (.ov (.rd (.int i8) .nrst) .sat) (-2) 2) (i64, 5000000000)).bind unwrap = some (i64, 5000000000) :=
  unwrap_wrap _ (by simp [PureNest]) _ (by decide) (by decide)
example : (wrap (.sc (.el 10 (.int i32)) (-3) 2) (i16, -77)).bind unwrap = some (i32, -77) := by decide +kernel
example : (wrap (.el 10 (.int i32)) (i64, 5000000000)).bind unwrap = some (i32, 705032704) := by decide +kernel


end WrapInverse

/-! ## scaled_integer over an elastic_integer / a native-rounding nest around one (table `C04w ecvt`)

Model `CnlModel.ElasticNarrow` (value level: the library's route — `elastic_integer/scale.h` with a divisor type of `1 + k`
digits, or the wrapper division by `power_value<S, k>()` in a type wide enough for both operands — is described there and is
tied to the code by correspondence only; the theorems below are about the values).  The number `k` of dropped digits is
unrestricted: at or beyond the width of the word holding the source's digits the result is 0. -/
namespace ElasticNarrowing
open Cnl.ElasticNarrow

/-- narrowing by any number of digits `k` (no bound relating `k` to a word width): the model's result is the source value
truncated toward zero at the destination's resolution -/
theorem elastic_narrow_truncates (v : Int) (k : Nat) : TruncTo v k (rescale v k) := by
  have hp : 0 < 2 ^ k := Nat.pos_of_ne_zero (by simp)
  have hq : (v.tdiv ((2:Int) ^ k)).natAbs = v.natAbs / 2 ^ k := by
    rw [Int.natAbs_tdiv]; simp [Int.natAbs_pow]; rfl
  have hr : rescale v k = v.tdiv ((2:Int) ^ k) := by simp [rescale]
  rw [hr]
  refine ⟨?_, ?_, ?_⟩
  · rw [hq]; exact Nat.div_mul_le_self _ _
  · rw [hq, Nat.mul_comm]; exact Nat.lt_mul_div_succ _ hp
  · have hpi : (0:Int) < 2 ^ k := by exact_mod_cast hp
    by_cases hz : v = 0
    · subst hz; simp
    by_cases h0 : 0 ≤ v
    · have := Int.tdiv_nonneg h0 (Int.le_of_lt hpi)
      omega
    · have h1 : 0 ≤ -v := by omega
      have h2 := Int.tdiv_nonneg h1 (Int.le_of_lt hpi)
      rw [Int.neg_tdiv] at h2
      omega

/-- the property's demand determines the result: whatever satisfies it is the model's value -/
theorem elastic_narrow_unique (v : Int) (k : Nat) (r : Int) (h : TruncTo v k r) : r = rescale v k := by
  have hm := elastic_narrow_truncates v k
  obtain ⟨a1, a2, a3⟩ := h
  obtain ⟨b1, b2, b3⟩ := hm
  generalize rescale v k = q at *
  have hp : 0 < 2 ^ k := Nat.pos_of_ne_zero (by simp)
  have habs : r.natAbs = q.natAbs := by
    rcases Nat.lt_trichotomy r.natAbs q.natAbs with h | h | h
    · have : (r.natAbs + 1) * 2 ^ k ≤ q.natAbs * 2 ^ k := Nat.mul_le_mul_right _ h
      omega
    · exact h
    · have : (q.natAbs + 1) * 2 ^ k ≤ r.natAbs * 2 ^ k := Nat.mul_le_mul_right _ h
      omega
  omega

/-- all the declared digits dropped — in particular `k` at or beyond the width of the word holding them: the result is 0 -/
theorem elastic_narrow_drops_all_digits (v : Int) (n k : Nat) (hv : v.natAbs ≤ 2 ^ n - 1) (hk : n ≤ k) :
    rescale v k = 0 := by
  have h := (elastic_narrow_truncates v k).1
  have hp : 0 < 2 ^ n := Nat.pos_of_ne_zero (by simp)
  have hle : 2 ^ n ≤ 2 ^ k := Nat.pow_le_pow_right (by decide) hk
  generalize rescale v k = q at *
  by_cases hq : q = 0
  · exact hq
  · have : 1 ≤ q.natAbs := by omega
    have : 1 * 2 ^ k ≤ q.natAbs * 2 ^ k := Nat.mul_le_mul_right _ this
    omega

/-- the quotient never has more digits than the source: a destination of the same digits holds it -/
theorem elastic_narrow_fits (v : Int) (k : Nat) : (rescale v k).natAbs ≤ v.natAbs := by
  have h := (elastic_narrow_truncates v k).1
  have hp : 0 < 2 ^ k := Nat.pos_of_ne_zero (by simp)
  generalize (rescale v k).natAbs = a at *
  have : a * 1 ≤ a * 2 ^ k := Nat.mul_le_mul_left _ hp
  omega

/-- adding digits is exact -/
theorem elastic_widen_exact (v : Int) (k : Nat) (hk : 0 < k) : rescale v (-(k : Int)) = v * 2 ^ k := by
  have : ¬ (0 : Int) ≤ -(k : Int) := by omega
  unfold rescale
  rw [if_neg this]
  simp

/-- the conversion of the model (`ElasticNarrow.convert`, compared line by line with the library over the grid): whenever it
applies, the result has the destination type and holds the source value exactly (digits added) or truncated toward zero
(`k = eD − eS` digits dropped, for every `k`) -/
theorem elastic_convert_exact_or_truncated (r : Ty) (eS : Int) (D : Ty) (eD : Int) (v : Int) (x : Num)
    (hD : expOf D = some eD) (h : ElasticNarrow.convert (.sc r eS 2) D v = some x) :
    x.1 = D ∧ (eS ≤ eD → TruncTo v (eD - eS).toNat x.2) ∧ (eD < eS → x.2 = v * 2 ^ (eS - eD).toNat) := by
  unfold ElasticNarrow.convert at h
  cases hi : elInfo r with
  | none => simp [hi] at h
  | some i =>
    simp only [hi, hD] at h
    by_cases hh : holds D (rescale v (eD - eS)) = true
    · simp only [hh, if_true, Option.some.injEq] at h
      subst h
      refine ⟨rfl, ?_, ?_⟩
      · intro hle
        have hk : eD - eS = ((eD - eS).toNat : Int) := by omega
        have := elastic_narrow_truncates v (eD - eS).toNat
        rw [← hk] at this
        exact this
      · intro hlt
        have hk : eD - eS = -((eS - eD).toNat : Int) := by omega
        have hpos : 0 < (eS - eD).toNat := by omega
        show rescale v (eD - eS) = _
        rw [hk]
        exact elastic_widen_exact v _ hpos
    · simp [hh] at h

-- non-vacuity: elastic_integer<31> at 2^-32 to 2^0 (one more digit dropped than the 32-bit word has), static_number<20> at
-- 2^-40 to 2^-5, a 63-digit source keeping 5 digits
example : ElasticNarrow.convert (.sc (.el 31 (.int i32)) (-32) 2) (.sc (.el 31 (.int i32)) 0 2) 2147483647
    = some (.sc (.el 31 (.int i32)) 0 2, 0) := by decide +kernel
example : ElasticNarrow.convert (.sc (.ov (.el 20 (.rd (.wd 31 (.int i32)) .nat)) .sat) (-40) 2) (.int i64) (-1048575) = some (.int i64, 0) := by
  decide +kernel
example : rescale (-9223372036854775807) 58 = -31 := by decide +kernel
example : TruncTo (-9223372036854775807) 58 (-31) := by decide +kernel

end ElasticNarrowing

end Cnl.C04
