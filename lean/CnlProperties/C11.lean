import CnlModel.Static
