import CnlProofs.Static
import CnlProofs.OverflowFloat
/-!
# C11 — static_integer and static_number are never silently wrong

Theorems about the executable composition model `CnlModel/Static.lean` (+ the history evaluator
`CnlModel/StaticExpr.lean`), which is validated against the real `static_number` by the `C11`
correspondence table (operators, comparisons, conversions, two-step histories).  They hold for **all**
digit counts, exponents, rounding tags and overflow tags.

* "in range" is `SNum.InRange`: `|value| ≤ 2^digits − 1`, the declared range of the type.
* "well-formed" is the hypothesis `∀ m, f … ≠ .ill m`: the model returns `.ill` exactly when a storage
  selection fails (digits beyond the widest integer — the real program does not compile) or when the
  native overflow tag would have to react (outside the model).
* `exactBin m op x y` (`CnlSpec/Static.lean`) is the demanded result of one operator: declared digits,
  exponent, exact value at that exponent (`exactBin_add … exactBin_div` spell it out).
* `evalIdeal` is the ideal evaluation of a history (exact integers at known exponents, `roundDiv` at
  each division and precision-losing conversion, a *signal* when a conversion does not fit — the clamped
  limit under the saturated tag); `Agrees tag r i` says the model's outcome `r` is the ideal outcome
  `i`: same exponent and value, or the tag's reaction to a signal of the same polarity.  Undefined
  behaviour agrees with nothing, so every `Agrees` conclusion includes "never undefined".

Per node: `binOp_exact` (`+ − *`), `div_rounded`, `neg_exact`, `cmp_exact` (+ `cmp_any_common_exponent`),
`convert_exact_or_signal` (+ `convert_agrees`).  The narrowing conversion carries the hypothesis
`¬ KnownDefect c E x`, the complement of the two **open** defect classes; each class is refuted from
its witness: `narrowing_drops_all_digits_refuted`, `rounded_value_exceeds_intermediate_refuted`.
Histories: `never_silently_wrong` (induction over `SExpr`, i.e. histories of any length) and its
corollaries.  Construction from floating point: `float_construct_flag_iff` (the overflow test signals iff
the real scaled value is outside the declared range; the as-found test of the repaired finding
`C11.float_at_limit_not_flagged` is refuted by `float_at_limit_refuted`); the rounding that follows is C09's.
Shifts (section 6): `shl_exact_or_signal` / `shl_agrees` (`x << n`, every run-time count `n ≥ 0`: exact or the tag's
signal with the right polarity, never undefined), `shr_floor` (`x >> n = ⌊x / 2^n⌋`, never a signal),
`shl_constant_exact`, `shr_constant_floor` (`cnl::constant` counts on a static_integer; the right shift is in range of
its narrower type outside the **open** class `ShrBelowRange`, refuted by `shr_constant_below_declared_range_refuted`),
`shift_constant_number_exact` (constant counts on a static_number move the exponent), `shiftAssign_is_history`
(`<<=`, `>>=`), and the shift nodes of the histories; the as-found left-shift test of the repaired finding
`C11.shl_to_minus_two_pow_digits_not_flagged` is refuted by `shl_as_found_refuted`.
Nothing is left unproved except `x >> constant<k>` with `k` *equal* to the digit count (the result is a
`static_integer<0>`; covered by the correspondence table only); the part of the property that fails is exactly the
part the three refutations of open classes exhibit.
-/
namespace Cnl.C11
open Cnl Cnl.Spec Cnl.Static Cnl.Rounding Cnl.Elastic

/-- the ideal evaluator's rounding is the one C08 proves of the division -/
theorem rmode_eq_modeOf (m : RdMode) : rmode m = modeOf m := Static.rmode_eq_modeOf m

/-! ## 1. `+ − *` are exact -/

theorem exactBin_add (m : RoundMode) (x y : SNum) : exactBin m .add x y =
    ⟨max (x.digits + (x.exp - min x.exp y.exp).toNat) (y.digits + (y.exp - min x.exp y.exp).toNat) + 1,
     min x.exp y.exp,
     x.value * 2^(x.exp - min x.exp y.exp).toNat + y.value * 2^(y.exp - min x.exp y.exp).toNat⟩ := rfl

theorem exactBin_sub (m : RoundMode) (x y : SNum) : exactBin m .sub x y =
    ⟨max (x.digits + (x.exp - min x.exp y.exp).toNat) (y.digits + (y.exp - min x.exp y.exp).toNat) + 1,
     min x.exp y.exp,
     x.value * 2^(x.exp - min x.exp y.exp).toNat - y.value * 2^(y.exp - min x.exp y.exp).toNat⟩ := rfl

theorem exactBin_mul (m : RoundMode) (x y : SNum) : exactBin m .mul x y =
    ⟨prodDigits x.digits y.digits, x.exp + y.exp, x.value * y.value⟩ := rfl

theorem exactBin_div (m : RoundMode) (x y : SNum) : exactBin m .div x y =
    ⟨x.digits, x.exp - y.exp, roundDiv m x.value y.value⟩ := rfl

/-- For `op ∈ {+, −, *}`, every rounding and overflow tag, all digit counts and exponents and all
in-range operands of a well-formed instantiation: the operator returns — no signal, no undefined
behaviour — the number whose exponent is the smaller operand exponent (`*`: the sum), whose value is the
exact result at that exponent (operands aligned), and which is in range of its declared digits. -/
theorem binOp_exact (c : Cfg) (op : BinOp) (hop : op = .add ∨ op = .sub ∨ op = .mul) (x y : SNum)
    (hx : x.InRange) (hy : y.InRange) (hwf : ∀ m, Static.binOp c op x y ≠ .ill m) :
    Static.binOp c op x y = .ok (exactBin (rmode c.mode) op x y) ∧
      (exactBin (rmode c.mode) op x y).InRange := by
  have hop' : IsArith op := by rcases hop with h | h | h <;> simp [IsArith, h]
  have h0 : op = .div → y.value ≠ 0 := by rcases hop with h | h | h <;> subst h <;> intro h <;> cases h
  rcases binOp_spec c op hop' x y hx hy h0 with h | ⟨m, h⟩
  · exact h
  · exact absurd h (hwf m)

/-- `binOp_exact` for `+`, spelled out -/
theorem add_exact (c : Cfg) (x y : SNum) (hx : x.InRange) (hy : y.InRange)
    (hwf : ∀ m, Static.binOp c .add x y ≠ .ill m) :
    ∃ z, Static.binOp c .add x y = .ok z ∧ z.exp = min x.exp y.exp ∧
      z.value = x.value * 2^(x.exp - z.exp).toNat + y.value * 2^(y.exp - z.exp).toNat ∧ z.InRange :=
  have ⟨h, hr⟩ := binOp_exact c .add (.inl rfl) x y hx hy hwf
  ⟨_, h, rfl, rfl, hr⟩

/-- `binOp_exact` for `*`, spelled out -/
theorem mul_exact (c : Cfg) (x y : SNum) (hx : x.InRange) (hy : y.InRange)
    (hwf : ∀ m, Static.binOp c .mul x y ≠ .ill m) :
    ∃ z, Static.binOp c .mul x y = .ok z ∧ z.exp = x.exp + y.exp ∧ z.value = x.value * y.value ∧ z.InRange :=
  have ⟨h, hr⟩ := binOp_exact c .mul (.inr (.inr rfl)) x y hx hy hwf
  ⟨_, h, rfl, rfl, hr⟩

-- `static_number<8,-2> + static_number<4,1>`: alignment adds three digits to the right operand
example : Static.binOp ⟨.nrst, .sat⟩ .add ⟨8, -2, 255⟩ ⟨4, 1, -15⟩ = .ok ⟨9, -2, 135⟩ := by decide
-- 63-digit operands: 64-bit operand storage, 128-bit result storage
example : Static.binOp ⟨.tpi, .thr⟩ .mul ⟨63, -10, 9223372036854775807⟩ ⟨63, 3, -9223372036854775807⟩
    = .ok ⟨126, -7, -85070591730234615847396907784232501249⟩ := by decide
example : Static.binOp ⟨.ninf, .trp⟩ .sub ⟨31, 0, -2147483647⟩ ⟨31, 0, 2147483647⟩ = .ok ⟨32, 0, -4294967294⟩ := by
  decide
-- the hypotheses are satisfiable at the limits; beyond the widest storage the instantiation is ill-formed
example : (⟨63, -10, 9223372036854775807⟩ : SNum).InRange ∧
    (∀ m, Static.binOp ⟨.tpi, .thr⟩ .mul ⟨63, -10, 9223372036854775807⟩ ⟨63, 3, -9223372036854775807⟩ ≠ .ill m) := by
  refine ⟨by decide, fun m h => ?_⟩
  have e : Static.binOp ⟨.tpi, .thr⟩ .mul ⟨63, -10, 9223372036854775807⟩ ⟨63, 3, -9223372036854775807⟩
      = .ok ⟨126, -7, -85070591730234615847396907784232501249⟩ := by decide
  rw [e] at h; cases h
example : Static.binOp ⟨.nrst, .sat⟩ .mul ⟨64, 0, 5⟩ ⟨64, 0, 5⟩ = .ill "result digits exceed the widest integer" := by
  decide

/-! ## 2. `/` is the correctly rounded quotient -/

/-- For every rounding and overflow tag, all digit counts and exponents, all in-range operands with a
non-zero divisor: the quotient of the representation values rounded as the rounding tag prescribes, in
the dividend's digits, at the difference of the exponents, in range — no signal, no undefined
behaviour (the operands are converted into a storage type with at least `max(digits)` digits). -/
theorem div_rounded (c : Cfg) (x y : SNum) (hx : x.InRange) (hy : y.InRange) (h0 : y.value ≠ 0)
    (hwf : ∀ m, Static.binOp c .div x y ≠ .ill m) :
    Static.binOp c .div x y = .ok ⟨x.digits, x.exp - y.exp, roundDiv (modeOf c.mode) x.value y.value⟩ ∧
      (⟨x.digits, x.exp - y.exp, roundDiv (modeOf c.mode) x.value y.value⟩ : SNum).InRange := by
  rcases binOp_div_spec c x y hx hy h0 with h | ⟨m, h⟩
  · rw [← Static.rmode_eq_modeOf]; exact h
  · exact absurd h (hwf m)

/-- in every mode a rounded quotient is no larger in magnitude than the dividend -/
theorem roundDiv_natAbs_le (m : RoundMode) (a b : Int) (hb : b ≠ 0) : (roundDiv m a b).natAbs ≤ a.natAbs :=
  Static.roundDiv_natAbs_le m a b hb

-- the case that was wrong before the repairs: static_integer<31, nearest, saturated>(2147483647) / 2
example : Static.binOp ⟨.nrst, .sat⟩ .div ⟨31, 0, 2147483647⟩ ⟨31, 0, 2⟩ = .ok ⟨31, 0, 1073741824⟩ := by decide
example : Static.binOp ⟨.nrst, .sat⟩ .div ⟨31, 0, 2147483647⟩ ⟨31, 0, 2147483647⟩ = .ok ⟨31, 0, 1⟩ := by decide
-- a wider divisor is not narrowed to the dividend's digits
example : Static.binOp ⟨.tpi, .thr⟩ .div ⟨10, -3, 1023⟩ ⟨40, 2, 1099511627775⟩ = .ok ⟨10, -5, 0⟩ := by decide
example : Static.binOp ⟨.ninf, .trp⟩ .div ⟨40, 0, -1099511627775⟩ ⟨3, 0, 7⟩ = .ok ⟨40, 0, -157073089683⟩ := by decide
example : (⟨31, 0, 2147483647⟩ : SNum).InRange ∧ (⟨31, 0, 2⟩ : SNum).InRange ∧
    (∀ m, Static.binOp ⟨.nrst, .sat⟩ .div ⟨31, 0, 2147483647⟩ ⟨31, 0, 2⟩ ≠ .ill m) := by
  refine ⟨by decide, by decide, fun m h => ?_⟩
  have e : Static.binOp ⟨.nrst, .sat⟩ .div ⟨31, 0, 2147483647⟩ ⟨31, 0, 2⟩ = .ok ⟨31, 0, 1073741824⟩ := by decide
  rw [e] at h; cases h

/-! ## 3. unary minus and comparison -/

/-- `-x` is the exact negation in the same digits and exponent -/
theorem neg_exact (x : SNum) (hx : x.InRange) (hwf : ∀ m, Static.neg x ≠ .ill m) :
    Static.neg x = .ok ⟨x.digits, x.exp, -x.value⟩ ∧ (⟨x.digits, x.exp, -x.value⟩ : SNum).InRange := by
  rcases neg_spec x hx with h | ⟨m, h⟩
  · exact h
  · exact absurd h (hwf m)

example : Static.neg ⟨31, -5, -2147483647⟩ = .ok ⟨31, -5, 2147483647⟩ := by decide

/-- every comparison of two in-range static numbers compares their values at the smaller exponent … -/
theorem cmp_exact (op : CmpOp) (x y : SNum) (hx : x.InRange) (hy : y.InRange)
    (hwf : ∀ m, Static.cmp op x y ≠ .ill m) :
    Static.cmp op x y = .ok (cmpExact op (alignL x.exp y.exp x.value) (alignR x.exp y.exp y.value)) := by
  rcases cmp_spec op x y hx hy with h | ⟨m, h⟩
  · exact h
  · exact absurd h (hwf m)

/-- … which is comparing them at any common exponent `e0`, i.e. the order of the denoted numbers
`value · 2^exp` (both sides are integers after multiplication by `2^(−e0)`) -/
theorem cmp_any_common_exponent (op : CmpOp) (x y : SNum) (hx : x.InRange) (hy : y.InRange)
    (hwf : ∀ m, Static.cmp op x y ≠ .ill m) (e0 : Int) (h1 : e0 ≤ x.exp) (h2 : e0 ≤ y.exp) :
    Static.cmp op x y = .ok (cmpExact op (x.value * 2^(x.exp - e0).toNat) (y.value * 2^(y.exp - e0).toNat)) := by
  rw [cmp_exact op x y hx hy hwf, cmp_common_exponent op x y e0 h1 h2]

-- 3·2^4 = 48 > 47·2^0
example : Static.cmp .gt ⟨4, 4, 3⟩ ⟨8, 0, 47⟩ = .ok true := by decide
example : Static.cmp .eq ⟨20, -10, 1024⟩ ⟨2, 0, 1⟩ = .ok true := by decide

/-! ## 4. conversion / assignment: exact (or correctly rounded) or the tag's signal -/

theorem rescale_exact (m : RoundMode) {E e : Int} (v : Int) (h : E ≤ e) :
    rescale m E e v = v * 2^(e - E).toNat := by simp only [rescale, h, ite_true]

theorem rescale_rounded (m : RoundMode) {E e : Int} (v : Int) (h : e < E) :
    rescale m E e v = roundDiv m v (2^(E - e).toNat) := by
  have : ¬ E ≤ e := by omega
  simp only [rescale, this, ite_false]

/-- the hypothesis of the conversion theorems, spelled out: the exponent does not grow, or it grows by
`k ≤ digits` and the rounded quotient fits the intermediate `digits − k` digits (for `k = digits`:
it is `0`) -/
theorem not_knownDefect_iff (c : Cfg) (E : Int) (x : SNum) :
    ¬ KnownDefect c E x ↔
      (E ≤ x.exp ∨ ((E - x.exp).toNat ≤ x.digits ∧
        (roundDiv (rmode c.mode) x.value (2^(E - x.exp).toNat)).natAbs ≤ 2^(x.digits - (E - x.exp).toNat) - 1)) := by
  unfold KnownDefect NarrowingDropsAllDigits RoundedExceedsIntermediate
  constructor
  · intro h
    by_cases hE : E ≤ x.exp
    · exact .inl hE
    · right
      have hk : (E - x.exp).toNat ≤ x.digits :=
        Decidable.byContradiction fun hk => h (.inl ⟨by omega, by omega⟩)
      exact ⟨hk, Decidable.byContradiction fun hq => h (.inr ⟨by omega, hk, by omega⟩)⟩
  · rintro (h | ⟨h1, h2⟩) (⟨h3, h4⟩ | ⟨h3, h4, h5⟩) <;> omega

/-- Conversion / assignment of an in-range `x` to `static_number<D, E>`, outside the two open defect
classes.  Let `w` be `x` expressed at exponent `E` — exactly rescaled if `E ≤ x.exp`, otherwise the
quotient by `2^(E − x.exp)` rounded as the rounding tag prescribes.  Then the result is `w` if it fits
`D` digits; otherwise it is the tag's reaction with the right polarity: the clamped limit `±(2^D − 1)`
(saturated), an exception (throwing), a trap (trapping), `unreachable` (undefined tag).  Never a
different value, never undefined behaviour. -/
theorem convert_exact_or_signal (c : Cfg) (D : Nat) (E : Int) (x : SNum) (hx : x.InRange)
    (hnd : ¬ KnownDefect c E x) (hwf : ∀ m, Static.convert c D E x ≠ .ill m) :
    (-(2^D - 1 : Int) ≤ rescale (rmode c.mode) E x.exp x.value ∧ rescale (rmode c.mode) E x.exp x.value ≤ 2^D - 1 →
      Static.convert c D E x = .ok ⟨D, E, rescale (rmode c.mode) E x.exp x.value⟩) ∧
    (rescale (rmode c.mode) E x.exp x.value > 2^D - 1 →
      (c.tag = .sat → Static.convert c D E x = .ok ⟨D, E, 2^D - 1⟩) ∧
      (c.tag = .thr → Static.convert c D E x = .throws true) ∧
      (c.tag = .trp → Static.convert c D E x = .trap true) ∧
      (c.tag = .und → Static.convert c D E x = .unreachable "positive overflow")) ∧
    (rescale (rmode c.mode) E x.exp x.value < -(2^D - 1 : Int) →
      (c.tag = .sat → Static.convert c D E x = .ok ⟨D, E, -(2^D - 1 : Int)⟩) ∧
      (c.tag = .thr → Static.convert c D E x = .throws false) ∧
      (c.tag = .trp → Static.convert c D E x = .trap false) ∧
      (c.tag = .und → Static.convert c D E x = .unreachable "negative overflow")) := by
  rcases convert_core c D E x hx hnd with h | ⟨m, h⟩
  · rw [h]
    have hp := two_pow_pos D
    refine ⟨fun hf => by rw [narrowDigits_fits c D hf]; rfl, fun hgt => ?_, fun hlt => ?_⟩
    · simp only [narrowDigits, hgt, ite_true]
      refine ⟨?_, ?_, ?_, ?_⟩ <;> intro ht <;> rw [ht] <;> rfl
    · have h1 : ¬ rescale (rmode c.mode) E x.exp x.value > 2^D - 1 := by omega
      simp only [narrowDigits, h1, hlt, ite_true, ite_false]
      refine ⟨?_, ?_, ?_, ?_⟩ <;> intro ht <;> rw [ht] <;> rfl
  · exact absurd h (hwf m)

/-- the same as one relation with the ideal conversion; a returned value is in range of `D` digits -/
theorem convert_agrees (c : Cfg) (D : Nat) (E : Int) (x : SNum) (hx : x.InRange)
    (hnd : ¬ KnownDefect c E x) (hwf : ∀ m, Static.convert c D E x ≠ .ill m) :
    Agrees c.tag (Static.convert c D E x) (idealCvt c D E (.val x.exp x.value)) ∧
      ∀ z, Static.convert c D E x = .ok z → z.digits = D ∧ z.InRange := by
  have ⟨h1, h2⟩ := Static.convert_agrees c D E x hx hnd hwf
  refine ⟨h1, fun z hz => ⟨?_, h2 z hz⟩⟩
  rcases convert_core c D E x hx hnd with h | ⟨m, h⟩
  · rw [h] at hz
    cases hv : narrowDigits c D (rescale (rmode c.mode) E x.exp x.value) <;> rw [hv] at hz <;> cases hz
    rfl
  · exact absurd h (hwf m)

-- widening assignment, narrowing with rounding, saturation, exception, trap
example : Static.convert ⟨.nrst, .sat⟩ 20 (-8) ⟨8, -2, -255⟩ = .ok ⟨20, -8, -16320⟩ := by decide
example : Static.convert ⟨.nrst, .sat⟩ 6 1 ⟨8, -2, 203⟩ = .ok ⟨6, 1, 25⟩ := by decide       -- 50.75 / 2 = 25.375
example : Static.convert ⟨.tpi, .sat⟩ 6 0 ⟨8, -1, -255⟩ = .ok ⟨6, 0, -63⟩ := by decide      -- −127.5 → −127 → clamped
example : Static.convert ⟨.ninf, .thr⟩ 6 0 ⟨8, -1, -255⟩ = .throws false := by decide
example : Static.convert ⟨.nat, .trp⟩ 4 (-3) ⟨8, 0, 2⟩ = .trap true := by decide
example : (⟨8, -2, 203⟩ : SNum).InRange ∧ ¬ KnownDefect ⟨.nrst, .sat⟩ 1 ⟨8, -2, 203⟩ ∧
    (∀ m, Static.convert ⟨.nrst, .sat⟩ 6 1 ⟨8, -2, 203⟩ ≠ .ill m) := by
  refine ⟨by decide, by decide, fun m h => ?_⟩
  have e : Static.convert ⟨.nrst, .sat⟩ 6 1 ⟨8, -2, 203⟩ = .ok ⟨6, 1, 25⟩ := by decide
  rw [e] at h; cases h

-- the boundary `k = digits` (the intermediate type is an `elastic_integer<0>`, range `[0, 0]`): a
-- quotient that rounds to `0` is converted correctly …
example : Static.convert ⟨.ninf, .thr⟩ 20 0 ⟨31, -31, 2147483647⟩ = .ok ⟨20, 0, 0⟩ ∧
    ¬ KnownDefect ⟨.ninf, .thr⟩ 0 ⟨31, -31, 2147483647⟩ := by decide
example : Static.convert ⟨.nrst, .sat⟩ 20 0 ⟨31, -31, 1073741823⟩ = .ok ⟨20, 0, 0⟩ ∧
    ¬ KnownDefect ⟨.nrst, .sat⟩ 0 ⟨31, -31, 1073741823⟩ := by decide
-- … a quotient that rounds to `±1` belongs to the open class `rounded_value_exceeds_intermediate_digits`:
-- a spurious signal under the throwing tag, silently `0` under the saturated tag
example : Static.convert ⟨.nrst, .thr⟩ 20 0 ⟨31, -31, 2147483647⟩ = .throws true ∧
    idealCvt ⟨.nrst, .thr⟩ 20 0 (.val (-31) 2147483647) = .val 0 1 ∧
    RoundedExceedsIntermediate ⟨.nrst, .thr⟩ 0 ⟨31, -31, 2147483647⟩ := by decide
example : Static.convert ⟨.ninf, .sat⟩ 20 0 ⟨31, -31, -1⟩ = .ok ⟨20, 0, 0⟩ ∧
    idealCvt ⟨.ninf, .sat⟩ 20 0 (.val (-31) (-1)) = .val 0 (-1) ∧
    RoundedExceedsIntermediate ⟨.ninf, .sat⟩ 0 ⟨31, -31, -1⟩ := by decide
-- one more and the behaviour is undefined
example : Static.convert ⟨.ninf, .thr⟩ 20 1 ⟨31, -31, 2147483647⟩ = .ub .shiftCount ∧
    NarrowingDropsAllDigits 1 ⟨31, -31, 2147483647⟩ := by decide

/-! ### the two open defect classes are genuine: each hypothesis is needed -/

/-- open finding `C11.narrowing_drops_all_digits`: raising the exponent by more than the source's
digit count executes undefined behaviour (a shift by a negative count in the limits of an
elastic_integer with a negative digit count) instead of yielding `0`.
Witness `static_number<1, −4>{−1·2^−4}` assigned to `static_number<63, 0>`. -/
theorem narrowing_drops_all_digits_refuted :
    ¬ (∀ (c : Cfg) (D : Nat) (E : Int) (x : SNum), x.InRange → ¬ RoundedExceedsIntermediate c E x →
        (∀ m, Static.convert c D E x ≠ .ill m) →
        Agrees c.tag (Static.convert c D E x) (idealCvt c D E (.val x.exp x.value))) := by
  intro h
  have e : Static.convert ⟨.nat, .trp⟩ 63 0 ⟨1, -4, -1⟩ = .ub .shiftCount := by decide
  have h' := h ⟨.nat, .trp⟩ 63 0 ⟨1, -4, -1⟩ (by decide) (by decide) (fun m hm => by rw [e] at hm; cases hm)
  rw [e] at h'
  cases hi : idealCvt ⟨.nat, .trp⟩ 63 0 (.val (-4) (-1)) <;> rw [hi] at h' <;> exact h'

example : Static.convert ⟨.nat, .trp⟩ 63 0 ⟨1, -4, -1⟩ = .ub .shiftCount ∧
    idealCvt ⟨.nat, .trp⟩ 63 0 (.val (-4) (-1)) = .val 0 0 ∧ NarrowingDropsAllDigits 0 ⟨1, -4, -1⟩ := by decide

/-- open finding `C11.rounded_value_exceeds_intermediate_digits`: when the rounded quotient has magnitude
`2^(digits − k)` the intermediate `digits − k`-digit type clamps it (saturated: silently wrong by one
unit; throwing / trapping: a spurious signal) although the destination could hold it.
Witness `static_number<5, −2, nearest, saturated>{31·2^−2 = 7.75}` assigned to `static_number<6, 1>`:
the result is `3·2^1`, the correctly rounded value is `4·2^1`. -/
theorem rounded_value_exceeds_intermediate_refuted :
    ¬ (∀ (c : Cfg) (D : Nat) (E : Int) (x : SNum), x.InRange → ¬ NarrowingDropsAllDigits E x →
        (∀ m, Static.convert c D E x ≠ .ill m) →
        Agrees c.tag (Static.convert c D E x) (idealCvt c D E (.val x.exp x.value))) := by
  intro h
  have e : Static.convert ⟨.nrst, .sat⟩ 6 1 ⟨5, -2, 31⟩ = .ok ⟨6, 1, 3⟩ := by decide
  have hi : idealCvt ⟨.nrst, .sat⟩ 6 1 (.val (-2) 31) = .val 1 4 := by decide
  have h' := h ⟨.nrst, .sat⟩ 6 1 ⟨5, -2, 31⟩ (by decide) (by decide) (fun m hm => by rw [e] at hm; cases hm)
  rw [e, hi] at h'
  exact absurd h'.2 (by decide)

example : Static.convert ⟨.nrst, .sat⟩ 6 1 ⟨5, -2, 31⟩ = .ok ⟨6, 1, 3⟩ ∧
    idealCvt ⟨.nrst, .sat⟩ 6 1 (.val (-2) 31) = .val 1 4 ∧ RoundedExceedsIntermediate ⟨.nrst, .sat⟩ 1 ⟨5, -2, 31⟩ := by
  decide
-- under the throwing tag the same input signals although the value fits the destination
example : Static.convert ⟨.nrst, .thr⟩ 6 1 ⟨5, -2, 31⟩ = .throws true := by decide

/-! ## 5. histories: no sequence of operations is silently wrong -/

/-- **C11.**  For every history `e` (an expression tree of any size over `+ − * /`, unary minus and
conversions / assignments), every rounding and overflow tag: if the literals are in range, no divisor
is zero and no conversion meets one of the two open defect classes at its argument (`SideOK c e`, the
arguments being the ones the model computes), and the instantiation is well-formed, then the model's
evaluation **agrees** with the ideal evaluation:

* a returned value has exactly the ideal exponent and value (under the saturated tag: of the ideal
  *saturating* evaluation, which clamps where a conversion does not fit) and is in range of its digits;
* an exception / trap / `unreachable` occurs only under the throwing / trapping / undefined tag, exactly
  when the ideal evaluation signals overflow, with the same polarity, at the same node (both
  evaluators stop at the first signalling node in the same order);
* undefined behaviour never occurs (it agrees with nothing). -/
theorem never_silently_wrong (c : Cfg) (e : SExpr) (hs : SideOK c e) (hwf : ∀ m, evalModel c e ≠ .ill m) :
    Agrees c.tag (evalModel c e) (evalIdeal c e) ∧ ∀ v, evalModel c e = .ok v → v.InRange :=
  eval_agrees c e hs hwf

/-- a value the model returns is the ideal value -/
theorem value_is_ideal (c : Cfg) (e : SExpr) (hs : SideOK c e) (hwf : ∀ m, evalModel c e ≠ .ill m)
    (v : SNum) (h : evalModel c e = .ok v) : evalIdeal c e = .val v.exp v.value ∧ v.InRange := by
  have ⟨h1, h2⟩ := never_silently_wrong c e hs hwf
  rw [h] at h1
  exact ⟨agrees_ok h1, h2 v h⟩

/-- conversely an ideal value is returned: no spurious signal -/
theorem ideal_value_is_returned (c : Cfg) (e : SExpr) (hs : SideOK c e) (hwf : ∀ m, evalModel c e ≠ .ill m)
    (E w : Int) (h : evalIdeal c e = .val E w) : ∃ v, evalModel c e = .ok v ∧ v.exp = E ∧ v.value = w := by
  have ⟨h1, _⟩ := never_silently_wrong c e hs hwf
  rw [h] at h1
  cases hm : evalModel c e <;> rw [hm] at h1 <;> simp only [Agrees] at h1
  exact ⟨_, rfl, h1.1, h1.2⟩

/-- an exception is thrown only under the throwing tag, exactly for an ideal overflow of that polarity -/
theorem throws_is_ideal_signal (c : Cfg) (e : SExpr) (hs : SideOK c e) (hwf : ∀ m, evalModel c e ≠ .ill m)
    (p : Bool) (h : evalModel c e = .throws p) : evalIdeal c e = .signal p ∧ c.tag = .thr := by
  have ⟨h1, _⟩ := never_silently_wrong c e hs hwf
  rw [h] at h1
  cases hi : evalIdeal c e <;> rw [hi] at h1 <;> simp only [Agrees] at h1
  exact ⟨by rw [h1.2], h1.1⟩

/-- a trap occurs only under the trapping tag, exactly for an ideal overflow of that polarity -/
theorem trap_is_ideal_signal (c : Cfg) (e : SExpr) (hs : SideOK c e) (hwf : ∀ m, evalModel c e ≠ .ill m)
    (p : Bool) (h : evalModel c e = .trap p) : evalIdeal c e = .signal p ∧ c.tag = .trp := by
  have ⟨h1, _⟩ := never_silently_wrong c e hs hwf
  rw [h] at h1
  cases hi : evalIdeal c e <;> rw [hi] at h1 <;> simp only [Agrees] at h1
  exact ⟨by rw [h1.2], h1.1⟩

/-- an ideal overflow is signalled the way the tag prescribes -/
theorem ideal_signal_is_signalled (c : Cfg) (e : SExpr) (hs : SideOK c e) (hwf : ∀ m, evalModel c e ≠ .ill m)
    (p : Bool) (h : evalIdeal c e = .signal p) :
    (c.tag = .thr ∧ evalModel c e = .throws p) ∨ (c.tag = .trp ∧ evalModel c e = .trap p) ∨
      (c.tag = .und ∧ ∃ m, evalModel c e = .unreachable m) := by
  have ⟨h1, _⟩ := never_silently_wrong c e hs hwf
  rw [h] at h1
  cases hm : evalModel c e <;> rw [hm] at h1 <;> simp only [Agrees] at h1
  · exact .inr (.inl ⟨h1.1, by rw [h1.2]⟩)
  · exact .inl ⟨h1.1, by rw [h1.2]⟩
  · exact .inr (.inr ⟨h1, _, rfl⟩)

/-- under the saturated tag nothing is ever signalled: the model returns the ideal saturating value -/
theorem saturated_returns_ideal (c : Cfg) (e : SExpr) (hs : SideOK c e) (hwf : ∀ m, evalModel c e ≠ .ill m)
    (ht : c.tag = .sat) : ∃ v, evalModel c e = .ok v ∧ evalIdeal c e = .val v.exp v.value ∧ v.InRange := by
  have ⟨h1, h2⟩ := never_silently_wrong c e hs hwf
  cases hm : evalModel c e <;> rw [hm] at h1 <;>
    cases hi : evalIdeal c e <;> rw [hi] at h1 <;> simp only [Agrees, ht] at h1 <;>
    try (first | (cases h1; done) | (cases h1.1; done))
  exact ⟨_, rfl, by rw [← h1.1, ← h1.2], h2 _ hm⟩

/-- no history executes undefined behaviour -/
theorem never_undefined (c : Cfg) (e : SExpr) (hs : SideOK c e) (hwf : ∀ m, evalModel c e ≠ .ill m) (k : UB) :
    evalModel c e ≠ .ub k := by
  intro h
  have ⟨h1, _⟩ := never_silently_wrong c e hs hwf
  rw [h] at h1
  cases hi : evalIdeal c e <;> rw [hi] at h1 <;> exact h1

/-! ### non-vacuity: concrete histories -/

/-- `static_number<4,0> c = a * b + d` with `a = b = 15`, `d = 7·2^−2`: the sum `226.75` is rounded to
`227` and does not fit four digits -/
def h3 : SExpr := .cvt 4 0 (.add (.mul (.lit ⟨4, 0, 15⟩) (.lit ⟨4, 0, 15⟩)) (.lit ⟨4, -2, 7⟩))

-- a three-node history with a saturating narrowing …
example : evalModel ⟨.nrst, .sat⟩ h3 = .ok ⟨4, 0, 15⟩ ∧ evalIdeal ⟨.nrst, .sat⟩ h3 = .val 0 15 ∧
    SideOK ⟨.nrst, .sat⟩ h3 := by decide
-- … a throwing one, a trapping one …
example : evalModel ⟨.nrst, .thr⟩ h3 = .throws true ∧ evalIdeal ⟨.nrst, .thr⟩ h3 = .signal true ∧
    SideOK ⟨.nrst, .thr⟩ h3 := by decide
example : evalModel ⟨.ninf, .trp⟩ (.neg h3) = .trap true ∧ evalIdeal ⟨.ninf, .trp⟩ (.neg h3) = .signal true := by
  decide
-- … the saturated value is consumed by later operations: (15 − 1/4) / −3 = −4.91… → −5 at exponent 2 − …
example : evalModel ⟨.tpi, .sat⟩ (.div (.sub h3 (.lit ⟨2, -2, 1⟩)) (.lit ⟨3, 0, -3⟩)) = .ok ⟨7, -2, -20⟩ ∧
    evalIdeal ⟨.tpi, .sat⟩ (.div (.sub h3 (.lit ⟨2, -2, 1⟩)) (.lit ⟨3, 0, -3⟩)) = .val (-2) (-20) ∧
    SideOK ⟨.tpi, .sat⟩ (.div (.sub h3 (.lit ⟨2, -2, 1⟩)) (.lit ⟨3, 0, -3⟩)) := by decide
-- the history that was silently wrong before the repairs: (max / 2) narrowed to 31 digits
example : evalModel ⟨.nrst, .sat⟩ (.cvt 31 0 (.div (.lit ⟨31, 0, 2147483647⟩) (.lit ⟨31, 0, 2⟩)))
    = .ok ⟨31, 0, 1073741824⟩ ∧
    SideOK ⟨.nrst, .sat⟩ (.cvt 31 0 (.div (.lit ⟨31, 0, 2147483647⟩) (.lit ⟨31, 0, 2⟩))) := by decide
-- the well-formedness hypothesis is satisfiable
example : ∀ m, evalModel ⟨.nrst, .thr⟩ h3 ≠ .ill m := by
  intro m h
  have e : evalModel ⟨.nrst, .thr⟩ h3 = .throws true := by decide
  rw [e] at h; cases h
-- the side conditions are needed: a history through the open defect class is silently wrong
example : ¬ SideOK ⟨.nrst, .sat⟩ (.cvt 6 1 (.lit ⟨5, -2, 31⟩)) ∧
    evalModel ⟨.nrst, .sat⟩ (.cvt 6 1 (.lit ⟨5, -2, 31⟩)) = .ok ⟨6, 1, 3⟩ ∧
    evalIdeal ⟨.nrst, .sat⟩ (.cvt 6 1 (.lit ⟨5, -2, 31⟩)) = .val 1 4 := by decide

/-! ## 6. shifts

Run-time counts (`x << n`, `x >> n`; `n` a built-in integer or a static_integer, by value; `CnlModel/Static.lean`
`shiftRT`), `cnl::constant<k>` counts on a bare static_integer (`shiftConstInt`: the digits widen / narrow) and on a
static_number (`shiftConstNum`: the exponent moves), compound assignment (`shiftAssign` = the shift, then the
conversion of section 4).  Every count `n ≥ 0` is covered — also counts at and beyond the digit count and the
storage width (the model's outcome is then the tag's reaction for `x ≠ 0`, `0` for `x = 0`, and `0 / −1` for `>>`);
a negative run-time count is undefined as for built-in operands and outside the quantifier; `constant<k>` with
`k < 0` on a static_integer (compiles, undefined) and `x >> constant<k>` with `k ≥` digits (a type with no or a
negative number of digits) likewise.  `x >> n` is the floor quotient whatever the rounding tag: shifts pass through the
rounding layer (the correspondence table confirms it for all four tags).
The shift nodes are part of the histories of section 5 (`SExpr.shl / shr / shlN / shlI / shrI`). -/

/-- **`x << n`, run-time count `n ≥ 0`** (every count), every digit count, exponent and tag, in-range `x`: the exact
product `x · 2^n` in the operand's digits and exponent when it fits `±(2^D − 1)`; otherwise the tag's reaction with
the right polarity — the clamped limit (saturated), an exception, a trap, `unreachable`.  Never another value,
never undefined behaviour. -/
theorem shl_exact_or_signal (c : Cfg) (x : SNum) (n : Int) (hn : 0 ≤ n) (hx : x.InRange)
    (hwf : ∀ m, shiftRT c .shl x n ≠ .ill m) :
    (-(2^x.digits - 1 : Int) ≤ x.value * 2^n.toNat ∧ x.value * 2^n.toNat ≤ 2^x.digits - 1 →
      shiftRT c .shl x n = .ok ⟨x.digits, x.exp, x.value * 2^n.toNat⟩) ∧
    (x.value * 2^n.toNat > 2^x.digits - 1 →
      (c.tag = .sat → shiftRT c .shl x n = .ok ⟨x.digits, x.exp, 2^x.digits - 1⟩) ∧
      (c.tag = .thr → shiftRT c .shl x n = .throws true) ∧
      (c.tag = .trp → shiftRT c .shl x n = .trap true) ∧
      (c.tag = .und → shiftRT c .shl x n = .unreachable "positive overflow")) ∧
    (x.value * 2^n.toNat < -(2^x.digits - 1 : Int) →
      (c.tag = .sat → shiftRT c .shl x n = .ok ⟨x.digits, x.exp, -(2^x.digits - 1 : Int)⟩) ∧
      (c.tag = .thr → shiftRT c .shl x n = .throws false) ∧
      (c.tag = .trp → shiftRT c .shl x n = .trap false) ∧
      (c.tag = .und → shiftRT c .shl x n = .unreachable "negative overflow")) := by
  obtain ⟨j, rfl⟩ := Int.eq_ofNat_of_zero_le hn
  rw [Int.toNat_natCast]
  rcases shiftRT_shl_core c x j hx with h | ⟨m, h⟩
  · rw [h]
    have hp := two_pow_pos x.digits
    refine ⟨fun hf => by rw [narrowDigits_fits c x.digits hf]; rfl, fun hgt => ?_, fun hlt => ?_⟩
    · simp only [narrowDigits, hgt, ite_true]
      refine ⟨?_, ?_, ?_, ?_⟩ <;> intro ht <;> rw [ht] <;> rfl
    · have h1 : ¬ x.value * 2^j > 2^x.digits - 1 := by omega
      simp only [narrowDigits, h1, hlt, ite_true, ite_false]
      refine ⟨?_, ?_, ?_, ?_⟩ <;> intro ht <;> rw [ht] <;> rfl
  · exact absurd h (hwf m)

/-- the same as one relation with the ideal result, and a returned value is in range of its digits -/
theorem shl_agrees (c : Cfg) (x : SNum) (n : Nat) (hx : x.InRange) (hwf : ∀ m, shiftRT c .shl x (n : Int) ≠ .ill m) :
    Agrees c.tag (shiftRT c .shl x (n : Int)) (idealNarrow c.tag x.digits x.exp (x.value * 2^n)) ∧
      ∀ z, shiftRT c .shl x (n : Int) = .ok z → z.InRange :=
  Static.shl_agrees c x n hx hwf

/-- **`x >> n`, run-time count `n ≥ 0`** (every count): `⌊x / 2^n⌋` in the operand's digits and exponent, in
range; no signal, no undefined behaviour -/
theorem shr_floor (c : Cfg) (x : SNum) (n : Int) (hn : 0 ≤ n) (hx : x.InRange)
    (hwf : ∀ m, shiftRT c .shr x n ≠ .ill m) :
    shiftRT c .shr x n = .ok ⟨x.digits, x.exp, x.value / 2^n.toNat⟩ ∧
      (⟨x.digits, x.exp, x.value / 2^n.toNat⟩ : SNum).InRange := by
  obtain ⟨j, rfl⟩ := Int.eq_ofNat_of_zero_le hn
  rw [Int.toNat_natCast]
  rcases shiftRT_shr_core c x j hx with h | ⟨m, h⟩
  · exact ⟨h, shr_inRange hx j⟩
  · exact absurd h (hwf m)

/-- **`x << constant<k>` on a static_integer**: exact, in `digits + k` digits, in range; neither overflow test
fires, nothing is undefined -/
theorem shl_constant_exact (c : Cfg) (x : SNum) (k : Nat) (hx : x.InRange)
    (hwf : ∀ m, shiftConstInt c .shl x k ≠ .ill m) :
    shiftConstInt c .shl x k = .ok ⟨x.digits + k, x.exp, x.value * 2^k⟩ ∧
      (⟨x.digits + k, x.exp, x.value * 2^k⟩ : SNum).InRange := by
  rcases shiftConstInt_shl_core c x k hx with h | ⟨m, h⟩
  · exact ⟨h, scaleUp_inRange (x := ⟨x.digits, x.exp + k, x.value⟩) k hx⟩
  · exact absurd h (hwf m)

/-- **`x >> constant<k>` on a static_integer**, `k <` digits: `⌊x / 2^k⌋` in `digits − k` digits; in range of
those digits unless the input is in the open class `ShrBelowRange` (`⌊x / 2^k⌋ = −2^(digits − k)`) -/
theorem shr_constant_floor (c : Cfg) (x : SNum) (k : Nat) (hx : x.InRange) (hk : k < x.digits)
    (hwf : ∀ m, shiftConstInt c .shr x k ≠ .ill m) :
    shiftConstInt c .shr x k = .ok ⟨x.digits - k, x.exp, x.value / 2^k⟩ ∧
      (¬ ShrBelowRange k x → (⟨x.digits - k, x.exp, x.value / 2^k⟩ : SNum).InRange) := by
  rcases shiftConstInt_shr_core c x k hx hk with h | ⟨m, h⟩
  · exact ⟨h, fun hc => shrConst_inRange hx hk hc⟩
  · exact absurd h (hwf m)

/-- open finding `C11.shr_constant_below_declared_range` (the elastic layer's `C05.shr_negative_below_declared_range`
seen through a static_integer): the hypothesis is needed.  `static_integer<10>{−1023} >> constant<3>` is the
7-digit number `−128`, below the declared `±127`, with no signal; two such values multiplied overflow the storage
(`static_integer<16>{−65536} * static_integer<15>{−32768}` executes a signed `int` overflow). -/
theorem shr_constant_below_declared_range_refuted :
    ¬ (∀ (c : Cfg) (x : SNum) (k : Nat), x.InRange → k < x.digits → ∀ z, shiftConstInt c .shr x k = .ok z → z.InRange) := by
  intro h
  exact absurd (h ⟨.nrst, .sat⟩ ⟨10, 0, -1023⟩ 3 (by decide) (by decide) ⟨7, 0, -128⟩ (by decide)) (by decide)

example : shiftConstInt ⟨.nrst, .sat⟩ .shr ⟨10, 0, -1023⟩ 3 = .ok ⟨7, 0, -128⟩ ∧ ShrBelowRange 3 ⟨10, 0, -1023⟩ ∧
    Static.binOp ⟨.nrst, .sat⟩ .mul ⟨16, 0, -65536⟩ ⟨15, 0, -32768⟩ = .ub .signedOverflow := by decide

/-- **`x << constant<k>`, `x >> constant<k>` on a static_number**, `k` of either sign: the same significand at the
exponent moved by `k` — the denoted number is multiplied / divided by `2^k` exactly -/
theorem shift_constant_number_exact (x : SNum) (k : Int) :
    shiftConstNum .shl x k = .ok ⟨x.digits, x.exp + k, x.value⟩ ∧
    shiftConstNum .shr x k = .ok ⟨x.digits, x.exp - k, x.value⟩ := ⟨rfl, rfl⟩

/-- `x <<= n` / `x >>= n` are two-node histories: the shift, then the conversion back to the left operand's
type — so `never_silently_wrong` covers compound assignment -/
theorem shiftAssign_is_history (c : Cfg) (x : SNum) (n : Nat) :
    shiftAssign c (shiftRT c .shl x (n : Int)) x = evalModel c (.cvt x.digits x.exp (.shl x.digits n (.lit x))) ∧
    shiftAssign c (shiftRT c .shr x (n : Int)) x = evalModel c (.cvt x.digits x.exp (.shr n (.lit x))) ∧
    shiftAssign c (shiftConstInt c .shl x n) x = evalModel c (.cvt x.digits x.exp (.shlI n (.lit x))) ∧
    shiftAssign c (shiftConstInt c .shr x n) x = evalModel c (.cvt x.digits x.exp (.shrI n (.lit x))) :=
  ⟨rfl, rfl, rfl, rfl⟩

/-- repaired finding `C11.shl_to_minus_two_pow_digits_not_flagged`: **as found** (`shiftRTOrig`, negative test
`isOverflowShlNegOrig`), `static_integer<31, nearest, saturated>{−2} << 30` returned `−2^31`, outside the declared
`±(2^31 − 1)`, with no signal under any tag (likewise 7, 63 and 100 digits); the repaired operator saturates / signals -/
theorem shl_as_found_refuted :
    shiftRTOrig ⟨.nrst, .sat⟩ .shl ⟨31, 0, -2⟩ 30 = .ok ⟨31, 0, -2147483648⟩ ∧
    ¬ (⟨31, 0, -2147483648⟩ : SNum).InRange ∧
    shiftRTOrig ⟨.nrst, .thr⟩ .shl ⟨31, 0, -2⟩ 30 = .ok ⟨31, 0, -2147483648⟩ ∧
    shiftRTOrig ⟨.ninf, .trp⟩ .shl ⟨7, -3, -16⟩ 3 = .ok ⟨7, -3, -128⟩ ∧
    shiftRTOrig ⟨.tpi, .sat⟩ .shl ⟨63, 0, -1⟩ 63 = .ok ⟨63, 0, -9223372036854775807⟩ ∧
    shiftRTOrig ⟨.nat, .sat⟩ .shl ⟨63, 0, -4611686018427387904⟩ 1 = .ok ⟨63, 0, -9223372036854775808⟩ ∧
    shiftRTOrig ⟨.nrst, .und⟩ .shl ⟨100, 0, -1125899906842624⟩ 50 = .ok ⟨100, 0, -1267650600228229401496703205376⟩ ∧
    shiftRT ⟨.nrst, .sat⟩ .shl ⟨31, 0, -2⟩ 30 = .ok ⟨31, 0, -2147483647⟩ ∧
    shiftRT ⟨.nrst, .thr⟩ .shl ⟨31, 0, -2⟩ 30 = .throws false ∧
    shiftRT ⟨.ninf, .trp⟩ .shl ⟨7, -3, -16⟩ 3 = .trap false := by decide +kernel

-- non-vacuity: counts around the digit count and the storage width, both polarities, every tag
example : shiftRT ⟨.nrst, .sat⟩ .shl ⟨31, 0, 1⟩ 30 = .ok ⟨31, 0, 1073741824⟩ ∧
    shiftRT ⟨.nrst, .sat⟩ .shl ⟨31, 0, 1⟩ 31 = .ok ⟨31, 0, 2147483647⟩ ∧
    shiftRT ⟨.nrst, .sat⟩ .shl ⟨31, 0, -1⟩ 31 = .ok ⟨31, 0, -2147483647⟩ ∧
    shiftRT ⟨.nrst, .thr⟩ .shl ⟨31, 0, -1⟩ 30 = .ok ⟨31, 0, -1073741824⟩ ∧
    shiftRT ⟨.nrst, .thr⟩ .shl ⟨31, 0, 3⟩ 30 = .throws true ∧
    shiftRT ⟨.tpi, .trp⟩ .shl ⟨10, -4, -1023⟩ 1 = .trap false ∧
    shiftRT ⟨.tpi, .und⟩ .shl ⟨10, -4, 512⟩ 1 = .unreachable "positive overflow" ∧
    shiftRT ⟨.nrst, .sat⟩ .shl ⟨31, 0, 0⟩ 2147483647 = .ok ⟨31, 0, 0⟩ ∧
    shiftRT ⟨.nrst, .sat⟩ .shl ⟨31, 0, 5⟩ 1000 = .ok ⟨31, 0, 2147483647⟩ ∧
    shiftRT ⟨.ninf, .thr⟩ .shr ⟨31, 0, -2147483647⟩ 31 = .ok ⟨31, 0, -1⟩ ∧
    shiftRT ⟨.ninf, .thr⟩ .shr ⟨31, 0, -2147483647⟩ 64 = .ok ⟨31, 0, -1⟩ ∧
    shiftRT ⟨.nrst, .thr⟩ .shr ⟨40, -8, -1099511627775⟩ 3 = .ok ⟨40, -8, -137438953472⟩ ∧
    shiftRT ⟨.nrst, .sat⟩ .shl ⟨64, 0, -9223372036854775808⟩ 1 = .ok ⟨64, 0, -18446744073709551615⟩ ∧
    shiftConstInt ⟨.nrst, .thr⟩ .shl ⟨31, 0, -2147483647⟩ 33 = .ok ⟨64, 0, -18446744065119617024⟩ ∧
    shiftConstInt ⟨.nrst, .thr⟩ .shr ⟨31, 0, 2147483647⟩ 30 = .ok ⟨1, 0, 1⟩ := by decide +kernel
example : (⟨31, 0, -2⟩ : SNum).InRange ∧ (∀ m, shiftRT ⟨.nrst, .sat⟩ .shl ⟨31, 0, -2⟩ 30 ≠ .ill m) := by
  refine ⟨by decide, fun m h => ?_⟩
  have e : shiftRT ⟨.nrst, .sat⟩ .shl ⟨31, 0, -2⟩ 30 = .ok ⟨31, 0, -2147483647⟩ := by decide +kernel
  rw [e] at h; cases h
-- a history with shifts: ((x << 3) >> constant-moved exponent) narrowed; compound assignment under saturation
example : evalModel ⟨.nrst, .sat⟩ (.cvt 10 (-4) (.shl 10 3 (.lit ⟨10, -4, -1000⟩))) = .ok ⟨10, -4, -1023⟩ ∧
    evalIdeal ⟨.nrst, .sat⟩ (.cvt 10 (-4) (.shl 10 3 (.lit ⟨10, -4, -1000⟩))) = .val (-4) (-1023) ∧
    SideOK ⟨.nrst, .sat⟩ (.cvt 10 (-4) (.shl 10 3 (.lit ⟨10, -4, -1000⟩))) := by decide
example : evalModel ⟨.tpi, .thr⟩ (.add (.shlN 2 (.lit ⟨8, -3, 100⟩)) (.shr 2 (.shlI 4 (.lit ⟨6, 0, -63⟩)))) = .ok ⟨12, -1, -404⟩ ∧
    evalIdeal ⟨.tpi, .thr⟩ (.add (.shlN 2 (.lit ⟨8, -3, 100⟩)) (.shr 2 (.shlI 4 (.lit ⟨6, 0, -63⟩)))) = .val (-1) (-404) ∧
    SideOK ⟨.tpi, .thr⟩ (.add (.shlN 2 (.lit ⟨8, -3, 100⟩)) (.shr 2 (.shlI 4 (.lit ⟨6, 0, -63⟩)))) := by decide
example : evalModel ⟨.nrst, .trp⟩ (.mul (.lit ⟨4, 0, 3⟩) (.shl 31 30 (.lit ⟨31, 0, -2⟩))) = .trap false ∧
    evalIdeal ⟨.nrst, .trp⟩ (.mul (.lit ⟨4, 0, 3⟩) (.shl 31 30 (.lit ⟨31, 0, -2⟩))) = .signal false := by decide +kernel

/-! ## construction from floating point: the overflow test against the declared limits

`static_number<D, E>{x}` scales `x` by `2^-E` in the floating type and tests the scaled value `q` against
the limits `±(2^D − 1)` of the `elastic_integer<D>` underneath (`Overflow.DestLimits.elastic D`) before the
rounding conversion of C09 stores it (`C11 fcvt` lines of the correspondence table).  `RealGt`/`RealLt`
compare the real number `(-1)^s · m · 2^e` with an integer (`CnlProofs/OverflowFloat.lean`). -/

/-- For every floating format, every digit count `D` with `2^D` finite in it, and every finite scaled
operand: the repaired test signals **iff the real value is outside the declared range** `±(2^D − 1)` —
so nothing above `2^D − 1` reaches the rounding conversion (which before the repair stored `2^D`, or ran
an out-of-range cast, for values in `(2^D − 1, float(2^D − 1)]`). -/
theorem float_construct_flag_iff (f : Fmt) (hf : FloatP.FmtOk f) (D : Nat) (hmax : (D : Int) ≤ f.emax)
    (s : Bool) (m : Nat) (e : Int) (hm : m < 2^f.prec) :
    Overflow.isOverflowConvertFloat f (.elastic D) true (.fin s m e) = decide (Overflow.RealGt s m e (2^D - 1)) ∧
    Overflow.isOverflowConvertFloat f (.elastic D) false (.fin s m e) = decide (Overflow.RealLt s m e (-(2^D - 1))) :=
  ⟨Overflow.flag_pos_iff f hf _ (Overflow.goodDest_elastic D) hmax s m e hm,
   Overflow.flag_neg_iff f hf _ (Overflow.goodDest_elastic D) hmax s m e hm⟩

example : Overflow.isOverflowConvertFloat binary32 (.elastic 31) true (.fin false 8388608 8) = true ∧
    Overflow.isOverflowConvertFloat binary32 (.elastic 31) false (.fin true 8388608 8) = true ∧
    Overflow.isOverflowConvertFloat binary32 (.elastic 31) true (.fin false 16777215 7) = false ∧
    Overflow.isOverflowConvertFloat binary64 (.elastic 5) true (.fin false 8866461766385664 (-48)) = true := by
  decide +kernel

/-- repaired finding `C11.float_at_limit_not_flagged`: **as found** (`isOverflowConvertFloatOrig`) neither
`float 2^31` nor `float -2^31` was flagged for 31 declared digits although both are outside `±(2^31 − 1)` -/
theorem float_at_limit_refuted :
    Overflow.isOverflowConvertFloatOrig binary32 (.elastic 31) true (.fin false 8388608 8) = false ∧
    Overflow.RealGt false 8388608 8 (2^31 - 1) ∧
    Overflow.isOverflowConvertFloatOrig binary32 (.elastic 31) false (.fin true 8388608 8) = false ∧
    Overflow.RealLt true 8388608 8 (-(2^31 - 1)) := by decide +kernel

end Cnl.C11
