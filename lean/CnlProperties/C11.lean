import CnlProofs.Static
import CnlProofs.OverflowFloat
import CnlModel.Wide
/-!
# C11 — static_integer and static_number are never silently wrong

Theorems about the executable composition model `CnlModel/Static.lean` (+ the history evaluator
`CnlModel/StaticExpr.lean`), which is validated against the real `static_number` by the `C11`
correspondence table (operators, comparisons, conversions, two-step histories).  They hold for **all**
digit counts, exponents, rounding tags and overflow tags.  Sections 1–6 are the instances for `Narrowest = int`
(now for every digit count: beyond 127 digits the storage is the multi-word two's-complement integer of C10, so an
instantiation is ill-formed only when the native overflow tag would have to react); section 7 states the per-node
theorems for **every narrowest type** (signed / unsigned, any width — `TNum`), for multi-word storage, and for a
static number combined with a **built-in integer** on either side (`Opnd`), with the hypotheses they need and a
witness for each hypothesis.

* "in range" is `SNum.InRange`: `|value| ≤ 2^digits − 1`, the declared range of the type.
* "well-formed" is the hypothesis `∀ m, f … ≠ .ill m`: the model returns `.ill` exactly when a storage
  selection fails (digits beyond the widest integer — the real program does not compile) or when the
  native overflow tag would have to react (outside the model).
* `exactBin m op x y` (`CnlSpec/Static.lean`) is the demanded result of one operator: declared digits,
  exponent, exact value at that exponent (`exactBin_add … exactBin_div` spell it out).
* `evalIdeal` is the ideal evaluation of a history (exact integers at known exponents, `roundDiv` at
  each division and precision-losing conversion, a *signal* when a conversion does not fit — the clamped
  limit under the saturated tag); `Agrees tag r i` says the model's outcome `r` is the ideal outcome
  `i`: same exponent and value, or the tag's reaction to a signal of the same polarity.  Undefined
  behaviour agrees with nothing, so every `Agrees` conclusion includes "never undefined".

Per node: `binOp_exact` (`+ − *`), `div_rounded`, `neg_exact`, `cmp_exact` (+ `cmp_any_common_exponent`),
`convert_exact_or_signal` (+ `convert_agrees`).  The narrowing conversion carries the hypothesis
`¬ KnownDefect c E x`, the complement of the two **open** defect classes; each class is refuted from
its witness: `narrowing_drops_all_digits_refuted`, `rounded_value_exceeds_intermediate_refuted`.
Histories: `never_silently_wrong` (induction over `SExpr`, i.e. histories of any length) and its
corollaries.  Construction from floating point: `float_construct_flag_iff` (the overflow test signals iff
the real scaled value is outside the declared range; the as-found test of the repaired finding
`C11.float_at_limit_not_flagged` is refuted by `float_at_limit_refuted`); the rounding that follows is C09's.
Shifts (section 6): `shl_exact_or_signal` / `shl_agrees` (`x << n`, every run-time count `n ≥ 0`: exact or the tag's
signal with the right polarity, never undefined), `shr_floor` (`x >> n = ⌊x / 2^n⌋`, never a signal),
`shl_constant_exact`, `shr_constant_floor` (`cnl::constant` counts on a static_integer; the right shift is in range of
its narrower type outside the **open** class `ShrBelowRange`, refuted by `shr_constant_below_declared_range_refuted`),
`shift_constant_number_exact` (constant counts on a static_number move the exponent), `shiftAssign_is_history`
(`<<=`, `>>=`), and the shift nodes of the histories; the as-found left-shift test of the repaired finding
`C11.shl_to_minus_two_pow_digits_not_flagged` is refuted by `shl_as_found_refuted`.
Section 7: `storage_twos_complement`, `storage_builtin`, `storage_multiword_is_C10_format` (the storage rule; rests on
C10), `binOp_exact_typed`, `div_rounded_typed`, `rem_exact_typed` / `mixed_rem_exact` (`%`, `%=`: operands of any two
narrowest types, e.g. an unsigned dividend and a negative signed divisor; a built-in operand on either side), `neg_exact_typed`, `cmp_exact_typed`, `convert_exact_or_signal_typed`
(every narrowest type and digit count; `convert_negative_to_unsigned_flagged_first` shows the one hypothesis it adds),
`mixed_addsub_exact`, `mixed_addsub_aligned_exact`, `mixed_mul_exact`, `mixed_div_rounded`, `mixed_cmp_exact` (a
built-in operand on either side), with `builtin_operand_scaled_in_its_own_type_refuted`,
`builtin_operand_most_negative_refuted` (two **open** classes found by the typed correspondence lines) and
`mixed_div_spurious_signal` showing that each hypothesis is needed.
Left to the correspondence table only: `x >> constant<k>` with `k` *equal* to the digit count (a `static_integer<0>`);
histories (section 5) and shifts (section 6) over a narrowest type other than `int` — per node they are covered by
section 7, the induction is stated for `int`; `*` with a built-in operand when one operand has a single digit (the
overflow layer's digit test is then active; its outcome is in the model and in the table); comparisons of a
static_number with a built-in operand at a different exponent; operands whose narrowest types differ in *width*
(the library has no common elastic type for them: `−` and the comparisons do not compile; the harness instantiates
(unsigned, signed) and (signed, unsigned) pairs of one width — `tbin2` / `tcmp2` / `tasg2` lines); the conversion back of a
compound assignment `OP=` is `convert_exact_or_signal_typed` applied to the operator's result (table lines `tasg2`, `mixa`).  The part of the property that fails is exactly the part the refutations of the open
classes exhibit.
-/
namespace Cnl.C11
open Cnl Cnl.Spec Cnl.Static Cnl.Rounding Cnl.Elastic

/-- the ideal evaluator's rounding is the one C08 proves of the division -/
theorem rmode_eq_modeOf (m : RdMode) : rmode m = modeOf m := Static.rmode_eq_modeOf m

/-! ## 1. `+ − *` are exact -/

theorem exactBin_add (m : RoundMode) (x y : SNum) : exactBin m .add x y =
    ⟨max (x.digits + (x.exp - min x.exp y.exp).toNat) (y.digits + (y.exp - min x.exp y.exp).toNat) + 1,
     min x.exp y.exp,
     x.value * 2^(x.exp - min x.exp y.exp).toNat + y.value * 2^(y.exp - min x.exp y.exp).toNat⟩ := rfl

theorem exactBin_sub (m : RoundMode) (x y : SNum) : exactBin m .sub x y =
    ⟨max (x.digits + (x.exp - min x.exp y.exp).toNat) (y.digits + (y.exp - min x.exp y.exp).toNat) + 1,
     min x.exp y.exp,
     x.value * 2^(x.exp - min x.exp y.exp).toNat - y.value * 2^(y.exp - min x.exp y.exp).toNat⟩ := rfl

theorem exactBin_mul (m : RoundMode) (x y : SNum) : exactBin m .mul x y =
    ⟨prodDigits x.digits y.digits, x.exp + y.exp, x.value * y.value⟩ := rfl

theorem exactBin_div (m : RoundMode) (x y : SNum) : exactBin m .div x y =
    ⟨x.digits, x.exp - y.exp, roundDiv m x.value y.value⟩ := rfl

/-- For `op ∈ {+, −, *}`, every rounding and overflow tag, all digit counts and exponents and all
in-range operands of a well-formed instantiation: the operator returns — no signal, no undefined
behaviour — the number whose exponent is the smaller operand exponent (`*`: the sum), whose value is the
exact result at that exponent (operands aligned), and which is in range of its declared digits. -/
theorem binOp_exact (c : Cfg) (op : BinOp) (hop : op = .add ∨ op = .sub ∨ op = .mul) (x y : SNum)
    (hx : x.InRange) (hy : y.InRange) (hwf : ∀ m, Static.binOp c op x y ≠ .ill m) :
    Static.binOp c op x y = .ok (exactBin (rmode c.mode) op x y) ∧
      (exactBin (rmode c.mode) op x y).InRange := by
  have hop' : IsArith op := by rcases hop with h | h | h <;> simp [IsArith, h]
  have h0 : op = .div → y.value ≠ 0 := by rcases hop with h | h | h <;> subst h <;> intro h <;> cases h
  rcases binOp_spec c op hop' x y hx hy h0 with h | ⟨m, h⟩
  · exact h
  · exact absurd h (hwf m)

/-- `binOp_exact` for `+`, spelled out -/
theorem add_exact (c : Cfg) (x y : SNum) (hx : x.InRange) (hy : y.InRange)
    (hwf : ∀ m, Static.binOp c .add x y ≠ .ill m) :
    ∃ z, Static.binOp c .add x y = .ok z ∧ z.exp = min x.exp y.exp ∧
      z.value = x.value * 2^(x.exp - z.exp).toNat + y.value * 2^(y.exp - z.exp).toNat ∧ z.InRange :=
  have ⟨h, hr⟩ := binOp_exact c .add (.inl rfl) x y hx hy hwf
  ⟨_, h, rfl, rfl, hr⟩

/-- `binOp_exact` for `*`, spelled out -/
theorem mul_exact (c : Cfg) (x y : SNum) (hx : x.InRange) (hy : y.InRange)
    (hwf : ∀ m, Static.binOp c .mul x y ≠ .ill m) :
    ∃ z, Static.binOp c .mul x y = .ok z ∧ z.exp = x.exp + y.exp ∧ z.value = x.value * y.value ∧ z.InRange :=
  have ⟨h, hr⟩ := binOp_exact c .mul (.inr (.inr rfl)) x y hx hy hwf
  ⟨_, h, rfl, rfl, hr⟩

-- `static_number<8,-2> + static_number<4,1>`: alignment adds three digits to the right operand
example : Static.binOp ⟨.nrst, .sat⟩ .add ⟨8, -2, 255⟩ ⟨4, 1, -15⟩ = .ok ⟨9, -2, 135⟩ := by decide
-- 63-digit operands: 64-bit operand storage, 128-bit result storage
example : Static.binOp ⟨.tpi, .thr⟩ .mul ⟨63, -10, 9223372036854775807⟩ ⟨63, 3, -9223372036854775807⟩
    = .ok ⟨126, -7, -85070591730234615847396907784232501249⟩ := by decide
example : Static.binOp ⟨.ninf, .trp⟩ .sub ⟨31, 0, -2147483647⟩ ⟨31, 0, 2147483647⟩ = .ok ⟨32, 0, -4294967294⟩ := by
  decide
-- the hypotheses are satisfiable at the limits; beyond the widest built-in the storage is multi-word (C10)
example : (⟨63, -10, 9223372036854775807⟩ : SNum).InRange ∧
    (∀ m, Static.binOp ⟨.tpi, .thr⟩ .mul ⟨63, -10, 9223372036854775807⟩ ⟨63, 3, -9223372036854775807⟩ ≠ .ill m) := by
  refine ⟨by decide, fun m h => ?_⟩
  have e : Static.binOp ⟨.tpi, .thr⟩ .mul ⟨63, -10, 9223372036854775807⟩ ⟨63, 3, -9223372036854775807⟩
      = .ok ⟨126, -7, -85070591730234615847396907784232501249⟩ := by decide
  rw [e] at h; cases h
example : Static.binOp ⟨.nrst, .sat⟩ .mul ⟨64, 0, 18446744073709551615⟩ ⟨64, 0, 18446744073709551615⟩
    = .ok ⟨128, 0, 340282366920938463426481119284349108225⟩ := by decide

/-! ## 2. `/` is the correctly rounded quotient -/

/-- For every rounding and overflow tag, all digit counts and exponents, all in-range operands with a
non-zero divisor: the quotient of the representation values rounded as the rounding tag prescribes, in
the dividend's digits, at the difference of the exponents, in range — no signal, no undefined
behaviour (the operands are converted into a storage type with at least `max(digits)` digits). -/
theorem div_rounded (c : Cfg) (x y : SNum) (hx : x.InRange) (hy : y.InRange) (h0 : y.value ≠ 0)
    (hwf : ∀ m, Static.binOp c .div x y ≠ .ill m) :
    Static.binOp c .div x y = .ok ⟨x.digits, x.exp - y.exp, roundDiv (modeOf c.mode) x.value y.value⟩ ∧
      (⟨x.digits, x.exp - y.exp, roundDiv (modeOf c.mode) x.value y.value⟩ : SNum).InRange := by
  rcases binOp_div_spec c x y hx hy h0 with h | ⟨m, h⟩
  · rw [← Static.rmode_eq_modeOf]; exact h
  · exact absurd h (hwf m)

/-- in every mode a rounded quotient is no larger in magnitude than the dividend -/
theorem roundDiv_natAbs_le (m : RoundMode) (a b : Int) (hb : b ≠ 0) : (roundDiv m a b).natAbs ≤ a.natAbs :=
  Static.roundDiv_natAbs_le m a b hb

-- the case that was wrong before the repairs: static_integer<31, nearest, saturated>(2147483647) / 2
example : Static.binOp ⟨.nrst, .sat⟩ .div ⟨31, 0, 2147483647⟩ ⟨31, 0, 2⟩ = .ok ⟨31, 0, 1073741824⟩ := by decide
example : Static.binOp ⟨.nrst, .sat⟩ .div ⟨31, 0, 2147483647⟩ ⟨31, 0, 2147483647⟩ = .ok ⟨31, 0, 1⟩ := by decide
-- a wider divisor is not narrowed to the dividend's digits
example : Static.binOp ⟨.tpi, .thr⟩ .div ⟨10, -3, 1023⟩ ⟨40, 2, 1099511627775⟩ = .ok ⟨10, -5, 0⟩ := by decide
example : Static.binOp ⟨.ninf, .trp⟩ .div ⟨40, 0, -1099511627775⟩ ⟨3, 0, 7⟩ = .ok ⟨40, 0, -157073089683⟩ := by decide
example : (⟨31, 0, 2147483647⟩ : SNum).InRange ∧ (⟨31, 0, 2⟩ : SNum).InRange ∧
    (∀ m, Static.binOp ⟨.nrst, .sat⟩ .div ⟨31, 0, 2147483647⟩ ⟨31, 0, 2⟩ ≠ .ill m) := by
  refine ⟨by decide, by decide, fun m h => ?_⟩
  have e : Static.binOp ⟨.nrst, .sat⟩ .div ⟨31, 0, 2147483647⟩ ⟨31, 0, 2⟩ = .ok ⟨31, 0, 1073741824⟩ := by decide
  rw [e] at h; cases h

/-! ## 3. unary minus and comparison -/

/-- `-x` is the exact negation in the same digits and exponent -/
theorem neg_exact (x : SNum) (hx : x.InRange) (hwf : ∀ m, Static.neg x ≠ .ill m) :
    Static.neg x = .ok ⟨x.digits, x.exp, -x.value⟩ ∧ (⟨x.digits, x.exp, -x.value⟩ : SNum).InRange := by
  rcases neg_spec x hx with h | ⟨m, h⟩
  · exact h
  · exact absurd h (hwf m)

example : Static.neg ⟨31, -5, -2147483647⟩ = .ok ⟨31, -5, 2147483647⟩ := by decide

/-- every comparison of two in-range static numbers compares their values at the smaller exponent … -/
theorem cmp_exact (op : CmpOp) (x y : SNum) (hx : x.InRange) (hy : y.InRange)
    (hwf : ∀ m, Static.cmp op x y ≠ .ill m) :
    Static.cmp op x y = .ok (cmpExact op (alignL x.exp y.exp x.value) (alignR x.exp y.exp y.value)) := by
  rcases cmp_spec op x y hx hy with h | ⟨m, h⟩
  · exact h
  · exact absurd h (hwf m)

/-- … which is comparing them at any common exponent `e0`, i.e. the order of the denoted numbers
`value · 2^exp` (both sides are integers after multiplication by `2^(−e0)`) -/
theorem cmp_any_common_exponent (op : CmpOp) (x y : SNum) (hx : x.InRange) (hy : y.InRange)
    (hwf : ∀ m, Static.cmp op x y ≠ .ill m) (e0 : Int) (h1 : e0 ≤ x.exp) (h2 : e0 ≤ y.exp) :
    Static.cmp op x y = .ok (cmpExact op (x.value * 2^(x.exp - e0).toNat) (y.value * 2^(y.exp - e0).toNat)) := by
  rw [cmp_exact op x y hx hy hwf, cmp_common_exponent op x y e0 h1 h2]

-- 3·2^4 = 48 > 47·2^0
example : Static.cmp .gt ⟨4, 4, 3⟩ ⟨8, 0, 47⟩ = .ok true := by decide
example : Static.cmp .eq ⟨20, -10, 1024⟩ ⟨2, 0, 1⟩ = .ok true := by decide

/-! ## 4. conversion / assignment: exact (or correctly rounded) or the tag's signal -/

theorem rescale_exact (m : RoundMode) {E e : Int} (v : Int) (h : E ≤ e) :
    rescale m E e v = v * 2^(e - E).toNat := by simp only [rescale, h, ite_true]

theorem rescale_rounded (m : RoundMode) {E e : Int} (v : Int) (h : e < E) :
    rescale m E e v = roundDiv m v (2^(E - e).toNat) := by
  have : ¬ E ≤ e := by omega
  simp only [rescale, this, ite_false]

/-- the hypothesis of the conversion theorems, spelled out: the exponent does not grow, or it grows by
`k ≤ digits` and the rounded quotient fits the intermediate `digits − k` digits (for `k = digits`:
it is `0`) -/
theorem not_knownDefect_iff (c : Cfg) (E : Int) (x : SNum) :
    ¬ KnownDefect c E x ↔
      (E ≤ x.exp ∨ ((E - x.exp).toNat ≤ x.digits ∧
        (roundDiv (rmode c.mode) x.value (2^(E - x.exp).toNat)).natAbs ≤ 2^(x.digits - (E - x.exp).toNat) - 1)) := by
  unfold KnownDefect NarrowingDropsAllDigits RoundedExceedsIntermediate
  constructor
  · intro h
    by_cases hE : E ≤ x.exp
    · exact .inl hE
    · right
      have hk : (E - x.exp).toNat ≤ x.digits :=
        Decidable.byContradiction fun hk => h (.inl ⟨by omega, by omega⟩)
      exact ⟨hk, Decidable.byContradiction fun hq => h (.inr ⟨by omega, hk, by omega⟩)⟩
  · rintro (h | ⟨h1, h2⟩) (⟨h3, h4⟩ | ⟨h3, h4, h5⟩) <;> omega

/-- Conversion / assignment of an in-range `x` to `static_number<D, E>`, outside the two open defect
classes.  Let `w` be `x` expressed at exponent `E` — exactly rescaled if `E ≤ x.exp`, otherwise the
quotient by `2^(E − x.exp)` rounded as the rounding tag prescribes.  Then the result is `w` if it fits
`D` digits; otherwise it is the tag's reaction with the right polarity: the clamped limit `±(2^D − 1)`
(saturated), an exception (throwing), a trap (trapping), `unreachable` (undefined tag).  Never a
different value, never undefined behaviour. -/
theorem convert_exact_or_signal (c : Cfg) (D : Nat) (E : Int) (x : SNum) (hx : x.InRange)
    (hnd : ¬ KnownDefect c E x) (hwf : ∀ m, Static.convert c D E x ≠ .ill m) :
    (-(2^D - 1 : Int) ≤ rescale (rmode c.mode) E x.exp x.value ∧ rescale (rmode c.mode) E x.exp x.value ≤ 2^D - 1 →
      Static.convert c D E x = .ok ⟨D, E, rescale (rmode c.mode) E x.exp x.value⟩) ∧
    (rescale (rmode c.mode) E x.exp x.value > 2^D - 1 →
      (c.tag = .sat → Static.convert c D E x = .ok ⟨D, E, 2^D - 1⟩) ∧
      (c.tag = .thr → Static.convert c D E x = .throws true) ∧
      (c.tag = .trp → Static.convert c D E x = .trap true) ∧
      (c.tag = .und → Static.convert c D E x = .unreachable "positive overflow")) ∧
    (rescale (rmode c.mode) E x.exp x.value < -(2^D - 1 : Int) →
      (c.tag = .sat → Static.convert c D E x = .ok ⟨D, E, -(2^D - 1 : Int)⟩) ∧
      (c.tag = .thr → Static.convert c D E x = .throws false) ∧
      (c.tag = .trp → Static.convert c D E x = .trap false) ∧
      (c.tag = .und → Static.convert c D E x = .unreachable "negative overflow")) := by
  rcases convert_core c D E x hx hnd with h | ⟨m, h⟩
  · rw [h]
    have hp := two_pow_pos D
    refine ⟨fun hf => by rw [narrowDigits_fits c D hf]; rfl, fun hgt => ?_, fun hlt => ?_⟩
    · simp only [narrowDigits, hgt, ite_true]
      refine ⟨?_, ?_, ?_, ?_⟩ <;> intro ht <;> rw [ht] <;> rfl
    · have h1 : ¬ rescale (rmode c.mode) E x.exp x.value > 2^D - 1 := by omega
      simp only [narrowDigits, h1, hlt, ite_true, ite_false]
      refine ⟨?_, ?_, ?_, ?_⟩ <;> intro ht <;> rw [ht] <;> rfl
  · exact absurd h (hwf m)

/-- the same as one relation with the ideal conversion; a returned value is in range of `D` digits -/
theorem convert_agrees (c : Cfg) (D : Nat) (E : Int) (x : SNum) (hx : x.InRange)
    (hnd : ¬ KnownDefect c E x) (hwf : ∀ m, Static.convert c D E x ≠ .ill m) :
    Agrees c.tag (Static.convert c D E x) (idealCvt c D E (.val x.exp x.value)) ∧
      ∀ z, Static.convert c D E x = .ok z → z.digits = D ∧ z.InRange := by
  have ⟨h1, h2⟩ := Static.convert_agrees c D E x hx hnd hwf
  refine ⟨h1, fun z hz => ⟨?_, h2 z hz⟩⟩
  rcases convert_core c D E x hx hnd with h | ⟨m, h⟩
  · rw [h] at hz
    cases hv : narrowDigits c D (rescale (rmode c.mode) E x.exp x.value) <;> rw [hv] at hz <;> cases hz
    rfl
  · exact absurd h (hwf m)

-- widening assignment, narrowing with rounding, saturation, exception, trap
example : Static.convert ⟨.nrst, .sat⟩ 20 (-8) ⟨8, -2, -255⟩ = .ok ⟨20, -8, -16320⟩ := by decide
example : Static.convert ⟨.nrst, .sat⟩ 6 1 ⟨8, -2, 203⟩ = .ok ⟨6, 1, 25⟩ := by decide       -- 50.75 / 2 = 25.375
example : Static.convert ⟨.tpi, .sat⟩ 6 0 ⟨8, -1, -255⟩ = .ok ⟨6, 0, -63⟩ := by decide      -- −127.5 → −127 → clamped
example : Static.convert ⟨.ninf, .thr⟩ 6 0 ⟨8, -1, -255⟩ = .throws false := by decide
example : Static.convert ⟨.nat, .trp⟩ 4 (-3) ⟨8, 0, 2⟩ = .trap true := by decide
example : (⟨8, -2, 203⟩ : SNum).InRange ∧ ¬ KnownDefect ⟨.nrst, .sat⟩ 1 ⟨8, -2, 203⟩ ∧
    (∀ m, Static.convert ⟨.nrst, .sat⟩ 6 1 ⟨8, -2, 203⟩ ≠ .ill m) := by
  refine ⟨by decide, by decide, fun m h => ?_⟩
  have e : Static.convert ⟨.nrst, .sat⟩ 6 1 ⟨8, -2, 203⟩ = .ok ⟨6, 1, 25⟩ := by decide
  rw [e] at h; cases h

-- the boundary `k = digits` (the intermediate type is an `elastic_integer<0>`, range `[0, 0]`): a
-- quotient that rounds to `0` is converted correctly …
example : Static.convert ⟨.ninf, .thr⟩ 20 0 ⟨31, -31, 2147483647⟩ = .ok ⟨20, 0, 0⟩ ∧
    ¬ KnownDefect ⟨.ninf, .thr⟩ 0 ⟨31, -31, 2147483647⟩ := by decide
example : Static.convert ⟨.nrst, .sat⟩ 20 0 ⟨31, -31, 1073741823⟩ = .ok ⟨20, 0, 0⟩ ∧
    ¬ KnownDefect ⟨.nrst, .sat⟩ 0 ⟨31, -31, 1073741823⟩ := by decide
-- … a quotient that rounds to `±1` belongs to the open class `rounded_value_exceeds_intermediate_digits`:
-- a spurious signal under the throwing tag, silently `0` under the saturated tag
example : Static.convert ⟨.nrst, .thr⟩ 20 0 ⟨31, -31, 2147483647⟩ = .throws true ∧
    idealCvt ⟨.nrst, .thr⟩ 20 0 (.val (-31) 2147483647) = .val 0 1 ∧
    RoundedExceedsIntermediate ⟨.nrst, .thr⟩ 0 ⟨31, -31, 2147483647⟩ := by decide
example : Static.convert ⟨.ninf, .sat⟩ 20 0 ⟨31, -31, -1⟩ = .ok ⟨20, 0, 0⟩ ∧
    idealCvt ⟨.ninf, .sat⟩ 20 0 (.val (-31) (-1)) = .val 0 (-1) ∧
    RoundedExceedsIntermediate ⟨.ninf, .sat⟩ 0 ⟨31, -31, -1⟩ := by decide
-- one more and the behaviour is undefined
example : Static.convert ⟨.ninf, .thr⟩ 20 1 ⟨31, -31, 2147483647⟩ = .ub .shiftCount ∧
    NarrowingDropsAllDigits 1 ⟨31, -31, 2147483647⟩ := by decide

/-! ### the two open defect classes are genuine: each hypothesis is needed -/

/-- open finding `C11.narrowing_drops_all_digits`: raising the exponent by more than the source's
digit count executes undefined behaviour (a shift by a negative count in the limits of an
elastic_integer with a negative digit count) instead of yielding `0`.
Witness `static_number<1, −4>{−1·2^−4}` assigned to `static_number<63, 0>`. -/
theorem narrowing_drops_all_digits_refuted :
    ¬ (∀ (c : Cfg) (D : Nat) (E : Int) (x : SNum), x.InRange → ¬ RoundedExceedsIntermediate c E x →
        (∀ m, Static.convert c D E x ≠ .ill m) →
        Agrees c.tag (Static.convert c D E x) (idealCvt c D E (.val x.exp x.value))) := by
  intro h
  have e : Static.convert ⟨.nat, .trp⟩ 63 0 ⟨1, -4, -1⟩ = .ub .shiftCount := by decide
  have h' := h ⟨.nat, .trp⟩ 63 0 ⟨1, -4, -1⟩ (by decide) (by decide) (fun m hm => by rw [e] at hm; cases hm)
  rw [e] at h'
  cases hi : idealCvt ⟨.nat, .trp⟩ 63 0 (.val (-4) (-1)) <;> rw [hi] at h' <;> exact h'

example : Static.convert ⟨.nat, .trp⟩ 63 0 ⟨1, -4, -1⟩ = .ub .shiftCount ∧
    idealCvt ⟨.nat, .trp⟩ 63 0 (.val (-4) (-1)) = .val 0 0 ∧ NarrowingDropsAllDigits 0 ⟨1, -4, -1⟩ := by decide

/-- open finding `C11.rounded_value_exceeds_intermediate_digits`: when the rounded quotient has magnitude
`2^(digits − k)` the intermediate `digits − k`-digit type clamps it (saturated: silently wrong by one
unit; throwing / trapping: a spurious signal) although the destination could hold it.
Witness `static_number<5, −2, nearest, saturated>{31·2^−2 = 7.75}` assigned to `static_number<6, 1>`:
the result is `3·2^1`, the correctly rounded value is `4·2^1`. -/
theorem rounded_value_exceeds_intermediate_refuted :
    ¬ (∀ (c : Cfg) (D : Nat) (E : Int) (x : SNum), x.InRange → ¬ NarrowingDropsAllDigits E x →
        (∀ m, Static.convert c D E x ≠ .ill m) →
        Agrees c.tag (Static.convert c D E x) (idealCvt c D E (.val x.exp x.value))) := by
  intro h
  have e : Static.convert ⟨.nrst, .sat⟩ 6 1 ⟨5, -2, 31⟩ = .ok ⟨6, 1, 3⟩ := by decide
  have hi : idealCvt ⟨.nrst, .sat⟩ 6 1 (.val (-2) 31) = .val 1 4 := by decide
  have h' := h ⟨.nrst, .sat⟩ 6 1 ⟨5, -2, 31⟩ (by decide) (by decide) (fun m hm => by rw [e] at hm; cases hm)
  rw [e, hi] at h'
  exact absurd h'.2 (by decide)

example : Static.convert ⟨.nrst, .sat⟩ 6 1 ⟨5, -2, 31⟩ = .ok ⟨6, 1, 3⟩ ∧
    idealCvt ⟨.nrst, .sat⟩ 6 1 (.val (-2) 31) = .val 1 4 ∧ RoundedExceedsIntermediate ⟨.nrst, .sat⟩ 1 ⟨5, -2, 31⟩ := by
  decide
-- under the throwing tag the same input signals although the value fits the destination
example : Static.convert ⟨.nrst, .thr⟩ 6 1 ⟨5, -2, 31⟩ = .throws true := by decide

/-! ## 5. histories: no sequence of operations is silently wrong -/

/-- **C11.**  For every history `e` (an expression tree of any size over `+ − * /`, unary minus and
conversions / assignments), every rounding and overflow tag: if the literals are in range, no divisor
is zero and no conversion meets one of the two open defect classes at its argument (`SideOK c e`, the
arguments being the ones the model computes), and the instantiation is well-formed, then the model's
evaluation **agrees** with the ideal evaluation:

* a returned value has exactly the ideal exponent and value (under the saturated tag: of the ideal
  *saturating* evaluation, which clamps where a conversion does not fit) and is in range of its digits;
* an exception / trap / `unreachable` occurs only under the throwing / trapping / undefined tag, exactly
  when the ideal evaluation signals overflow, with the same polarity, at the same node (both
  evaluators stop at the first signalling node in the same order);
* undefined behaviour never occurs (it agrees with nothing). -/
theorem never_silently_wrong (c : Cfg) (e : SExpr) (hs : SideOK c e) (hwf : ∀ m, evalModel c e ≠ .ill m) :
    Agrees c.tag (evalModel c e) (evalIdeal c e) ∧ ∀ v, evalModel c e = .ok v → v.InRange :=
  eval_agrees c e hs hwf

/-- a value the model returns is the ideal value -/
theorem value_is_ideal (c : Cfg) (e : SExpr) (hs : SideOK c e) (hwf : ∀ m, evalModel c e ≠ .ill m)
    (v : SNum) (h : evalModel c e = .ok v) : evalIdeal c e = .val v.exp v.value ∧ v.InRange := by
  have ⟨h1, h2⟩ := never_silently_wrong c e hs hwf
  rw [h] at h1
  exact ⟨agrees_ok h1, h2 v h⟩

/-- conversely an ideal value is returned: no spurious signal -/
theorem ideal_value_is_returned (c : Cfg) (e : SExpr) (hs : SideOK c e) (hwf : ∀ m, evalModel c e ≠ .ill m)
    (E w : Int) (h : evalIdeal c e = .val E w) : ∃ v, evalModel c e = .ok v ∧ v.exp = E ∧ v.value = w := by
  have ⟨h1, _⟩ := never_silently_wrong c e hs hwf
  rw [h] at h1
  cases hm : evalModel c e <;> rw [hm] at h1 <;> simp only [Agrees] at h1
  exact ⟨_, rfl, h1.1, h1.2⟩

/-- an exception is thrown only under the throwing tag, exactly for an ideal overflow of that polarity -/
theorem throws_is_ideal_signal (c : Cfg) (e : SExpr) (hs : SideOK c e) (hwf : ∀ m, evalModel c e ≠ .ill m)
    (p : Bool) (h : evalModel c e = .throws p) : evalIdeal c e = .signal p ∧ c.tag = .thr := by
  have ⟨h1, _⟩ := never_silently_wrong c e hs hwf
  rw [h] at h1
  cases hi : evalIdeal c e <;> rw [hi] at h1 <;> simp only [Agrees] at h1
  exact ⟨by rw [h1.2], h1.1⟩

/-- a trap occurs only under the trapping tag, exactly for an ideal overflow of that polarity -/
theorem trap_is_ideal_signal (c : Cfg) (e : SExpr) (hs : SideOK c e) (hwf : ∀ m, evalModel c e ≠ .ill m)
    (p : Bool) (h : evalModel c e = .trap p) : evalIdeal c e = .signal p ∧ c.tag = .trp := by
  have ⟨h1, _⟩ := never_silently_wrong c e hs hwf
  rw [h] at h1
  cases hi : evalIdeal c e <;> rw [hi] at h1 <;> simp only [Agrees] at h1
  exact ⟨by rw [h1.2], h1.1⟩

/-- an ideal overflow is signalled the way the tag prescribes -/
theorem ideal_signal_is_signalled (c : Cfg) (e : SExpr) (hs : SideOK c e) (hwf : ∀ m, evalModel c e ≠ .ill m)
    (p : Bool) (h : evalIdeal c e = .signal p) :
    (c.tag = .thr ∧ evalModel c e = .throws p) ∨ (c.tag = .trp ∧ evalModel c e = .trap p) ∨
      (c.tag = .und ∧ ∃ m, evalModel c e = .unreachable m) := by
  have ⟨h1, _⟩ := never_silently_wrong c e hs hwf
  rw [h] at h1
  cases hm : evalModel c e <;> rw [hm] at h1 <;> simp only [Agrees] at h1
  · exact .inr (.inl ⟨h1.1, by rw [h1.2]⟩)
  · exact .inl ⟨h1.1, by rw [h1.2]⟩
  · exact .inr (.inr ⟨h1, _, rfl⟩)

/-- under the saturated tag nothing is ever signalled: the model returns the ideal saturating value -/
theorem saturated_returns_ideal (c : Cfg) (e : SExpr) (hs : SideOK c e) (hwf : ∀ m, evalModel c e ≠ .ill m)
    (ht : c.tag = .sat) : ∃ v, evalModel c e = .ok v ∧ evalIdeal c e = .val v.exp v.value ∧ v.InRange := by
  have ⟨h1, h2⟩ := never_silently_wrong c e hs hwf
  cases hm : evalModel c e <;> rw [hm] at h1 <;>
    cases hi : evalIdeal c e <;> rw [hi] at h1 <;> simp only [Agrees, ht] at h1 <;>
    try (first | (cases h1; done) | (cases h1.1; done))
  exact ⟨_, rfl, by rw [← h1.1, ← h1.2], h2 _ hm⟩

/-- no history executes undefined behaviour -/
theorem never_undefined (c : Cfg) (e : SExpr) (hs : SideOK c e) (hwf : ∀ m, evalModel c e ≠ .ill m) (k : UB) :
    evalModel c e ≠ .ub k := by
  intro h
  have ⟨h1, _⟩ := never_silently_wrong c e hs hwf
  rw [h] at h1
  cases hi : evalIdeal c e <;> rw [hi] at h1 <;> exact h1

/-! ### non-vacuity: concrete histories -/

/-- `static_number<4,0> c = a * b + d` with `a = b = 15`, `d = 7·2^−2`: the sum `226.75` is rounded to
`227` and does not fit four digits -/
def h3 : SExpr := .cvt 4 0 (.add (.mul (.lit ⟨4, 0, 15⟩) (.lit ⟨4, 0, 15⟩)) (.lit ⟨4, -2, 7⟩))

-- a three-node history with a saturating narrowing …
example : evalModel ⟨.nrst, .sat⟩ h3 = .ok ⟨4, 0, 15⟩ ∧ evalIdeal ⟨.nrst, .sat⟩ h3 = .val 0 15 ∧
    SideOK ⟨.nrst, .sat⟩ h3 := by decide
-- … a throwing one, a trapping one …
example : evalModel ⟨.nrst, .thr⟩ h3 = .throws true ∧ evalIdeal ⟨.nrst, .thr⟩ h3 = .signal true ∧
    SideOK ⟨.nrst, .thr⟩ h3 := by decide
example : evalModel ⟨.ninf, .trp⟩ (.neg h3) = .trap true ∧ evalIdeal ⟨.ninf, .trp⟩ (.neg h3) = .signal true := by
  decide
-- … the saturated value is consumed by later operations: (15 − 1/4) / −3 = −4.91… → −5 at exponent 2 − …
example : evalModel ⟨.tpi, .sat⟩ (.div (.sub h3 (.lit ⟨2, -2, 1⟩)) (.lit ⟨3, 0, -3⟩)) = .ok ⟨7, -2, -20⟩ ∧
    evalIdeal ⟨.tpi, .sat⟩ (.div (.sub h3 (.lit ⟨2, -2, 1⟩)) (.lit ⟨3, 0, -3⟩)) = .val (-2) (-20) ∧
    SideOK ⟨.tpi, .sat⟩ (.div (.sub h3 (.lit ⟨2, -2, 1⟩)) (.lit ⟨3, 0, -3⟩)) := by decide
-- the history that was silently wrong before the repairs: (max / 2) narrowed to 31 digits
example : evalModel ⟨.nrst, .sat⟩ (.cvt 31 0 (.div (.lit ⟨31, 0, 2147483647⟩) (.lit ⟨31, 0, 2⟩)))
    = .ok ⟨31, 0, 1073741824⟩ ∧
    SideOK ⟨.nrst, .sat⟩ (.cvt 31 0 (.div (.lit ⟨31, 0, 2147483647⟩) (.lit ⟨31, 0, 2⟩))) := by decide
-- the well-formedness hypothesis is satisfiable
example : ∀ m, evalModel ⟨.nrst, .thr⟩ h3 ≠ .ill m := by
  intro m h
  have e : evalModel ⟨.nrst, .thr⟩ h3 = .throws true := by decide
  rw [e] at h; cases h
-- the side conditions are needed: a history through the open defect class is silently wrong
example : ¬ SideOK ⟨.nrst, .sat⟩ (.cvt 6 1 (.lit ⟨5, -2, 31⟩)) ∧
    evalModel ⟨.nrst, .sat⟩ (.cvt 6 1 (.lit ⟨5, -2, 31⟩)) = .ok ⟨6, 1, 3⟩ ∧
    evalIdeal ⟨.nrst, .sat⟩ (.cvt 6 1 (.lit ⟨5, -2, 31⟩)) = .val 1 4 := by decide

/-! ## 6. shifts

Run-time counts (`x << n`, `x >> n`; `n` a built-in integer or a static_integer, by value; `CnlModel/Static.lean`
`shiftRT`), `cnl::constant<k>` counts on a bare static_integer (`shiftConstInt`: the digits widen / narrow) and on a
static_number (`shiftConstNum`: the exponent moves), compound assignment (`shiftAssign` = the shift, then the
conversion of section 4).  Every count `n ≥ 0` is covered — also counts at and beyond the digit count and the
storage width (the model's outcome is then the tag's reaction for `x ≠ 0`, `0` for `x = 0`, and `0 / −1` for `>>`);
a negative run-time count is undefined as for built-in operands and outside the quantifier; `constant<k>` with
`k < 0` on a static_integer (compiles, undefined) and `x >> constant<k>` with `k ≥` digits (a type with no or a
negative number of digits) likewise.  `x >> n` is the floor quotient whatever the rounding tag: shifts pass through the
rounding layer (the correspondence table confirms it for all four tags).
The shift nodes are part of the histories of section 5 (`SExpr.shl / shr / shlN / shlI / shrI`). -/

/-- **`x << n`, run-time count `n ≥ 0`** (every count), every digit count, exponent and tag, in-range `x`: the exact
product `x · 2^n` in the operand's digits and exponent when it fits `±(2^D − 1)`; otherwise the tag's reaction with
the right polarity — the clamped limit (saturated), an exception, a trap, `unreachable`.  Never another value,
never undefined behaviour. -/
theorem shl_exact_or_signal (c : Cfg) (x : SNum) (n : Int) (hn : 0 ≤ n) (hx : x.InRange)
    (hwf : ∀ m, shiftRT c .shl x n ≠ .ill m) :
    (-(2^x.digits - 1 : Int) ≤ x.value * 2^n.toNat ∧ x.value * 2^n.toNat ≤ 2^x.digits - 1 →
      shiftRT c .shl x n = .ok ⟨x.digits, x.exp, x.value * 2^n.toNat⟩) ∧
    (x.value * 2^n.toNat > 2^x.digits - 1 →
      (c.tag = .sat → shiftRT c .shl x n = .ok ⟨x.digits, x.exp, 2^x.digits - 1⟩) ∧
      (c.tag = .thr → shiftRT c .shl x n = .throws true) ∧
      (c.tag = .trp → shiftRT c .shl x n = .trap true) ∧
      (c.tag = .und → shiftRT c .shl x n = .unreachable "positive overflow")) ∧
    (x.value * 2^n.toNat < -(2^x.digits - 1 : Int) →
      (c.tag = .sat → shiftRT c .shl x n = .ok ⟨x.digits, x.exp, -(2^x.digits - 1 : Int)⟩) ∧
      (c.tag = .thr → shiftRT c .shl x n = .throws false) ∧
      (c.tag = .trp → shiftRT c .shl x n = .trap false) ∧
      (c.tag = .und → shiftRT c .shl x n = .unreachable "negative overflow")) := by
  obtain ⟨j, rfl⟩ := Int.eq_ofNat_of_zero_le hn
  rw [Int.toNat_natCast]
  rcases shiftRT_shl_core c x j hx with h | ⟨m, h⟩
  · rw [h]
    have hp := two_pow_pos x.digits
    refine ⟨fun hf => by rw [narrowDigits_fits c x.digits hf]; rfl, fun hgt => ?_, fun hlt => ?_⟩
    · simp only [narrowDigits, hgt, ite_true]
      refine ⟨?_, ?_, ?_, ?_⟩ <;> intro ht <;> rw [ht] <;> rfl
    · have h1 : ¬ x.value * 2^j > 2^x.digits - 1 := by omega
      simp only [narrowDigits, h1, hlt, ite_true, ite_false]
      refine ⟨?_, ?_, ?_, ?_⟩ <;> intro ht <;> rw [ht] <;> rfl
  · exact absurd h (hwf m)

/-- the same as one relation with the ideal result, and a returned value is in range of its digits -/
theorem shl_agrees (c : Cfg) (x : SNum) (n : Nat) (hx : x.InRange) (hwf : ∀ m, shiftRT c .shl x (n : Int) ≠ .ill m) :
    Agrees c.tag (shiftRT c .shl x (n : Int)) (idealNarrow c.tag x.digits x.exp (x.value * 2^n)) ∧
      ∀ z, shiftRT c .shl x (n : Int) = .ok z → z.InRange :=
  Static.shl_agrees c x n hx hwf

/-- **`x >> n`, run-time count `n ≥ 0`** (every count): `⌊x / 2^n⌋` in the operand's digits and exponent, in
range; no signal, no undefined behaviour -/
theorem shr_floor (c : Cfg) (x : SNum) (n : Int) (hn : 0 ≤ n) (hx : x.InRange)
    (hwf : ∀ m, shiftRT c .shr x n ≠ .ill m) :
    shiftRT c .shr x n = .ok ⟨x.digits, x.exp, x.value / 2^n.toNat⟩ ∧
      (⟨x.digits, x.exp, x.value / 2^n.toNat⟩ : SNum).InRange := by
  obtain ⟨j, rfl⟩ := Int.eq_ofNat_of_zero_le hn
  rw [Int.toNat_natCast]
  rcases shiftRT_shr_core c x j hx with h | ⟨m, h⟩
  · exact ⟨h, shr_inRange hx j⟩
  · exact absurd h (hwf m)

/-- **`x << constant<k>` on a static_integer**: exact, in `digits + k` digits, in range; neither overflow test
fires, nothing is undefined -/
theorem shl_constant_exact (c : Cfg) (x : SNum) (k : Nat) (hx : x.InRange)
    (hwf : ∀ m, shiftConstInt c .shl x k ≠ .ill m) :
    shiftConstInt c .shl x k = .ok ⟨x.digits + k, x.exp, x.value * 2^k⟩ ∧
      (⟨x.digits + k, x.exp, x.value * 2^k⟩ : SNum).InRange := by
  rcases shiftConstInt_shl_core c x k hx with h | ⟨m, h⟩
  · exact ⟨h, scaleUp_inRange (x := ⟨x.digits, x.exp + k, x.value⟩) k hx⟩
  · exact absurd h (hwf m)

/-- **`x >> constant<k>` on a static_integer**, `k <` digits: `⌊x / 2^k⌋` in `digits − k` digits; in range of
those digits unless the input is in the open class `ShrBelowRange` (`⌊x / 2^k⌋ = −2^(digits − k)`) -/
theorem shr_constant_floor (c : Cfg) (x : SNum) (k : Nat) (hx : x.InRange) (hk : k < x.digits)
    (hwf : ∀ m, shiftConstInt c .shr x k ≠ .ill m) :
    shiftConstInt c .shr x k = .ok ⟨x.digits - k, x.exp, x.value / 2^k⟩ ∧
      (¬ ShrBelowRange k x → (⟨x.digits - k, x.exp, x.value / 2^k⟩ : SNum).InRange) := by
  rcases shiftConstInt_shr_core c x k hx hk with h | ⟨m, h⟩
  · exact ⟨h, fun hc => shrConst_inRange hx hk hc⟩
  · exact absurd h (hwf m)

/-- open finding `C11.shr_constant_below_declared_range` (the elastic layer's `C05.shr_negative_below_declared_range`
seen through a static_integer): the hypothesis is needed.  `static_integer<10>{−1023} >> constant<3>` is the
7-digit number `−128`, below the declared `±127`, with no signal; two such values multiplied overflow the storage
(`static_integer<16>{−65536} * static_integer<15>{−32768}` executes a signed `int` overflow). -/
theorem shr_constant_below_declared_range_refuted :
    ¬ (∀ (c : Cfg) (x : SNum) (k : Nat), x.InRange → k < x.digits → ∀ z, shiftConstInt c .shr x k = .ok z → z.InRange) := by
  intro h
  exact absurd (h ⟨.nrst, .sat⟩ ⟨10, 0, -1023⟩ 3 (by decide) (by decide) ⟨7, 0, -128⟩ (by decide)) (by decide)

example : shiftConstInt ⟨.nrst, .sat⟩ .shr ⟨10, 0, -1023⟩ 3 = .ok ⟨7, 0, -128⟩ ∧ ShrBelowRange 3 ⟨10, 0, -1023⟩ ∧
    Static.binOp ⟨.nrst, .sat⟩ .mul ⟨16, 0, -65536⟩ ⟨15, 0, -32768⟩ = .ub .signedOverflow := by decide

/-- **`x << constant<k>`, `x >> constant<k>` on a static_number**, `k` of either sign: the same significand at the
exponent moved by `k` — the denoted number is multiplied / divided by `2^k` exactly -/
theorem shift_constant_number_exact (x : SNum) (k : Int) :
    shiftConstNum .shl x k = .ok ⟨x.digits, x.exp + k, x.value⟩ ∧
    shiftConstNum .shr x k = .ok ⟨x.digits, x.exp - k, x.value⟩ := ⟨rfl, rfl⟩

/-- `x <<= n` / `x >>= n` are two-node histories: the shift, then the conversion back to the left operand's
type — so `never_silently_wrong` covers compound assignment -/
theorem shiftAssign_is_history (c : Cfg) (x : SNum) (n : Nat) :
    shiftAssign c (shiftRT c .shl x (n : Int)) x = evalModel c (.cvt x.digits x.exp (.shl x.digits n (.lit x))) ∧
    shiftAssign c (shiftRT c .shr x (n : Int)) x = evalModel c (.cvt x.digits x.exp (.shr n (.lit x))) ∧
    shiftAssign c (shiftConstInt c .shl x n) x = evalModel c (.cvt x.digits x.exp (.shlI n (.lit x))) ∧
    shiftAssign c (shiftConstInt c .shr x n) x = evalModel c (.cvt x.digits x.exp (.shrI n (.lit x))) :=
  ⟨rfl, rfl, rfl, rfl⟩

/-- repaired finding `C11.shl_to_minus_two_pow_digits_not_flagged`: **as found** (`shiftRTOrig`, negative test
`isOverflowShlNegOrig`), `static_integer<31, nearest, saturated>{−2} << 30` returned `−2^31`, outside the declared
`±(2^31 − 1)`, with no signal under any tag (likewise 7, 63 and 100 digits); the repaired operator saturates / signals -/
theorem shl_as_found_refuted :
    shiftRTOrig ⟨.nrst, .sat⟩ .shl ⟨31, 0, -2⟩ 30 = .ok ⟨31, 0, -2147483648⟩ ∧
    ¬ (⟨31, 0, -2147483648⟩ : SNum).InRange ∧
    shiftRTOrig ⟨.nrst, .thr⟩ .shl ⟨31, 0, -2⟩ 30 = .ok ⟨31, 0, -2147483648⟩ ∧
    shiftRTOrig ⟨.ninf, .trp⟩ .shl ⟨7, -3, -16⟩ 3 = .ok ⟨7, -3, -128⟩ ∧
    shiftRTOrig ⟨.tpi, .sat⟩ .shl ⟨63, 0, -1⟩ 63 = .ok ⟨63, 0, -9223372036854775807⟩ ∧
    shiftRTOrig ⟨.nat, .sat⟩ .shl ⟨63, 0, -4611686018427387904⟩ 1 = .ok ⟨63, 0, -9223372036854775808⟩ ∧
    shiftRTOrig ⟨.nrst, .und⟩ .shl ⟨100, 0, -1125899906842624⟩ 50 = .ok ⟨100, 0, -1267650600228229401496703205376⟩ ∧
    shiftRT ⟨.nrst, .sat⟩ .shl ⟨31, 0, -2⟩ 30 = .ok ⟨31, 0, -2147483647⟩ ∧
    shiftRT ⟨.nrst, .thr⟩ .shl ⟨31, 0, -2⟩ 30 = .throws false ∧
    shiftRT ⟨.ninf, .trp⟩ .shl ⟨7, -3, -16⟩ 3 = .trap false := by decide +kernel

-- non-vacuity: counts around the digit count and the storage width, both polarities, every tag
example : shiftRT ⟨.nrst, .sat⟩ .shl ⟨31, 0, 1⟩ 30 = .ok ⟨31, 0, 1073741824⟩ ∧
    shiftRT ⟨.nrst, .sat⟩ .shl ⟨31, 0, 1⟩ 31 = .ok ⟨31, 0, 2147483647⟩ ∧
    shiftRT ⟨.nrst, .sat⟩ .shl ⟨31, 0, -1⟩ 31 = .ok ⟨31, 0, -2147483647⟩ ∧
    shiftRT ⟨.nrst, .thr⟩ .shl ⟨31, 0, -1⟩ 30 = .ok ⟨31, 0, -1073741824⟩ ∧
    shiftRT ⟨.nrst, .thr⟩ .shl ⟨31, 0, 3⟩ 30 = .throws true ∧
    shiftRT ⟨.tpi, .trp⟩ .shl ⟨10, -4, -1023⟩ 1 = .trap false ∧
    shiftRT ⟨.tpi, .und⟩ .shl ⟨10, -4, 512⟩ 1 = .unreachable "positive overflow" ∧
    shiftRT ⟨.nrst, .sat⟩ .shl ⟨31, 0, 0⟩ 2147483647 = .ok ⟨31, 0, 0⟩ ∧
    shiftRT ⟨.nrst, .sat⟩ .shl ⟨31, 0, 5⟩ 1000 = .ok ⟨31, 0, 2147483647⟩ ∧
    shiftRT ⟨.ninf, .thr⟩ .shr ⟨31, 0, -2147483647⟩ 31 = .ok ⟨31, 0, -1⟩ ∧
    shiftRT ⟨.ninf, .thr⟩ .shr ⟨31, 0, -2147483647⟩ 64 = .ok ⟨31, 0, -1⟩ ∧
    shiftRT ⟨.nrst, .thr⟩ .shr ⟨40, -8, -1099511627775⟩ 3 = .ok ⟨40, -8, -137438953472⟩ ∧
    shiftRT ⟨.nrst, .sat⟩ .shl ⟨64, 0, -9223372036854775808⟩ 1 = .ok ⟨64, 0, -18446744073709551615⟩ ∧
    shiftConstInt ⟨.nrst, .thr⟩ .shl ⟨31, 0, -2147483647⟩ 33 = .ok ⟨64, 0, -18446744065119617024⟩ ∧
    shiftConstInt ⟨.nrst, .thr⟩ .shr ⟨31, 0, 2147483647⟩ 30 = .ok ⟨1, 0, 1⟩ := by decide +kernel
example : (⟨31, 0, -2⟩ : SNum).InRange ∧ (∀ m, shiftRT ⟨.nrst, .sat⟩ .shl ⟨31, 0, -2⟩ 30 ≠ .ill m) := by
  refine ⟨by decide, fun m h => ?_⟩
  have e : shiftRT ⟨.nrst, .sat⟩ .shl ⟨31, 0, -2⟩ 30 = .ok ⟨31, 0, -2147483647⟩ := by decide +kernel
  rw [e] at h; cases h
-- a history with shifts: ((x << 3) >> constant-moved exponent) narrowed; compound assignment under saturation
example : evalModel ⟨.nrst, .sat⟩ (.cvt 10 (-4) (.shl 10 3 (.lit ⟨10, -4, -1000⟩))) = .ok ⟨10, -4, -1023⟩ ∧
    evalIdeal ⟨.nrst, .sat⟩ (.cvt 10 (-4) (.shl 10 3 (.lit ⟨10, -4, -1000⟩))) = .val (-4) (-1023) ∧
    SideOK ⟨.nrst, .sat⟩ (.cvt 10 (-4) (.shl 10 3 (.lit ⟨10, -4, -1000⟩))) := by decide
example : evalModel ⟨.tpi, .thr⟩ (.add (.shlN 2 (.lit ⟨8, -3, 100⟩)) (.shr 2 (.shlI 4 (.lit ⟨6, 0, -63⟩)))) = .ok ⟨12, -1, -404⟩ ∧
    evalIdeal ⟨.tpi, .thr⟩ (.add (.shlN 2 (.lit ⟨8, -3, 100⟩)) (.shr 2 (.shlI 4 (.lit ⟨6, 0, -63⟩)))) = .val (-1) (-404) ∧
    SideOK ⟨.tpi, .thr⟩ (.add (.shlN 2 (.lit ⟨8, -3, 100⟩)) (.shr 2 (.shlI 4 (.lit ⟨6, 0, -63⟩)))) := by decide
example : evalModel ⟨.nrst, .trp⟩ (.mul (.lit ⟨4, 0, 3⟩) (.shl 31 30 (.lit ⟨31, 0, -2⟩))) = .trap false ∧
    evalIdeal ⟨.nrst, .trp⟩ (.mul (.lit ⟨4, 0, 3⟩) (.shl 31 30 (.lit ⟨31, 0, -2⟩))) = .signal false := by decide +kernel


/-! ## 7. every narrowest type, multi-word storage, built-in operands

`TNum` = a static number together with the narrowest type of its instantiation; `TNum.InRange` = the range the type
declares (`[−(2^D − 1), 2^D − 1]`, non-negative under an unsigned narrowest type).  `exactBinT` = the demanded result:
value and exponent of `exactBin`, the digits of the elastic policy, the result narrowest type `resN`.
The storage of `D` digits over the narrowest type `N` is `Static.storage N D`; everything below holds for whatever it
returns, because the proofs use only `storage_twos_complement` — which is what property C10 establishes of the
multi-word `wide_integer` (`storage_multiword_is_C10_format` identifies the format). -/

/-- the storage rule returns a two's-complement type of the narrowest type's signedness with at least the requested
digits (and at least those of the narrowest type) — the built-in integer `set_digits` selects, or the multi-word one -/
theorem storage_twos_complement {n : IntTy} {d : Nat} {t : IntTy} (h : Static.storage n d = some t) :
    t.signed = n.signed ∧ max n.digits d ≤ t.digits ∧ 8 ≤ t.bits := Static.storage_spec h

/-- up to the widest built-in integer it is the storage of C05's elastic_integer … -/
theorem storage_builtin {n : IntTy} {d : Nat} {t : IntTy} (h : Elastic.repTy d n = some t) :
    Static.storage n d = some t := Static.storage_builtin h

/-- … beyond it, it is the `N`-bit two's-complement integer, `N` = limb width × limb count, of the format
`Wide.storage` assigns to `wide_integer<digits, Narrowest>` — the object of property C10 -/
theorem storage_multiword_is_C10_format (n : IntTy) (d : Nat) (h : Elastic.repTy d n = none) (hb : n.bits ≠ 0) :
    ∃ f : Wide.Fmt, Wide.storage (max n.digits d) n = .multi f ∧ f.w = n.bits ∧ f.signed = n.signed ∧
      Static.storage n d = some ⟨f.N, f.signed⟩ := by
  refine ⟨⟨n.bits, (max n.digits d + (if n.signed then 1 else 0) + n.bits - 1) / n.bits, n.signed⟩, ?_, rfl, rfl,
    Static.storage_multiword h hb⟩
  have hgt : max n.digits d > Wide.maxDigits n := by
    have h' : Elastic.setDigits n.signed (max n.digits d) = none := h
    unfold Wide.maxDigits
    cases hs : n.signed <;> simp only [hs, Elastic.setDigits, Bool.false_eq_true, ite_false, ite_true] at h' ⊢ <;>
      (repeat' split at h') <;> first | omega | (exact absurd h' (by simp))
  simp only [Wide.storage, hgt, ite_true]

-- 128 digits over `int`: five 32-bit limbs (129 bits needed), 160 bits; over `signed char`: 17 limbs, 136 bits;
-- 128 unsigned digits fit the widest built-in; 129 do not
example : Static.storage i32 128 = some ⟨160, true⟩ ∧ Static.storage i8 128 = some ⟨136, true⟩ ∧
    Static.storage u32 128 = some u128 ∧ Static.storage u32 129 = some ⟨160, false⟩ ∧
    Static.storage i32 192 = some ⟨224, true⟩ ∧ Static.storage i64 128 = some ⟨192, true⟩ ∧
    Static.storage i32 127 = some i128 ∧ Static.storage u8 3 = some u8 := by decide

/-- **`+ − *` for every narrowest type and digit count**: in-range operands of a well-formed instantiation give — no
signal, no undefined behaviour — the exact result at the smaller exponent (`*`: the sum), in the digits the policy
declares, in range of them (non-negative when both narrowest types are unsigned and the operator is not `−`) -/
theorem binOp_exact_typed (c : Cfg) (op : BinOp) (hop : op = .add ∨ op = .sub ∨ op = .mul) (s t : TNum)
    (hs : s.InRange) (ht : t.InRange) (hwf : ∀ m, binOpT c op s t ≠ .ill m) :
    binOpT c op s t = .ok (exactBinT (rmode c.mode) op s t) ∧ (exactBinT (rmode c.mode) op s t).InRange := by
  rcases hop with h | h | h <;> subst h
  · rcases binOpT_add_spec c s t hs ht with h | ⟨m, h⟩
    · exact h
    · exact absurd h (hwf m)
  · rcases binOpT_sub_spec c s t hs ht with h | ⟨m, h⟩
    · exact h
    · exact absurd h (hwf m)
  · rcases binOpT_mul_spec c s t hs ht with h | ⟨m, h⟩
    · exact h
    · exact absurd h (hwf m)

/-- **`/` for every narrowest type and digit count**: the quotient rounded as the rounding tag prescribes, in the
dividend's digits, in range -/
theorem div_rounded_typed (c : Cfg) (s t : TNum) (hs : s.InRange) (ht : t.InRange) (h0 : t.x.value ≠ 0)
    (hwf : ∀ m, binOpT c .div s t ≠ .ill m) :
    binOpT c .div s t = .ok ⟨resN .div s.n t.n, ⟨s.x.digits, s.x.exp - t.x.exp, roundDiv (rmode c.mode) s.x.value t.x.value⟩⟩ ∧
      (exactBinT (rmode c.mode) .div s t).InRange := by
  rcases binOpT_div_spec c s t hs ht h0 with h | ⟨m, h⟩
  · exact ⟨h.1, h.2⟩
  · exact absurd h (hwf m)

/-- **`%` (and the operator of `%=`) for every pair of narrowest types and digit counts**: in-range operands of a
well-formed instantiation with a non-zero divisor give — no signal, no undefined behaviour — the exact remainder of
the truncating division (the sign of the dividend) at the dividend's exponent, in `min` of the two digit counts, signed
when either narrowest type is, in range.  In particular an unsigned-narrowest dividend against a negative divisor of a
signed narrowest type: the remainder is `a tmod b`, never `a` itself -/
theorem rem_exact_typed (c : Cfg) (s t : TNum) (hs : s.InRange) (ht : t.InRange) (h0 : t.x.value ≠ 0)
    (hwf : ∀ m, remT c s t ≠ .ill m) :
    remT c s t = .ok ⟨resN .mod s.n t.n, ⟨min s.x.digits t.x.digits, s.x.exp, s.x.value.tmod t.x.value⟩⟩ ∧
      (⟨resN .mod s.n t.n, ⟨min s.x.digits t.x.digits, s.x.exp, s.x.value.tmod t.x.value⟩⟩ : TNum).InRange := by
  have hb : remT c s t = (elBin (repOp c) .mod s.toE t.toE >>= fun z => .ok (ofE z s.x.exp)) := rfl
  rcases Static.elBin_mod c s.toE t.toE hs ht h0 with ⟨h, hf⟩ | ⟨m, h⟩
  · rw [hb, h]
    exact ⟨rfl, hf⟩
  · exact absurd (by rw [hb, h]; rfl) (hwf m)

/-- non-vacuity, and the instance of the seeded change `C11-13`: `static_integer<8, unsigned>{200} % static_integer<4>{-7}`
is `4` in a signed 4-digit static_integer (not `200`) -/
example : remT ⟨.nrst, .thr⟩ ⟨u32, ⟨8, 0, 200⟩⟩ ⟨i32, ⟨4, 0, -7⟩⟩ = .ok ⟨i32, ⟨4, 0, 4⟩⟩ := by decide

/-- **`%` with a built-in operand** on either side: the exact remainder, whatever the two exponents -/
theorem mixed_rem_exact (c : Cfg) (n : IntTy) (s t : Opnd) (hs : s.OK) (ht : t.OK) (h0 : t.value ≠ 0)
    (hwf : ∀ m, remO c n s t ≠ .ill m) :
    remO c n s t = .ok ⟨resN .mod (s.raw n).n (t.raw n).n,
        ⟨min (s.raw n).x.digits (t.raw n).x.digits, s.exp, s.value.tmod t.value⟩⟩ := by
  have h := (rem_exact_typed c _ _ (Opnd.raw_inRange n hs) (Opnd.raw_inRange n ht)
    (by rw [Opnd.raw_value]; exact h0) hwf).1
  rw [Opnd.raw_exp, Opnd.raw_value, Opnd.raw_value] at h
  exact h

example : remO ⟨.nrst, .thr⟩ u32 (.stat ⟨u32, ⟨8, 0, 255⟩⟩) (.builtin i32 (-2)) = .ok ⟨i32, ⟨8, 0, 1⟩⟩ := by decide

/-- **unary minus**: exact, same digits, in the signed narrowest type of the same width -/
theorem neg_exact_typed (t : TNum) (ht : t.InRange) (hwf : ∀ m, negT t ≠ .ill m) :
    negT t = .ok ⟨⟨t.n.bits, true⟩, ⟨t.x.digits, t.x.exp, -t.x.value⟩⟩ ∧
      (⟨⟨t.n.bits, true⟩, ⟨t.x.digits, t.x.exp, -t.x.value⟩⟩ : TNum).InRange := by
  rcases negT_spec t ht with h | ⟨m, h⟩
  · exact h
  · exact absurd h (hwf m)

/-- **comparisons** of operands of any (also different) narrowest signedness: by value at the smaller exponent -/
theorem cmp_exact_typed (op : CmpOp) (s t : TNum) (hs : s.InRange) (ht : t.InRange) (hwf : ∀ m, cmpT op s t ≠ .ill m) :
    cmpT op s t = .ok (cmpExact op (alignL s.x.exp t.x.exp s.x.value) (alignR s.x.exp t.x.exp t.x.value)) := by
  rcases cmpT_spec op s t hs ht with h | ⟨m, h⟩
  · exact h
  · exact absurd h (hwf m)

/-- **conversion / assignment to `static_number<D, E, R, O, N>`** from any narrowest type, outside the two open
classes and for a source that is non-negative when `N` is unsigned: the rescaled (rounded) value if it fits `D` digits
of `N`'s signedness, else the tag's reaction of the right polarity (saturation to `2^D − 1` / `−(2^D − 1)` / `0`) -/
theorem convert_exact_or_signal_typed (c : Cfg) (N : IntTy) (D : Nat) (E : Int) (t : TNum) (ht : t.InRange)
    (hneg : N.signed = false → 0 ≤ t.x.value) (hnd : ¬ KnownDefect c E t.x) (hwf : ∀ m, convertT c N D E t ≠ .ill m) :
    convertT c N D E t = (narrowTo c N.signed D (rescale (rmode c.mode) E t.x.exp t.x.value) >>= fun v =>
        .ok ⟨N, ⟨D, E, v⟩⟩) ∧
      ∀ z, convertT c N D E t = .ok z → z.InRange := by
  rcases convertT_core c N D E t ht hneg hnd with h | ⟨m, h⟩
  · refine ⟨h, fun z hz => ?_⟩
    rw [h] at hz
    cases hv : narrowTo c N.signed D (rescale (rmode c.mode) E t.x.exp t.x.value) with
    | ok w =>
      rw [hv] at hz; simp only [Res.bind_ok] at hz; cases hz
      exact narrowTo_inRange c N.signed D _ w hv
    | _ => rw [hv] at hz; cases hz
  · exact absurd h (hwf m)

/-- the overflow-checked narrowing, spelled out: the value itself when it fits; else the tag's reaction -/
theorem narrowTo_fits (c : Cfg) (sg : Bool) (D : Nat) {v : Int} (h : Fits D sg v) : narrowTo c sg D v = .ok v :=
  Static.narrowTo_fits c sg D h

/-- the hypothesis `hneg` is needed: `from_value` converts the source into the destination's narrowest type *before*
the rescaling, so `−0.25` assigned to an unsigned-narrowest `static_number<6, 0>` under the nearest rounding tag is
flagged (a spurious signal under the throwing tag — not a silent error — and `0`, the correct value, under
saturation) although it rounds to `0` -/
theorem convert_negative_to_unsigned_flagged_first :
    convertT ⟨.nrst, .thr⟩ u32 6 0 ⟨i32, ⟨13, -2, -1⟩⟩ = .throws false ∧
    rescale (rmode .nrst) 0 (-2) (-1) = 0 ∧
    convertT ⟨.nrst, .sat⟩ u32 6 0 ⟨i32, ⟨13, -2, -1⟩⟩ = .ok ⟨u32, ⟨6, 0, 0⟩⟩ := by decide

-- non-vacuity: unsigned and narrow narrowest types, multi-word results reached from narrower operands
example : binOpT ⟨.nrst, .thr⟩ .sub ⟨u32, ⟨8, 0, 5⟩⟩ ⟨u32, ⟨8, 0, 7⟩⟩ = .ok ⟨i32, ⟨8, 0, -2⟩⟩ ∧
    binOpT ⟨.nrst, .thr⟩ .add ⟨u8, ⟨4, 0, 5⟩⟩ ⟨u8, ⟨6, 0, 3⟩⟩ = .ok ⟨u8, ⟨7, 0, 8⟩⟩ ∧
    binOpT ⟨.tpi, .sat⟩ .div ⟨u8, ⟨8, -2, 21⟩⟩ ⟨u8, ⟨8, 1, 8⟩⟩ = .ok ⟨u8, ⟨8, -3, 3⟩⟩ ∧
    negT ⟨u16, ⟨16, 0, 65535⟩⟩ = .ok ⟨i16, ⟨16, 0, -65535⟩⟩ ∧
    cmpT .lt ⟨i32, ⟨8, 0, -1⟩⟩ ⟨u32, ⟨32, 0, 4294967295⟩⟩ = .ok true := by decide
-- `static_integer<64>{2^64 − 1}` squared is the exact `static_integer<128>` (five 32-bit limbs), its cube has 192 digits
example : binOpT ⟨.nrst, .thr⟩ .mul ⟨i32, ⟨64, 0, 18446744073709551615⟩⟩ ⟨i32, ⟨64, 0, 18446744073709551615⟩⟩
      = .ok ⟨i32, ⟨128, 0, 340282366920938463426481119284349108225⟩⟩ ∧
    binOpT ⟨.nrst, .thr⟩ .mul ⟨i32, ⟨128, 0, 340282366920938463426481119284349108225⟩⟩ ⟨i32, ⟨64, 0, -18446744073709551615⟩⟩
      = .ok ⟨i32, ⟨192, 0, -6277101735386680762814942322444851025767571854389858533375⟩⟩ ∧
    binOpT ⟨.nrst, .thr⟩ .div ⟨i32, ⟨128, 0, 340282366920938463426481119284349108225⟩⟩ ⟨i32, ⟨64, 0, 18446744073709551615⟩⟩
      = .ok ⟨i32, ⟨128, 0, 18446744073709551615⟩⟩ ∧
    cmpT .gt ⟨i32, ⟨128, 0, 340282366920938463426481119284349108225⟩⟩ ⟨i32, ⟨64, 0, 18446744073709551615⟩⟩ = .ok true := by
  decide
example : (⟨u32, ⟨8, 0, 5⟩⟩ : TNum).InRange ∧ ¬ (⟨u32, ⟨8, 0, -5⟩⟩ : TNum).InRange ∧
    (∀ m, binOpT ⟨.nrst, .thr⟩ .sub ⟨u32, ⟨8, 0, 5⟩⟩ ⟨u32, ⟨8, 0, 7⟩⟩ ≠ .ill m) := by
  refine ⟨by decide, by decide, fun m h => ?_⟩
  have e : binOpT ⟨.nrst, .thr⟩ .sub ⟨u32, ⟨8, 0, 5⟩⟩ ⟨u32, ⟨8, 0, 7⟩⟩ = .ok ⟨i32, ⟨8, 0, -2⟩⟩ := by decide
  rw [e] at h; cases h

/-! ### a static number combined with a built-in integer

`from_value` turns the built-in operand `T` into `elastic_integer<digits T, set_width_t<T, width N>>` (`Opnd.raw`):
its own signedness, at the width of the static operand's narrowest type.  `Opnd.OK`: a static operand is in range, a
built-in operand is any value of its type except the most negative one of a signed type. -/

/-- **`+ −` with a built-in operand on either side, equal exponents** (a bare static_integer): the exact sum /
difference, whatever the signedness of the built-in operand and of the narrowest type -/
theorem mixed_addsub_exact (c : Cfg) (n : IntTy) (op : BinOp) (hop : op = .add ∨ op = .sub) (s t : Opnd)
    (hs : s.OK) (ht : t.OK) (he : s.exp = t.exp) (hwf : ∀ m, binOpO c n op s t ≠ .ill m) :
    binOpO c n op s t = .ok (exactBinT (rmode c.mode) op (s.raw n) (t.raw n)) ∧
      (exactBinT (rmode c.mode) op (s.raw n) (t.raw n)).InRange := by
  rw [binOpO_addsub_same_exp c n op hop s t he] at hwf ⊢
  exact binOp_exact_typed c op (by rcases hop with h | h <;> simp [h]) _ _ (Opnd.raw_inRange n hs) (Opnd.raw_inRange n ht) hwf

/-- **`+ −` with a built-in operand, different exponents** (a static_number): exact at the smaller exponent and in
range, **provided the scaling of the built-in operand fits its own promoted type** (`Opnd.ScaleFits`) -/
theorem mixed_addsub_aligned_exact (c : Cfg) (n : IntTy) (op : BinOp) (hop : op = .add ∨ op = .sub) (s t : Opnd)
    (hs : s.OK) (ht : t.OK) (he : s.exp ≠ t.exp)
    (hfs : s.ScaleFits (s.exp - min s.exp t.exp).toNat) (hft : t.ScaleFits (t.exp - min s.exp t.exp).toNat)
    (hwf : ∀ m, binOpO c n op s t ≠ .ill m) :
    ∃ z, binOpO c n op s t = .ok z ∧ z.InRange ∧ z.x.exp = min s.exp t.exp ∧
      z.x.value = (if op = .add then s.value * 2^(s.exp - min s.exp t.exp).toNat + t.value * 2^(t.exp - min s.exp t.exp).toNat
                   else s.value * 2^(s.exp - min s.exp t.exp).toNat - t.value * 2^(t.exp - min s.exp t.exp).toNat) := by
  rcases binOpO_addsub_aligned c n op hop s t hs ht he hfs hft with h | ⟨m, h⟩
  · exact h
  · exact absurd h (hwf m)

/-- **`*` with a built-in operand** (operands of at least two digits: the overflow layer's digit test is then
false): the exact product -/
theorem mixed_mul_exact (c : Cfg) (n : IntTy) (s t : Opnd) (hs : s.OK) (ht : t.OK)
    (h1 : 2 ≤ (s.raw n).x.digits) (h2 : 2 ≤ (t.raw n).x.digits) (hwf : ∀ m, binOpO c n .mul s t ≠ .ill m) :
    binOpO c n .mul s t = .ok (exactBinT (rmode c.mode) .mul (s.raw n) (t.raw n)) ∧
      (exactBinT (rmode c.mode) .mul (s.raw n) (t.raw n)).InRange := by
  rw [binOpO_mul_eq c n s t h1 h2] at hwf ⊢
  exact binOp_exact_typed c .mul (.inr (.inr rfl)) _ _ (Opnd.raw_inRange n hs) (Opnd.raw_inRange n ht) hwf

/-- **`/` with a built-in operand**: the correctly rounded quotient, outside the one input the overflow layer flags
although the quotient fits (`mixed_div_spurious_signal`) -/
theorem mixed_div_rounded (c : Cfg) (n : IntTy) (s t : Opnd) (hs : s.OK) (ht : t.OK) (h0 : t.value ≠ 0)
    (hsp : ¬ (s.isBuiltinSigned = true ∧ (t.raw n).x.value = -1 ∧ (s.raw n).x.value = -(2^(s.raw n).x.digits - 1 : Int)))
    (hwf : ∀ m, binOpO c n .div s t ≠ .ill m) :
    binOpO c n .div s t = .ok ⟨resN .div (s.raw n).n (t.raw n).n,
        ⟨(s.raw n).x.digits, s.exp - t.exp, roundDiv (rmode c.mode) s.value t.value⟩⟩ := by
  rw [binOpO_div_eq c n s t hsp] at hwf ⊢
  have h := (div_rounded_typed c _ _ (Opnd.raw_inRange n hs) (Opnd.raw_inRange n ht)
    (by rw [Opnd.raw_value]; exact h0) hwf).1
  rw [h, Opnd.raw_exp, Opnd.raw_exp, Opnd.raw_value, Opnd.raw_value]

/-- **comparisons with a built-in operand** on either side, equal exponents: by value — in particular a negative
built-in value is below every value of an unsigned-narrowest static number -/
theorem mixed_cmp_exact (n : IntTy) (op : CmpOp) (s t : Opnd) (hs : s.OK) (ht : t.OK) (he : s.exp = t.exp)
    (hwf : ∀ m, cmpO n op s t ≠ .ill m) : cmpO n op s t = .ok (cmpExact op s.value t.value) := by
  rcases cmpO_same_exp n op s t hs ht he with h | ⟨m, h⟩
  · exact h
  · exact absurd h (hwf m)

-- `static_integer<8, nearest, throwing, unsigned>{5}` against negative `int`s, on either side
example : cmpO u32 .gt (.stat ⟨u32, ⟨8, 0, 5⟩⟩) (.builtin i32 (-1)) = .ok true ∧
    cmpO u32 .lt (.builtin i32 (-1)) (.stat ⟨u32, ⟨8, 0, 5⟩⟩) = .ok true ∧
    binOpO ⟨.nrst, .thr⟩ u32 .add (.stat ⟨u32, ⟨8, 0, 5⟩⟩) (.builtin i32 (-7)) = .ok ⟨i32, ⟨32, 0, -2⟩⟩ ∧
    binOpO ⟨.nrst, .thr⟩ u32 .mul (.builtin i32 (-3)) (.stat ⟨u32, ⟨8, 0, 5⟩⟩) = .ok ⟨i32, ⟨39, 0, -15⟩⟩ ∧
    binOpO ⟨.nrst, .thr⟩ u32 .div (.builtin i32 (-20)) (.stat ⟨u32, ⟨8, 0, 5⟩⟩) = .ok ⟨i32, ⟨31, 0, -4⟩⟩ ∧
    binOpO ⟨.nrst, .thr⟩ u32 .add (.stat ⟨u32, ⟨8, -2, 21⟩⟩) (.builtin i32 (-7)) = .ok ⟨i32, ⟨32, -2, -7⟩⟩ ∧
    binOpO ⟨.nrst, .thr⟩ u8 .sub (.stat ⟨u8, ⟨4, 0, 5⟩⟩) (.builtin i64 7) = .ok ⟨i8, ⟨64, 0, -2⟩⟩ := by decide
example : (Opnd.builtin i32 (-7)).OK ∧ (Opnd.stat ⟨u32, ⟨8, 0, 5⟩⟩).OK ∧ ¬ (Opnd.builtin i32 (-2147483648)).OK ∧
    (Opnd.builtin i32 (-7)).ScaleFits 2 ∧ ¬ (Opnd.builtin i32 1073741824).ScaleFits 2 := by decide

/-- open finding `C11.builtin_operand_scaled_in_its_own_type`: the hypothesis `ScaleFits` is needed.  Against a
static_number with a negative exponent the scaled layer multiplies the built-in operand by `2^−E` in the operand's
own type: `static_number<8, −2>{5.25} + 0x40000000` executes a signed `int` overflow (the optimised program returns
`5.25`), `… < 0x40000000` likewise, and with an `unsigned` operand `0xC0000000u` the product wraps **silently**: the
sum is `5.25`, in range, no signal under any tag. -/
theorem builtin_operand_scaled_in_its_own_type_refuted :
    binOpO ⟨.nrst, .thr⟩ i32 .add (.stat ⟨i32, ⟨8, -2, 21⟩⟩) (.builtin i32 1073741824) = .ub .signedOverflow ∧
    cmpO i32 .lt (.stat ⟨i32, ⟨8, -2, 21⟩⟩) (.builtin i32 1073741824) = .ub .signedOverflow ∧
    binOpO ⟨.nrst, .thr⟩ u32 .add (.stat ⟨u32, ⟨8, -2, 21⟩⟩) (.builtin u32 3221225472) = .ok ⟨u32, ⟨33, -2, 21⟩⟩ ∧
    (21 : Int) ≠ 21 + 3221225472 * 2^2 := by decide

/-- open finding `C11.builtin_operand_most_negative`: the hypothesis `Opnd.OK` (not the most negative value) is
needed.  `from_value` gives `int` the 31-digit symmetric range, which does not hold `INT_MIN`:
`INT_MIN / static_integer<8>{−1}` executes the undefined built-in division (no overflow test fires: the layer
compares with the *symmetric* lowest), and `static_integer<1, neg_inf, trapping, signed char>{−1} * (signed char)−128`
returns `−128` silently — the overflow test divides the limit by the operand under the rounding tag. -/
theorem builtin_operand_most_negative_refuted :
    binOpO ⟨.nrst, .thr⟩ i32 .div (.builtin i32 (-2147483648)) (.stat ⟨i32, ⟨8, 0, -1⟩⟩) = .ub .divOverflow ∧
    binOpO ⟨.ninf, .trp⟩ i8 .mul (.stat ⟨i8, ⟨1, -1, -1⟩⟩) (.builtin i8 (-128)) = .ok ⟨i8, ⟨7, -1, -128⟩⟩ ∧
    ¬ (⟨i8, ⟨7, -1, -128⟩⟩ : TNum).InRange ∧ (-128 : Int) ≠ (-1) * (-128) := by decide

/-- the hypothesis `hsp` of `mixed_div_rounded` is needed: `−2147483647 / static_integer<8>{−1}` is flagged (the
overflow layer compares the built-in dividend with the symmetric lowest of the result type) although the quotient
`2147483647` fits — a spurious signal, not a silent error; under saturation the reaction is the correct value -/
theorem mixed_div_spurious_signal :
    binOpO ⟨.nrst, .thr⟩ i32 .div (.builtin i32 (-2147483647)) (.stat ⟨i32, ⟨8, 0, -1⟩⟩) = .throws true ∧
    binOpO ⟨.nrst, .sat⟩ i32 .div (.builtin i32 (-2147483647)) (.stat ⟨i32, ⟨8, 0, -1⟩⟩) = .ok ⟨i32, ⟨31, 0, 2147483647⟩⟩ := by
  decide

/-! ## construction from floating point: the overflow test against the declared limits

`static_number<D, E>{x}` scales `x` by `2^-E` in the floating type and tests the scaled value `q` against
the limits `±(2^D − 1)` of the `elastic_integer<D>` underneath (`Overflow.DestLimits.elastic D`) before the
rounding conversion of C09 stores it (`C11 fcvt` lines of the correspondence table).  `RealGt`/`RealLt`
compare the real number `(-1)^s · m · 2^e` with an integer (`CnlProofs/OverflowFloat.lean`). -/

/-- For every floating format, every digit count `D` with `2^D` finite in it, and every finite scaled
operand: the repaired test signals **iff the real value is outside the declared range** `±(2^D − 1)` —
so nothing above `2^D − 1` reaches the rounding conversion (which before the repair stored `2^D`, or ran
an out-of-range cast, for values in `(2^D − 1, float(2^D − 1)]`). -/
theorem float_construct_flag_iff (f : Fmt) (hf : FloatP.FmtOk f) (D : Nat) (hmax : (D : Int) ≤ f.emax)
    (s : Bool) (m : Nat) (e : Int) (hm : m < 2^f.prec) :
    Overflow.isOverflowConvertFloat f (.elastic D) true (.fin s m e) = decide (Overflow.RealGt s m e (2^D - 1)) ∧
    Overflow.isOverflowConvertFloat f (.elastic D) false (.fin s m e) = decide (Overflow.RealLt s m e (-(2^D - 1))) :=
  ⟨Overflow.flag_pos_iff f hf _ (Overflow.goodDest_elastic D) hmax s m e hm,
   Overflow.flag_neg_iff f hf _ (Overflow.goodDest_elastic D) hmax s m e hm⟩

example : Overflow.isOverflowConvertFloat binary32 (.elastic 31) true (.fin false 8388608 8) = true ∧
    Overflow.isOverflowConvertFloat binary32 (.elastic 31) false (.fin true 8388608 8) = true ∧
    Overflow.isOverflowConvertFloat binary32 (.elastic 31) true (.fin false 16777215 7) = false ∧
    Overflow.isOverflowConvertFloat binary64 (.elastic 5) true (.fin false 8866461766385664 (-48)) = true := by
  decide +kernel

/-- repaired finding `C11.float_at_limit_not_flagged`: **as found** (`isOverflowConvertFloatOrig`) neither
`float 2^31` nor `float -2^31` was flagged for 31 declared digits although both are outside `±(2^31 − 1)` -/
theorem float_at_limit_refuted :
    Overflow.isOverflowConvertFloatOrig binary32 (.elastic 31) true (.fin false 8388608 8) = false ∧
    Overflow.RealGt false 8388608 8 (2^31 - 1) ∧
    Overflow.isOverflowConvertFloatOrig binary32 (.elastic 31) false (.fin true 8388608 8) = false ∧
    Overflow.RealLt true 8388608 8 (-(2^31 - 1)) := by decide +kernel

end Cnl.C11
