import CnlModel.Overflow
