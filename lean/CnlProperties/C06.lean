import CnlProofs.Overflow
import CnlProofs.OverflowFloat
/-!
# C06 — overflow is detected exactly, and handled as the overflow tag specifies

Theorems about the executable model `CnlModel/Overflow.lean` (a predicate-by-predicate
transcription of `overflow/{is_overflow,builtin_overflow,custom_operator,saturated,throwing,trapping}.h`
on top of the C semantics core `CnlModel/CInt.lean`; tied to the real code on both detection paths
and both compilers by the `C06`/`C07` correspondence tables).  The specification is
`Spec.checkedWant tag T e` (`CnlSpec/Overflow.lean`): decided by the exact result `e` alone.

All theorems hold for **every integer width** (`IntTy` with `1 ≤ bits`; no case split over the ten
built-in types), every in-range operand value, and every reacting tag (`tag ≠ .nat`:
saturated, throwing, trapping, and also `undefined`).

* `neg_correct`, `convert_correct`      unary minus (judged in the promoted type) and integer
                                        conversion between any two types.
* `wrapper_convert_correct`, `wrapper_convert_negative_to_unsigned`   an overflow_integer converted AS A NUMBER
                                        (converting constructor from a related or unrelated wrapper or a built-in,
                                        assignment, argument passing, conversion operator to a built-in:
                                        `wrapperConvert`): the tagged conversion of the representation, for any source
                                        width (elastic sources have widths no built-in has); a negative value never
                                        reaches an unsigned destination, however many digits the destination has.
* `radix_scale_correct`                 `scaled_integer<S, power<0, r>>` → `scaled_integer<overflow_integer<D, tag>,
                                        power<-k, r'>>` (different radixes, intrinsic path, source at least `int` wide):
                                        the multiplication by `r'^k` and the conversion to `D` each react as the tag
                                        prescribes for the exact value.  The other shapes of the radix-changing
                                        conversion (source exponent ≠ 0, dividing stages, narrow sources, portable path:
                                        `radixConvert` in general) are covered by the `sxr` correspondence lines and their
                                        stage-by-stage oracle only.
* (`ccvt` / `wcvt cw` lines)             a `cnl::constant<V>` source of the tagged convert functor and of the
                                        overflow_integer constructor is the conversion of a run-time value of type
                                        `decltype(V)`: `convert_correct` / `wrapper_convert_correct` apply; that the
                                        constant overload dispatches on `decltype(V)` is covered by correspondence only.
* `builtin_arith_correct`               `+ - *` on the intrinsic path, **any** signedness and width mix.
* `div_correct`                         `/` on both paths, operands of one signedness, divisor ≠ 0.
* `shl_correct`                         `<<` on both paths, every count ≥ 0 (no excluded class since the
                                        repairs of `shl_zero_by_wide_count` and `shl_minus_one_to_lowest`).
* `convert_float_flag_iff`, `convert_float_correct`   floating-point sources (section 6): for every
                                        format, destination type and finite operand the test fires iff the
                                        REAL value is outside `[lowest, max]`; otherwise truncation.
* `portable_arith_correct`              `+ - *` on the portable path, operands of one signedness;
  `portable_arith_correct_value_preserving` the same whenever the common type holds both operand
  types' values (also covers e.g. `uint16 + int32`, `uint32 * int64`).
* refutations from concrete witnesses: of the open findings `C06.portable_mixed_signedness`,
  `C06.div_mixed_signedness` (`portable_mixed_refuted`, `div_mixed_refuted`), and of the **as-found**
  definitions of the repaired findings `C06.shl_zero_by_wide_count`, `C06.shl_minus_one_to_lowest`,
  `C06.float_at_limit_not_flagged` (`shl_zero_wide_refuted`, `shl_minus_one_refuted`,
  `float_at_limit_refuted`; the as-found operators are kept as `checkedShiftOrig`,
  `checkedConvertFloatOrig`).

Hypotheses beyond the task's, and why (each is shown necessary by a witness below; none excludes
a built-in integer operand type; the floating-point one excludes the single pair `float → unsigned __int128`):

* `convert_correct` needs `1 ≤ S.digits` for the source: a *one-bit signed* source (range −1…0, no
  such built-in type) has `overflow_digits<S, negative> = 0` and −1 → unsigned is let through.
* portable `*` needs `¬ MulGuardExact L R`: when both operand types are signed and their digit
  counts add up to *exactly* the digits of the result (widths 17 + 16, or 32 + 1: impossible for
  widths that are multiples of 8, see `portable_arith_correct_bytes`) the guard
  `digits L + digits R > digits T` is false although `lowest · lowest = 2^digits T` overflows
  (`portable_mul_guard_refuted`).
* `shl_correct` needs `L.bits < 2^31`: the digit count is an `int` constant in the code.
* `convert_float_correct` needs `digits D ≤ emax` of the format (`2^digits` is finite in it): of the
  built-in pairs only `float → unsigned __int128` is outside (the converted limit is `+∞`; that pair is
  covered by the correspondence table alone), and a finite operand (`NaN`, `±∞` are covered by the
  correspondence table alone).

Nothing is left unproved.
-/
namespace Cnl.C06
open Cnl Cnl.Overflow Cnl.Spec

/-- `+ - *` : the operators that have an overflow intrinsic -/
def Arith (op : BinOp) : Prop := op = .add ∨ op = .sub ∨ op = .mul

instance (op : BinOp) : Decidable (Arith op) := by unfold Arith; exact inferInstance

theorem exact_arith {op : BinOp} (hop : Arith op) (l r : Int) :
    exactBin op l r = some (match op with | .add => l + r | .sub => l - r | _ => l * r) := by
  rcases hop with h | h | h <;> subst h <;> rfl

/-! ## 5. unary minus and conversion -/

/-- Unary minus under a reacting tag, for every operand type and value: the outcome the tag
prescribes for the exact `-l` in the promoted operand type. -/
theorem neg_correct (tag : OvTag) (ht : tag ≠ .nat) (L : IntTy) (hL : 1 ≤ L.bits) (l : Int)
    (hl : L.InRange l) : checkedNeg tag (L, l) = checkedWant tag (promote L) (-l) :=
  checkedNeg_eq ht hL hl

/-- Conversion from any integer type `S` to any integer type `D`: the outcome the tag prescribes
for the unchanged value `v` in `D`. -/
theorem convert_correct (tag : OvTag) (ht : tag ≠ .nat) (S D : IntTy) (hS : 1 ≤ S.digits) (hD : 1 ≤ D.bits)
    (v : Int) (hv : S.InRange v) : checkedConvert tag D (S, v) = checkedWant tag D v :=
  checkedConvert_eq ht hS hD hv

-- non-vacuity, near the limits
example : checkedNeg .sat (i8, -128) = .ok (i32, 128) := by decide
example : checkedNeg .sat (u8, 255) = .ok (i32, -255) := by decide
example : checkedNeg .sat (i32, -2147483648) = .ok (i32, 2147483647) := by decide
example : checkedNeg .thr (u32, 1) = .throws false := by decide
example : checkedNeg .trp (i64, -9223372036854775808) = .trap true := by decide
example : checkedConvert .sat i8 (i32, 128) = .ok (i8, 127) := by decide
example : checkedConvert .sat u8 (i32, -1) = .ok (u8, 0) := by decide
example : checkedConvert .thr i32 (u32, 2147483648) = .throws true := by decide
example : checkedConvert .sat u64 (i64, 9223372036854775807) = .ok (u64, 9223372036854775807) := by decide
/-- the hypothesis `1 ≤ S.digits` of `convert_correct` cannot be dropped (model of a one-bit
signed source; not a built-in type) -/
example : checkedConvert .sat u8 (⟨1, true⟩, -1) ≠ checkedWant .sat u8 (-1) := by decide

/-! ### 5b. an overflow_integer converted as a number; radix-changing scaling under the tag -/

/-- `overflow_integer<S, tag>` → `overflow_integer<D, tag>` / → built-in `D`, built-in or other wrapper over `S` →
`overflow_integer<D, tag>`: the outcome the tag prescribes for the unchanged value in `D` — for every source and
destination width and signedness. -/
theorem wrapper_convert_correct (tag : OvTag) (ht : tag ≠ .nat) (S D : IntTy) (hS : 1 ≤ S.digits) (hD : 1 ≤ D.bits)
    (v : Int) (hv : S.InRange v) : wrapperConvert tag D (S, v) = checkedWant tag D v :=
  checkedConvert_eq ht hS hD hv

/-- In particular a negative value converted to an unsigned destination is a negative overflow, whatever the digit
counts (a destination with at least as many digits as the source does NOT hold every value of a signed source). -/
theorem wrapper_convert_negative_to_unsigned (tag : OvTag) (ht : tag ≠ .nat) (S D : IntTy) (hS : 1 ≤ S.digits)
    (hD : 1 ≤ D.bits) (hu : D.signed = false) (v : Int) (hv : S.InRange v) (hneg : v < 0) :
    wrapperConvert tag D (S, v) = react tag false D := by
  rw [wrapper_convert_correct tag ht S D hS hD v hv]
  have hlow : D.lowest = 0 := by simp [IntTy.lowest, hu]
  exact want_neg ht (by omega)

example : wrapperConvert .sat u32 (i32, -2) = .ok (u32, 0) := by decide
example : wrapperConvert .thr u64 (i8, -128) = .throws false := by decide
example : wrapperConvert .trp u8 (i8, -1) = .trap false := by decide
example : wrapperConvert .sat u16 (⟨21, true⟩, -70000) = .ok (u16, 0) := by decide   -- elastic_integer<20>
example : wrapperConvert .sat i8 (⟨21, true⟩, -70000) = .ok (i8, -128) := by decide
example : wrapperConvert .sat u64 (i64, 9223372036854775807) = .ok (u64, 9223372036854775807) := by decide

/-- `scaled_integer<S, power<0, rS>>` → `scaled_integer<overflow_integer<D, tag>, power<-k, rD>>`, `rS ≠ rD`, on the
intrinsic path, for a source type at least `int` wide whose range holds `rD^k` (the library asserts it): the
multiplication by `rD^k` reacts as the tag prescribes for the exact product in the source type, and the conversion
to `D` as it prescribes for that outcome's value. -/
theorem radix_scale_correct (tag : OvTag) (ht : tag ≠ .nat) (S D : IntTy) (hp32 : promote S = S) (hS : 1 ≤ S.digits)
    (hD : 1 ≤ D.bits) (rS rD : Nat) (k : Nat) (hk : 0 < k) (hp : S.InRange ((rD : Int) ^ k)) (v : Int)
    (hv : S.InRange v) :
    radixConvert .builtin tag S 0 rS D (-(k : Int)) rD v =
      (checkedWant tag S (v * (rD : Int) ^ k) >>= fun y => checkedWant tag D y.2) :=
  radixConvert_mul_eq ht hp32 hS hD rS rD k hk hp hv

-- non-vacuity: the boundary of `int * 1000` (2147483 fits, 2147484 does not), every tag, a narrower destination
example : promote i32 = i32 ∧ i32.InRange ((10 : Int) ^ 3) := by decide
example : radixConvert .builtin .sat i32 0 2 i32 (-3) 10 2147483 = .ok (i32, 2147483000) := by decide +kernel
example : radixConvert .builtin .sat i32 0 2 i32 (-3) 10 2147484 = .ok (i32, 2147483647) := by decide +kernel
example : radixConvert .builtin .sat i32 0 2 i32 (-3) 10 (-3000000) = .ok (i32, -2147483648) := by decide +kernel
example : radixConvert .builtin .thr i32 0 2 i32 (-3) 10 3000000 = .throws true := by decide +kernel
example : radixConvert .portable .trp i32 0 2 i32 (-3) 10 (-3000000) = .trap false := by decide +kernel
example : radixConvert .portable .sat i32 4 2 i32 (-3) 10 268435456 = .ok (i32, 2147483647) := by decide +kernel
example : radixConvert .builtin .sat i64 0 2 i16 (-2) 10 1000 = .ok (i16, 32767) := by decide +kernel
example : radixConvert .builtin .sat i32 (-3) 10 i32 (-8) 2 2147483647 = .ok (i32, 2147483) := by decide +kernel

/-! ## 1. `+ - *` on the intrinsic path -/

/-- Intrinsic path, `+ - *`, **every** pair of operand types (any widths, mixed signedness
included), all in-range operands: the outcome the tag prescribes for the exact result in the common
type. -/
theorem builtin_arith_correct (tag : OvTag) (ht : tag ≠ .nat) (op : BinOp) (hop : Arith op)
    (L R : IntTy) (hL : 1 ≤ L.bits) (hR : 1 ≤ R.bits) (l r : Int) (hl : L.InRange l) (hr : R.InRange r)
    (e : Int) (he : exactBin op l r = some e) :
    checkedBin .builtin tag op (L, l) (R, r) = checkedWant tag (usualArith L R) e := by
  rcases hop with h | h | h <;> subst h <;> simp only [exactBin, Option.some.injEq] at he <;> subst he
  · exact builtin_add_eq ht hL hR hl hr
  · exact builtin_sub_eq ht hL hR hl hr
  · exact builtin_mul_eq ht hL hR hl hr

example : checkedBin .builtin .sat .add (i32, 2147483647) (i32, 1) = .ok (i32, 2147483647) := by decide
example : checkedBin .builtin .sat .add (i32, -2147483648) (u32, 0) = .ok (u32, 0) := by decide
example : checkedBin .builtin .sat .sub (u32, 0) (i32, 1) = .ok (u32, 0) := by decide
example : checkedBin .builtin .sat .sub (u32, 4294967295) (i32, -1) = .ok (u32, 4294967295) := by decide
example : checkedBin .builtin .thr .add (i32, -5) (u32, 3) = .throws false := by decide
example : checkedBin .builtin .sat .mul (i64, -9223372036854775808) (i64, -1) = .ok (i64, 9223372036854775807) := by decide
example : checkedBin .builtin .trp .mul (i64, 9223372036854775807) (i64, -1) = .ok (i64, -9223372036854775807) := by decide +kernel
example : checkedBin .builtin .sat .mul (i8, -128) (i8, -128) = .ok (i32, 16384) := by decide
example : checkedBin .builtin .sat .mul (u64, 18446744073709551615) (i8, -1) = .ok (u64, 0) := by decide

/-! ## 3. division -/

/-- `/` on both paths, operand types of one signedness (any widths), divisor ≠ 0: the outcome the
tag prescribes for the truncated quotient (the only overflow is `lowest / -1`). -/
theorem div_correct (path : Path) (tag : OvTag) (ht : tag ≠ .nat) (L R : IntTy) (hL : 1 ≤ L.bits)
    (hR : 1 ≤ R.bits) (hs : L.signed = R.signed) (l r : Int) (hl : L.InRange l) (hr : R.InRange r)
    (hr0 : r ≠ 0) :
    checkedBin path tag .div (L, l) (R, r) = checkedWant tag (usualArith L R) (l.tdiv r) :=
  checkedBin_div_eq path ht hL hR hs hl hr hr0

example : checkedBin .portable .sat .div (i32, -2147483648) (i32, -1) = .ok (i32, 2147483647) := by decide
example : checkedBin .builtin .thr .div (i64, -9223372036854775808) (i8, -1) = .throws true := by decide
example : checkedBin .builtin .sat .div (i8, -128) (i8, -1) = .ok (i32, 128) := by decide
example : checkedBin .builtin .sat .div (u64, 18446744073709551615) (u8, 255) = .ok (u64, 72340172838076673) := by decide

/-- mixed signedness division is outside the theorem for a reason (open finding
`C06.div_mixed_signedness`): `int32(-2^31) / uint32(1)` under the saturated tag is 2^31, the
property demands 0 -/
theorem div_mixed_refuted :
    checkedBin .builtin .sat .div (i32, -2147483648) (u32, 1) = .ok (u32, 2147483648) ∧
    exactBin .div (-2147483648) 1 = some (-2147483648) ∧
    checkedWant .sat (usualArith i32 u32) (-2147483648) = .ok (u32, 0) := by decide

/-! ## 4. left shift -/

/-- `<<` on both paths, any operand types, **every** count `r ≥ 0` (counts at and beyond the width
included): the outcome the tag prescribes for `l · 2^r` in the promoted left operand type.  (Before the
repairs two classes were excluded — `0 << n` with `n ≥` width, `-1 << digits` — see the refutations of
the as-found operator below.) -/
theorem shl_correct (path : Path) (tag : OvTag) (ht : tag ≠ .nat) (L R : IntTy) (hL : 1 ≤ L.bits)
    (hR : 1 ≤ R.bits) (hw : L.bits ≤ 2147483647) (l r : Int) (hl : L.InRange l) (hr : R.InRange r)
    (h0 : 0 ≤ r) :
    checkedBin path tag .shl (L, l) (R, r) = checkedWant tag (promote L) (l * 2^r.toNat) := by
  obtain ⟨j, rfl⟩ := Int.eq_ofNat_of_zero_le h0
  rw [Int.toNat_natCast]
  exact checkedBin_shl_eq hL hR hw hl hr path ht

/-- the same through `Spec.exactBin` -/
theorem shl_correct_exact (path : Path) (tag : OvTag) (ht : tag ≠ .nat) (L R : IntTy) (hL : 1 ≤ L.bits)
    (hR : 1 ≤ R.bits) (hw : L.bits ≤ 2147483647) (l r : Int) (hl : L.InRange l) (hr : R.InRange r)
    (e : Int) (he : exactBin .shl l r = some e) :
    checkedBin path tag .shl (L, l) (R, r) = checkedWant tag (promote L) e := by
  by_cases h0 : r < 0
  · simp [exactBin, h0] at he
  · simp only [exactBin, h0, ite_false, Option.some.injEq] at he; subst he
    exact shl_correct path tag ht L R hL hR hw l r hl hr (by omega)

example : checkedBin .builtin .sat .shl (i32, 1) (i32, 30) = .ok (i32, 1073741824) := by decide
example : checkedBin .builtin .sat .shl (i32, 1) (i32, 31) = .ok (i32, 2147483647) := by decide
example : checkedBin .portable .sat .shl (i8, -128) (u8, 24) = .ok (i32, -2147483648) := by decide +kernel
example : checkedBin .portable .thr .shl (i8, -128) (u8, 25) = .throws false := by decide
example : checkedBin .builtin .sat .shl (u32, 1) (i64, 1000) = .ok (u32, 4294967295) := by decide
example : checkedBin .builtin .sat .shl (i64, -2) (i8, 62) = .ok (i64, -9223372036854775808) := by decide +kernel
-- the formerly failing instances
example : checkedBin .builtin .sat .shl (i32, 0) (i32, 64) = .ok (i32, 0) := by decide
example : checkedBin .portable .trp .shl (u8, 0) (u64, 18446744073709551615) = .ok (i32, 0) := by decide
example : checkedBin .builtin .thr .shl (i64, -1) (u32, 63) = .ok (i64, -9223372036854775808) := by decide +kernel
example : checkedBin .builtin .thr .shl (i64, -1) (u32, 64) = .throws false := by decide
example : checkedBin .builtin .thr .shl (i8, -1) (i8, 31) = .ok (i32, -2147483648) := by decide +kernel

/-- repaired finding `C06.shl_zero_by_wide_count`: **as found** (`checkedShiftOrig`), `0 << 64` is not
an overflow (`0 · 2^64 = 0`) but the shift was then executed with an out-of-range count; the repaired
operator returns 0 -/
theorem shl_zero_wide_refuted :
    checkedShiftOrig .sat .shl (i32, 0) (i32, 64) = .ub .shiftCount ∧
    exactBin .shl 0 64 = some 0 ∧ checkedWant .sat (promote i32) 0 = .ok (i32, 0) ∧
    checkedBin .builtin .sat .shl (i32, 0) (i32, 64) = .ok (i32, 0) := by decide

/-- repaired finding `C06.shl_minus_one_to_lowest`: **as found**, `-1 << 63` — the lowest `int64`, which
fits — signalled negative overflow; the repaired test lets it through -/
theorem shl_minus_one_refuted :
    checkedShiftOrig .thr .shl (i64, -1) (u32, 63) = .throws false ∧
    exactBin .shl (-1) 63 = some (-9223372036854775808) ∧
    checkedWant .thr (promote i64) (-9223372036854775808) = .ok (i64, -9223372036854775808) ∧
    checkedBin .builtin .thr .shl (i64, -1) (u32, 63) = .ok (i64, -9223372036854775808) := by decide +kernel

/-- the as-found and the repaired operators differ **only** on the two repaired classes (so the
exclusions the former `shl_correct` carried were exactly the defect) -/
theorem shl_orig_eq_outside_classes (path : Path) (tag : OvTag) (L R : IntTy) (hL : 1 ≤ L.bits)
    (hR : 1 ≤ R.bits) (hw : L.bits ≤ 2147483647) (l r : Int) (hl : L.InRange l) (hr : R.InRange r)
    (h0 : 0 ≤ r) (hz : ¬(l = 0 ∧ r ≥ (promote L).bits)) (hm : ¬(l = -1 ∧ r = (promote L).digits)) :
    checkedShiftOrig tag .shl (L, l) (R, r) = checkedBin path tag .shl (L, l) (R, r) := by
  obtain ⟨j, rfl⟩ := Int.eq_ofNat_of_zero_le h0
  exact checkedShiftOrig_shl_eq hL hR hw hl hr path (by omega) (by omega)

/-! ## 2. `+ - *` on the portable path -/

/-- the common type holds every value of both operand types (true whenever the operand types have
one signedness, and for mixed signedness when the common type is signed) -/
def ValuePreserving (L R : IntTy) : Prop :=
  (usualArith L R).signed = false → L.signed = false ∧ R.signed = false

instance (L R : IntTy) : Decidable (ValuePreserving L R) := by unfold ValuePreserving; exact inferInstance

theorem valuePreserving_of_same_sign {L R : IntTy} (hs : L.signed = R.signed) : ValuePreserving L R :=
  same_sign_unsigned hs

/-- Portable path, `+ - *`, operand types whose values the common type holds unchanged (any
widths), all in-range operands: the outcome the tag prescribes for the exact result.  For `*` the
digit guard must not be exact (`MulGuardExact`, see the file comment). -/
theorem portable_arith_correct_value_preserving (tag : OvTag) (ht : tag ≠ .nat) (op : BinOp) (hop : Arith op)
    (L R : IntTy) (hL : 1 ≤ L.bits) (hR : 1 ≤ R.bits) (hvp : ValuePreserving L R)
    (hg : op = .mul → ¬ MulGuardExact L R)
    (l r : Int) (hl : L.InRange l) (hr : R.InRange r) (e : Int) (he : exactBin op l r = some e) :
    checkedBin .portable tag op (L, l) (R, r) = checkedWant tag (usualArith L R) e := by
  have hlT : (usualArith L R).InRange l := fits_left (fun h => (hvp h).1) hl
  have hrT : (usualArith L R).InRange r := fits_right (fun h => (hvp h).2) hr
  rcases hop with h | h | h <;> subst h <;> simp only [exactBin, Option.some.injEq] at he <;> subst he
  · exact portable_add_fits ht hL hR hl hr hlT hrT
  · exact portable_sub_fits ht hL hR hl hr hlT hrT
  · exact portable_mul_fits ht hL hR hl hr hlT hrT (hg rfl)

/-- Portable path, `+ - *`, operand types of one signedness (any widths). -/
theorem portable_arith_correct (tag : OvTag) (ht : tag ≠ .nat) (op : BinOp) (hop : Arith op)
    (L R : IntTy) (hL : 1 ≤ L.bits) (hR : 1 ≤ R.bits) (hs : L.signed = R.signed)
    (hg : op = .mul → ¬ MulGuardExact L R)
    (l r : Int) (hl : L.InRange l) (hr : R.InRange r) (e : Int) (he : exactBin op l r = some e) :
    checkedBin .portable tag op (L, l) (R, r) = checkedWant tag (usualArith L R) e :=
  portable_arith_correct_value_preserving tag ht op hop L R hL hR (valuePreserving_of_same_sign hs) hg
    l r hl hr e he

/-- … in particular for all widths that are multiples of 8 (every built-in type), with no further
hypothesis -/
theorem portable_arith_correct_bytes (tag : OvTag) (ht : tag ≠ .nat) (op : BinOp) (hop : Arith op)
    (L R : IntTy) (hL : 1 ≤ L.bits) (hR : 1 ≤ R.bits) (hL8 : 8 ∣ L.bits) (hR8 : 8 ∣ R.bits)
    (hs : L.signed = R.signed)
    (l r : Int) (hl : L.InRange l) (hr : R.InRange r) (e : Int) (he : exactBin op l r = some e) :
    checkedBin .portable tag op (L, l) (R, r) = checkedWant tag (usualArith L R) e :=
  portable_arith_correct tag ht op hop L R hL hR hs (fun _ => not_mulGuardExact_of_bytes hL8 hR8 hL hR)
    l r hl hr e he

example : checkedBin .portable .sat .add (i32, 2147483647) (i32, 1) = .ok (i32, 2147483647) := by decide
example : checkedBin .portable .sat .add (i8, 127) (i8, 127) = .ok (i32, 254) := by decide
example : checkedBin .portable .sat .sub (i64, 0) (i32, -2147483648) = .ok (i64, 2147483648) := by decide
example : checkedBin .portable .sat .sub (u32, 0) (u32, 1) = .ok (u32, 0) := by decide
example : checkedBin .portable .sat .sub (i32, -2147483648) (i32, 1) = .ok (i32, -2147483648) := by decide
example : checkedBin .portable .sat .mul (i32, 2147483647) (i32, -1) = .ok (i32, -2147483647) := by decide +kernel
example : checkedBin .portable .thr .mul (i64, -9223372036854775808) (i64, -1) = .throws true := by decide
example : checkedBin .portable .sat .mul (i32, 65536) (i32, -32768) = .ok (i32, -2147483648) := by decide +kernel
example : checkedBin .portable .sat .mul (i32, 65536) (i32, -32769) = .ok (i32, -2147483648) := by decide
example : checkedBin .portable .sat .mul (u16, 65535) (i32, -32768) = .ok (i32, -2147450880) := by decide +kernel
example : ValuePreserving u16 i32 ∧ ValuePreserving u32 i64 ∧ ¬ ValuePreserving i32 u32 := by decide
example : ¬ MulGuardExact i8 i8 ∧ ¬ MulGuardExact i16 i16 ∧ ¬ MulGuardExact i32 i8 := by decide

/-- open finding `C06.portable_mixed_signedness`: `int32(-2^31) + uint32(0)` on the portable path is
2^31, the property demands 0 (negative overflow of the unsigned result saturates to lowest) -/
theorem portable_mixed_refuted :
    checkedBin .portable .sat .add (i32, -2147483648) (u32, 0) = .ok (u32, 2147483648) ∧
    exactBin .add (-2147483648) 0 = some (-2147483648) ∧
    checkedWant .sat (usualArith i32 u32) (-2147483648) = .ok (u32, 0) := by decide

/-- the hypothesis `¬ MulGuardExact L R` cannot be dropped: a 17-bit times a 16-bit signed type
(not built-in types) multiply `lowest · lowest = 2^31` past the digit guard into a signed overflow -/
theorem portable_mul_guard_refuted :
    MulGuardExact ⟨17, true⟩ ⟨16, true⟩ ∧
    checkedBin .portable .sat .mul (⟨17, true⟩, -65536) (⟨16, true⟩, -32768) = .ub .signedOverflow ∧
    checkedWant .sat (usualArith ⟨17, true⟩ ⟨16, true⟩) (-65536 * -32768) = .ok (i32, 2147483647) := by decide

/-! ## 6. conversion from floating point

`RealGt s m e a` / `RealLt s m e a` (`CnlProofs/OverflowFloat.lean`): the real number `(-1)^s · m · 2^e`
is greater / less than the integer `a`.  A finite operand of a format `f` is `.fin s m e` with
`m < 2^f.prec`.  `FmtOk f` (`prec ≥ 2`, `emin ≤ 0`, `prec - 1 ≤ emax`) holds of every IEEE format.
The hypothesis `digits D ≤ emax` says that `2^digits` is finite in the format; of the built-in pairs
it excludes only `float → unsigned __int128` (where the converted limit is `+∞`). -/

/-- The repaired overflow test of a conversion from floating point, every format, every integer
destination, every finite operand: positive overflow is flagged **iff the real value exceeds `max`**,
negative overflow **iff it is below `lowest`** (255.5 → uint8 overflows; 2^31 → int32 overflows although
`float(INT_MAX) = 2^31`). -/
theorem convert_float_flag_iff (f : Fmt) (hf : FloatP.FmtOk f) (D : IntTy) (hmax : (D.digits : Int) ≤ f.emax)
    (s : Bool) (m : Nat) (e : Int) (hm : m < 2^f.prec) :
    isOverflowConvertFloat f (.ofIntTy D) true (.fin s m e) = decide (RealGt s m e D.max) ∧
    isOverflowConvertFloat f (.ofIntTy D) false (.fin s m e) = decide (RealLt s m e D.lowest) :=
  ⟨flag_pos_iff f hf _ (goodDest_ofIntTy D) hmax s m e hm, flag_neg_iff f hf _ (goodDest_ofIntTy D) hmax s m e hm⟩

/-- … and the conversion as a whole: the outcome the tag prescribes for a result above the range, below
the range, or for the value truncated toward zero. -/
theorem convert_float_correct (tag : OvTag) (ht : tag ≠ .nat) (f : Fmt) (hf : FloatP.FmtOk f) (D : IntTy)
    (hmax : (D.digits : Int) ≤ f.emax) (s : Bool) (m : Nat) (e : Int) (hm : m < 2^f.prec) :
    checkedConvertFloat tag f D (.fin s m e) =
      if RealGt s m e D.max then checkedWant tag D (D.max + 1)
      else if RealLt s m e D.lowest then checkedWant tag D (D.lowest - 1)
      else checkedWant tag D (truncInt s m e) := by
  rw [checkedConvertFloat_eq ht f hf D hmax s m e hm]
  by_cases hg : RealGt s m e D.max
  · simp only [hg, ite_true]; exact (want_pos ht (by omega)).symm
  · by_cases hl : RealLt s m e D.lowest
    · simp only [hg, hl, ite_true, ite_false]; exact (want_neg ht (by omega)).symm
    · simp only [hg, hl, ite_false]; exact (want_in (trunc_inRange D s m e hg hl)).symm

/-- the three hardware formats and the built-in types they can overflow -/
theorem convert_float_correct_binary32 (tag : OvTag) (ht : tag ≠ .nat) (D : IntTy) (hD : D.digits ≤ 127)
    (s : Bool) (m : Nat) (e : Int) (hm : m < 2^24) :
    checkedConvertFloat tag binary32 D (.fin s m e) =
      if RealGt s m e D.max then checkedWant tag D (D.max + 1)
      else if RealLt s m e D.lowest then checkedWant tag D (D.lowest - 1)
      else checkedWant tag D (truncInt s m e) :=
  convert_float_correct tag ht binary32 FloatP.fmtOk_binary32 D (by simp only [binary32]; omega) s m e hm

theorem convert_float_correct_binary64 (tag : OvTag) (ht : tag ≠ .nat) (D : IntTy) (hD : D.digits ≤ 1023)
    (s : Bool) (m : Nat) (e : Int) (hm : m < 2^53) :
    checkedConvertFloat tag binary64 D (.fin s m e) =
      if RealGt s m e D.max then checkedWant tag D (D.max + 1)
      else if RealLt s m e D.lowest then checkedWant tag D (D.lowest - 1)
      else checkedWant tag D (truncInt s m e) :=
  convert_float_correct tag ht binary64 FloatP.fmtOk_binary64 D (by simp only [binary64]; omega) s m e hm

theorem convert_float_correct_x87ext (tag : OvTag) (ht : tag ≠ .nat) (D : IntTy) (hD : D.digits ≤ 16383)
    (s : Bool) (m : Nat) (e : Int) (hm : m < 2^64) :
    checkedConvertFloat tag x87ext D (.fin s m e) =
      if RealGt s m e D.max then checkedWant tag D (D.max + 1)
      else if RealLt s m e D.lowest then checkedWant tag D (D.lowest - 1)
      else checkedWant tag D (truncInt s m e) :=
  convert_float_correct tag ht x87ext FloatP.fmtOk_x87ext D (by simp only [x87ext]; omega) s m e hm

-- non-vacuity at the repaired boundary: float 2^31, 2^31 - 128, -2^31, -2^31 - 256 → int32; 255.5 → uint8
example : checkedConvertFloat .sat binary32 i32 (.fin false 8388608 8) = .ok (i32, 2147483647) := by decide +kernel
example : checkedConvertFloat .thr binary32 i32 (.fin false 8388608 8) = .throws true := by decide +kernel
example : checkedConvertFloat .thr binary32 i32 (.fin false 16777215 7) = .ok (i32, 2147483520) := by decide +kernel
example : checkedConvertFloat .thr binary32 i32 (.fin true 8388608 8) = .ok (i32, -2147483648) := by decide +kernel
example : checkedConvertFloat .thr binary32 i32 (.fin true 8388609 8) = .throws false := by decide +kernel
example : checkedConvertFloat .sat binary32 u8 (.fin false 16744448 (-16)) = .ok (u8, 255) ∧
    RealGt false 16744448 (-16) u8.max := by decide +kernel
example : checkedConvertFloat .trp binary64 u64 (.fin false 4503599627370496 12) = .trap true := by decide +kernel
example : checkedConvertFloat .trp binary64 u64 (.fin true 4503599627370496 (-53)) = .trap false := by decide +kernel
example : checkedConvertFloat .trp binary64 u64 (.fin true 0 (-1074)) = .ok (u64, 0) := by decide +kernel
example : RealGt false 8388608 8 i32.max ∧ ¬ RealGt false 16777215 7 i32.max ∧ RealLt true 1 (-1) u8.lowest := by
  decide +kernel

/-- the hypothesis `digits D ≤ emax` of `convert_float_correct` marks a real boundary: the limit of
`unsigned __int128` converts to `+∞` in binary32 (no finite `float` overflows that type) -/
example : binary32.ofInt u128.max = .inf false ∧ ¬ ((u128.digits : Int) ≤ binary32.emax) := by decide +kernel

/-- repaired finding `C06.float_at_limit_not_flagged`: **as found** (`checkedConvertFloatOrig`, the strict
comparison against the converted limit) `float 2^31 → int32` was not flagged — `float(INT_MAX)` is
`2^31` — and the cast was executed out of range; the repaired test flags it -/
theorem float_at_limit_refuted :
    checkedConvertFloatOrig .sat binary32 i32 (.fin false 8388608 8) = .ub .floatToIntRange ∧
    RealGt false 8388608 8 i32.max ∧
    binary32.ofInt i32.max = .fin false 8388608 8 ∧
    checkedConvertFloat .sat binary32 i32 (.fin false 8388608 8) = checkedWant .sat i32 (i32.max + 1) := by
  decide +kernel

end Cnl.C06
