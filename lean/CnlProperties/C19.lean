import CnlProofs.Sqrt
/-!
# C19 — `cnl::sqrt` returns the floor of the square root at the result's resolution

`Cnl.Sqrt.sqrtInt T x` is the model of `cnl::sqrt(Integer const&)` (`_impl/cmath/sqrt.h`) for a
built-in integer type `T = ⟨bits, signed⟩` of **any** width, written over the C++ integer
semantics of `CnlModel.CInt`: the result `Res` carries undefined behaviour (overflow of
`root + bit` in `decltype(root + bit)`, a bad shift count), a failed `CNL_ASSERT`
(`unreachable`) and non-termination of either loop (`diverges`, the loops carry explicit fuel).
`Cnl.Sqrt.sqrtNum` adds the `elastic_integer`, `wide_integer` and `scaled_integer` overloads, and
`overflow_integer` / `rounding_integer` over any of these at value level (the generic algorithm over the
wrapped operators; that no overflow test of a checked tag fires is covered by correspondence only, the
`sqrt_overflow_*` theorems say that the model's result is the floor of the root in the re-wrapped type).
`Cnl.SqrtSpec.IsFloorSqrt x r` is `0 ≤ r ∧ r² ≤ x < (r+1)²`; `IsScaledFloorSqrt` is the same
inequality between the rationals the scaled representations denote; `FitsDigits d r` is `0 ≤ r < 2^d`.

Every theorem is stated for all widths / digit counts / exponents / radices and all inputs the
property quantifies over; `… = .ok (…)` says in one go that the evaluation is free of undefined
behaviour, does not assert, and terminates.  Nothing is `_partial`.
-/
namespace Cnl.C19
open Cnl Cnl.Sqrt Cnl.SqrtSpec Cnl.SqrtProofs

/-- **Built-in integers of every width.**  For every non-negative `x` of the type, `sqrt(x)`
evaluates without undefined behaviour (in particular `root + bit` never overflows the promoted
type), terminates, has the promoted type, and its value `r` satisfies `r² ≤ x < (r+1)²`. -/
theorem sqrt_int_floor (T : IntTy) (hD : 1 ≤ T.digits) (x : Int) (hx0 : 0 ≤ x) (hx : x ≤ T.max) :
    ∃ r, sqrtInt T x = .ok (promote T, r) ∧ IsFloorSqrt x r :=
  sqrtInt_spec T hD x hx0 hx

/-- `r` is *the unique* such number. -/
theorem sqrt_floor_unique (x r r' : Int) (h : IsFloorSqrt x r) (h' : IsFloorSqrt x r') : r = r' :=
  floor_unique h h'

/-- Safety and termination spelt out: no `ub` of any kind, no divergence, no assertion. -/
theorem sqrt_int_safe (T : IntTy) (hD : 1 ≤ T.digits) (x : Int) (hx0 : 0 ≤ x) (hx : x ≤ T.max) :
    (∀ k, sqrtInt T x ≠ .ub k) ∧ sqrtInt T x ≠ .diverges ∧ (sqrtInt T x).isDefined = true := by
  obtain ⟨r, h, _⟩ := sqrt_int_floor T hD x hx0 hx
  rw [h]
  exact ⟨fun k => by simp, by simp, rfl⟩

/-- **The algorithm for any `digits_v`** (this is the form `wide_integer` uses: `D` digits on a
storage type with at least `D` digits): for every `D ≥ 1`, every integer type `T` whose promoted
type has at least `D` digits and every `0 ≤ x < 2^D`. -/
theorem sqrt_generic_floor (D : Nat) (T : IntTy) (hD : 1 ≤ D) (hDP : D ≤ (promote T).digits)
    (x : Int) (hx0 : 0 ≤ x) (hx : x < 2 ^ D) :
    ∃ r, sqrtWith D T x = .ok (promote T, r) ∧ IsFloorSqrt x r :=
  sqrtWith_spec D T x hD hDP hx0 hx

/-- **elastic_integer<D, N>** (any `D ≥ 1`, any narrowest type for which the type exists): the
result is an `elastic_integer<(D+1)/2, N'>` with `N'` as wide as `N`, its value is the floor of
the root and **fits the halved digit count**, `r < 2^⌈D/2⌉`. -/
theorem sqrt_elastic_floor (D : Nat) (N R : IntTy) (hR : elasticRep D N = some R) (hD : 1 ≤ D)
    (x : Int) (hx0 : 0 ≤ x) (hx : x < 2 ^ D) :
    ∃ N' r, sqrtNum (.el D (.int N)) x = .ok (.el ((D + 1) / 2) (.int N'), r) ∧ N'.bits = N.bits ∧
      IsFloorSqrt x r ∧ FitsDigits ((D + 1) / 2) r :=
  sqrtNum_elastic D N R hR hD x hx0 hx

/-- **wide_integer<D, N>** whose storage is at least as wide as `int` (multi-word, or a 32/64/128
bit built-in): same statement, result type unchanged. -/
theorem sqrt_wide_floor (D : Nat) (N R : IntTy) (hN : 1 ≤ N.bits) (hR : wideRep D N = some R) (h32 : 32 ≤ R.bits)
    (hD : 1 ≤ D) (x : Int) (hx0 : 0 ≤ x) (hx : x < 2 ^ D) :
    ∃ r, sqrtNum (.wd D (.int N)) x = .ok (.wd D (.int N), r) ∧ IsFloorSqrt x r :=
  sqrtNum_wide D N R hN hR h32 hD x hx0 hx

/-- **scaled_integer<Rep, power<e, radix>>, even `e`, any radix ≥ 1, any representation** for
which `sqrt` of the representation is the floor of the root: the result sits at exponent `e/2`
and, as rationals, `(r·radix^(e/2))² ≤ x·radix^e < ((r+1)·radix^(e/2))²`. -/
theorem sqrt_scaled_floor (rep : Ty) (e : Int) (radix : Nat) (he : e % 2 = 0) (hr : 1 ≤ radix)
    (x : Int) (t' : Ty) (r : Int) (h : sqrtNum rep x = .ok (t', r)) (hf : IsFloorSqrt x r) :
    sqrtNum (.sc rep e radix) x = .ok (.sc t' (e / 2) radix, r) ∧ IsScaledFloorSqrt x e radix r (e / 2) :=
  ⟨sqrtNum_scaled rep e radix he x t' r h, scaled_of_floor x e radix hr r (e / 2) (by omega) hf⟩

/-- scaled_integer over a built-in representation of any width -/
theorem sqrt_scaled_int_floor (T : IntTy) (hD : 1 ≤ T.digits) (e : Int) (radix : Nat) (he : e % 2 = 0)
    (hr : 1 ≤ radix) (x : Int) (hx0 : 0 ≤ x) (hx : x ≤ T.max) :
    ∃ r, sqrtNum (.sc (.int T) e radix) x = .ok (.sc (.int (promote T)) (e / 2) radix, r) ∧
      IsScaledFloorSqrt x e radix r (e / 2) := by
  obtain ⟨r, h, hf⟩ := sqrt_int_floor T hD x hx0 hx
  have h' : sqrtNum (.int T) x = .ok (.int (promote T), r) := by simp [sqrtNum, h, Res.map, bind, Res.bind]
  exact ⟨r, sqrt_scaled_floor (.int T) e radix he hr x _ r h' hf⟩

/-- scaled_integer over an elastic_integer representation -/
theorem sqrt_scaled_elastic_floor (D : Nat) (N R : IntTy) (hR : elasticRep D N = some R) (hD : 1 ≤ D)
    (e : Int) (radix : Nat) (he : e % 2 = 0) (hr : 1 ≤ radix) (x : Int) (hx0 : 0 ≤ x) (hx : x < 2 ^ D) :
    ∃ N' r, sqrtNum (.sc (.el D (.int N)) e radix) x = .ok (.sc (.el ((D + 1) / 2) (.int N')) (e / 2) radix, r) ∧
      IsScaledFloorSqrt x e radix r (e / 2) ∧ FitsDigits ((D + 1) / 2) r := by
  obtain ⟨N', r, h, _, hf, hd⟩ := sqrt_elastic_floor D N R hR hD x hx0 hx
  obtain ⟨h1, h2⟩ := sqrt_scaled_floor (.el D (.int N)) e radix he hr x _ r h hf
  exact ⟨N', r, h1, h2, hd⟩

/-- **overflow_integer<Rep, Tag>, any tag, any representation** for which `sqrt` of the representation is
defined: the result is the same number re-wrapped in the same tag — in particular it is a value, not a
trap / throw / unreachable report, and not a saturated stand-in.  (That the tag's overflow tests do not
fire on the way is part of the model's definition, tied to the code by correspondence only — see the
comment on `sqrtNum`.) -/
theorem sqrt_overflow_rewrap (rep : Ty) (tag : OvTag) (x : Int) (t' : Ty) (r : Int)
    (h : sqrtNum rep x = .ok (t', r)) : sqrtNum (.ov rep tag) x = .ok (.ov t' tag, r) := by
  simp [sqrtNum, h, Res.map]

/-- **rounding_integer<Rep, Mode>**: likewise (no operation of the algorithm rounds). -/
theorem sqrt_rounding_rewrap (rep : Ty) (mode : RdMode) (x : Int) (t' : Ty) (r : Int)
    (h : sqrtNum rep x = .ok (t', r)) : sqrtNum (.rd rep mode) x = .ok (.rd t' mode, r) := by
  simp [sqrtNum, h, Res.map]

/-- overflow_integer over a built-in representation of any width, any tag: floor of the root, in the
overflow_integer of the promoted type. -/
theorem sqrt_overflow_int_floor (T : IntTy) (tag : OvTag) (hD : 1 ≤ T.digits) (x : Int) (hx0 : 0 ≤ x) (hx : x ≤ T.max) :
    ∃ r, sqrtNum (.ov (.int T) tag) x = .ok (.ov (.int (promote T)) tag, r) ∧ IsFloorSqrt x r := by
  obtain ⟨r, h, hf⟩ := sqrt_int_floor T hD x hx0 hx
  have h' : sqrtNum (.int T) x = .ok (.int (promote T), r) := by simp [sqrtNum, h, Res.map, bind, Res.bind]
  exact ⟨r, sqrt_overflow_rewrap _ tag x _ r h', hf⟩

/-- overflow_integer over a wide_integer (single- or multi-word, either signedness), any tag. -/
theorem sqrt_overflow_wide_floor (D : Nat) (N R : IntTy) (tag : OvTag) (hN : 1 ≤ N.bits) (hR : wideRep D N = some R)
    (h32 : 32 ≤ R.bits) (hD : 1 ≤ D) (x : Int) (hx0 : 0 ≤ x) (hx : x < 2 ^ D) :
    ∃ r, sqrtNum (.ov (.wd D (.int N)) tag) x = .ok (.ov (.wd D (.int N)) tag, r) ∧ IsFloorSqrt x r := by
  obtain ⟨r, h, hf⟩ := sqrt_wide_floor D N R hN hR h32 hD x hx0 hx
  exact ⟨r, sqrt_overflow_rewrap _ tag x _ r h, hf⟩

/-- overflow_integer over a rounding_integer over a built-in representation. -/
theorem sqrt_overflow_rounding_int_floor (T : IntTy) (tag : OvTag) (mode : RdMode) (hD : 1 ≤ T.digits) (x : Int)
    (hx0 : 0 ≤ x) (hx : x ≤ T.max) :
    ∃ r, sqrtNum (.ov (.rd (.int T) mode) tag) x = .ok (.ov (.rd (.int (promote T)) mode) tag, r) ∧ IsFloorSqrt x r := by
  obtain ⟨r, h, hf⟩ := sqrt_int_floor T hD x hx0 hx
  have h' : sqrtNum (.int T) x = .ok (.int (promote T), r) := by simp [sqrtNum, h, Res.map, bind, Res.bind]
  exact ⟨r, sqrt_overflow_rewrap _ tag x _ r (sqrt_rounding_rewrap _ mode x _ r h'), hf⟩

/-- The start bit: the model's closed form `startShift D` (largest even number ≤ `D − 1`) is the
value of the C++ constant expression `(digits_v<Integer> - 1) & ~1` evaluated in `int`, for every
digit count an `int` can hold. -/
theorem start_shift_is_cpp_constant (D : Nat) (hD : 1 ≤ D) (hD2 : D < 2 ^ 31) :
    startShiftC D = .ok (i32, (startShift D : Int)) :=
  startShift_cint D hD hD2

/-- outside the property, for the record: a negative argument reaches `CNL_ASSERT` … -/
theorem sqrt_negative_asserts (T : IntTy) (x : Int) (hx : x < 0) (hr : (promote T).InRange x)
    (hs : (promote T).signed = true) :
    sqrtInt T x = .unreachable "sqrt.h assert: x >= Integer{0}" :=
  sqrtInt_negative T x hx hr hs

/-- … and an odd exponent is rejected at compile time (`static_assert(!(Exponent & 1))`). -/
theorem sqrt_scaled_odd_ill (rep : Ty) (e : Int) (radix : Nat) (he : e % 2 ≠ 0) (x : Int) :
    sqrtNum (.sc rep e radix) x = .ill "static_assert(!(Exponent & 1))" := by
  simp [sqrtNum, he]

/-! Non-vacuity: the hypotheses are met by concrete non-trivial instances, and the model computes. -/
example : sqrtInt i32 2147483647 = .ok (i32, 46340) := by decide +kernel
example : sqrtInt u8 255 = .ok (i32, 15) := by decide +kernel
example : sqrtInt u64 18446744073709551615 = .ok (u64, 4294967295) := by decide +kernel
example : ∃ r, sqrtInt ⟨24, false⟩ 16777215 = .ok (i32, r) ∧ IsFloorSqrt 16777215 r :=
  sqrt_int_floor ⟨24, false⟩ (by decide) _ (by decide) (by decide)
example : sqrtNum (.el 40 (.int i32)) 1099511627775 = .ok (.el 20 (.int i32), 1048575) := by decide +kernel
example : ∃ N' r, sqrtNum (.el 8 (.int u8)) 255 = .ok (.el 4 (.int N'), r) ∧ N'.bits = 8 ∧ IsFloorSqrt 255 r ∧ FitsDigits 4 r :=
  sqrt_elastic_floor 8 u8 u8 (by decide) (by decide) 255 (by decide) (by decide)
example : sqrtNum (.wd 200 (.int i32)) (2 ^ 200 - 1) = .ok (.wd 200 (.int i32), 2 ^ 100 - 1) := by decide +kernel
example : ∃ r, sqrtNum (.sc (.int i16) (-8) 2) 32767 = .ok (.sc (.int i32) (-4) 2, r) ∧ IsScaledFloorSqrt 32767 (-8) 2 r (-4) :=
  sqrt_scaled_int_floor i16 (by decide) (-8) 2 (by decide) (by decide) 32767 (by decide) (by decide)
example : sqrtNum (.ov (.wd 64 (.int u32)) .trp) 4294836225 = .ok (.ov (.wd 64 (.int u32)) .trp, 65535) := by decide +kernel
example : sqrtNum (.ov (.wd 200 (.int u32)) .sat) 25 = .ok (.ov (.wd 200 (.int u32)) .sat, 5) := by decide +kernel
example : ∃ r, sqrtNum (.ov (.rd (.int u32) .nrst) .thr) 871666576 = .ok (.ov (.rd (.int u32) .nrst) .thr, r) ∧ IsFloorSqrt 871666576 r :=
  sqrt_overflow_rounding_int_floor u32 .thr .nrst (by decide) _ (by decide) (by decide)
example : ∃ r, sqrtNum (.ov (.wd 129 (.int u32)) .und) (2 ^ 128) = .ok (.ov (.wd 129 (.int u32)) .und, r) ∧ IsFloorSqrt (2 ^ 128) r :=
  sqrt_overflow_wide_floor 129 u32 ⟨160, false⟩ .und (by decide) (by decide) (by decide) (by decide) _ (by decide) (by decide)
example : IsScaledFloorSqrt 1000 (-4) 2 31 (-2) := by decide +kernel
example : startShiftC 31 = .ok (i32, 30) ∧ startShiftC 32 = .ok (i32, 30) ∧ startShiftC 8 = .ok (i32, 6) := by decide +kernel
example : sqrtInt i32 (-1) = .unreachable "sqrt.h assert: x >= Integer{0}" := by decide +kernel

end Cnl.C19
