import CnlProofs.Native
import CnlProofs.NativeScale
import CnlProofs.Kernels
/-!
# C12 — wrapping is transparent

A CNL wrapper whose tags request built-in behaviour computes, for every operator and every
operand value, exactly the value — and the promoted representation type — of the same built-in
expression on the underlying integers.  `nest ls T` is any nesting of
`scaled_integer<_, power<0, radix>>`, `overflow_integer<_, native_overflow_tag>` and
`rounding_integer<_, native_rounding_tag>` around the built-in integer type `T` (any width).
`cBin`, `cCmp`, `cUn` are the built-in operators of `CnlModel.CInt`; the result `Res` carries
undefined behaviour, so the statements also say the wrapped expression is undefined exactly when
the bare one is.  All theorems hold for nests of any depth and integer types of any width.

**Documentation kernels** (`kernel_*`): the four fixed-point kernels of the documentation that the
harness runs next to their hand-written shift-and-operate code (`T` the operand representation, `W`
the widened one, `a, a2 : scaled_integer<T, power<e1>>` with representations `l, r`,
`b : scaled_integer<T, power<e2>>` with representation `r`, `WA = scaled_integer<W, power<e1>>`):

    mulwiden   WA{a} * a2                      W(l) * r
    mixadd     a + b                           l + r * (T(1) << (e2-e1))   /   l * (T(1) << (e1-e2)) + r
    average    (WA{a} + a2) >> constant<1>{}   W(l) + r
    square     WA{a} * WA{a}                   W(l) * W(l)

Each CNL expression is observationally the hand-written code: same representation value, same
representation type, undefined exactly when the hand-written code is, at the documented exponent
(`e1+e1`, `min e1 e2`, `e1-1`, `e1+e1`).  The widening kernels hold for **all** `T`, `W`, exponents,
radixes and operand values with no hypothesis (`W` need not even be wider: then both sides overflow
together); `kernel_mixadd` needs the operands in range of `T` and `2^|e2-e1|` representable in `T`
(the hand-written `T(1) << k` is converted back to `T`).  The `_exact` theorems add the value: when
`W` holds every product (`HoldsProducts`: twice the digits of `T`, plus one if `T` is signed — true
of i8/i16, i16/i32, i32/i64, u16/u32) resp. every sum (`HoldsSums`) of two values of `T`, the
kernels are never undefined and return exactly `l·r`, `l+r`, `l·l`.

**Exponent-changing operations** (`*_exponents_transparent`, `scale_transparent`).  A scaled_integer whose
representation is a nest `ws` of `overflow_integer<_, native_overflow_tag>` / `rounding_integer<_,
native_rounding_tag>` layers (`Wrappers ws`; any depth, any order) aligns exponents with `cnl::scale<k>` *of
the wrapper* (`overflow_integer.h`, `rounding_integer.h`: `default_scale` through the wrapper's own operators and
`power_value` of a class type).  `scale_transparent`: that is `scale<k>` of the innermost integer, re-wrapped —
value, promoted type, undefined cases.  Hence `+ - * / % & | ^`, the six comparisons, conversion and compound
assignment between `scn ws L eL ρ l = scaled_integer<nest ws L, power<eL, ρ>>{l}` and `scn ws R eR ρ r` with
**any** exponents equal the same operation on `sc L eL ρ l = scaled_integer<L, power<eL, ρ>>{l}` and `sc R eR ρ r`,
put back into the nest (`renest ws`).  Hypotheses, all about types only: `PowWF T k ρ` = the instantiation
`power_value<T, |k|, ρ>` the bare expression needs is well-formed (otherwise the bare expression does not compile;
radix 2: `|k|` below the digits of the promoted type, `powWF_of_lt`; in general `powWF_iff`), and `ScaleDefined ws k ρ` =
a conversion that scales *down* in a radix other than 2 does not meet a rounding_integer layer
(`rounding_integer.h` declares that `scale` for radix 2 only).  `kernel_mixadd_nest`: the hand-written
shift-and-add code is also what the mixed-exponent sum over a nest computes.
-/
namespace Cnl.C12
open Cnl Cnl.Layered Cnl.Native
open Cnl.ScaledP (sc PowOk)
open Cnl.KernelsP (shrConst mixaddHand HoldsProducts HoldsSums)

/-- `+ - * / % & | ^` on two numbers of the same native nest -/
theorem bin_transparent (ls : List Layer) (op : BinOp) (hs : isShift op = false)
    (L R : IntTy) (l r : Int) :
    Layered.bin op (nest ls L, l) (nest ls R, r)
      = (cBin op (L, l) (R, r)).map (fun v => (nest ls v.1, v.2)) := by
  apply bin_nest ls _ _ op hs
  simp [level, depth_nest]

/-- wrapper `op` bare built-in integer (the integer is wrapped by `from_value`) -/
theorem bin_int_right_transparent (ls : List Layer) (op : BinOp) (hs : isShift op = false)
    (L R : IntTy) (l r : Int) :
    Layered.bin op (nest ls L, l) (.int R, r)
      = (cBin op (L, l) (R, r)).map (fun v => (nest ls v.1, v.2)) := by
  apply bin_nest_int ls _ _ op hs
  simp [level, depth_nest, Ty.depth]

/-- bare built-in integer `op` wrapper -/
theorem bin_int_left_transparent (ls : List Layer) (op : BinOp) (hs : isShift op = false)
    (L R : IntTy) (l r : Int) :
    Layered.bin op (.int L, l) (nest ls R, r)
      = (cBin op (L, l) (R, r)).map (fun v => (nest ls v.1, v.2)) := by
  apply bin_int_nest ls _ _ op hs
  simp [level, depth_nest, Ty.depth]

/-- `<<` and `>>`: the count may be wrapped in any native nest or be a bare integer -/
theorem shift_transparent (ls cs : List Layer) (op : BinOp) (hs : isShift op = true)
    (L R : IntTy) (l r : Int) :
    Layered.bin op (nest ls L, l) (nest cs R, r)
      = (cBin op (L, l) (R, r)).map (fun v => (nest ls v.1, v.2)) := by
  apply shift_nest ls _ _ op hs cs
  · simp [level, depth_nest]; omega
  · simp [level, depth_nest]; omega

/-- the six comparison operators -/
theorem cmp_transparent (ls : List Layer) (op : CmpOp) (L R : IntTy) (l r : Int) :
    Layered.cmp op (nest ls L, l) (nest ls R, r) = .ok (cCmp op (L, l) (R, r)) := by
  apply cmp_nest ls
  simp [level, depth_nest]

theorem cmp_int_transparent (ls : List Layer) (op : CmpOp) (L R : IntTy) (l r : Int) :
    Layered.cmp op (nest ls L, l) (.int R, r) = .ok (cCmp op (L, l) (R, r)) := by
  apply cmp_nest_int ls
  simp [level, depth_nest, Ty.depth]

/-- unary `-`, `~`, `+` -/
theorem unary_transparent (ls : List Layer) (u : UnOp) (L : IntTy) (l : Int) :
    Layered.un u (nest ls L, l) = (cUn u (L, l)).map (fun v => (nest ls v.1, v.2)) := by
  cases ls with
  | nil => exact unWith_int _ u L l
  | cons layer ls =>
    have h := un_nest (layer :: ls) (ls.length + 1) (Nat.le_refl _) u L l
    rw [unRep_ops_succ] at h
    simpa [Layered.un, depth_nest] using h

/-- compound assignment `a op= b` is `a = static_cast<A>(a op b)`: the built-in result converted
back to the left operand's representation type -/
theorem compound_transparent (ls : List Layer) (op : BinOp) (hs : isShift op = false)
    (L R : IntTy) (l r : Int) :
    Layered.compound op (nest ls L, l) (nest ls R, r)
      = (cBin op (L, l) (R, r)) >>= fun v => .ok (nest ls L, L.wrap v.2) := by
  unfold Layered.compound
  rw [bin_transparent ls op hs]
  cases h : cBin op (L, l) (R, r) <;> simp [Res.map, Res.bind, bind]
  rename_i v
  show Layered.cast _ _ = _
  unfold Layered.cast
  apply cast_nest
  simp [depth_nest]

/-- compound assignment with a bare integer on the right; with `r = 1` this is `++` / `--`
(`scaled/inc_dec_operator.h`, `overflow/custom_operator.h`: the prefix and postfix operators add or
subtract one through the assignment operator): equivalent to adding or subtracting one on the
bare integer and converting back -/
theorem compound_int_transparent (ls : List Layer) (op : BinOp) (hs : isShift op = false)
    (L R : IntTy) (l r : Int) :
    Layered.compound op (nest ls L, l) (.int R, r)
      = (cBin op (L, l) (R, r)) >>= fun v => .ok (nest ls L, L.wrap v.2) := by
  unfold Layered.compound
  rw [bin_int_right_transparent ls op hs]
  cases h : cBin op (L, l) (R, r) <;> simp [Res.map, Res.bind, bind]
  rename_i v
  show Layered.cast _ _ = _
  unfold Layered.cast
  apply cast_nest
  simp [depth_nest]

/-- `++x` / `--x` on any native nest: the operand becomes `x ± 1` computed as the built-in
expression `x = x ± 1` would (including its undefined cases) -/
theorem increment_transparent (ls : List Layer) (L : IntTy) (l : Int) :
    Layered.compound .add (nest ls L, l) (.int i32, 1)
      = (cBin .add (L, l) (i32, 1)) >>= fun v => .ok (nest ls L, L.wrap v.2) :=
  compound_int_transparent ls .add rfl L i32 l 1

theorem decrement_transparent (ls : List Layer) (L : IntTy) (l : Int) :
    Layered.compound .sub (nest ls L, l) (.int i32, 1)
      = (cBin .sub (L, l) (i32, 1)) >>= fun v => .ok (nest ls L, L.wrap v.2) :=
  compound_int_transparent ls .sub rfl L i32 l 1


/-! ## Documentation kernels: the CNL expression is the hand-written shift-and-operate code -/

/-- `WA{a} * a2` is `W(l) * r` at exponent `e1 + e2` (the harness has `e2 = e1`): value,
representation type and undefined cases, for all types, exponents, radixes and values -/
theorem kernel_mulwiden (T W : IntTy) (e1 e2 : Int) (ρ : Nat) (l r : Int) :
    (Layered.cast (.sc (.int W) e1 ρ) (sc T e1 ρ l) >>= fun wa => Layered.bin .mul wa (sc T e2 ρ r))
      = (cBin .mul (convert W (T, l)) (T, r)).map (fun v => sc v.1 (e1 + e2) ρ v.2) :=
  KernelsP.mulwiden_eq T W e1 e2 ρ l r

/-- … and when `W` holds every product of two values of `T` it is never undefined and exact -/
theorem kernel_mulwiden_exact (T W : IntTy) (hT : 1 ≤ T.bits) (hW : HoldsProducts T W) (e1 e2 : Int) (ρ : Nat)
    (l r : Int) (hl : T.InRange l) (hr : T.InRange r) :
    (Layered.cast (.sc (.int W) e1 ρ) (sc T e1 ρ l) >>= fun wa => Layered.bin .mul wa (sc T e2 ρ r))
      = .ok (sc (usualArith W T) (e1 + e2) ρ (l * r)) := by
  rw [kernel_mulwiden, KernelsP.widen_mul_exact hT hW hl hr]; rfl

/-- `WA{a} * WA{a}` is `W(l) * W(l)` at exponent `e1 + e1` -/
theorem kernel_square (T W : IntTy) (e1 : Int) (ρ : Nat) (l : Int) :
    (Layered.cast (.sc (.int W) e1 ρ) (sc T e1 ρ l) >>= fun wa => Layered.bin .mul wa wa)
      = (cBin .mul (convert W (T, l)) (convert W (T, l))).map (fun v => sc v.1 (e1 + e1) ρ v.2) :=
  KernelsP.square_eq T W e1 ρ l

theorem kernel_square_exact (T W : IntTy) (hT : 1 ≤ T.bits) (hW : HoldsProducts T W) (e1 : Int) (ρ : Nat)
    (l : Int) (hl : T.InRange l) :
    (Layered.cast (.sc (.int W) e1 ρ) (sc T e1 ρ l) >>= fun wa => Layered.bin .mul wa wa)
      = .ok (sc (promote W) (e1 + e1) ρ (l * l)) := by
  rw [kernel_square, KernelsP.widen_square_exact hT hW hl]; rfl

/-- `(WA{a} + a2) >> constant<1>{}` is `W(l) + r` at exponent `e1 - 1`: the sum of the
representations read one binary place lower is the average.  `shrConst 1` is the
`>> constant<1>` overload, which only lowers the exponent -/
theorem kernel_average (T W : IntTy) (e1 : Int) (ρ : Nat) (l r : Int) :
    (Layered.cast (.sc (.int W) e1 ρ) (sc T e1 ρ l) >>= fun wa =>
      Layered.bin .add wa (sc T e1 ρ r) >>= fun s => shrConst 1 s)
      = (cBin .add (convert W (T, l)) (T, r)).map (fun v => sc v.1 (e1 - 1) ρ v.2) :=
  KernelsP.average_eq T W e1 ρ l r

theorem kernel_average_exact (T W : IntTy) (hT : 1 ≤ T.bits) (hW : HoldsSums T W) (e1 : Int) (ρ : Nat)
    (l r : Int) (hl : T.InRange l) (hr : T.InRange r) :
    (Layered.cast (.sc (.int W) e1 ρ) (sc T e1 ρ l) >>= fun wa =>
      Layered.bin .add wa (sc T e1 ρ r) >>= fun s => shrConst 1 s)
      = .ok (sc (usualArith W T) (e1 - 1) ρ (l + r)) := by
  rw [kernel_average, KernelsP.widen_add_exact hT hW hl hr]; rfl

/-- `a + b` with different exponents is the hand-written "shift the coarser operand left, then add"
(`mixaddHand`: `l + r * (T(1) << (e2-e1))` if `e1 ≤ e2`, else `l * (T(1) << (e1-e2)) + r`) at exponent
`min e1 e2`, including the promoted result type and the overflow of either the alignment or the sum.
Guard: operands in range, `2^|e2-e1|` is a value of `T` -/
theorem kernel_mixadd (T : IntTy) (hT : 1 ≤ T.bits) (e1 e2 : Int) (l r : Int) (hl : T.InRange l) (hr : T.InRange r)
    (hk : (e2 - e1).natAbs < T.digits) :
    Layered.bin .add (sc T e1 2 l) (sc T e2 2 r)
      = (mixaddHand T e1 e2 l r).map (fun v => sc v.1 (min e1 e2) 2 v.2) :=
  KernelsP.mixadd_eq T hT e1 e2 l r hl hr hk

/-- `mixaddHand` is literally the hand-written code -/
theorem mixaddHand_def (T : IntTy) (e1 e2 l r : Int) :
    mixaddHand T e1 e2 l r
      = if e1 ≤ e2 then
          cBin .shl (T, 1) (i32, e2 - e1) >>= fun p => cBin .mul (T, r) (convert T p) >>= fun q => cBin .add (T, l) q
        else
          cBin .shl (T, 1) (i32, e1 - e2) >>= fun p => cBin .mul (T, l) (convert T p) >>= fun q => cBin .add q (T, r) :=
  rfl

/-- under the fit guard (C01's addition theorem specialised): alignment is multiplication by
`2^(e2-e1)` in the promoted type, the sum is exact -/
theorem kernel_mixadd_value (T : IntTy) (hT : 1 ≤ T.bits) (e1 e2 : Int) (h12 : e1 ≤ e2) (l r : Int)
    (hl : T.InRange l) (hr : T.InRange r) (hk : (e2 - e1).toNat < T.digits)
    (hfit : (promote T).InRange (r * 2^(e2 - e1).toNat))
    (hres : (promote T).InRange (l + r * 2^(e2 - e1).toNat)) :
    Layered.bin .add (sc T e1 2 l) (sc T e2 2 r) = .ok (sc (promote T) e1 2 (l + r * 2^(e2 - e1).toNat)) :=
  KernelsP.mixadd_value T hT e1 e2 h12 l r hl hr hk hfit hres

/-! ## Operations that change the exponent: `scale<k>` of a wrapper nest is `scale<k>` of the integer -/

/-- `cnl::scale<k, ρ>` applied to a native wrapper nest of any depth is `scale<k, ρ>` of the innermost
integer (`scaleInt`: `s * power_value` for `k ≥ 0`, `s / power_value` for `k < 0`), re-wrapped: same value,
same promoted representation type, undefined exactly when the bare scaling is -/
theorem scale_transparent (ws : List Layer) (hw : Wrappers ws) (T : IntTy) (k : Int) (ρ : Nat) (v : Int)
    (hp : PowWF T k ρ) (hd : ScaleDefined ws k ρ) :
    (ops ws.length).scale k ρ (nest ws T, v) = (scaleInt k ρ (T, v)).map (fun x => (nest ws x.1, x.2)) :=
  scale_nest ws hw ws.length (Nat.le_refl _) T k ρ v hp hd

/-- radix 2: `power_value<T, |k|, 2>` is well-formed when `|k|` is below the digits of the promoted type -/
theorem powWF_of_lt (T : IntTy) (k : Int) (h : k.natAbs < (promote T).digits) : PowWF T k 2 := PowWF.of_lt h

/-- `PowWF` is C01–C04's well-formedness predicate `PowOk` of the power -/
theorem powWF_iff (T : IntTy) (k : Int) (ρ : Nat) (hρ : 2 ≤ ρ) (hρi : (ρ : Int) ≤ 2147483647) :
    PowWF T k ρ ↔ PowOk T k.natAbs ρ := by
  unfold PowWF
  rw [isOk_iff]
  exact ScaledP.powerValueInt_ok_iff T k.natAbs ρ hρ hρi

/-- `+ - * / % & | ^` between scaled numbers over the same nest with any exponents: the same expression on
scaled_integer over the bare integers (`+ - & | ^` align both operands to the smaller exponent with `scale`) -/
theorem bin_exponents_transparent (ws : List Layer) (hw : Wrappers ws) (op : BinOp) (hs : isShift op = false)
    (L R : IntTy) (eL eR : Int) (ρ : Nat) (l r : Int)
    (hwf : Scaled.isZeroDegree op = true → eL ≠ eR → PowWF L (eL - min eL eR) ρ ∧ PowWF R (eR - min eL eR) ρ) :
    Layered.bin op (scn ws L eL ρ l) (scn ws R eR ρ r)
      = (Layered.bin op (sc L eL ρ l) (sc R eR ρ r)).map (renest ws) :=
  bin_scn ws hw op hs L R eL eR ρ l r hwf

/-- the six comparisons with any exponents (the coarser operand is converted to the finer exponent in the
type `decltype(rep << constant<k>)`) -/
theorem cmp_exponents_transparent (ws : List Layer) (hw : Wrappers ws) (op : CmpOp) (L R : IntTy) (eL eR : Int)
    (ρ : Nat) (l r : Int) (hR : eL < eR → PowWF R (eR - eL) ρ) (hL : eR < eL → PowWF L (eL - eR) ρ) :
    Layered.cmp op (scn ws L eL ρ l) (scn ws R eR ρ r) = Layered.cmp op (sc L eL ρ l) (sc R eR ρ r) :=
  cmp_scn ws hw op L R eL eR ρ l r hR hL

/-- conversion to another exponent and representation type (`static_cast<Dst>(scale<eS - eD>(rep))`) -/
theorem convert_exponents_transparent (ws : List Layer) (hw : Wrappers ws) (D S : IntTy) (eD eS : Int) (ρ : Nat)
    (v : Int) (hwf : eS ≠ eD → PowWF S (eS - eD) ρ ∧ ScaleDefined ws (eS - eD) ρ) :
    Layered.cast (.sc (nest ws D) eD ρ) (scn ws S eS ρ v)
      = (Layered.cast (.sc (.int D) eD ρ) (sc S eS ρ v)).map (renest ws) :=
  cast_scn ws hw D S eD eS ρ v hwf

/-- compound assignment `a op= b` with any exponents is `a = static_cast<A>(a op b)` over the bare integers:
the intermediate has the common type `usualArith L R` at the exponent `resultExp op eL eR` and is rescaled
(truncating toward zero) to `a`'s exponent -/
theorem compound_exponents_transparent (ws : List Layer) (hw : Wrappers ws) (op : BinOp) (hs : isShift op = false)
    (L R : IntTy) (eL eR : Int) (ρ : Nat) (l r : Int)
    (hwf : Scaled.isZeroDegree op = true → eL ≠ eR → PowWF L (eL - min eL eR) ρ ∧ PowWF R (eR - min eL eR) ρ)
    (hc : Scaled.resultExp op eL eR ≠ eL →
      PowWF (usualArith L R) (Scaled.resultExp op eL eR - eL) ρ ∧ ScaleDefined ws (Scaled.resultExp op eL eR - eL) ρ) :
    Layered.compound op (scn ws L eL ρ l) (scn ws R eR ρ r)
      = (Layered.compound op (sc L eL ρ l) (sc R eR ρ r)).map (renest ws) :=
  compound_scn ws hw op hs L R eL eR ρ l r hwf hc

/-- the mixed-exponent sum over a nest is the hand-written shift-and-add code on the innermost integers
(`kernel_mixadd` through `bin_exponents_transparent`) -/
theorem kernel_mixadd_nest (ws : List Layer) (hw : Wrappers ws) (T : IntTy) (hT : 1 ≤ T.bits) (e1 e2 : Int) (l r : Int)
    (hl : T.InRange l) (hr : T.InRange r) (hk : (e2 - e1).natAbs < T.digits) :
    Layered.bin .add (scn ws T e1 2 l) (scn ws T e2 2 r)
      = (mixaddHand T e1 e2 l r).map (fun v => scn ws v.1 (min e1 e2) 2 v.2) := by
  have hd := promote_digits_le hT
  rw [bin_exponents_transparent ws hw .add rfl T T e1 e2 2 l r
      (fun _ _ => ⟨PowWF.of_lt (by omega), PowWF.of_lt (by omega)⟩),
    kernel_mixadd T hT e1 e2 l r hl hr hk, map_map]
  rfl

/-! Non-vacuity of the exponent-changing theorems: concrete nests, both directions, undefined cases, and the
necessity of `PowWF` (where the bare instantiation is ill-formed the wrapper's is too: before the repair of
`C09.wrapped_power_is_int_min` a `rounding_integer` compiled there and computed `1 / (1 << 31)` in `int`;
`default_scale<-k>` now asserts `0 < divisor`). -/
example : Wrappers [.ov, .rd] ∧ PowWF i8 3 2 ∧ PowWF i16 (-30) 2 ∧ ¬ PowWF i32 31 2 ∧ PowWF i8 2 10 ∧ ¬ PowWF i32 10 10 := by decide +kernel
example : ScaleDefined [.ov, .rd] (-3) 2 ∧ ScaleDefined [.ov] (-3) 10 ∧ ¬ ScaleDefined [.ov, .rd] (-3) 10 := by decide +kernel
example : (ops 2).scale 3 2 (nest [.ov, .rd] i8, 5) = .ok (nest [.ov, .rd] i32, 40) := by decide +kernel
example : (ops 2).scale (-3) 2 (nest [.ov, .rd] i8, -50) = .ok (nest [.ov, .rd] i32, -6) := by decide +kernel
example : (ops 1).scale 2 10 (nest [.ov] u8, 255) = .ok (nest [.ov] i32, 25500) := by decide +kernel
example : (ops 1).scale 30 2 (nest [.ov] i32, 7) = .ub .signedOverflow ∧ scaleInt 30 2 (i32, 7) = .ub .signedOverflow := by decide +kernel
example : (ops 1).scale (-31) 2 (nest [.rd] i32, 1) = .ill "scale: attempted operation will result in overflow"
    ∧ ¬ PowWF i32 (-31) 2 := by decide +kernel
example : Layered.bin .add (scn [.ov, .rd] i8 (-4) 2 100) (scn [.ov, .rd] i16 (-1) 2 (-3))
    = .ok (scn [.ov, .rd] i32 (-4) 2 76) := by decide +kernel
example : Layered.bin .sub (scn [.rd] u32 0 2 1) (scn [.rd] u32 (-8) 2 257) = .ok (scn [.rd] u32 (-8) 2 4294967295) := by decide +kernel
example : Layered.cmp .lt (scn [.ov] i8 (-6) 2 (-128)) (scn [.ov] u8 (-1) 2 3) = .ok true := by decide +kernel
example : Layered.cast (.sc (nest [.rd, .ov] i8) (-1) 2) (scn [.rd, .ov] i16 (-4) 2 (-1001)) = .ok (scn [.rd, .ov] i8 (-1) 2 (-125)) := by decide +kernel
example : Layered.compound .add (scn [.ov] i8 (-1) 2 5) (scn [.ov] i8 (-4) 2 7) = .ok (scn [.ov] i8 (-1) 2 5) := by decide +kernel
example : Layered.compound .mul (scn [.ov, .rd] i16 (-8) 2 640) (scn [.ov, .rd] i16 (-8) 2 (-384))
    = .ok (scn [.ov, .rd] i16 (-8) 2 (-960)) := by decide +kernel

/-! Non-vacuity: concrete instances (a three-deep nest over 8/16-bit reps). -/
example : Layered.bin .add (nest [.sc 2, .ov, .rd] i8, 100) (nest [.sc 2, .ov, .rd] i16, 28)
    = .ok (nest [.sc 2, .ov, .rd] i32, 128) := by decide
example : Layered.bin .mul (nest [.ov] i32, 65536) (nest [.ov] i32, 65536) = .ub .signedOverflow := by decide
example : Layered.cmp .lt (nest [.sc 2] i32, -1) (nest [.sc 2] u32, 0) = .ok false := by decide

-- kernels: the harness's type pairs satisfy the width conditions; concrete evaluations
example : HoldsProducts i32 i64 ∧ HoldsProducts i16 i32 ∧ HoldsProducts i8 i16 ∧ HoldsProducts u16 u32 := by decide
example : HoldsSums i32 i64 ∧ HoldsSums i16 i32 ∧ HoldsSums i8 i16 ∧ HoldsSums u16 u32 := by decide
example : (Layered.cast (.sc (.int i64) (-16) 2) (sc i32 (-16) 2 100000) >>= fun wa => Layered.bin .mul wa (sc i32 (-16) 2 (-100000)))
    = .ok (sc i64 (-32) 2 (-10000000000)) := by decide +kernel
-- without widening both the CNL expression and the hand-written code overflow
example : (Layered.cast (.sc (.int i32) (-16) 2) (sc i32 (-16) 2 100000) >>= fun wa => Layered.bin .mul wa (sc i32 (-16) 2 100000))
    = .ub .signedOverflow := by decide
example : (Layered.cast (.sc (.int i16) (-3) 2) (sc i8 (-3) 2 (-128)) >>= fun wa => Layered.bin .mul wa wa)
    = .ok (sc i32 (-6) 2 16384) := by decide
example : (Layered.cast (.sc (.int u32) (-4) 2) (sc u16 (-4) 2 65535) >>= fun wa =>
    Layered.bin .add wa (sc u16 (-4) 2 65535) >>= fun s => shrConst 1 s) = .ok (sc u32 (-5) 2 131070) := by decide
example : Layered.bin .add (sc i16 (-8) 2 300) (sc i16 (-4) 2 5) = .ok (sc i32 (-8) 2 380) := by decide
example : mixaddHand i16 (-8) (-4) 300 5 = .ok (i32, 380) := by decide
example : mixaddHand i32 (-8) (-20) 2147483647 5 = .ub .signedOverflow := by decide

end Cnl.C12
