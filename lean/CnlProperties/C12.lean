import CnlProofs.Native
/-!
# C12 — wrapping is transparent

A CNL wrapper whose tags request built-in behaviour computes, for every operator and every
operand value, exactly the value — and the promoted representation type — of the same built-in
expression on the underlying integers.  `nest ls T` is any nesting of
`scaled_integer<_, power<0, radix>>`, `overflow_integer<_, native_overflow_tag>` and
`rounding_integer<_, native_rounding_tag>` around the built-in integer type `T` (any width).
`cBin`, `cCmp`, `cUn` are the built-in operators of `CnlModel.CInt`; the result `Res` carries
undefined behaviour, so the statements also say the wrapped expression is undefined exactly when
the bare one is.  All theorems hold for nests of any depth and integer types of any width.
-/
namespace Cnl.C12
open Cnl Cnl.Layered Cnl.Native

/-- `+ - * / % & | ^` on two numbers of the same native nest -/
theorem bin_transparent (ls : List Layer) (op : BinOp) (hs : isShift op = false)
    (L R : IntTy) (l r : Int) :
    Layered.bin op (nest ls L, l) (nest ls R, r)
      = (cBin op (L, l) (R, r)).map (fun v => (nest ls v.1, v.2)) := by
  apply bin_nest ls _ _ op hs
  simp [level, depth_nest]

/-- wrapper `op` bare built-in integer (the integer is wrapped by `from_value`) -/
theorem bin_int_right_transparent (ls : List Layer) (op : BinOp) (hs : isShift op = false)
    (L R : IntTy) (l r : Int) :
    Layered.bin op (nest ls L, l) (.int R, r)
      = (cBin op (L, l) (R, r)).map (fun v => (nest ls v.1, v.2)) := by
  apply bin_nest_int ls _ _ op hs
  simp [level, depth_nest, Ty.depth]

/-- bare built-in integer `op` wrapper -/
theorem bin_int_left_transparent (ls : List Layer) (op : BinOp) (hs : isShift op = false)
    (L R : IntTy) (l r : Int) :
    Layered.bin op (.int L, l) (nest ls R, r)
      = (cBin op (L, l) (R, r)).map (fun v => (nest ls v.1, v.2)) := by
  apply bin_int_nest ls _ _ op hs
  simp [level, depth_nest, Ty.depth]

/-- `<<` and `>>`: the count may be wrapped in any native nest or be a bare integer -/
theorem shift_transparent (ls cs : List Layer) (op : BinOp) (hs : isShift op = true)
    (L R : IntTy) (l r : Int) :
    Layered.bin op (nest ls L, l) (nest cs R, r)
      = (cBin op (L, l) (R, r)).map (fun v => (nest ls v.1, v.2)) := by
  apply shift_nest ls _ _ op hs cs
  · simp [level, depth_nest]; omega
  · simp [level, depth_nest]; omega

/-- the six comparison operators -/
theorem cmp_transparent (ls : List Layer) (op : CmpOp) (L R : IntTy) (l r : Int) :
    Layered.cmp op (nest ls L, l) (nest ls R, r) = .ok (cCmp op (L, l) (R, r)) := by
  apply cmp_nest ls
  simp [level, depth_nest]

theorem cmp_int_transparent (ls : List Layer) (op : CmpOp) (L R : IntTy) (l r : Int) :
    Layered.cmp op (nest ls L, l) (.int R, r) = .ok (cCmp op (L, l) (R, r)) := by
  apply cmp_nest_int ls
  simp [level, depth_nest, Ty.depth]

/-- unary `-`, `~`, `+` -/
theorem unary_transparent (ls : List Layer) (u : UnOp) (L : IntTy) (l : Int) :
    Layered.un u (nest ls L, l) = (cUn u (L, l)).map (fun v => (nest ls v.1, v.2)) := by
  cases ls with
  | nil => exact unWith_int _ u L l
  | cons layer ls =>
    have h := un_nest (layer :: ls) (ls.length + 1) (Nat.le_refl _) u L l
    rw [unRep_ops_succ] at h
    simpa [Layered.un, depth_nest] using h

/-- compound assignment `a op= b` is `a = static_cast<A>(a op b)`: the built-in result converted
back to the left operand's representation type -/
theorem compound_transparent (ls : List Layer) (op : BinOp) (hs : isShift op = false)
    (L R : IntTy) (l r : Int) :
    Layered.compound op (nest ls L, l) (nest ls R, r)
      = (cBin op (L, l) (R, r)) >>= fun v => .ok (nest ls L, L.wrap v.2) := by
  unfold Layered.compound
  rw [bin_transparent ls op hs]
  cases h : cBin op (L, l) (R, r) <;> simp [Res.map, Res.bind, bind]
  rename_i v
  show Layered.cast _ _ = _
  unfold Layered.cast
  apply cast_nest
  simp [depth_nest]

/-- compound assignment with a bare integer on the right; with `r = 1` this is `++` / `--`
(`scaled/inc_dec_operator.h`, `overflow/custom_operator.h`: the prefix and postfix operators add or
subtract one through the assignment operator): equivalent to adding or subtracting one on the
bare integer and converting back -/
theorem compound_int_transparent (ls : List Layer) (op : BinOp) (hs : isShift op = false)
    (L R : IntTy) (l r : Int) :
    Layered.compound op (nest ls L, l) (.int R, r)
      = (cBin op (L, l) (R, r)) >>= fun v => .ok (nest ls L, L.wrap v.2) := by
  unfold Layered.compound
  rw [bin_int_right_transparent ls op hs]
  cases h : cBin op (L, l) (R, r) <;> simp [Res.map, Res.bind, bind]
  rename_i v
  show Layered.cast _ _ = _
  unfold Layered.cast
  apply cast_nest
  simp [depth_nest]

/-- `++x` / `--x` on any native nest: the operand becomes `x ± 1` computed as the built-in
expression `x = x ± 1` would (including its undefined cases) -/
theorem increment_transparent (ls : List Layer) (L : IntTy) (l : Int) :
    Layered.compound .add (nest ls L, l) (.int i32, 1)
      = (cBin .add (L, l) (i32, 1)) >>= fun v => .ok (nest ls L, L.wrap v.2) :=
  compound_int_transparent ls .add rfl L i32 l 1

theorem decrement_transparent (ls : List Layer) (L : IntTy) (l : Int) :
    Layered.compound .sub (nest ls L, l) (.int i32, 1)
      = (cBin .sub (L, l) (i32, 1)) >>= fun v => .ok (nest ls L, L.wrap v.2) :=
  compound_int_transparent ls .sub rfl L i32 l 1

/-! Non-vacuity: concrete instances (a three-deep nest over 8/16-bit reps). -/
example : Layered.bin .add (nest [.sc 2, .ov, .rd] i8, 100) (nest [.sc 2, .ov, .rd] i16, 28)
    = .ok (nest [.sc 2, .ov, .rd] i32, 128) := by decide
example : Layered.bin .mul (nest [.ov] i32, 65536) (nest [.ov] i32, 65536) = .ub .signedOverflow := by decide
example : Layered.cmp .lt (nest [.sc 2] i32, -1) (nest [.sc 2] u32, 0) = .ok false := by decide

end Cnl.C12
