import CnlProofs.Scaled
/-!
# C02 — `/` and `%` on `scaled_integer` obey the integer-division contract

Notation as in C01: `sc T e ρ v` is `scaled_integer<T, power<e, ρ>>` with representation `v`
(any width, any exponent, any radix), `T = usualArith L R` the built-in result type.
`/` and `%` are "non zero-degree" operators (`scaled/binary_operator.h`): they act on the two
representations directly; the exponent rules are those of `scaled/definition.h`.

`DivGuard L R l r` is the property's guard: the usual arithmetic conversions keep both values
(`T.wrap l = l`, `T.wrap r = r` — this fails only when a negative signed operand meets an unsigned
type of at least its rank), `r ≠ 0`, and not `lowest / -1` in a signed `T`.

* `div_mod_values` — `a / b` has exponent `eL - eR` and representation `l.tdiv r` (truncation toward
  zero), `a % b` has exponent `eL` and representation `l.tmod r`; both of type `T`; no undefined
  behaviour.
* `div_mod_identity` — the model evaluation of the C++ expression `(a/b)*b + a%b == a` (five
  operator applications: `/`, `*`, `%`, `+`, `==`) is `true`: the product `(a/b)*b` has exponent
  `(eL-eR)+eR = eL` so the final `+` needs no alignment, `|q·r| ≤ |l|` so no intermediate overflows.
  Holds for **all** operand type pairs, widths, exponents and radixes.
* `remainder_sign_magnitude` — the remainder is zero or has the sign of the dividend, and its
  representation magnitude is strictly below that of the divisor.
* `div_by_zero_undefined`, `div_overflow_undefined` — outside the guard the evaluation is undefined
  (as for the built-in operators), so the guard is not stronger than needed.

The `quotient()` clause of C02 is proved with the fraction model (`CnlProofs.MakeFraction`), not here.
-/
namespace Cnl.C02
open Cnl Cnl.Spec Cnl.Layered Cnl.ScaledP

/-- representation values and exponents of `a / b` and `a % b` -/
theorem div_mod_values (L R : IntTy) (eL eR : Int) (ρ : Nat) (l r : Int) (g : DivGuard L R l r) :
    Layered.bin .div (sc L eL ρ l) (sc R eR ρ r) = .ok (sc (usualArith L R) (eL - eR) ρ (l.tdiv r))
    ∧ Layered.bin .mod (sc L eL ρ l) (sc R eR ρ r) = .ok (sc (usualArith L R) eL ρ (l.tmod r)) :=
  ⟨bin_div g eL eR ρ, bin_mod g eL eR ρ⟩

/-- the same with the guard spelled out -/
theorem div_mod_values_explicit (L R : IntTy) (eL eR : Int) (ρ : Nat) (l r : Int)
    (hwl : (usualArith L R).wrap l = l) (hwr : (usualArith L R).wrap r = r) (hr0 : r ≠ 0)
    (hov : ¬ ((usualArith L R).signed = true ∧ l = (usualArith L R).lowest ∧ r = -1)) :
    Layered.bin .div (sc L eL ρ l) (sc R eR ρ r) = .ok (sc (usualArith L R) (eL - eR) ρ (l.tdiv r))
    ∧ Layered.bin .mod (sc L eL ρ l) (sc R eR ρ r) = .ok (sc (usualArith L R) eL ρ (l.tmod r)) :=
  div_mod_values L R eL eR ρ l r ⟨hwl, hwr, hr0, hov⟩

/-- `(a/b)*b + a%b == a` evaluates to `true`, with no undefined behaviour on the way -/
theorem div_mod_identity (L R : IntTy) (hL : 1 ≤ L.bits) (hR : 1 ≤ R.bits) (eL eR : Int) (ρ : Nat)
    (l r : Int) (hr : R.InRange r) (g : DivGuard L R l r) :
    divModIdentity (sc L eL ρ l) (sc R eR ρ r) = .ok true :=
  divModIdentity_true hL hR hr g eL eR ρ

/-- what the identity says about the representations: `q·r + m = l` at the dividend's exponent -/
theorem div_mod_identity_values (l r : Int) : l.tdiv r * r + l.tmod r = l := by
  rw [Int.mul_comm]; exact Int.mul_tdiv_add_tmod l r

/-- the remainder is zero or has the sign of the dividend; its magnitude is below the divisor's -/
theorem remainder_sign_magnitude (l r : Int) (hr : r ≠ 0) :
    (0 ≤ l → 0 ≤ l.tmod r) ∧ (l ≤ 0 → l.tmod r ≤ 0) ∧ (l.tmod r).natAbs < r.natAbs := by
  have hf := tdiv_tmod_facts l r hr
  refine ⟨fun h => (hf.2.1 h).1, fun h => (hf.2.2.1 h).1, ?_⟩
  rw [Int.natAbs_tmod]
  exact Nat.mod_lt _ (by omega)

/-- the quotient is the exact quotient truncated toward zero -/
theorem quotient_truncated (l r : Int) (hr : r ≠ 0) : IsRounded .truncate l r (l.tdiv r) :=
  roundDiv_truncate l r hr

/-- division by zero is undefined -/
theorem div_by_zero_undefined (L R : IntTy) (eL eR : Int) (ρ : Nat) (l : Int) :
    Layered.bin .div (sc L eL ρ l) (sc R eR ρ 0) = .ub .divByZero
    ∧ Layered.bin .mod (sc L eL ρ l) (sc R eR ρ 0) = .ub .divByZero := by
  have hT := usualArith_bits_pos L R
  have w0 : (usualArith L R).wrap 0 = 0 := IntTy.wrap_id hT (Rounding.zero_le_max _)
  have hd := bin_direct .div (Or.inr (Or.inl rfl)) L R eL eR ρ l 0
  have hm := bin_direct .mod (Or.inr (Or.inr rfl)) L R eL eR ρ l 0
  rw [show Elastic.AOp.toBin .div = BinOp.div from rfl] at hd
  rw [show Elastic.AOp.toBin .mod = BinOp.mod from rfl] at hm
  rw [hd, hm]
  simp only [cBin, w0, ite_true]
  exact ⟨rfl, rfl⟩

/-- `lowest / -1` in a signed result type is undefined -/
theorem div_overflow_undefined (L R : IntTy) (eL eR : Int) (ρ : Nat) (l r : Int)
    (hs : (usualArith L R).signed = true) (hl : (usualArith L R).wrap l = (usualArith L R).lowest)
    (hr : (usualArith L R).wrap r = -1) :
    Layered.bin .div (sc L eL ρ l) (sc R eR ρ r) = .ub .divOverflow := by
  have hd := bin_direct .div (Or.inr (Or.inl rfl)) L R eL eR ρ l r
  rw [show Elastic.AOp.toBin .div = BinOp.div from rfl] at hd
  rw [hd]
  simp only [cBin, hl, hr, hs, and_self, ite_true]
  rfl

/-! Non-vacuity -/

example : DivGuard i32 i16 (-7) 2 := ⟨by decide, by decide, by decide, by decide⟩
example : Layered.bin .div (sc i32 (-4) 2 (-7)) (sc i16 3 2 2) = .ok (sc i32 (-7) 2 (-3)) := by decide
example : Layered.bin .mod (sc i32 (-4) 2 (-7)) (sc i16 3 2 2) = .ok (sc i32 (-4) 2 (-1)) := by decide
example : divModIdentity (sc i32 (-4) 10 (-7)) (sc i16 3 10 2) = .ok true := by decide
example : divModIdentity (sc u8 5 2 200) (sc i8 (-70) 2 (-3)) = .ok true := by decide
-- outside the guard: a negative dividend meets an unsigned divisor type of rank `int`
example : ¬ DivGuard i32 u32 (-7) 2 := fun g => absurd g.wl (by decide)
example : Layered.bin .div (sc i32 0 2 (-7)) (sc u32 0 2 2) = .ok (sc u32 0 2 2147483644) := by decide

end Cnl.C02
