import CnlProofs.Scaled
import CnlProofs.Quotient
import CnlProofs.Overflow
import CnlProofs.ElasticScaled
import CnlProofs.ScaledWrapped
/-!
# C02 — `/` and `%` on `scaled_integer` obey the integer-division contract

Notation as in C01: `sc T e ρ v` is `scaled_integer<T, power<e, ρ>>` with representation `v`
(any width, any exponent, any radix), `T = usualArith L R` the built-in result type.
`/` and `%` are "non zero-degree" operators (`scaled/binary_operator.h`): they act on the two
representations directly; the exponent rules are those of `scaled/definition.h`.

`DivGuard L R l r` is the property's guard: the usual arithmetic conversions keep both values
(`T.wrap l = l`, `T.wrap r = r` — this fails only when a negative signed operand meets an unsigned
type of at least its rank), `r ≠ 0`, and not `lowest / -1` in a signed `T`.

* `div_mod_values` — `a / b` has exponent `eL - eR` and representation `l.tdiv r` (truncation toward
  zero), `a % b` has exponent `eL` and representation `l.tmod r`; both of type `T`; no undefined
  behaviour.
* `div_mod_identity` — the model evaluation of the C++ expression `(a/b)*b + a%b == a` (five
  operator applications: `/`, `*`, `%`, `+`, `==`) is `true`: the product `(a/b)*b` has exponent
  `(eL-eR)+eR = eL` so the final `+` needs no alignment, `|q·r| ≤ |l|` so no intermediate overflows.
  Holds for **all** operand type pairs, widths, exponents and radixes.
* `remainder_sign_magnitude` — the remainder is zero or has the sign of the dividend, and its
  representation magnitude is strictly below that of the divisor.
* `div_by_zero_undefined`, `div_overflow_undefined` — outside the guard the evaluation is undefined
  (as for the built-in operators), so the guard is not stronger than needed.

The `quotient()` clause of C02: the fraction → scaled conversion it is built on is proved with the
fraction model (`CnlProofs.MakeFraction`); the function itself on two scaled integers over built-in
representations (`Scaled.quotient`, radix 2) is proved here.  `D` is the result's storage type
`set_digits_t<T, max (digits L + digits R) (digits T)>`, `dR = digits R`:

* `quotient_correct` — under the exact guard (`D` holds `l` and `r` unchanged, `r ≠ 0`, not
  `lowest / -1`) the result has type `D`, exponent `eL - eR - dR` and representation
  `(l · 2^dR).tdiv r`; `quotient_correct_std` discharges the guard for operand types with an even
  number of bits (all the standard ones) when the common type is signed or both operands are
  non-negative: only `r ≠ 0` remains.
* `quotient_wide_enough` — `l · 2^dR` is in range of `D` for every `l` (no input overflows the
  widened dividend); with no guard at all the evaluation is a value or one of the two undefined
  cases of the built-in division (`/ 0`, `lowest / -1`) — never a signed overflow.
* `quotient_error_below_one_unit` — the result is the true quotient `l·2^dR / r` truncated toward
  zero (`IsRounded .truncate`), i.e. `|q| ≤ |l·2^dR / r| < |q| + 1`: the error is less than one unit
  of the result's resolution `2^(eL - eR - dR)`.

Wrapped representations (`CnlModel.ScaledWrapped`, harness `C02w`): `/` and `%` reach the representation's own
operators, so the contract has to survive what those do before the built-in division runs.

* `elastic_div_mod_values` — representation `elastic_integer` (`elastic_scaled_integer`), **all** digit counts,
  exponents, narrowest widths and the four signedness mixes of dividend and divisor: for in-range operands and a
  non-zero divisor, whenever the result types exist, `a / b` is a value with exponent `eL - eR`, `digits a` digits and
  representation `l.tdiv r`; `a % b` a value with exponent `eL`, `min (digits a) (digits b)` digits and representation
  `l.tmod r`; both lie in the range their types declare and `q·r + m = l`.  (An unsigned dividend with a negative signed
  divisor, and an unsigned operand whose top storage bit is set, are instances: the elastic policy makes the operand
  type signed and wide enough for both operands.)
* `elastic_builtin_div_mod_values` — an `elastic_integer` representation against an operand with a **built-in**
  representation (`scaled_integer<T, power<eT>>` or a plain `T`), either operand order (`ScaledWrapped.binOpB`): the
  built-in operand is lifted by `from_value<elastic_integer<_, N>, T>` to `digits T` digits with the signedness of `T`
  (`ofBuiltin`, in range by `ofBuiltin_inRange` unless it is the lowest value of a signed `T`), after which the statement
  is `elastic_div_mod_values`.  An unsigned narrowest type against a negative `int` is an instance (examples).
  The identity and `cnl::quotient` for this operand kind (`identB`, `quotientB`) are covered by correspondence only.
* `checked_div_mod_values` — representation `overflow_integer<T, tag>` for every tag (native, saturated, throwing,
  trapping, undefined), every pair of built-in representations (the same signedness under a checked tag) and every
  exponent/radix: inside `DivGuard` the tagged `/` and `%` return `l.tdiv r` at `eL - eR` and `l.tmod r` at `eL` in
  `overflow_integer<usualArith L R, tag>` and **do not signal** — in particular `-max / -1` (`checked_minus_max_by_minus_one`);
  the excluded `lowest / -1` does signal (example).
* by correspondence only (no theorem): the five-operator expression `(a/b)*b + a%b == a` over the two wrapped
  representations (`ScaledWrapped.identE`, `identL`: the oracle demands `true` inside the guard) and `cnl::quotient`
  over them (`ScaledWrapped.quotientE`, `quotientO`: the oracle demands `(l·2^k).tdiv r` at `eL - eR - k`, within the
  digits of the result type); radix 10 for `/ %` over elastic representations is the same model (the radix is only part
  of the type).
-/
namespace Cnl.C02
open Cnl Cnl.Spec Cnl.Layered Cnl.ScaledP Cnl.QuotientP Cnl.ScaledWrapped Cnl.ScaledWrappedP Cnl.Elastic Cnl.ElasticScaled

/-- representation values and exponents of `a / b` and `a % b` -/
theorem div_mod_values (L R : IntTy) (eL eR : Int) (ρ : Nat) (l r : Int) (g : DivGuard L R l r) :
    Layered.bin .div (sc L eL ρ l) (sc R eR ρ r) = .ok (sc (usualArith L R) (eL - eR) ρ (l.tdiv r))
    ∧ Layered.bin .mod (sc L eL ρ l) (sc R eR ρ r) = .ok (sc (usualArith L R) eL ρ (l.tmod r)) :=
  ⟨bin_div g eL eR ρ, bin_mod g eL eR ρ⟩

/-- the same with the guard spelled out -/
theorem div_mod_values_explicit (L R : IntTy) (eL eR : Int) (ρ : Nat) (l r : Int)
    (hwl : (usualArith L R).wrap l = l) (hwr : (usualArith L R).wrap r = r) (hr0 : r ≠ 0)
    (hov : ¬ ((usualArith L R).signed = true ∧ l = (usualArith L R).lowest ∧ r = -1)) :
    Layered.bin .div (sc L eL ρ l) (sc R eR ρ r) = .ok (sc (usualArith L R) (eL - eR) ρ (l.tdiv r))
    ∧ Layered.bin .mod (sc L eL ρ l) (sc R eR ρ r) = .ok (sc (usualArith L R) eL ρ (l.tmod r)) :=
  div_mod_values L R eL eR ρ l r ⟨hwl, hwr, hr0, hov⟩

/-- `(a/b)*b + a%b == a` evaluates to `true`, with no undefined behaviour on the way -/
theorem div_mod_identity (L R : IntTy) (hL : 1 ≤ L.bits) (hR : 1 ≤ R.bits) (eL eR : Int) (ρ : Nat)
    (l r : Int) (hr : R.InRange r) (g : DivGuard L R l r) :
    divModIdentity (sc L eL ρ l) (sc R eR ρ r) = .ok true :=
  divModIdentity_true hL hR hr g eL eR ρ

/-- what the identity says about the representations: `q·r + m = l` at the dividend's exponent -/
theorem div_mod_identity_values (l r : Int) : l.tdiv r * r + l.tmod r = l := by
  rw [Int.mul_comm]; exact Int.mul_tdiv_add_tmod l r

/-- the remainder is zero or has the sign of the dividend; its magnitude is below the divisor's -/
theorem remainder_sign_magnitude (l r : Int) (hr : r ≠ 0) :
    (0 ≤ l → 0 ≤ l.tmod r) ∧ (l ≤ 0 → l.tmod r ≤ 0) ∧ (l.tmod r).natAbs < r.natAbs := by
  have hf := tdiv_tmod_facts l r hr
  refine ⟨fun h => (hf.2.1 h).1, fun h => (hf.2.2.1 h).1, ?_⟩
  rw [Int.natAbs_tmod]
  exact Nat.mod_lt _ (by omega)

/-- the quotient is the exact quotient truncated toward zero -/
theorem quotient_truncated (l r : Int) (hr : r ≠ 0) : IsRounded .truncate l r (l.tdiv r) :=
  roundDiv_truncate l r hr

/-- division by zero is undefined -/
theorem div_by_zero_undefined (L R : IntTy) (eL eR : Int) (ρ : Nat) (l : Int) :
    Layered.bin .div (sc L eL ρ l) (sc R eR ρ 0) = .ub .divByZero
    ∧ Layered.bin .mod (sc L eL ρ l) (sc R eR ρ 0) = .ub .divByZero := by
  have hT := usualArith_bits_pos L R
  have w0 : (usualArith L R).wrap 0 = 0 := IntTy.wrap_id hT (Rounding.zero_le_max _)
  have hd := bin_direct .div (Or.inr (Or.inl rfl)) L R eL eR ρ l 0
  have hm := bin_direct .mod (Or.inr (Or.inr rfl)) L R eL eR ρ l 0
  rw [show Elastic.AOp.toBin .div = BinOp.div from rfl] at hd
  rw [show Elastic.AOp.toBin .mod = BinOp.mod from rfl] at hm
  rw [hd, hm]
  simp only [cBin, w0, ite_true]
  exact ⟨rfl, rfl⟩

/-- `lowest / -1` in a signed result type is undefined -/
theorem div_overflow_undefined (L R : IntTy) (eL eR : Int) (ρ : Nat) (l r : Int)
    (hs : (usualArith L R).signed = true) (hl : (usualArith L R).wrap l = (usualArith L R).lowest)
    (hr : (usualArith L R).wrap r = -1) :
    Layered.bin .div (sc L eL ρ l) (sc R eR ρ r) = .ub .divOverflow := by
  have hd := bin_direct .div (Or.inr (Or.inl rfl)) L R eL eR ρ l r
  rw [show Elastic.AOp.toBin .div = BinOp.div from rfl] at hd
  rw [hd]
  simp only [cBin, hl, hr, hs, and_self, ite_true]
  rfl


/-! ## `quotient(a, b)` -/

/-- `quotient(a, b)`: type, exponent and representation of the result.  `D` is the storage type
chosen by `set_digits`; the guard is exactly what the two conversions and the built-in division
need (`QuotGuard`): `D` holds both representations unchanged, the divisor is not zero, and the
division is not `lowest / -1`.  `1 ≤ L.digits`: the dividend type has at least one value digit
(every built-in type has), otherwise `power_value<D, dR>` may not be instantiable. -/
theorem quotient_correct (L R D : IntTy) (hL : 1 ≤ L.digits) (eL eR : Int) (l r : Int) (hl : L.InRange l)
    (hD : Scaled.setDigitsInt (usualArith L R).signed (max (L.digits + R.digits) (usualArith L R).digits) = some D)
    (hwl : D.wrap l = l) (hwr : D.wrap r = r) (hr0 : r ≠ 0)
    (hov : ¬ (D.signed = true ∧ l * 2^R.digits = D.lowest ∧ r = -1)) :
    Scaled.quotient L eL R eR l r = .ok (D, eL - eR - R.digits, (l * 2^R.digits).tdiv r) :=
  quotient_eval hL eL eR hl hD ⟨hwl, hwr, hr0, hov⟩

/-- the guard discharged for the standard operand types (even number of bits): if the common type
of the representations is signed (e.g. both operands signed, or an unsigned operand of lower rank),
or both operands are non-negative, every non-zero divisor is fine -/
theorem quotient_correct_std (L R D : IntTy) (hL : 1 ≤ L.digits) (hR : 1 ≤ R.bits)
    (hLe : L.bits % 2 = 0) (hRe : R.bits % 2 = 0) (eL eR : Int) (l r : Int)
    (hl : L.InRange l) (hr : R.InRange r)
    (hD : Scaled.setDigitsInt (usualArith L R).signed (max (L.digits + R.digits) (usualArith L R).digits) = some D)
    (hs : (usualArith L R).signed = true ∨ (0 ≤ l ∧ 0 ≤ r)) (hr0 : r ≠ 0) :
    Scaled.quotient L eL R eR l r = .ok (D, eL - eR - R.digits, (l * 2^R.digits).tdiv r) := by
  have hLb : 1 ≤ L.bits := by unfold IntTy.digits at hL; split at hL <;> omega
  have f := storage_facts hD
  have hb : 1 ≤ D.bits := by have := f.bits; omega
  apply quotient_eval hL eL eR hl hD
  refine ⟨IntTy.wrap_id hb (storage_inRange_left hD hLb hl ?_), IntTy.wrap_id hb (storage_inRange_right hD hR hr ?_),
    hr0, nov_of_even_bits hD hLe hRe hLb hR hl hr⟩
  · rcases hs with hs | hs
    · exact Or.inl hs
    · exact Or.inr hs.1
  · rcases hs with hs | hs
    · exact Or.inl hs
    · exact Or.inr hs.2

/-- the storage type is wide enough: the dividend shifted left by the divisor's digits is in range
of `D` for every dividend `D` can hold (`|l| ≤ 2^dL ⇒ |l·2^dR| ≤ 2^(dL+dR) ≤ 2^(digits D)`), and —
with no guard on the operands at all — the evaluation is a value or one of the two undefined cases
of the built-in division; in particular the widening multiplication never overflows -/
theorem quotient_wide_enough (L R D : IntTy) (hL : 1 ≤ L.digits) (hR : 1 ≤ R.bits) (eL eR : Int) (l r : Int)
    (hl : L.InRange l) (hr : R.InRange r)
    (hD : Scaled.setDigitsInt (usualArith L R).signed (max (L.digits + R.digits) (usualArith L R).digits) = some D) :
    (D.InRange l → D.InRange (l * 2^R.digits))
    ∧ ((∃ q, Scaled.quotient L eL R eR l r = .ok (D, eL - eR - R.digits, q))
        ∨ Scaled.quotient L eL R eR l r = .ub .divByZero
        ∨ Scaled.quotient L eL R eR l r = .ub .divOverflow)
    ∧ Scaled.quotient L eL R eR l r ≠ .ub .signedOverflow := by
  have h := quotient_ub_cases hL hR eL eR hl hr hD
  refine ⟨scaled_inRange hD hl, h, ?_⟩
  rcases h with ⟨q, h⟩ | h | h <;> rw [h] <;> simp

/-- the result is the true quotient truncated toward zero at the result's resolution: with
`n = l·2^dR` (so that `a / b = (n / r) · 2^(eL - eR - dR)` exactly) the representation `q` of the
result is `n / r` rounded toward zero, and `0 ≤ |n / r| - |q| < 1` (stated multiplied through by
`|r|`): the error is below one unit of the last place of the result -/
theorem quotient_error_below_one_unit (L R D : IntTy) (hL : 1 ≤ L.digits) (eL eR : Int) (l r : Int) (hl : L.InRange l)
    (hD : Scaled.setDigitsInt (usualArith L R).signed (max (L.digits + R.digits) (usualArith L R).digits) = some D)
    (g : QuotGuard L R D l r) :
    ∃ q, Scaled.quotient L eL R eR l r = .ok (D, eL - eR - R.digits, q)
      ∧ IsRounded .truncate (l * 2^R.digits) r q
      ∧ q.natAbs * r.natAbs ≤ (l * 2^R.digits).natAbs
      ∧ (l * 2^R.digits).natAbs < (q.natAbs + 1) * r.natAbs :=
  ⟨_, quotient_eval hL eL eR hl hD g, roundDiv_truncate _ r g.r0,
    (tdiv_magnitude _ r g.r0).1, (tdiv_magnitude _ r g.r0).2⟩

/-! Non-vacuity -/

example : DivGuard i32 i16 (-7) 2 := ⟨by decide, by decide, by decide, by decide⟩
example : Layered.bin .div (sc i32 (-4) 2 (-7)) (sc i16 3 2 2) = .ok (sc i32 (-7) 2 (-3)) := by decide
example : Layered.bin .mod (sc i32 (-4) 2 (-7)) (sc i16 3 2 2) = .ok (sc i32 (-4) 2 (-1)) := by decide
example : divModIdentity (sc i32 (-4) 10 (-7)) (sc i16 3 10 2) = .ok true := by decide
example : divModIdentity (sc u8 5 2 200) (sc i8 (-70) 2 (-3)) = .ok true := by decide
-- outside the guard: a negative dividend meets an unsigned divisor type of rank `int`
example : ¬ DivGuard i32 u32 (-7) 2 := fun g => absurd g.wl (by decide)
example : Layered.bin .div (sc i32 0 2 (-7)) (sc u32 0 2 2) = .ok (sc u32 0 2 2147483644) := by decide

-- `quotient`: storage types exist and the guard is satisfiable
example : Scaled.setDigitsInt (usualArith i16 i16).signed (max (i16.digits + i16.digits) (usualArith i16 i16).digits) = some i32 := by decide
example : Scaled.setDigitsInt (usualArith i32 i32).signed (max (i32.digits + i32.digits) (usualArith i32 i32).digits) = some i64 := by decide
example : QuotGuard i32 i32 i64 (-7) 2 := by decide
example : QuotGuard u8 i16 i32 200 (-3) := by decide
example : Scaled.quotient i16 (-8) i16 (-4) 300 7 = .ok (i32, -19, 1404342) := by decide +kernel
example : Scaled.quotient i32 0 i32 0 (-7) 2 = .ok (i64, -31, -7516192768) := by decide
example : Scaled.quotient u8 0 u8 0 200 3 = .ok (i32, -8, 17066) := by decide +kernel
example : IsRounded .truncate (-7 * 2^31) 2 (-7516192768) := by decide
example : Scaled.quotient i32 0 i32 0 (-7) 0 = .ub .divByZero := by decide
-- outside the guard: a negative dividend meets an unsigned storage type
example : ¬ QuotGuard i32 u32 u64 (-7) 2 := by decide

/-! ## wrapped representations: elastic_integer and overflow_integer -/

/-- `overflow_integer` representations, any tag: inside the guard `/` and `%` return the truncated quotient and the
remainder of the representations, with exponents `eL - eR` and `eL`, and raise no overflow signal -/
theorem checked_div_mod_values (tag : OvTag) (L R : IntTy) (hL : 1 ≤ L.bits) (hR : 1 ≤ R.bits)
    (hs : tag ≠ .nat → L.signed = R.signed) (eL eR : Int) (ρ : Nat) (l r : Int)
    (hl : L.InRange l) (hr : R.InRange r) (g : DivGuard L R l r) :
    Layered.bin .div (scOv L tag eL ρ l) (scOv R tag eR ρ r) = .ok (scOv (usualArith L R) tag (eL - eR) ρ (l.tdiv r))
    ∧ Layered.bin .mod (scOv L tag eL ρ l) (scOv R tag eR ρ r) = .ok (scOv (usualArith L R) tag eL ρ (l.tmod r)) := by
  constructor
  · rw [bin_scOv .div (Or.inl rfl), ovBinOp_div tag hL hR hs hl hr g]; rfl
  · rw [bin_scOv .mod (Or.inr rfl), ovBinOp_mod tag g]; rfl


/-- `-max / -1 = max`: not an overflow under any tag, for every signed type that is its own common type (`int` and
wider; narrower representations are promoted and cannot reach `-max` of the promoted type) -/
theorem checked_minus_max_by_minus_one (tag : OvTag) (T : IntTy) (hb : 1 ≤ T.bits) (hu : usualArith T T = T)
    (hs : T.signed = true) (eL eR : Int) (ρ : Nat) :
    Layered.bin .div (scOv T tag eL ρ (-T.max)) (scOv T tag eR ρ (-1)) = .ok (scOv T tag (eL - eR) ρ T.max) := by
  have h0 := Rounding.zero_le_max T
  have hlm := Overflow.lowest_max T
  simp only [hs, ite_true] at hlm
  have hl : T.InRange (-T.max) := ⟨by omega, by omega⟩
  have hr : T.InRange (-1) := ⟨by omega, by omega⟩
  have g : DivGuard T T (-T.max) (-1) := by
    refine ⟨?_, ?_, by decide, ?_⟩
    · rw [hu]; exact (wrap_eq_self_iff _ hb _).2 hl
    · rw [hu]; exact (wrap_eq_self_iff _ hb _).2 hr
    · rw [hu]; intro ⟨_, h2, _⟩; omega
  have h := (checked_div_mod_values tag T T hb hb (fun _ => rfl) eL eR ρ _ _ hl hr g).1
  rw [hu] at h
  rw [h, show (-1 : Int) = -(1 : Int) from rfl, Int.tdiv_neg, Int.tdiv_one, Int.neg_neg]

example : usualArith i32 i32 = i32 ∧ usualArith i64 i64 = i64 := by decide
example : Layered.bin .div (scOv i32 .trp (-8) 2 (-2147483647)) (scOv i32 .trp (-4) 2 (-1))
    = .ok (scOv i32 .trp (-4) 2 2147483647) := by decide
example : Layered.bin .div (scOv i32 .trp (-8) 2 (-2147483648)) (scOv i32 .trp (-4) 2 (-1)) = .trap true := by decide
example : DivGuard i32 i32 (-2147483647) (-1) := ⟨by decide, by decide, by decide, by decide⟩

/-- `elastic_integer` representations: for all digit counts, exponents, narrowest widths and signedness mixes, in-range
operands and a non-zero divisor give — whenever the result types exist — the truncated quotient at `eL - eR` and the
remainder at `eL`, within the declared range of the result types -/
theorem elastic_div_mod_values (x y : ESNum) (hx : x.InRange) (hy : y.InRange) (h0 : y.value ≠ 0)
    (hd : ∀ m, ElasticScaled.binOp .div x y ≠ .ill m) (hm : ∀ m, ElasticScaled.binOp .mod x y ≠ .ill m) :
    ∃ q rm, ElasticScaled.binOp .div x y = .ok q ∧ ElasticScaled.binOp .mod x y = .ok rm ∧
      q.exp = x.exp - y.exp ∧ rm.exp = x.exp ∧
      q.value = x.value.tdiv y.value ∧ rm.value = x.value.tmod y.value ∧
      q.value * y.value + rm.value = x.value ∧
      q.digits = x.digits ∧ rm.digits = min x.digits y.digits ∧ q.InRange ∧ rm.InRange := by
  obtain ⟨d, sg, n, hp, h1, he, hs⟩ := ElasticScaled.binOp_mdm_core .div (Or.inr (Or.inl rfl)) x y hx hy (fun _ => h0) hd
  obtain ⟨d', sg', n', hp', h1', he', hs'⟩ := ElasticScaled.binOp_mdm_core .mod (Or.inr (Or.inr rfl)) x y hx hy (fun _ => h0) hm
  simp only [AOp.toBin, policy, Option.some.injEq, Prod.mk.injEq] at hp hp'
  refine ⟨_, _, h1, h1', rfl, rfl, rfl, rfl, ?_, hp.1.symm, hp'.1.symm, he.mono hs, he'.mono hs'⟩
  exact div_mod_identity_values x.value y.value

-- an unsigned dividend and a negative signed divisor (12 and 10 digits): the operand type is signed
example : ElasticScaled.binOp .mod ⟨12, u32, -4, 10⟩ ⟨10, i32, -2, -3⟩ = .ok ⟨10, i32, -4, 1⟩ := by decide
example : ElasticScaled.binOp .div ⟨12, u32, -4, 10⟩ ⟨10, i32, -2, -3⟩ = .ok ⟨12, i32, -2, -3⟩ := by decide
-- an unsigned operand that fills its 32-bit storage, top bit set, on either side of a signed 8-digit operand
example : ElasticScaled.binOp .mod ⟨32, u32, -16, 2147483648⟩ ⟨8, i32, -2, 3⟩ = .ok ⟨8, i32, -16, 2⟩ := by decide
example : ElasticScaled.binOp .div ⟨8, i32, -2, 100⟩ ⟨32, u32, -16, 4294967293⟩ = .ok ⟨8, i32, 14, 0⟩ := by decide
example : (⟨32, u32, -16, 2147483648⟩ : ESNum).InRange ∧ (⟨8, i32, -2, -3⟩ : ESNum).InRange := by decide

/-- a value of a built-in `T` other than the lowest of a signed `T`, lifted by `from_value` next to an elastic operand
with narrowest type `n`, lies in the declared range of the lifted type (signedness of `T`, `digits T` digits) -/
theorem ofBuiltin_inRange (n T : IntTy) (e b : Int) (hb : T.InRange b) (hl : T.signed = true → b ≠ T.lowest) :
    (ofBuiltin n T e b).InRange := by
  cases T with
  | mk bits sg =>
    cases sg <;>
      simp only [IntTy.InRange, IntTy.lowest, IntTy.max, ESNum.InRange, ENum.InRange, ESNum.toE, ofBuiltin, IntTy.digits] at * <;>
      simp at * <;> omega

/-- an `elastic_integer` representation against an operand with a **built-in** representation `T` (a
`scaled_integer<T, power<eT>>`, or a plain `T` with `eT = 0`), either operand order, all digit counts, widths and the four
signedness mixes (an unsigned narrowest type against a negative `int` is an instance): the truncated quotient at the
difference of the exponents, the remainder at the dividend's exponent, within the declared range of the result types -/
theorem elastic_builtin_div_mod_values (left : Bool) (x : ESNum) (T : IntTy) (eT b : Int) (hx : x.InRange)
    (hb : T.InRange b) (hl : T.signed = true → b ≠ T.lowest)
    (h0 : (if left then x.value else b) ≠ 0)
    (hd : ∀ m, binOpB .div left x T eT b ≠ .ill m) (hm : ∀ m, binOpB .mod left x T eT b ≠ .ill m) :
    ∃ q rm, binOpB .div left x T eT b = .ok q ∧ binOpB .mod left x T eT b = .ok rm ∧
      q.exp = (if left then eT - x.exp else x.exp - eT) ∧ rm.exp = (if left then eT else x.exp) ∧
      q.value = (if left then b.tdiv x.value else x.value.tdiv b) ∧
      rm.value = (if left then b.tmod x.value else x.value.tmod b) ∧ q.InRange ∧ rm.InRange := by
  have hy := ofBuiltin_inRange x.narrowest T eT b hb hl
  cases left
  · simp only [binOpB, Bool.false_eq_true, if_false] at *
    obtain ⟨q, rm, h1, h2, h3, h4, h5, h6, -, -, -, h7, h8⟩ := elastic_div_mod_values x _ hx hy h0 hd hm
    exact ⟨q, rm, h1, h2, h3, h4, h5, h6, h7, h8⟩
  · simp only [binOpB, if_true] at *
    obtain ⟨q, rm, h1, h2, h3, h4, h5, h6, -, -, -, h7, h8⟩ := elastic_div_mod_values _ x hy hx h0 hd hm
    exact ⟨q, rm, h1, h2, h3, h4, h5, h6, h7, h8⟩

-- 3.5 / -0.75 = -4.5 and 3.5 % -0.75 = 0.125: 8 unsigned digits at 2^-4 against an `int` at 2^-2, and the other order
example : binOpB .div false ⟨8, u32, -4, 56⟩ i32 (-2) (-3) = .ok ⟨8, i32, -2, -18⟩ := by decide
example : binOpB .mod false ⟨8, u32, -4, 56⟩ i32 (-2) (-3) = .ok ⟨8, i32, -4, 2⟩ := by decide
example : binOpB .div true ⟨8, u8, -4, 5⟩ i32 0 (-17) = .ok ⟨31, i8, 4, -3⟩ := by decide
example : binOpB .mod true ⟨8, u8, -4, 5⟩ i32 0 (-17) = .ok ⟨8, i8, 0, -2⟩ := by decide
example : i32.InRange (-3) ∧ (-3 : Int) ≠ i32.lowest ∧ (⟨8, u32, -4, 56⟩ : ESNum).InRange := by decide

end Cnl.C02
