import CnlProofs.MakeFraction
/-!
# C17 — constructing a `cnl::fraction` from floating point terminates with a faithful result

Model: `CnlModel/MakeFraction.lean` (`makeFraction F I d fuel`, every floating operation through
`CnlModel/CFloat.lean`, every integer operation through `CnlModel/CInt.lean`), tied to
`/repo/include/cnl/_impl/fraction/make_fraction.h` by the `C17 mf …` correspondence table.
Spec: `CnlSpec/MakeFraction.lean` (`Faithful I x fr`: the property's clauses in exact arithmetic).

The full statement `C17_full` is kept below and is **false** of the unchanged code
(`C17_refuted`, and one refutation per defect class from a concrete kernel-evaluated witness).
What is proved for all formats `F`, all inputs `d` and all component widths (≥ 32 bits where
stated — below that `static_cast<int_t>` of an `int` intermediate wraps silently):

* `C17_fuel_independent` — the outcome of a terminating evaluation does not depend on the fuel;
* `C17_invariant_init`, `C17_invariant_step`, `C17_lowest_terms` — on entry to the loop and after
  every continuing iteration the two bounds have all components in range and
  `right.num·left.den − left.num·right.den = 1`, whatever the floating-point operations returned
  (clamped or not); hence both bounds are in lowest terms;
* `C17_exit_prelude`, `C17_exit_step` — every returning branch other than the zero-jump exit
  returns a fraction `f` with `static_cast<FP>(f) == d` (for the `mid` exit: the mediant is
  neither below nor above `d`, which is equality unless the comparison is unordered);
* `C17_negative_by_negation` — a negative input yields the negated numerator of the result for `−d`;
* `C17_small_ratios_exact` — for `float`/`int32`, every `±p/q`, `q ≤ 8`, `p ≤ 3q` (as rounded to
  float) terminates within 64 iterations with exactly the reduced fraction `±p/q` (kernel sweep);
* `C17_partial` / `C17_defect_sound` — outside the decidable defect classes of
  `MakeFractionSpec.classify` (listed in `findings/C17.json`) the model's result is faithful,
  and inside them it is not.

* component types that are CNL numbers (last section): the generic model `makeFractionC` over a component
  description `Comp`; `C17_comp_sat_in_range`, `C17_comp_exact_in_range`, `C17_comp_checked` (what the component
  arithmetic returns, all digit counts), `C17_generic_exit_prelude`, `C17_generic_negative_by_negation` (all formats,
  all components), `C17_generic_builtin_sweep` / `C17_generic_builtin_witnesses` (generic = built-in model on the
  sweep and the class witnesses) and kernel-evaluated instances (`C17_sat31_at_limit`, `C17_trap31_at_limit`,
  `C17_trap40_below_max`, `C17_trap40_at_max`, `C17_wide128_exact`).  Generic = built-in for *all* inputs, and
  faithfulness of the wrapper lines outside the classes, are covered by correspondence only.

Not proved (stays with the correspondence sweep): termination and the error bound for all inputs
outside the defect classes — no unbounded termination argument over floating-point comparisons is
attempted; positivity of the denominators is *not* an invariant (a jump length computed in
floating point can be negative: `witness_negative_denominator`).
-/
namespace Cnl.C17
open Cnl Cnl.MakeFraction Cnl.MakeFractionSpec

/-- the property's quantifier: a signed component type, a datum of the floating format that is
finite with `|d| ≤ numeric_limits<int_t>::max()` -/
def Admissible (F : Fmt) (I : IntTy) (d : FVal) : Prop :=
  I.signed = true ∧ 2 ≤ I.bits ∧ F.Canonical d = true ∧ inDomain I d = true

instance (F : Fmt) (I : IntTy) (d : FVal) : Decidable (Admissible F I d) := by
  unfold Admissible; exact inferInstance

/-- **the full property** (properties.jsonl C17): termination with a faithful result -/
def C17_full : Prop :=
  ∀ (F : Fmt) (I : IntTy) (d : FVal), Admissible F I d →
    ∃ (fuel : Nat) (fr : Frac), makeFraction F I d fuel = .ok fr ∧ Faithful I d fr

/-! ## fuel -/

theorem C17_fuel_independent (F : Fmt) (I : IntTy) (d : FVal) (n m : Nat) (r r' : Res Frac)
    (h : makeFraction F I d n = r) (hr : r ≠ .diverges)
    (h' : makeFraction F I d m = r') (hr' : r' ≠ .diverges) : r = r' :=
  makeFraction_unique F I d n m r r' h hr h' hr'

/-- a terminating evaluation whose outcome is not a faithful fraction refutes the property at that input -/
theorem no_faithful_result (F : Fmt) (I : IntTy) (d : FVal) (n : Nat) (r : Res Frac)
    (h : makeFraction F I d n = r) (hr : r ≠ .diverges) (hbad : ∀ fr, r = .ok fr → ¬ Faithful I d fr) :
    ¬ ∃ (fuel : Nat) (fr : Frac), makeFraction F I d fuel = .ok fr ∧ Faithful I d fr := by
  rintro ⟨fuel, fr, hf, hfa⟩
  have := makeFraction_unique F I d n fuel r (.ok fr) h hr hf (by simp)
  exact hbad fr this hfa

/-! ## refutation: one kernel-evaluated witness per defect class (`float`, `int32_t` unless stated) -/

/-- 2^-31: `n0 = 2^31` passes `n0 <= float(INT_MAX)` and is cast to `int` -/
def w_ub : FVal := .fin false (2 ^ 23) (-54)
/-- 2031.9707f = 0x1.fbfe2p+10 — an ordinary value (hangs in a plain `-O2 -DNDEBUG` build) -/
def w_ub_ordinary : FVal := binary32.ofDyadic false 0x1fbfe2 (-10)
/-- 0.48827770f = 0x1.f3ff12p-2 -/
def w_assert : FVal := binary32.ofDyadic false 0x1f3ff12 (-26)
/-- 0x1.9ffffep-24 -/
def w_negden : FVal := binary32.ofDyadic false 0x19ffffe (-48)
/-- 0x1.d3ffdcp-29 -/
def w_zero : FVal := binary32.ofDyadic false 0x1d3ffdc (-53)
/-- 7359.8896f = 0x1.cbfe3ep+12 = 15073055/2048 -/
def w_inexact : FVal := binary32.ofDyadic false 0x1cbfe3e (-12)
/-- 0.1f -/
def w_tenth : FVal := binary32.round (1 / 10)

theorem witness_ub : makeFraction binary32 i32 w_ub 100 = .ub .floatToIntRange := by decide +kernel
theorem witness_ub_ordinary : makeFraction binary32 i32 w_ub_ordinary 100 = .ub .floatToIntRange := by decide +kernel
theorem witness_assertion : makeFraction binary32 i32 w_assert 100
    = .unreachable "n0 <= static_cast<FloatingPoint>(std::numeric_limits<int_t>::max())" := by decide +kernel
/-- `double` 2147483647.0 with `int32_t` components: `left.numerator + 1` overflows -/
theorem witness_floor_is_max : makeFraction binary64 i32 (binary64.ofInt 2147483647) 100 = .ub .signedOverflow := by
  decide +kernel
theorem witness_negative_denominator : makeFraction binary32 i32 w_negden 100 = .ok ⟨-1, -10324441⟩ := by decide +kernel
theorem witness_zero_result : makeFraction binary32 i32 w_zero 100 = .ok ⟨0, 1⟩ := by decide +kernel
theorem witness_zero_jump_inexact : makeFraction binary32 i32 w_inexact 100 = .ok ⟨2671640, 363⟩ := by decide +kernel
theorem witness_simplest_fraction : makeFraction binary32 i32 w_tenth 100 = .ok ⟨1, 10⟩ := by decide +kernel

theorem refuted_at_ub : Admissible binary32 i32 w_ub ∧
    ¬ ∃ (fuel : Nat) (fr : Frac), makeFraction binary32 i32 w_ub fuel = .ok fr ∧ Faithful i32 w_ub fr :=
  ⟨by decide +kernel, no_faithful_result _ _ _ 100 _ witness_ub (by simp) (by simp)⟩

theorem refuted_at_ub_ordinary : Admissible binary32 i32 w_ub_ordinary ∧
    ¬ ∃ (fuel : Nat) (fr : Frac), makeFraction binary32 i32 w_ub_ordinary fuel = .ok fr ∧ Faithful i32 w_ub_ordinary fr :=
  ⟨by decide +kernel, no_faithful_result _ _ _ 100 _ witness_ub_ordinary (by simp) (by simp)⟩

theorem refuted_at_assertion : Admissible binary32 i32 w_assert ∧
    ¬ ∃ (fuel : Nat) (fr : Frac), makeFraction binary32 i32 w_assert fuel = .ok fr ∧ Faithful i32 w_assert fr :=
  ⟨by decide +kernel, no_faithful_result _ _ _ 100 _ witness_assertion (by simp) (by simp)⟩

theorem refuted_at_floor_is_max : Admissible binary64 i32 (binary64.ofInt 2147483647) ∧
    ¬ ∃ (fuel : Nat) (fr : Frac), makeFraction binary64 i32 (binary64.ofInt 2147483647) fuel = .ok fr
        ∧ Faithful i32 (binary64.ofInt 2147483647) fr :=
  ⟨by decide +kernel, no_faithful_result _ _ _ 100 _ witness_floor_is_max (by simp) (by simp)⟩

theorem refuted_at_negative_denominator : Admissible binary32 i32 w_negden ∧
    ¬ ∃ (fuel : Nat) (fr : Frac), makeFraction binary32 i32 w_negden fuel = .ok fr ∧ Faithful i32 w_negden fr :=
  ⟨by decide +kernel, no_faithful_result _ _ _ 100 _ witness_negative_denominator (by simp)
    (by intro fr h; injection h with h; subst h; decide +kernel)⟩

theorem refuted_at_zero_result : Admissible binary32 i32 w_zero ∧
    ¬ ∃ (fuel : Nat) (fr : Frac), makeFraction binary32 i32 w_zero fuel = .ok fr ∧ Faithful i32 w_zero fr :=
  ⟨by decide +kernel, no_faithful_result _ _ _ 100 _ witness_zero_result (by simp)
    (by intro fr h; injection h with h; subst h; decide +kernel)⟩

theorem refuted_at_zero_jump_inexact : Admissible binary32 i32 w_inexact ∧
    ¬ ∃ (fuel : Nat) (fr : Frac), makeFraction binary32 i32 w_inexact fuel = .ok fr ∧ Faithful i32 w_inexact fr :=
  ⟨by decide +kernel, no_faithful_result _ _ _ 100 _ witness_zero_jump_inexact (by simp)
    (by intro fr h; injection h with h; subst h; decide +kernel)⟩

/-- literal reading of the exactness clause: `fraction<int32_t>(0.1f)` is `1/10`, not `13421773/134217728` -/
theorem refuted_at_simplest_fraction : Admissible binary32 i32 w_tenth ∧
    ¬ ∃ (fuel : Nat) (fr : Frac), makeFraction binary32 i32 w_tenth fuel = .ok fr ∧ Faithful i32 w_tenth fr :=
  ⟨by decide +kernel, no_faithful_result _ _ _ 100 _ witness_simplest_fraction (by simp)
    (by intro fr h; injection h with h; subst h; decide +kernel)⟩

/-- **the property is false of the unchanged code** -/
theorem C17_refuted : ¬ C17_full := fun h =>
  refuted_at_ub_ordinary.2 (h binary32 i32 w_ub_ordinary refuted_at_ub_ordinary.1)

/-! ## what holds for every input: the search invariant -/

/-- on entry to the loop: `left = ⌊d⌋/1`, `right = (⌊d⌋+1)/1`, in range, determinant one -/
theorem C17_invariant_init (F : Fmt) (I : IntTy) (hs : I.signed = true) (hb : 32 ≤ I.bits) (d : FVal)
    (s : MFState) (h : mfInit F I d = .ok (.cont s)) : Inv I s :=
  mfInit_inv F I hs hb d s h

/-- every iteration that continues preserves range and determinant, whatever the floating-point
comparisons and the jump length were -/
theorem C17_invariant_step (F : Fmt) (I : IntTy) (hs : I.signed = true) (hb : 32 ≤ I.bits) (d : FVal)
    (s s' : MFState) (hi : Inv I s) (h : mfStep F I d s = .ok (.cont s')) : Inv I s' :=
  mfStep_inv F I hs hb d s s' hi h

/-- under the invariant both bounds are in lowest terms -/
theorem C17_lowest_terms (I : IntTy) (s : MFState) (hi : Inv I s) :
    Int.gcd s.left.num s.left.den = 1 ∧ Int.gcd s.right.num s.right.den = 1 :=
  coprime_of_det _ _ _ _ hi.det

example : Inv i32 ⟨⟨0, 1⟩, ⟨1, 3⟩, 0, 2⟩ := ⟨⟨by decide, by decide⟩, ⟨by decide, by decide⟩, by decide⟩

/-! ## exits that test equality are exact -/

theorem C17_exit_prelude (F : Fmt) (I : IntTy) (d : FVal) (f : Frac) (e : Exit)
    (h : mfInit F I d = .ok (.ret f e)) : fCmp .eq (fracToF F f) d = true :=
  (mfInit_exit F I d f e h).2

theorem C17_exit_step (F : Fmt) (I : IntTy) (d : FVal) (s : MFState) (f : Frac) (e : Exit)
    (h : mfStep F I d s = .ok (.ret f e)) :
    e = .zeroJump ∨ (e = .jumpEq ∧ fCmp .eq (fracToF F f) d = true) ∨
    (e = .mid ∧ ∃ mid, midOf I s.left s.right = .ok mid ∧ f = ⟨I.wrap mid.num, I.wrap mid.den⟩ ∧
        ((fracToF F mid).cmp? d).isSome = true → fCmp .eq (fracToF F mid) d = true) := by
  rcases mfStep_exit F I d s f e h with hz | hj | ⟨hm, mid, h1, h2, h3, h4⟩
  · exact Or.inl hz
  · exact Or.inr (Or.inl hj)
  · right; right
    refine ⟨hm, mid, ?_⟩
    intro ⟨_, _, ho⟩
    exact fCmp_eq_of_not_lt_gt _ _ h3 h4 ho

example : mfInit binary32 i32 (binary32.ofInt 5) = .ok (.ret ⟨5, 1⟩ .left0) := by decide +kernel

/-! ## negative inputs -/

theorem C17_negative_by_negation (F : Fmt) (I : IntTy) (d : FVal) (fuel : Nat) (h : fCmp .lt d F.zero = true) :
    makeFractionX F I d fuel =
      (mfPos F I d.neg fuel >>= fun r => cNeg (I, r.1.num) >>= fun nn => pure (⟨castI I nn, I.wrap r.1.den⟩, r.2)) := by
  unfold makeFractionX
  simp only [h, if_true]

example : fCmp .lt (binary32.ofInt (-3)) binary32.zero = true := by decide +kernel

/-! ## small ratios: termination with the exact reduced fraction (kernel sweep) -/

def ratioOK (F : Fmt) (I : IntTy) (neg : Bool) (p q : Nat) : Bool :=
  let g := Nat.gcd p q
  let s : Int := if neg then -1 else 1
  makeFraction F I (F.div (F.ofInt (s * p)) (F.ofInt q)) 64 == .ok ⟨s * (p / g : Nat), (q / g : Nat)⟩

def sweepOK (F : Fmt) (I : IntTy) (Q : Nat) : Bool :=
  (List.range Q).all fun q0 => (List.range (3 * (q0 + 1) + 1)).all fun p =>
    ratioOK F I false p (q0 + 1) && ratioOK F I true p (q0 + 1)

theorem sweep_f32_i32 : sweepOK binary32 i32 8 = true := by decide +kernel

/-- `fraction<int32_t>(float(±p)/float(q))` is exactly `±p/q` reduced, for `1 ≤ q ≤ 8`, `p ≤ 3q` -/
theorem C17_small_ratios_exact (p q : Nat) (neg : Bool) (hq : 1 ≤ q ∧ q ≤ 8) (hp : p ≤ 3 * q) :
    ratioOK binary32 i32 neg p q = true := by
  have h := sweep_f32_i32
  unfold sweepOK at h
  rw [List.all_eq_true] at h
  have h1 := h (q - 1) (by simp; omega)
  rw [List.all_eq_true] at h1
  have h2 := h1 p (by simp; omega)
  have hq' : q - 1 + 1 = q := by omega
  rw [hq'] at h2
  simp only [Bool.and_eq_true] at h2
  cases neg
  · exact h2.1
  · exact h2.2

example : ratioOK binary32 i32 true 7 3 = true := C17_small_ratios_exact 7 3 true (by omega) (by omega)

/-! ## outside the known defect classes the result is faithful -/

theorem C17_partial (F : Fmt) (I : IntTy) (x : FVal) (fuel : Nat)
    (hd : inDomain I x = true) (hc : classify F I x fuel = none) :
    ∃ fr, makeFraction F I x fuel = .ok fr ∧ Faithful I x fr := by
  unfold classify at hc
  simp only [hd] at hc
  unfold makeFraction
  cases hm : makeFractionX F I x fuel with
  | ok p =>
    obtain ⟨fr, e⟩ := p
    simp only [hm] at hc
    refine ⟨fr, rfl, ?_⟩
    unfold Faithful
    cases hv : violated I x fr with
    | none => rfl
    | some c =>
      simp only [hv] at hc
      cases c <;> simp at hc
      split at hc <;> simp at hc
  | ub k => by_cases hfm : floorIsMax I x = true <;> simp [hm, hfm] at hc
  | _ => simp [hm] at hc

/-- a class never hides an input on which the code is right -/
theorem C17_defect_sound (F : Fmt) (I : IntTy) (x : FVal) (fuel : Nat) (c : Defect)
    (hc : classify F I x fuel = some c) :
    ¬ ∃ fr, makeFraction F I x fuel = .ok fr ∧ Faithful I x fr := by
  rintro ⟨fr, hf, hfa⟩
  unfold classify at hc
  unfold makeFraction at hf
  unfold Faithful at hfa
  by_cases hd : inDomain I x = false
  · simp [hd] at hc
  · simp only [hd] at hc
    cases hm : makeFractionX F I x fuel with
    | ok p =>
      obtain ⟨fr', e⟩ := p
      rw [hm] at hf
      have : fr' = fr := by simpa [Res.map, bind, Res.bind] using hf
      subst this
      simp [hm, hfa] at hc
    | _ => rw [hm] at hf; simp [Res.map, bind, Res.bind] at hf

example : classify binary32 i32 (binary32.ofDyadic false 3 (-2)) 100 = none := by decide +kernel
example : classify binary32 i32 w_negden 100 = some (.clause .denPositive) := by decide +kernel
example : classify binary32 i32 w_tenth 100 = some .notExactRoundTrip := by decide +kernel


/-! ## component types that are CNL numbers (`makeFractionC`)

The generic model replaces the built-in integer operations by those of a component description `Comp`
(`wide_integer`, `overflow_integer` with a saturating / trapping / throwing tag, `elastic_integer`,
`rounding_integer`).  Proved for every format, every component description and every input: what the
component arithmetic returns (`C17_comp_*`), exactness of the prelude's exits, negation.  The agreement of
`makeFractionC F (Comp.builtin D)` with `makeFractionX F ⟨D+1, true⟩` is proved on the small-ratio sweep
(`C17_generic_builtin_sweep`) and checked by the driver on every built-in correspondence line; for all inputs it
is **not proved** (covered by correspondence only), and neither is faithfulness of the generic model outside the
defect classes beyond the kernel-evaluated instances below. -/

/-- an arithmetic result or conversion that is returned at all by a saturating component is in range -/
theorem C17_comp_sat_in_range (C : Comp) (k : UB) (v w : Int) (h : C.out .sat k v = .ok w) :
    C.lowest ≤ w ∧ w ≤ C.max := by
  have hlm : C.lowest ≤ C.max := by
    unfold Comp.lowest Comp.max
    have : (0 : Int) < 2 ^ C.digits := Int.pow_pos (by decide)
    omega
  unfold Comp.out at h
  by_cases hr : C.lowest ≤ v ∧ v ≤ C.max
  · simp only [hr, and_self, if_true] at h
    injection h with h; subst h; exact hr
  · simp only [hr, if_false] at h
    injection h with h; subst h
    by_cases hl : v < C.lowest
    · simp only [hl, if_true]; exact ⟨Int.le_refl _, hlm⟩
    · simp only [hl, if_false]; exact ⟨hlm, Int.le_refl _⟩

/-- … and it is the exact result whenever that is in range: saturation only acts on overflow -/
theorem C17_comp_exact_in_range (C : Comp) (m : OvMode) (k : UB) (v : Int) (h : C.lowest ≤ v ∧ v ≤ C.max) :
    C.out m k v = .ok v := by
  unfold Comp.out
  simp only [h, and_self, if_true]

/-- a trapping / throwing / built-in component never returns a value for an out-of-range result -/
theorem C17_comp_checked (C : Comp) (m : OvMode) (hm : m = .ub ∨ m = .trap ∨ m = .throw) (k : UB) (v w : Int)
    (h : C.out m k v = .ok w) : w = v ∧ C.lowest ≤ v ∧ v ≤ C.max := by
  unfold Comp.out at h
  by_cases hr : C.lowest ≤ v ∧ v ≤ C.max
  · simp only [hr, and_self, if_true] at h
    injection h with h; exact ⟨h.symm, hr⟩
  · simp only [hr, if_false] at h
    rcases hm with hm | hm | hm <;> subst hm <;> simp at h

/-- `overflow_integer<int, saturated_overflow_tag>`, `overflow_integer<int, trapping_overflow_tag>`,
`overflow_integer<wide_integer<40>, trapping_overflow_tag>`, `wide_integer<128>` -/
def sat31 : Comp := ⟨31, 32, .sat, .sat, false, .ub, 0⟩
def trap31 : Comp := ⟨31, 32, .trap, .trap, false, .ub, 0⟩
def trap40 : Comp := ⟨40, 41, .trap, .trap, false, .ub, 0⟩
def wide128 : Comp := ⟨128, 160, .keep, .keep, false, .unknown, 32⟩

example : sat31.out .sat .signedOverflow (2 ^ 31) = .ok (2 ^ 31 - 1) := by decide +kernel
example : trap31.out .trap .signedOverflow (2 ^ 31) = .trap true := by decide +kernel

/-- exits of the prelude test equality, whatever the component type -/
theorem C17_generic_exit_prelude (F : Fmt) (C : Comp) (d : FVal) (f : Frac) (e : Exit)
    (h : mfInitC F C d = .ok (.ret f e)) : (e = .left0 ∨ e = .right0) ∧ fCmp .eq (fracToFC F C f) d = true := by
  unfold mfInitC at h
  by_cases hm : fCmp .le d (C.toF F C.max) = false
  · simp [hm] at h
  · simp only [hm, if_false] at h
    cases hl : C.ofF d with
    | ok l =>
      simp only [hl, bind, Res.bind] at h
      cases hr0 : C.ar (l + 1) with
      | ok r0 =>
        simp only [hr0] at h
        cases hr : C.st r0 with
        | ok r =>
          simp only [hr, pure] at h
          by_cases h1 : fCmp .eq (fracToFC F C ⟨l, 1⟩) d = true
          · simp [h1] at h
            refine ⟨Or.inl h.2.symm, ?_⟩; rw [← h.1]; exact h1
          · simp only [h1, if_false] at h
            by_cases h2 : fCmp .eq (fracToFC F C ⟨r, 1⟩) d = true
            · simp [h2] at h
              refine ⟨Or.inr h.2.symm, ?_⟩; rw [← h.1]; exact h2
            · simp [h2] at h
        | _ => simp [hr] at h
      | _ => simp [hr0] at h
    | _ => simp [hl, bind, Res.bind] at h

example : mfInitC binary64 trap40 (binary64.ofInt (2 ^ 40 - 2)) = .ok (.ret ⟨2 ^ 40 - 2, 1⟩ .left0) := by decide +kernel

theorem C17_generic_negative_by_negation (F : Fmt) (C : Comp) (d : FVal) (fuel : Nat) (h : fCmp .lt d F.zero = true) :
    makeFractionC F C d fuel =
      (mfPosC F C d.neg fuel >>= fun r => C.ar (-r.1.num) >>= fun nn => pure (⟨nn, r.1.den⟩, r.2)) := by
  unfold makeFractionC
  simp only [h, if_true]

/-- the generic model with the built-in component description is the built-in model (small-ratio sweep) -/
def genericAgrees (F : Fmt) (D : Nat) (d : FVal) : Bool :=
  (makeFractionC F (Comp.builtin D) d 64).map (·.1) == makeFraction F ⟨D + 1, true⟩ d 64

def genericSweepOK (F : Fmt) (D Q : Nat) : Bool :=
  (List.range Q).all fun q0 => (List.range (3 * (q0 + 1) + 1)).all fun p =>
    genericAgrees F D (F.div (F.ofInt p) (F.ofInt (q0 + 1 : Nat))) && genericAgrees F D (F.div (F.ofInt (-(p : Int))) (F.ofInt (q0 + 1 : Nat)))

theorem C17_generic_builtin_sweep : genericSweepOK binary32 31 8 = true := by decide +kernel

/-- … and on the witnesses of the defect classes (undefined behaviour, assertion, negative denominator, zero) -/
theorem C17_generic_builtin_witnesses :
    genericAgrees binary32 31 w_ub = true ∧ genericAgrees binary32 31 w_ub_ordinary = true ∧
    genericAgrees binary32 31 w_assert = true ∧ genericAgrees binary32 31 w_negden = true ∧
    genericAgrees binary32 31 w_zero = true ∧ genericAgrees binary32 31 w_inexact = true ∧
    genericAgrees binary64 31 (binary64.ofInt 2147483647) = true := by decide +kernel

/-! ### kernel-evaluated instances for the wrapper kinds -/

/-- 2^-31 with saturating 31-digit components: the jump length `n0 = 2^31` saturates to `max`; the result
`1/(2^31−1)` is faithful — where the built-in component is undefined (`witness_ub`) -/
theorem C17_sat31_at_limit : makeFractionC binary32 sat31 w_ub 100 = .ok (⟨1, 2147483647⟩, .jumpEq) ∧
    Faithful (compTy sat31) w_ub ⟨1, 2147483647⟩ := by decide +kernel

/-- the same input traps with a trapping component -/
theorem C17_trap31_at_limit : makeFractionC binary32 trap31 w_ub 100 = .trap true := by decide +kernel

/-- `max − 1` with trapping 40-digit components: `x + 1 = max` is a valid component, the result is `x/1` -/
theorem C17_trap40_below_max : makeFractionC binary64 trap40 (binary64.ofInt (2 ^ 40 - 2)) 100 = .ok (⟨2 ^ 40 - 2, 1⟩, .left0) ∧
    makeFractionC binary64 trap40 (binary64.ofInt (-(2 ^ 40 - 2))) 100 = .ok (⟨-(2 ^ 40 - 2), 1⟩, .left0) := by decide +kernel

/-- `max` itself: the right bound `max + 1` is computed before anything is compared (class `ub_floor_is_max`) -/
theorem C17_trap40_at_max : makeFractionC binary64 trap40 (binary64.ofInt (2 ^ 40 - 1)) 100 = .trap true := by decide +kernel

/-- `wide_integer<128>`: 0.5, −0.75 and 10.25 are exact -/
theorem C17_wide128_exact :
    makeFractionC binary64 wide128 (binary64.ofDyadic false 1 (-1)) 100 = .ok (⟨1, 2⟩, .mid) ∧
    (makeFractionC binary64 wide128 (binary64.ofDyadic true 3 (-2)) 100).map (·.1) = .ok ⟨-3, 4⟩ ∧
    (makeFractionC binary64 wide128 (binary64.ofDyadic false 41 (-2)) 100).map (·.1) = .ok ⟨41, 4⟩ := by decide +kernel

/-- the multi-word conversion to floating point rounds after every limb, so it is not the correctly rounded
conversion: on 2^56 + 2^32 + 1 the two differ in `float` (the low limb is absorbed first) -/
example : wide128.toF binary32 (2 ^ 24 * 2 ^ 32 + 2 ^ 32 + 1) ≠ binary32.ofInt (2 ^ 24 * 2 ^ 32 + 2 ^ 32 + 1) := by decide +kernel

/-- classification of the wrapper kinds through the same classes -/
example : classifyC binary32 sat31 w_ub 100 = none := by decide +kernel
example : classifyC binary32 trap31 w_ub 100 = some .ubSearch := by decide +kernel
example : classifyC binary64 trap40 (binary64.ofInt (2 ^ 40 - 1)) 100 = some .ubFloorMax := by decide +kernel

end Cnl.C17
