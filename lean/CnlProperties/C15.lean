import CnlProofs.Parse
/-!
# C15 — literals, parsing and constant-driven deduction yield exactly the written value

Model: `CnlModel.Parse` (scanner, `parse_string` with `int64` chunks through `CnlModel.CInt`, result
type selection of `_c / _wide / _cnl / _cnl2`, `descale<…, Precise>`, the deduction helpers).
Spec: `CnlSpec.Token` (C++ token grammar as a decidable predicate, positional value).

What is proved, for tokens of ANY length and result types of ANY width:

* `parseString_exact_wide`, `parseString_exact_builtin` — Horner over the chunk list: reading `n`
  digits in chunks of `n mod stride, stride, stride, …` through `int64` and accumulating them with
  `init·base^stride + chunk` gives the positional value of all digits (negated for a negative
  token): modulo `2^bits` for a multi-limb result (so exactly when the type holds it), and exactly —
  with no undefined behaviour on the way — for a signed built-in result that holds the value.
* `chunk_fits` — `10^18, 16^15, 8^21, 2^63 ≤ 2^63`, used above: a chunk never overflows `int64`.
* `width_estimate` — the scanner's `num_bits` exceeds the bit length of the value for every base,
  every length and every leading digit (decimal: with the repaired `⌈3.322 n⌉`, from the single
  fact `10^1000 < 2^3322`); `old_estimate_refuted` records why the repair (/repo 433014e) was needed.
* `parse_exact_wide_partial`, `parse_exact_builtin_partial` — the run-time `parse<T>` / the
  compile-time parser applied to a well-formed token return the value the token denotes.
  *Partial*: they assume `Located`, i.e. that `scan_string` found base, sign, first numeral and digit
  count of the token (a decidable statement relating `CnlModel.Parse.scanString` to the grammar of
  `CnlSpec.Token`).  The symbolic proof of `Located` for every well-formed token (a list-combinatorics
  argument about `idxOf / count / take / drop`) is not done; the driver evaluates `Located` on every
  token of every run instead (it is part of the oracle), and `FullParseExact` states the goal.
* `deduction_exact`, `deduction_digits`, `deduction_holds` — `v = (v >> tz) << tz`,
  `used_digits (|v| >> tz) = used_digits |v| − tz`, `|v| >> tz < 2^digits`: the types deduced by
  `make_elastic_scaled_integer` (and the other factories for non-negative constants) hold `v` exactly.
* Open classes, shown on the model: `udl_round_integer_rejected` (`10.0_cnl`, `10.0_cnl2`),
  `octal_separator_rejected` (`0'7`), `static_negative_power_of_two_traps`
  (`make_static_integer(-8_c)`); they are listed in findings/C15.json and are outside the theorems
  above (no wrong value is produced in any of them).
-/
namespace Cnl.C15
open Cnl Cnl.Parse Cnl.Token Cnl.ParseProofs

/-- the strides of the four bases never overflow an `int64` chunk -/
theorem chunk_fits : 10 ^ 18 ≤ 2 ^ 63 ∧ 16 ^ 15 ≤ 2 ^ 63 ∧ 8 ^ 21 ≤ 2 ^ 63 ∧ 2 ^ 63 ≤ 2 ^ 63 :=
  ParseProofs.chunk_fits

/-- Horner, multi-limb result (`_wide` beyond 127 digits, `parse<wide_integer<N>>`): for a digit
string of any length the result is the positional value modulo `2^bits` -/
theorem parseString_exact_wide {base stride : Nat} (hs : StrideOK base stride) (bits : Nat) (neg : Bool)
    (cs : List Char) (n : Nat) (ds : List Nat) (rest : List Char)
    (h : readDigits base cs n = .ok (ds, rest)) (hd : ∀ d ∈ ds, d < base) :
    parseString (.wide bits) cs n neg base stride = .ok (W bits (sg neg (positional base ds))) :=
  parseString_wide hs bits neg cs n ds rest h hd

/-- … hence exactly the value when the type holds it -/
theorem parseString_exact_wide_fits {base stride : Nat} (hs : StrideOK base stride) (bits : Nat) (hb : 1 ≤ bits) (neg : Bool)
    (cs : List Char) (n : Nat) (ds : List Nat) (rest : List Char)
    (h : readDigits base cs n = .ok (ds, rest)) (hd : ∀ d ∈ ds, d < base)
    (hfit : (IntTy.mk bits true).InRange (sg neg (positional base ds))) :
    parseString (.wide bits) cs n neg base stride = .ok (sg neg (positional base ds)) := by
  rw [parseString_wide hs bits neg cs n ds rest h hd]
  unfold W
  rw [IntTy.wrap_id hb hfit]

/-- Horner, signed built-in result of at least 64 bits (`__int128` for `_c`, `_cnl`, `_cnl2`,
`CNL_INTMAX_C`): exact, and free of undefined behaviour, whenever the type holds the value -/
theorem parseString_exact_builtin {base stride : Nat} (hs : StrideOK base stride) {t : IntTy} (ht : SignedWide t) (neg : Bool)
    (cs : List Char) (n : Nat) (ds : List Nat) (rest : List Char)
    (h : readDigits base cs n = .ok (ds, rest)) (hd : ∀ d ∈ ds, d < base)
    (hfit : t.InRange (sg neg (positional base ds))) :
    parseString (.builtin t) cs n neg base stride = .ok (sg neg (positional base ds)) :=
  parseString_builtin hs ht neg cs n ds rest h hd hfit

/-- the decimal estimate is sufficient at every length: `10^n ≤ 2^⌈3.322 n⌉` -/
theorem decimal_estimate_all_lengths (n : Nat) : 10 ^ n ≤ 2 ^ decimalBits n := by
  rw [decimalBits_eq]; exact ten_pow_le n

/-- the estimate the code used before the repair was one bit short (first at 4 digits) -/
theorem old_estimate_refuted : ¬ ∀ n : Nat, 10 ^ n ≤ 2 ^ ((n * 3322 + 678) / 1000) := by
  intro h; exact absurd (h 4) (by decide)

/-- width estimate: for all four bases, every digit count and every leading digit the value of the
token is below `2^num_bits` (`num_bits` as `scan_msb` computes it, see `scanMsb_numBits`) -/
theorem width_estimate (base : Nat) (hb : base = 2 ∨ base = 8 ∨ base = 10 ∨ base = 16)
    (d0 : Nat) (ds : List Nat) (hd0 : d0 < base) (hd : ∀ d ∈ ds, d < base) :
    positional base (d0 :: ds) < 2 ^ estimate base (ds.length + 1) d0 :=
  estimate_sufficient base hb d0 ds hd0 hd

/-- `scan_msb` stores `estimate base n d0` where `d0` is the digit it finds at the first numeral -/
theorem scan_msb_stores_estimate (cs : List Char) (neg : Bool) (base stride off n f : Nat) (p : Params)
    (h : scanMsb cs neg base stride off (maxBits base n) n f = .ok p) :
    ∃ d0, digitPos base (cs.getD (off + (if cs.getD off '\x00' == radixChar then 1 else 0)) '\x00') = some d0 ∧
      p.numBits = estimate base n d0 ∧ p.numDigits = n ∧ p.base = base :=
  scanMsb_numBits cs neg base stride off n f p h

/-- the scanner located the token: base, sign, stride and the digits behind the first numeral are
those of the grammar.  Decidable; evaluated by the driver on every token of every run. -/
def Located (cs : List Char) (t : Token) (p : Params) : Prop :=
  scanString cs = .ok p ∧ StrideOK p.base p.stride ∧ p.base = t.body.base ∧ p.isNegative = t.negative ∧
  (∀ d ∈ t.body.digits, d < t.body.base) ∧
  ∃ rest, readDigits p.base (cs.drop p.firstNumeral) p.numDigits = .ok (t.body.digits, rest)

/-- run-time `parse<wide_integer<N>>` of a located well-formed token: the denoted value modulo `2^bits` -/
theorem parse_exact_wide_partial (cs : List Char) (t : Token) (p : Params) (bits : Nat)
    (_hw : token cs = some t) (hl : Located cs t p) :
    parse (.wide bits) cs = .ok (W bits t.significand) := by
  obtain ⟨hscan, hs, hbase, hneg, hd, rest, hr⟩ := hl
  unfold parse
  rw [hscan]; simp only [Res.bind_ok]
  rw [parseString_wide hs bits p.isNegative _ _ _ rest hr (by rw [hbase]; exact hd)]
  unfold Token.significand sg
  rw [hbase, hneg]

/-- run-time `parse<T>` for a signed built-in `T` (≥ 64 bits) that holds the value: exactly the
value the token denotes -/
theorem parse_exact_builtin_partial (cs : List Char) (t : Token) (p : Params) {ty : IntTy} (ht : SignedWide ty)
    (_hw : token cs = some t) (hl : Located cs t p) (hfit : ty.InRange t.significand) :
    parse (.builtin ty) cs = .ok t.significand := by
  obtain ⟨hscan, hs, hbase, hneg, hd, rest, hr⟩ := hl
  have hsig : t.significand = sg p.isNegative (positional p.base t.body.digits) := by
    unfold Token.significand sg
    rw [hbase, hneg]
  unfold parse
  rw [hscan]; simp only [Res.bind_ok]
  rw [parseString_builtin hs ht p.isNegative _ _ _ rest hr (by rw [hbase]; exact hd) (by rw [← hsig]; exact hfit), hsig]

/-- the full statement the `parse_exact_*_partial` theorems fall short of: every well-formed token is
located.  Two kinds of token are excluded because the statement is false of the code there:
an octal token with a separator right after the leading `0` (open finding
`C15.octal_separator_after_prefix`), and a *signed* one-digit octal token such as `-07`, which
`scan_base` reads as the two-digit decimal `07` (`offset + 1 >= num_non_separators`) — same value,
different base, so `Located` as stated does not hold although the result is right (the driver's
oracle accepts exactly this variation). -/
def FullParseExact : Prop :=
  ∀ (cs : List Char) (t : Token), token cs = some t →
    ¬ (cs.take 2 = ['0', '\''] ∨ (cs.drop 1).take 2 = ['0', '\'']) →
    ¬ (t.signed = true ∧ t.body.base = 8 ∧ t.body.digits.length = 1) → ∃ p, Located cs t p

/-- moving the trailing zero bits into the exponent loses nothing -/
theorem deduction_exact (v : Int) : shiftOut v (trailingBits v) * 2 ^ trailingBits v = v :=
  shiftOut_exact v

/-- … and removes exactly that many used digits -/
theorem deduction_digits (n : Nat) (hn : n ≠ 0) :
    usedDigitsNat (n / 2 ^ tzFuel n n) = usedDigitsNat n - tzFuel n n :=
  usedDigitsNat_div n _ hn (tzFuel_dvd n n)

/-- a type with `used_digits` digits holds the magnitude -/
theorem deduction_holds (n : Nat) : n < 2 ^ usedDigitsNat n := usedDigitsNat_lt n

/-! ### open classes, exhibited on the model (findings/C15.json) -/

/-- `10.0_cnl` exhausts the constant-evaluation budget, `10.0_cnl2` reaches `unreachable` -/
theorem udl_round_integer_rejected :
    litCnl "10.0".toList = .ill "constexpr loop limit" ∧ litCnl2 "10.0".toList = .ill "not a constant expression" := by
  decide +kernel

theorem octal_separator_rejected : scanString "0'7".toList = .unreachable "invalid digit" := by decide

theorem static_negative_power_of_two_traps :
    makeStaticInteger (-8) = .trap false ∧ makeStaticNumber (-8) = .trap false := by decide

/-! ### non-vacuity -/

example : Located "0x1F'ff".toList ⟨false, false, ⟨16, [1, 15, 15, 15], 0, false⟩⟩ ⟨false, 16, 15, 2, 15, 4, 0⟩ := by
  refine ⟨by decide, by unfold StrideOK; decide, rfl, rfl, by decide, [], by decide⟩
example : token "0x1F'ff".toList = some ⟨false, false, ⟨16, [1, 15, 15, 15], 0, false⟩⟩ := by decide
example : parse (.wide 160) "-12345678901234567890123".toList = .ok (-12345678901234567890123) := by decide
example : parse (.builtin i128) "0777".toList = .ok 511 := by decide
example : StrideOK 10 18 := Or.inl ⟨rfl, rfl⟩
example : SignedWide i128 := ⟨rfl, by decide⟩
example : positional 10 [9, 9, 9, 9] < 2 ^ estimate 10 4 9 := by decide
example : makeElasticScaledInteger 24 = .ok ⟨.sc (.el 2 (.int i32)) 3 2, .builtin i32, 3⟩ := by decide

end Cnl.C15
