import CnlProofs.Parse
import CnlModel.Deduce
/-!
# C15 — literals, parsing and constant-driven deduction yield exactly the written value

Model: `CnlModel.Parse` (scanner, `parse_string` with `int64` chunks through `CnlModel.CInt`, result
type selection of `_c / _wide / _cnl / _cnl2`, `descale<…, Precise>`, the deduction helpers).
Spec: `CnlSpec.Token` (C++ token grammar as a decidable predicate, positional value).

What is proved, for tokens of ANY length and result types of ANY width:

* `parseString_exact_wide`, `parseString_exact_builtin` — Horner over the chunk list: reading `n`
  digits in chunks of `n mod stride, stride, stride, …` through `int64` and accumulating them with
  `init·base^stride + chunk` gives the positional value of all digits (negated for a negative
  token): modulo `2^bits` for a multi-limb result (so exactly when the type holds it), and exactly —
  with no undefined behaviour on the way — for a signed built-in result that holds the value.
* `chunk_fits` — `10^18, 16^15, 8^21, 2^63 ≤ 2^63`, used above: a chunk never overflows `int64`.
* `width_estimate` — the scanner's `num_bits` exceeds the bit length of the value for every base,
  every length and every leading digit (decimal: with the repaired `⌈3.322 n⌉`, from the single
  fact `10^1000 < 2^3322`); `old_estimate_refuted` records why the repair (/repo 433014e) was needed.
* `scan_exact` / `located_of_wellFormed` / `full_parse_exact` — **the scanner/grammar link, symbolically**:
  for every well-formed token (grammar of `CnlSpec.Token`) of ANY length, signed or not, `scan_string`
  returns the grammar's sign, base, stride, digit count, number of fractional digits, a `num_bits` that
  bounds the magnitude, and behind `first_numeral` stand exactly the grammar's digits (separators and
  radix point skipped) — i.e. `Located` holds.  Proof: the grammar is turned into inductive relations
  (`ParseProofs.DS`, `ParseProofs.Shape`), `idxOf / count / take / drop` of `scan_base` are computed on
  them by induction over the character list (`ParseProofs.token_scanned`).  One stated, decidable
  exclusion is left, and it is not a defect: a signed one-digit octal token (`-07`, `-0'7`;
  `ParseProofs.SignedOctalDigit`) is read as the two-digit decimal `07` — `Located` fails only because
  the base differs, the value is right (`signed_octal_digit_value`).
* `parse_exact_wide`, `parse_exact_builtin`, `parse_exact_unsigned` (+ `_fits`) — the run-time
  `parse<T>` / the compile-time parser applied to ANY well-formed token return the value the token
  denotes, with no exclusion at all: multi-limb results modulo `2^bits`, signed built-in results
  (≥ 64 bits) exactly and without undefined behaviour when the type holds the value, unsigned built-in
  results (`uint64`, `unsigned __int128`) modulo `2^bits` (exactly when the value fits).
  `parse_exact_*_of_located` are the former `_partial` forms (any `p` with `Located`).
* Repaired in /repo, the as-found definitions kept as `…Orig` with a kernel-checked refutation from
  the witness: `signed_trailing_point_orig_refuted` (`-5.`: `scan_base` searched `[str, str+length-1)`,
  missed the point, counted one digit too many and `parse_string` ran off the end; found by the
  symbolic proof of the link; /repo 678a22e — the same repair makes `num_fractional_digits` of a signed
  token right, `signed_fraction_count_orig_short`), `octal_separator_orig_refuted` (`0'7`: the
  separator after the octal prefix was taken for the leading digit; /repo a837792),
  `static_negative_power_of_two_orig_refuted` (`make_static_integer(-8_c)` deduced `used_digits(-8) = 3`
  digits, one short of the symmetric range of `elastic_integer`; /repo b8663e1),
  `udl_round_integer_orig_refuted` (`10.0_cnl`, `10.0_cnl2`: the `Precise` loop of `descale` went on
  dividing after `in_exponent` reached 0; /repo 9c119b4).
* `deduction_exact`, `deduction_digits`, `deduction_holds` — `v = (v >> tz) << tz`,
  `used_digits (|v| >> tz) = used_digits |v| − tz`, `|v| >> tz < 2^digits`: the types deduced by
  `make_elastic_scaled_integer` (and the other factories for non-negative constants) hold `v` exactly.
  `static_integer_holds`, `static_number_holds` — `make_static_integer(constant<v>)` and
  `make_static_number(constant<v>)` hold EVERY constant `v` that fits `intmax_t`, of either sign: the
  overflow layer never fires (`digits_v<constant<v>>` digits, trailing zero bits in the exponent).
* `descale_precise_value` — whatever the `Precise` loop of `descale` (negative input exponent: a token
  with a fractional part) returns denotes the parsed value: `s'·R^e' = sig / I^j`, for every width,
  radix pair and fuel.
* `descale_normalise` — the phase the repair added to the `Precise` loop: with `in_exponent = 0` a
  significand `m·R^k` (`R ∤ m`) leaves the loop as `(m, exponent + k)`, for every `k`, `m`, `R ≥ 2`.
* `from_value` and class template argument deduction (model `CnlModel.Deduce`):
  `from_value_constant_exact` — for EVERY archetype of the type grammar (built-in, `scaled_integer` of any radix and
  exponent, `elastic_integer`, `wide_integer`, `overflow_integer`, `rounding_integer`, any nest) and every constant `V`,
  the type deduced by `from_value<Archetype>(constant<V>)` scales its representation by a power of two `2^tz` and
  `rep · 2^tz = V`; `from_value_constant_radix_free` — the archetype's radix and exponent do not enter that type;
  `from_value_value_exact` — for a run-time value of a built-in type the representation is the value, exponent 0;
  `fraction_guide_holds_significand` — the component type promised by `fraction(float | double | long double)` holds
  every significand of the format (and its negation); `ctad_alias_int_exact` — the alias templates have no guide:
  `scaled_integer{v}`, `elastic_integer{v}`, … are the default arguments and hold whatever fits `int`.
  By correspondence only: the value search behind `fraction{floating}` (that is property C17's `make_fraction`; its
  model is run by the driver for the deduced component type, and the oracle asks that the result convert back to the
  initializer) and the initializers the default arguments cannot hold (candidate finding `C15.ctad_default_arguments`:
  `scaled_integer{1L << 40}` is `scaled_integer<int>` holding 0; exercised only when that class is listed as open).
* Open class: `static_number_lowest_traps` (`make_static_number(std::int16_t{-32768})`: the type is
  deduced from the argument's type, `numeric_limits<T>::digits` digits, whose symmetric range has no
  room for `lowest()`; listed in findings/C15.json, no wrong value is produced).
-/
namespace Cnl.C15
open Cnl Cnl.Parse Cnl.Token Cnl.ParseProofs Cnl.Deduce

/-- the strides of the four bases never overflow an `int64` chunk -/
theorem chunk_fits : 10 ^ 18 ≤ 2 ^ 63 ∧ 16 ^ 15 ≤ 2 ^ 63 ∧ 8 ^ 21 ≤ 2 ^ 63 ∧ 2 ^ 63 ≤ 2 ^ 63 :=
  ParseProofs.chunk_fits

/-- Horner, multi-limb result (`_wide` beyond 127 digits, `parse<wide_integer<N>>`): for a digit
string of any length the result is the positional value modulo `2^bits` -/
theorem parseString_exact_wide {base stride : Nat} (hs : StrideOK base stride) (bits : Nat) (neg : Bool)
    (cs : List Char) (n : Nat) (ds : List Nat) (rest : List Char)
    (h : readDigits base cs n = .ok (ds, rest)) (hd : ∀ d ∈ ds, d < base) :
    parseString (.wide bits) cs n neg base stride = .ok (W bits (sg neg (positional base ds))) :=
  parseString_wide hs bits neg cs n ds rest h hd

/-- … hence exactly the value when the type holds it -/
theorem parseString_exact_wide_fits {base stride : Nat} (hs : StrideOK base stride) (bits : Nat) (hb : 1 ≤ bits) (neg : Bool)
    (cs : List Char) (n : Nat) (ds : List Nat) (rest : List Char)
    (h : readDigits base cs n = .ok (ds, rest)) (hd : ∀ d ∈ ds, d < base)
    (hfit : (IntTy.mk bits true).InRange (sg neg (positional base ds))) :
    parseString (.wide bits) cs n neg base stride = .ok (sg neg (positional base ds)) := by
  rw [parseString_wide hs bits neg cs n ds rest h hd]
  unfold W
  rw [IntTy.wrap_id hb hfit]

/-- Horner, signed built-in result of at least 64 bits (`__int128` for `_c`, `_cnl`, `_cnl2`,
`CNL_INTMAX_C`): exact, and free of undefined behaviour, whenever the type holds the value -/
theorem parseString_exact_builtin {base stride : Nat} (hs : StrideOK base stride) {t : IntTy} (ht : SignedWide t) (neg : Bool)
    (cs : List Char) (n : Nat) (ds : List Nat) (rest : List Char)
    (h : readDigits base cs n = .ok (ds, rest)) (hd : ∀ d ∈ ds, d < base)
    (hfit : t.InRange (sg neg (positional base ds))) :
    parseString (.builtin t) cs n neg base stride = .ok (sg neg (positional base ds)) :=
  parseString_builtin hs ht neg cs n ds rest h hd hfit

/-- the decimal estimate is sufficient at every length: `10^n ≤ 2^⌈3.322 n⌉` -/
theorem decimal_estimate_all_lengths (n : Nat) : 10 ^ n ≤ 2 ^ decimalBits n := by
  rw [decimalBits_eq]; exact ten_pow_le n

/-- the estimate the code used before the repair was one bit short (first at 4 digits) -/
theorem old_estimate_refuted : ¬ ∀ n : Nat, 10 ^ n ≤ 2 ^ ((n * 3322 + 678) / 1000) := by
  intro h; exact absurd (h 4) (by decide)

/-- width estimate: for all four bases, every digit count and every leading digit the value of the
token is below `2^num_bits` (`num_bits` as `scan_msb` computes it, see `scanMsb_numBits`) -/
theorem width_estimate (base : Nat) (hb : base = 2 ∨ base = 8 ∨ base = 10 ∨ base = 16)
    (d0 : Nat) (ds : List Nat) (hd0 : d0 < base) (hd : ∀ d ∈ ds, d < base) :
    positional base (d0 :: ds) < 2 ^ estimate base (ds.length + 1) d0 :=
  estimate_sufficient base hb d0 ds hd0 hd

/-- `scan_msb` stores `estimate base n d0` where `d0` is the digit it finds at the first numeral -/
theorem scan_msb_stores_estimate (cs : List Char) (neg : Bool) (base stride off n f : Nat) (p : Params)
    (h : scanMsb cs neg base stride off (maxBits base n) n f = .ok p) :
    ∃ d0, digitPos base (cs.getD (off + (if cs.getD off '\x00' == radixChar || cs.getD off '\x00' == separator then 1 else 0)) '\x00') = some d0 ∧
      p.numBits = estimate base n d0 ∧ p.numDigits = n ∧ p.base = base :=
  scanMsb_numBits cs neg base stride off n f p h

/-- the scanner located the token: base, sign, stride and the digits behind the first numeral are
those of the grammar.  Decidable; evaluated by the driver on every token of every run. -/
def Located (cs : List Char) (t : Token) (p : Params) : Prop :=
  scanString cs = .ok p ∧ StrideOK p.base p.stride ∧ p.base = t.body.base ∧ p.isNegative = t.negative ∧
  (∀ d ∈ t.body.digits, d < t.body.base) ∧
  ∃ rest, readDigits p.base (cs.drop p.firstNumeral) p.numDigits = .ok (t.body.digits, rest)

/-- run-time `parse<wide_integer<N>>` of a located token: the denoted value modulo `2^bits` -/
theorem parse_exact_wide_of_located (cs : List Char) (t : Token) (p : Params) (bits : Nat)
    (hl : Located cs t p) : parse (.wide bits) cs = .ok (W bits t.significand) := by
  obtain ⟨hscan, hs, hbase, hneg, hd, rest, hr⟩ := hl
  unfold parse
  rw [hscan]; simp only [Res.bind_ok]
  rw [parseString_wide hs bits p.isNegative _ _ _ rest hr (by rw [hbase]; exact hd)]
  unfold Token.significand sg
  rw [hbase, hneg]

/-- run-time `parse<T>` of a located token for a signed built-in `T` (≥ 64 bits) that holds the value -/
theorem parse_exact_builtin_of_located (cs : List Char) (t : Token) (p : Params) {ty : IntTy} (ht : SignedWide ty)
    (hl : Located cs t p) (hfit : ty.InRange t.significand) :
    parse (.builtin ty) cs = .ok t.significand := by
  obtain ⟨hscan, hs, hbase, hneg, hd, rest, hr⟩ := hl
  have hsig : t.significand = sg p.isNegative (positional p.base t.body.digits) := by
    unfold Token.significand sg
    rw [hbase, hneg]
  unfold parse
  rw [hscan]; simp only [Res.bind_ok]
  rw [parseString_builtin hs ht p.isNegative _ _ _ rest hr (by rw [hbase]; exact hd) (by rw [← hsig]; exact hfit), hsig]

/-- run-time `parse<T>` of a located token for an unsigned built-in `T` (≥ 64 bits): modulo `2^bits` -/
theorem parse_exact_unsigned_of_located (cs : List Char) (t : Token) (p : Params) {ty : IntTy} (ht : UnsignedWide ty)
    (hl : Located cs t p) : parse (.builtin ty) cs = .ok (ty.wrap t.significand) := by
  obtain ⟨hscan, hs, hbase, hneg, hd, rest, hr⟩ := hl
  unfold parse
  rw [hscan]; simp only [Res.bind_ok]
  rw [parseString_unsigned hs ht p.isNegative _ _ _ rest hr (by rw [hbase]; exact hd)]
  unfold Token.significand sg
  rw [hbase, hneg]

/-! ### the scanner/grammar link -/

/-- **every well-formed token other than a signed one-digit octal one is located**, with the
parameters the grammar dictates (`ParseProofs.expectedParams`) -/
theorem located_of_wellFormed (cs : List Char) (t : Token) (hw : token cs = some t)
    (h2 : ¬ SignedOctalDigit t) : Located cs t (expectedParams t) := by
  obtain ⟨hscan, rest, hr⟩ := token_scanned cs t hw h2
  obtain ⟨hst, hlt⟩ := token_stride cs t hw
  exact ⟨hscan, hst, rfl, rfl, hlt, rest, hr⟩

/-- what `scan_string` returns for a well-formed token of any length: the grammar's sign, base, stride,
digit count, number of fractional digits, a `num_bits` bounding the magnitude, and a first numeral
behind which stand exactly the grammar's digits -/
theorem scan_exact (cs : List Char) (t : Token) (hw : token cs = some t) (h2 : ¬ SignedOctalDigit t) :
    ∃ p, scanString cs = .ok p ∧ p.isNegative = t.negative ∧ p.base = t.body.base ∧ StrideOK p.base p.stride ∧
      p.numDigits = t.body.digits.length ∧ p.numFrac = t.body.frac ∧
      positional t.body.base t.body.digits < 2 ^ p.numBits ∧
      ∃ rest, readDigits p.base (cs.drop p.firstNumeral) p.numDigits = .ok (t.body.digits, rest) := by
  obtain ⟨hscan, rest, hr⟩ := token_scanned cs t hw h2
  exact ⟨expectedParams t, hscan, rfl, rfl, (token_stride cs t hw).1, rfl, rfl, token_numBits cs t hw, rest, hr⟩

/-- the scanner/grammar link at full strength.  The one exclusion is not a defect: a signed one-digit
octal token such as `-07` is read by `scan_base` as the two-digit decimal `07` (same value, different
base; `signed_octal_digit_value`).  The two further exclusions the statement needed for the code as
found (`0'7`, `-5.`) are gone with the repairs /repo a837792 and 678a22e. -/
def FullParseExact : Prop :=
  ∀ (cs : List Char) (t : Token), token cs = some t → ¬ SignedOctalDigit t → ∃ p, Located cs t p

theorem full_parse_exact : FullParseExact :=
  fun cs t hw h2 => ⟨expectedParams t, located_of_wellFormed cs t hw h2⟩

/-! ### run-time `parse` without the `Located` hypothesis -/

/-- the scan facts of a signed one-digit octal token, read as decimal -/
theorem signed_octal_digit_value (cs : List Char) (t : Token) (hw : token cs = some t) (h2 : SignedOctalDigit t) :
    ∃ p ds rest, scanString cs = .ok p ∧ StrideOK p.base p.stride ∧ (∀ d ∈ ds, d < p.base) ∧
      readDigits p.base (cs.drop p.firstNumeral) p.numDigits = .ok (ds, rest) ∧
      sg p.isNegative (positional p.base ds) = t.significand := by
  obtain ⟨s, r', d, rfl, hs, hds, h8, hd⟩ := signed_octal_digit_cases cs t hw h2
  have hneg : (s = '+' ∧ t.negative = false) ∨ (s = '-' ∧ t.negative = true) := hs
  obtain ⟨hscan, hr⟩ := signed_octal_digit_scanned s r' d t.negative hneg hds
  refine ⟨_, [0, d], [], hscan, Or.inl ⟨rfl, rfl⟩, DS_lt hds, hr, ?_⟩
  unfold Token.significand sg
  rw [h8, hd]
  simp [positional]

/-- what every well-formed token gives `parse_string` to work on -/
theorem scan_for_parse (cs : List Char) (t : Token) (hw : token cs = some t) :
    ∃ p ds rest, scanString cs = .ok p ∧ StrideOK p.base p.stride ∧ (∀ d ∈ ds, d < p.base) ∧
      readDigits p.base (cs.drop p.firstNumeral) p.numDigits = .ok (ds, rest) ∧
      sg p.isNegative (positional p.base ds) = t.significand := by
  by_cases h2 : SignedOctalDigit t
  · exact signed_octal_digit_value cs t hw h2
  · obtain ⟨hscan, hs, hbase, hneg, hd, rest, hr⟩ := located_of_wellFormed cs t hw h2
    refine ⟨_, _, rest, hscan, hs, hd, hr, ?_⟩
    unfold Token.significand sg
    rfl

/-- **run-time `parse<wide_integer<N>>`** (multi-limb result) of a well-formed token of any length:
the denoted value modulo `2^bits` -/
theorem parse_exact_wide (cs : List Char) (t : Token) (bits : Nat) (hw : token cs = some t) :
    parse (.wide bits) cs = .ok (W bits t.significand) := by
  obtain ⟨p, ds, rest, hscan, hs, hd, hr, hv⟩ := scan_for_parse cs t hw
  unfold parse
  rw [hscan]; simp only [Res.bind_ok]
  rw [parseString_wide hs bits p.isNegative _ _ _ rest hr hd, hv]

/-- **run-time `parse<T>`** for a signed built-in `T` (≥ 64 bits) that holds the value: exactly the
value the token denotes, and no step is undefined -/
theorem parse_exact_builtin (cs : List Char) (t : Token) {ty : IntTy} (ht : SignedWide ty) (hw : token cs = some t)
    (hfit : ty.InRange t.significand) :
    parse (.builtin ty) cs = .ok t.significand := by
  obtain ⟨p, ds, rest, hscan, hs, hd, hr, hv⟩ := scan_for_parse cs t hw
  unfold parse
  rw [hscan]; simp only [Res.bind_ok]
  rw [parseString_builtin hs ht p.isNegative _ _ _ rest hr hd (by rw [hv]; exact hfit), hv]

/-- **run-time `parse<T>`** for an unsigned built-in `T` (`uint64`, `unsigned __int128`): the denoted
value modulo `2^bits` (unsigned arithmetic wraps; nothing is undefined) -/
theorem parse_exact_unsigned (cs : List Char) (t : Token) {ty : IntTy} (ht : UnsignedWide ty) (hw : token cs = some t) :
    parse (.builtin ty) cs = .ok (ty.wrap t.significand) := by
  obtain ⟨p, ds, rest, hscan, hs, hd, hr, hv⟩ := scan_for_parse cs t hw
  unfold parse
  rw [hscan]; simp only [Res.bind_ok]
  rw [parseString_unsigned hs ht p.isNegative _ _ _ rest hr hd, hv]

/-- … hence exactly the value for a non-negative token that fits -/
theorem parse_exact_unsigned_fits (cs : List Char) (t : Token) {ty : IntTy} (ht : UnsignedWide ty) (hw : token cs = some t)
    (hpos : t.negative = false)
    (hfit : positional t.body.base t.body.digits < 2 ^ ty.bits) :
    parse (.builtin ty) cs = .ok t.significand := by
  rw [parse_exact_unsigned cs t ht hw]
  unfold Token.significand
  simp only [hpos, Bool.false_eq_true, ite_false]
  rw [unsignedWide_wrap_id ht hfit]

/-- moving the trailing zero bits into the exponent loses nothing -/
theorem deduction_exact (v : Int) : shiftOut v (trailingBits v) * 2 ^ trailingBits v = v :=
  shiftOut_exact v

/-- … and removes exactly that many used digits -/
theorem deduction_digits (n : Nat) (hn : n ≠ 0) :
    usedDigitsNat (n / 2 ^ tzFuel n n) = usedDigitsNat n - tzFuel n n :=
  usedDigitsNat_div n _ hn (tzFuel_dvd n n)

/-- a type with `used_digits` digits holds the magnitude -/
theorem deduction_holds (n : Nat) : n < 2 ^ usedDigitsNat n := usedDigitsNat_lt n

/-! ### deduction by the `static_*` helpers: every constant is held -/

/-- the overflow layer of `static_integer<digits_v<constant<v>>>` accepts `v`: `|v| ≤ 2^digits − 1` -/
theorem static_integer_holds (v : Int) : staticInit (constantDigits v) v = .ok v :=
  staticInit_constantDigits v

/-- … and that of `static_number<digits_v<constant<v>> − tz, tz>` accepts `v >> tz` -/
theorem static_number_holds (v : Int) :
    staticInit (constantDigits v - trailingBits v) (shiftOut v (trailingBits v)) = .ok (shiftOut v (trailingBits v)) :=
  staticInit_shiftOut v

/-- `make_static_integer(constant<v>)` yields `v` in `static_integer<digits_v<constant<v>>>` whenever
that many digits exist (`intmax_t` constants: at most 127) -/
theorem make_static_integer_exact (v : Int) (rep : Storage) (h : elasticRep (constantDigits v) = .ok rep) :
    makeStaticInteger v = .ok ⟨staticIntegerTy (constantDigits v), rep, v⟩ := by
  unfold makeStaticInteger
  simp only [h, Res.bind_ok, staticInit_constantDigits]

theorem make_static_number_exact (v : Int) (rep : Storage) (h : elasticRep (constantDigits v - trailingBits v) = .ok rep) :
    makeStaticNumber v = .ok ⟨.sc (staticIntegerTy (constantDigits v - trailingBits v)) (trailingBits v) 2, rep,
      shiftOut v (trailingBits v)⟩ := by
  unfold makeStaticNumber
  simp only [h, Res.bind_ok, staticInit_shiftOut]

/-! ### the normalising phase of `descale<…, Precise = true>` -/

/-- with `in_exponent = 0` the loop moves every factor of `OutRadix` into the exponent and stops -/
theorem descale_normalise (sigT : IntTy) (R inRadix : Nat) (hR : 2 ≤ R) (m : Int) (hm : m % (R : Int) ≠ 0)
    (k fuel : Nat) (hf : k < fuel) (exp : Int) :
    descaleNeg sigT R inRadix fuel (m * (R : Int) ^ k) exp 0 = .ok (m, exp + k) :=
  descaleNeg_normalise sigT R inRadix hR m hm k fuel hf exp

/-- whatever the `Precise` loop returns for a token with `j` fractional digits denotes the parsed value:
`(s', e')` comes with `e' = k − a` and `s'·R^k·I^j = sig·R^a`, i.e. `s'·R^e' = sig / I^j`
(`R` = output radix, `I` = radix of the token); no fuel, width or radix is fixed -/
theorem descale_precise_value (sigT : IntTy) (R I fuel : Nat) (sig : Int) (j : Nat) (s' e' : Int)
    (h : descaleNeg sigT R I fuel sig 0 (-(j : Int)) = .ok (s', e')) :
    ∃ a k : Nat, e' = (k : Int) - (a : Int) ∧ s' * (R : Int) ^ k * (I : Int) ^ j = sig * (R : Int) ^ a := by
  obtain ⟨a, k, he, hv⟩ := descaleNeg_value sigT R I fuel sig 0 j s' e' h
  exact ⟨a, k, by omega, hv⟩

/-! ### repaired defects: the code as found, refuted from the witnesses (findings/C15.json, `fixed:`) -/

/-- `10.0_cnl` exhausted the constant-evaluation budget, `10.0_cnl2` reached `unreachable`; both now
give the value of `10_cnl` / `10_cnl2` -/
theorem udl_round_integer_orig_refuted :
    litCnlOrig "10.0".toList = .ill "constexpr loop limit" ∧ litCnl2Orig "10.0".toList = .ill "not a constant expression" ∧
    litCnl "10.0".toList = .ok ⟨.sc (.el 1 (.int i32)) 1 10, .builtin i32, 1⟩ ∧ litCnl "10.0".toList = litCnl "10".toList ∧
    litCnl2 "10.0".toList = .ok ⟨.sc (.el 3 (.int i32)) 1 2, .builtin i32, 5⟩ ∧ litCnl2 "10.0".toList = litCnl2 "10".toList := by
  decide +kernel

/-- `0'7`, `0'17`: the separator after the octal prefix was taken for the leading digit -/
theorem octal_separator_orig_refuted :
    scanStringOrig "0'7".toList = .unreachable "invalid digit" ∧
    parseOrig (.builtin i64) "0'17".toList = .unreachable "invalid digit" ∧
    parse (.builtin i64) "0'17".toList = .ok 15 ∧ scanString "0'7".toList = .ok ⟨false, 8, 21, 1, 3, 1, 0⟩ := by decide

/-- the corner found by the scanner/grammar proof: a signed token ending in the radix point.  The
unsigned `5.` parsed, `-5.` failed `CNL_ASSERT(digit)` (it read past the end of the string) -/
theorem signed_trailing_point_orig_refuted :
    parseOrig (.builtin i64) "5.".toList = .ok 5 ∧ parseOrig (.builtin i64) "-5.".toList = .unreachable "assert: digit" ∧
    scanStringOrig "-5.".toList = .ok ⟨true, 10, 18, 1, 7, 2, 0⟩ ∧
    parse (.builtin i64) "-5.".toList = .ok (-5) ∧ scanString "-5.".toList = .ok ⟨true, 10, 18, 1, 4, 1, 0⟩ := by decide

/-- for a signed token with a fraction `num_fractional_digits` was one short (the last character was
outside the searched range) -/
theorem signed_fraction_count_orig_short :
    scanStringOrig "-1.25".toList = .ok ⟨true, 10, 18, 1, 9, 3, 1⟩ ∧ scanString "-1.25".toList = .ok ⟨true, 10, 18, 1, 9, 3, 2⟩ ∧
    scanString "1.25".toList = .ok ⟨false, 10, 18, 0, 9, 3, 2⟩ := by
  decide

/-- the link as stated now was false of the code as found: `-5.` is well formed and not a signed octal
digit, yet the scanner as found counted 2 digits where `parse_string` finds one -/
theorem full_parse_exact_orig_refuted :
    ¬ ∀ (cs : List Char) (t : Token), token cs = some t → ¬ SignedOctalDigit t →
      ∃ p, scanStringOrig cs = .ok p ∧ ∃ rest, readDigits p.base (cs.drop p.firstNumeral) p.numDigits = .ok (t.body.digits, rest) := by
  intro h
  obtain ⟨p, hscan, rest, hr⟩ := h "-5.".toList ⟨true, true, ⟨10, [5], 0, true⟩⟩ (by decide) (by decide)
  have hp : scanStringOrig "-5.".toList = .ok ⟨true, 10, 18, 1, 7, 2, 0⟩ := by decide
  rw [hp] at hscan
  injection hscan with hscan
  subst hscan
  have : readDigits 10 ("-5.".toList.drop 1) 2 = .unreachable "assert: digit" := by decide
  rw [this] at hr
  cases hr

/-- `make_static_integer(-8_c)` / `make_static_number(-8_c)` deduced 3 / 0 digits and the overflow
layer fired; now 4 / 1 digits, as `make_elastic_integer(-8_c)` -/
theorem static_negative_power_of_two_orig_refuted :
    makeStaticIntegerOrig (-8) = .trap false ∧ makeStaticNumberOrig (-8) = .trap false ∧
    makeStaticInteger (-8) = .ok ⟨staticIntegerTy 4, .builtin i32, -8⟩ ∧
    makeStaticNumber (-8) = .ok ⟨.sc (staticIntegerTy 1) 3 2, .builtin i32, -1⟩ ∧
    (makeElasticInteger (-8)).map (·.value) = .ok (-8) := by decide

/-! ### open class, exhibited on the model (findings/C15.json) -/

/-- `make_static_number(value)` deduces the type from the argument's *type*; its symmetric range has
no room for the lowest value of an 8/16-bit type, and the overflow layer reports it -/
theorem static_number_lowest_traps :
    makeFromValue "static_number" i16 (-32768) = some (.trap false) ∧
    makeFromValue "static_number" i16 (-32767) = some (.ok ⟨.sc (staticIntegerTy 15) 0 2, .builtin i32, -32767⟩) := by decide

/-! ### `from_value` and class template argument deduction -/

/-- a `Res` that is a bind and ends in `ok` -/
theorem bind_eq_ok {α β : Type} {x : Res α} {f : α → Res β} {b : β} (h : (x >>= f) = .ok b) :
    ∃ a, x = .ok a ∧ f a = .ok b := by
  cases x <;> first | exact ⟨_, rfl, h⟩ | cases h

/-- `from_value<Archetype>(constant<V>)`, for EVERY archetype (any radix, any nest) and every `V`: the deduced type
scales its representation by a power of TWO, `2^tz`, and `rep · 2^tz = V` -/
theorem from_value_constant_exact (A : Ty) (V : Int) (m : Made) (h : fromValue A (.const V) = .ok m) :
    ∃ tz : Nat, scaleOf m.ty = ((tz : Int), 2) ∧ m.value * 2 ^ tz = V := by
  simp only [fromValue] at h
  induction A generalizing m with
  | int t =>
    simp only [fromValueConst, fromConstInt] at h
    split at h <;> cases h
    exact ⟨0, rfl, by simp⟩
  | flt p => simp [fromValueConst] at h
  | fr n d _ _ => simp [fromValueConst] at h
  | sc r e x _ =>
    simp only [fromValueConst, makeScaledInteger] at h
    split at h <;> cases h
    exact ⟨trailingBits V, rfl, shiftOut_exact V⟩
  | el d n _ =>
    simp only [fromValueConst, makeElasticInteger] at h
    obtain ⟨rep, _, h2⟩ := bind_eq_ok h
    cases h2
    exact ⟨0, rfl, by simp⟩
  | wd d n _ =>
    simp only [fromValueConst] at h
    split at h
    · obtain ⟨a, h1, h2⟩ := bind_eq_ok h
      cases h2
      simp only [fromConstInt] at h1
      split at h1 <;> cases h1
      exact ⟨0, rfl, by simp⟩
    · cases h
  | ov r t ih =>
    simp only [fromValueConst] at h
    obtain ⟨a, h1, h2⟩ := bind_eq_ok h
    cases h2
    exact ih a h1
  | rd r t ih =>
    simp only [fromValueConst] at h
    obtain ⟨a, h1, h2⟩ := bind_eq_ok h
    cases h2
    exact ih a h1

/-- the archetype's radix and exponent do not enter the type deduced from a constant -/
theorem from_value_constant_radix_free (r r' : Ty) (e e' : Int) (x x' : Nat) (V : Int) :
    fromValue (.sc r e x) (.const V) = fromValue (.sc r' e' x') (.const V) := rfl

/-- `from_value<Archetype>(v)` for a run-time value of a built-in type: the representation is `v` itself and the
deduced type applies no scale (exponent 0 in the archetype's radix) -/
theorem from_value_value_exact (A : Ty) (S : IntTy) (v : Int) (m : Made) (h : fromValue A (.val S v) = .ok m) :
    m.value = v ∧ (scaleOf m.ty).1 = 0 := by
  simp only [fromValue] at h
  split at h
  · rename_i t r ht
    cases h
    refine ⟨rfl, ?_⟩
    cases A with
    | int _ => simp only [fromValueTy] at ht; cases ht; rfl
    | sc _ _ _ => simp only [fromValueTy] at ht; cases ht; rfl
    | ov _ _ => simp only [fromValueTy] at ht; cases ht; rfl
    | rd _ _ => simp only [fromValueTy] at ht; cases ht; rfl
    | flt _ => simp [fromValueTy] at ht
    | fr _ _ => simp [fromValueTy] at ht
    | el d n =>
      cases n <;> simp [fromValueTy] at ht
      obtain ⟨_, _, rfl, _⟩ := ht; rfl
    | wd d n =>
      cases n <;> simp [fromValueTy] at ht
      obtain ⟨rfl, _⟩ := ht; rfl
  · cases h

/-- the deduction guides of `fraction` for floating-point initializers promise a component type with at least as many
digits as the format has significand bits, so every significand `m < 2^prec` is a numerator of the deduced type -/
theorem fraction_guide_holds_significand (prec : Nat) (I : IntTy) (h : fractionGuideFloat prec = some I) (m : Nat)
    (hm : m < 2 ^ prec) : I.InRange m ∧ I.InRange (-(m : Int)) := by
  unfold fractionGuideFloat at h
  have key : ∀ (p : Nat) (J : IntTy), (2 : Int) ^ p ≤ J.max + 1 → J.lowest = -(J.max + 1) → (m : Int) < 2 ^ p →
      J.InRange m ∧ J.InRange (-(m : Int)) := by
    intro p J h1 h2 h3
    unfold IntTy.InRange
    omega
  have hm' : (m : Int) < 2 ^ prec := by exact_mod_cast hm
  split at h
  · cases h; subst_vars; exact key 24 i32 (by decide) (by decide) hm'
  · split at h
    · cases h; subst_vars; exact key 53 i64 (by decide) (by decide) hm'
    · split at h
      · cases h; subst_vars; exact key 64 i128 (by decide) (by decide) hm'
      · cases h

/-- the alias templates have no deduction guide: whatever fits `int` (the lowest `int` excepted for the symmetric
`static_integer<31>`) is held exactly by `Alias{v}` -/
theorem ctad_alias_int_exact (a : Alias) (init : Init) (h : i32.InRange init.value) (hs : a = .staticInt → init.value ≠ i32.lowest) :
    ctadAlias a init = .ok ⟨a.ty, .builtin i32, init.value⟩ := by
  have hw : i32.wrap init.value = init.value := IntTy.wrap_id (by decide) h
  have h' := h
  unfold IntTy.InRange at h'
  have hmax : i32.max = 2147483647 := by decide
  have hlow : i32.lowest = -2147483648 := by decide
  rw [hmax, hlow] at h'
  cases a with
  | overflow =>
    simp only [ctadAlias, hmax, hlow]
    rw [if_neg (by omega), if_neg (by omega)]
  | staticInt =>
    have hne : init.value ≠ -2147483648 := by have := hs rfl; rwa [hlow] at this
    have hst : staticInit 31 init.value = .ok init.value := by
      unfold staticInit
      rw [if_neg (by omega), if_neg (by omega)]
    simp only [ctadAlias]
    split <;> simp [hst, hw]
  | scaled => simp only [ctadAlias, hw]
  | elastic => simp only [ctadAlias, hw]
  | rounding => simp only [ctadAlias, hw]
  | wide => simp only [ctadAlias, hw]

/-! ### non-vacuity -/

example : Located "0x1F'ff".toList ⟨false, false, ⟨16, [1, 15, 15, 15], 0, false⟩⟩ ⟨false, 16, 15, 2, 15, 4, 0⟩ := by
  refine ⟨by decide, by unfold StrideOK; decide, rfl, rfl, by decide, [], by decide⟩
example : token "0x1F'ff".toList = some ⟨false, false, ⟨16, [1, 15, 15, 15], 0, false⟩⟩ := by decide
example : ¬ SignedOctalDigit ⟨true, true, ⟨16, [1, 15, 15, 15], 0, false⟩⟩ := by decide
example : token "-1.25".toList = some ⟨true, true, ⟨10, [1, 2, 5], 2, true⟩⟩ := by decide
example : token "-5.".toList = some ⟨true, true, ⟨10, [5], 0, true⟩⟩ ∧ ¬ SignedOctalDigit ⟨true, true, ⟨10, [5], 0, true⟩⟩ := by decide
example : token "-0'17".toList = some ⟨true, true, ⟨8, [1, 7], 0, false⟩⟩ ∧ ¬ SignedOctalDigit ⟨true, true, ⟨8, [1, 7], 0, false⟩⟩ ∧
    parse (.builtin i64) "-0'17".toList = .ok (-15) := by decide
example : token "-0'7".toList = some ⟨true, true, ⟨8, [7], 0, false⟩⟩ ∧ SignedOctalDigit ⟨true, true, ⟨8, [7], 0, false⟩⟩ ∧
    parse (.builtin i64) "-0'7".toList = .ok (-7) := by decide
example : elasticRep (constantDigits (-8)) = .ok (.builtin i32) := by decide
example : descaleNeg i128 10 10 5 (12 * 10 ^ 2) 0 0 = .ok (12, 2) := by decide
example : descaleNeg i128 2 10 50 125 0 (-(2 : Nat) : Int) = .ok (5, -2) := by decide
example : token "-07".toList = some ⟨true, true, ⟨8, [7], 0, false⟩⟩ ∧ SignedOctalDigit ⟨true, true, ⟨8, [7], 0, false⟩⟩ ∧
    parse (.builtin i64) "-07".toList = .ok (-7) := by decide
example : token "0'7".toList = some ⟨false, false, ⟨8, [7], 0, false⟩⟩ := by decide
example : UnsignedWide u64 ∧ UnsignedWide u128 := ⟨⟨rfl, by decide⟩, ⟨rfl, by decide⟩⟩
example : parse (.builtin u64) "18446744073709551615".toList = .ok 18446744073709551615 := by decide
example : parse (.builtin u64) "-1".toList = .ok 18446744073709551615 := by decide
example : expectedParams ⟨false, false, ⟨16, [1, 15, 15, 15], 0, false⟩⟩ = ⟨false, 16, 15, 2, 15, 4, 0⟩ := by decide
example : parse (.wide 160) "-12345678901234567890123".toList = .ok (-12345678901234567890123) := by decide
example : parse (.builtin i128) "0777".toList = .ok 511 := by decide
example : StrideOK 10 18 := Or.inl ⟨rfl, rfl⟩
example : SignedWide i128 := ⟨rfl, by decide⟩
example : positional 10 [9, 9, 9, 9] < 2 ^ estimate 10 4 9 := by decide
example : makeElasticScaledInteger 24 = .ok ⟨.sc (.el 2 (.int i32)) 3 2, .builtin i32, 3⟩ := by decide
example : fromValue (.sc (.int i32) (-2) 10) (.const 8) = .ok ⟨.sc (.int i32) 3 2, .builtin i32, 1⟩ := by decide
example : fromValue (.sc (.int i32) (-2) 10) (.val i64 1000) = .ok ⟨.sc (.int i64) 0 10, .builtin i64, 1000⟩ := by decide
example : fractionGuideFloat 64 = some i128 := by decide
example : ctadAlias .scaled (.val i64 (2 ^ 40)) = .ok ⟨.sc (.int i32) 0 2, .builtin i32, 0⟩ := by decide
example : i32.InRange (Init.val i64 (-5)).value := by decide

end Cnl.C15
