import CnlModel.Rounding
