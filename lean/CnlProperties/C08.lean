import CnlProofs.Rounding
import CnlModel.Layered
/-!
# C08 — integer division under a rounding mode returns the correctly rounded quotient

`Rounding.binOp R mode op x y` is the model of `rounding_integer<Rep, Tag>`'s binary operators
(`rounding/{nearest,tie_to_pos_inf,neg_inf,native}_rounding_tag.h`), here instantiated with the
built-in integers (`intOps`; the C++ semantics of `CnlModel.CInt`).  `roundDiv m a b` is the exact
rational `a / b` rounded as `m` prescribes; `IsRounded m a b q` characterises it without division.

* `roundDiv_isRounded`, `isRounded_unique` — the specification is consistent: the characterisation
  holds of `roundDiv` and of no other integer.
* `div_correct` — for **every** width (`IntTy` with `bits ≥ 1`, signed or unsigned, mixed operand
  types `L`, `R` included), every rounding tag, every dividend and every non-zero divisor whose
  values survive the usual arithmetic conversions and whose correctly rounded quotient is
  representable in the result type `T = decltype(a / b)`: the division evaluates — with no undefined
  behaviour in any intermediate step — to exactly that quotient, of type `T`.
  Representability already excludes the overflowing `lowest / -1` (it rounds to `-lowest` in every
  mode), so no separate precondition is needed.
* `div_correct_same_type` — the special case of two operands of one type.
* `other_ops_builtin`, `native_div` — every other operator under a rounding tag, and `/` under the
  native tag, is the operator of the representation.
* `compound_div_correct` — compound assignment `a /= b` (`a = static_cast<A>(a / b)`, the expression of the
  driver's `asg` lines): under the hypotheses of `div_correct`, `a` stores the correctly rounded quotient
  converted to its own representation type, `L.wrap (roundDiv mode a b)` — the quotient itself when it fits `L`.

* `roundDiv_natAbs_le`, `quotient_fits_digits`, `quotient_fits_int` — **numbers with further layers** (the driver's
  `nst` and `ovr` lines: `rounding_integer<elastic_integer<D,N>,Tag>`, `elastic_integer<D, rounding_integer<N,Tag>>`,
  `static_integer`, `static_number`, and `overflow_integer` / `rounding_integer` nests over 8- and 16-bit
  representations, `/` and `%`, all four signedness mixes of dividend and divisor, built-in `int` / `unsigned` operands on
  either side).  The operators of those layers are tied to the code **by correspondence only**: the driver's model is
  value-level (result type from the elastic policy — quotient: the dividend's digits, remainder: the smaller digit
  count, signed when either operand is — and the value `roundDiv` / truncated remainder of the operand VALUES), with
  the same expression as the independent oracle.  What is proved is that this demand is always satisfiable: in every
  mode the correctly rounded quotient is no larger in magnitude than the dividend, so it fits the dividend's digit
  count (given a sign), and the quotient of 8- and 16-bit operands — `lowest / -1` included — fits the `int` result, so
  that no overflow signal is ever justified there.

`L.InRange a`, `R.InRange b` say that the operands are values of their types; `T.InRange a`,
`T.InRange b` that the usual arithmetic conversions keep their values (they change a value only when a
negative signed operand meets an unsigned type of at least its rank).
-/
namespace Cnl.C08
open Cnl Cnl.Spec Cnl.Rounding

/-- the characterisation holds of the oracle, in all four modes -/
theorem roundDiv_isRounded (m : RoundMode) (a b : Int) (hb : b ≠ 0) : IsRounded m a b (roundDiv m a b) :=
  Spec.roundDiv_isRounded m a b hb

/-- … and pins the value -/
theorem isRounded_unique (m : RoundMode) (a b q q' : Int)
    (h : IsRounded m a b q) (h' : IsRounded m a b q') : q = q' :=
  Spec.isRounded_unique m a b q q' h h'

/-- division under a rounding tag returns the correctly rounded quotient (all widths, signed and
unsigned, mixed operand types, all four tags) and executes no undefined behaviour -/
theorem div_correct (mode : RdMode) (L R : IntTy) (hL : 1 ≤ L.bits) (hR : 1 ≤ R.bits) (a b : Int)
    (haL : L.InRange a) (hbR : R.InRange b)
    (haT : (usualArith L R).InRange a) (hbT : (usualArith L R).InRange b) (hb0 : b ≠ 0)
    (hq : (usualArith L R).InRange (roundDiv (modeOf mode) a b)) :
    Rounding.binOp intOps mode .div (.int L, a) (.int R, b)
      = .ok (.int (usualArith L R), roundDiv (modeOf mode) a b) :=
  binOp_div_eval mode hL hR haL hbR haT hbT hb0 hq

/-- both operands of one type `T`: the result has the promoted type -/
theorem div_correct_same_type (mode : RdMode) (T : IntTy) (hT : 1 ≤ T.bits) (a b : Int)
    (ha : T.InRange a) (hb : T.InRange b) (hb0 : b ≠ 0)
    (hq : (promote T).InRange (roundDiv (modeOf mode) a b)) :
    Rounding.binOp intOps mode .div (.int T, a) (.int T, b)
      = .ok (.int (promote T), roundDiv (modeOf mode) a b) := by
  have h := div_correct mode T T hT hT a b ha hb
  rw [usualArith_self] at h
  exact h (promote_inRange hT ha) (promote_inRange hT hb) hb0 hq

/-- every other operator under a rounding tag is the representation's operator -/
theorem other_ops_builtin (R : RepOps) (mode : RdMode) (op : BinOp) (x y : Num) (h : op ≠ .div) :
    Rounding.binOp R mode op x y = R.bin op x y :=
  binOp_other R mode op x y h

/-- the native tag divides as the representation does -/
theorem native_div (R : RepOps) (x y : Num) : Rounding.binOp R .nat .div x y = R.bin .div x y :=
  binOp_native_div R x y

/-- the layered dispatch of two `rounding_integer`s of one tag over built-in representations is
`Rounding.binOp` on the representations, re-wrapped -/
theorem layered_bin_rounding (op : BinOp) (mode : RdMode) (L R : IntTy) (a b : Int)
    (hop : op ≠ .shl ∧ op ≠ .shr) :
    Layered.bin op (.rd (.int L) mode, a) (.rd (.int R) mode, b)
      = (Rounding.binOp intOps mode op (.int L, a) (.int R, b)).map (fun r => (.rd r.1 mode, r.2)) := by
  cases op <;> simp [Layered.bin, Layered.level, Ty.depth, Layered.ops, Layered.binWith, Layered.balance,
    Layered.binHeads] at hop ⊢

/-- **compound assignment** `a /= b` for `a : rounding_integer<L, mode>`, `b : rounding_integer<R, mode>`:
`a = static_cast<A>(a / b)` — the tagged division in the layered model, then the conversion of the quotient's
representation back to `L` (verbatim the expression the driver evaluates for `C08 asg div …` lines).  Under
the hypotheses of `div_correct` it is defined and `a` stores `L.wrap` of the correctly rounded quotient, hence
the quotient itself when it is a value of `L`. -/
theorem compound_div_correct (mode : RdMode) (L R : IntTy) (hL : 1 ≤ L.bits) (hR : 1 ≤ R.bits) (a b : Int)
    (haL : L.InRange a) (hbR : R.InRange b)
    (haT : (usualArith L R).InRange a) (hbT : (usualArith L R).InRange b) (hb0 : b ≠ 0)
    (hq : (usualArith L R).InRange (roundDiv (modeOf mode) a b)) :
    (Layered.bin .div (.rd (.int L) mode, a) (.rd (.int R) mode, b) >>= fun w =>
        match w.1 with
        | .rd (.int T) _ => pure (Ty.rd (.int L) mode, (convert L (T, w.2)).2)
        | _ => (.ill "unexpected result type" : Res Num))
      = .ok (.rd (.int L) mode, L.wrap (roundDiv (modeOf mode) a b))
    ∧ (L.InRange (roundDiv (modeOf mode) a b) → L.wrap (roundDiv (modeOf mode) a b) = roundDiv (modeOf mode) a b) := by
  refine ⟨?_, fun h => IntTy.wrap_id hL h⟩
  rw [layered_bin_rounding .div mode L R a b (by decide), div_correct mode L R hL hR a b haL hbR haT hbT hb0 hq]
  rfl

/-- in every mode the correctly rounded quotient is no larger in magnitude than the dividend -/
theorem roundDiv_natAbs_le (m : RoundMode) (a b : Int) (hb : b ≠ 0) : (roundDiv m a b).natAbs ≤ a.natAbs :=
  Spec.natAbs_le_of_close (Spec.close_of_isRounded (Spec.roundDiv_isRounded m a b hb) hb)

/-- the quotient of a `d`-digit dividend is a `d`-digit number (the elastic policy `digits = LhsDigits`, signed when
either operand is, always holds the correctly rounded quotient) -/
theorem quotient_fits_digits (m : RoundMode) (d : Nat) (a b : Int) (hb : b ≠ 0) (ha : a.natAbs ≤ 2 ^ d - 1) :
    (roundDiv m a b).natAbs ≤ 2 ^ d - 1 :=
  Nat.le_trans (roundDiv_natAbs_le m a b hb) ha

/-- a dividend whose magnitude fits `int` (every 8- and 16-bit value, `lowest` included) has a rounded quotient that is an
`int`: no overflow can be signalled for `lowest / -1` of a representation narrower than `int` -/
theorem quotient_fits_int (m : RoundMode) (a b : Int) (hb : b ≠ 0) (ha : a.natAbs ≤ 2147483647) :
    i32.InRange (roundDiv m a b) := by
  have := roundDiv_natAbs_le m a b hb
  constructor <;> simp [IntTy.lowest, IntTy.max, i32] <;> omega

example : ∀ m : RoundMode, roundDiv m (-128) (-1) = 128 ∧ roundDiv m (-32768) (-1) = 32768 ∧ roundDiv m 255 (-1) = -255 := by
  intro m; cases m <;> decide
example : roundDiv .nearestAway 201 (-3) = -67 ∧ roundDiv .floor 200 (-3) = -67 ∧ roundDiv .nearestUp 3 (-2) = -1 ∧
    roundDiv .truncate 200 (-3) = -66 ∧ (200 : Int).natAbs ≤ 2 ^ 8 - 1 := by decide

/-! ## non-vacuity: evaluations at the type limits, and satisfiable hypotheses -/

-- `a /= b`, nearest: i8 -128 /= i64 3 → quotient -43 (in `i64`) stored in the `i8`; u8 200 /= i8 -1 stores -200 mod 256
example : (Layered.bin .div (.rd (.int i8) .nrst, -128) (.rd (.int i64) .nrst, 3) >>= fun w =>
        match w.1 with
        | .rd (.int T) _ => pure (Ty.rd (.int i8) .nrst, (convert i8 (T, w.2)).2)
        | _ => (.ill "unexpected result type" : Res Num)) = .ok (.rd (.int i8) .nrst, -43) := by decide +kernel
example : u8.wrap (roundDiv (modeOf .nrst) 200 (-1)) = 56 ∧ (usualArith u8 i8).InRange (roundDiv (modeOf .nrst) 200 (-1)) := by
  decide

-- nearest: the bias `lhs + rhs/2` of the unrepaired formula would overflow here
example : Rounding.binOp intOps .nrst .div (.int i32, 2147483647) (.int i32, 2) = .ok (.int i32, 1073741824) := by decide +kernel
example : Rounding.binOp intOps .nrst .div (.int i32, 2147483643) (.int i32, 2147483643) = .ok (.int i32, 1) := by decide +kernel
example : Rounding.binOp intOps .nrst .div (.int i32, 0) (.int i32, -2147483648) = .ok (.int i32, 0) := by decide +kernel
example : Rounding.binOp intOps .nrst .div (.int i32, -2147483648) (.int i32, 2147483647) = .ok (.int i32, -1) := by decide +kernel
example : Rounding.binOp intOps .nrst .div (.int u32, 4294967295) (.int u32, 4294967295) = .ok (.int u32, 1) := by decide +kernel
example : Rounding.binOp intOps .nrst .div (.int u32, 4294967295) (.int u32, 2) = .ok (.int u32, 2147483648) := by decide +kernel
-- ties toward +infinity
example : Rounding.binOp intOps .tpi .div (.int i32, -2147483648) (.int i32, 2147483647) = .ok (.int i32, -1) := by decide +kernel
example : Rounding.binOp intOps .tpi .div (.int i32, 0) (.int i32, -2147483648) = .ok (.int i32, 0) := by decide +kernel
example : Rounding.binOp intOps .tpi .div (.int i32, -3) (.int i32, 2) = .ok (.int i32, -1) := by decide +kernel
example : Rounding.binOp intOps .tpi .div (.int u32, 4294967295) (.int u32, 4294967295) = .ok (.int u32, 1) := by decide +kernel
-- toward −infinity, mixed operand types, 8-bit operands promote to `int`
example : Rounding.binOp intOps .ninf .div (.int i8, -128) (.int i64, 3) = .ok (.int i64, -43) := by decide +kernel
example : Rounding.binOp intOps .nrst .div (.int i8, -128) (.int u8, 255) = .ok (.int i32, -1) := by decide +kernel
-- the excluded case: the rounded quotient `2^31` is not representable, and the code overflows
example : ¬ i32.InRange (roundDiv (modeOf .nrst) (-2147483648) (-1)) := by decide
example : Rounding.binOp intOps .nrst .div (.int i32, -2147483648) (.int i32, -1) = .ub .divOverflow := by decide +kernel
-- the hypotheses of `div_correct` are satisfiable at the limits
example : i32.InRange 2147483647 ∧ i32.InRange 2 ∧ (usualArith i32 i32).InRange (2147483647 : Int) ∧
    (usualArith i32 i32).InRange (roundDiv (modeOf .nrst) 2147483647 2) := by decide
example : IsRounded .nearestAway 7 2 4 ∧ IsRounded .nearestUp (-7) 2 (-3) ∧ IsRounded .floor (-7) 2 (-4) ∧
    IsRounded .truncate (-7) 2 (-3) := by decide
-- another operator under a rounding tag: the built-in one, overflow included
example : Rounding.binOp intOps .tpi .mul (.int i16, -7) (.int u8, 3) = .ok (.int i32, -21) := by decide +kernel
example : Rounding.binOp intOps .nrst .add (.int i32, 2147483647) (.int i32, 1) = .ub .signedOverflow := by decide +kernel

/-! ## the hypotheses are needed -/

-- `R.InRange b`: `2^31` is not a value of `i32`; the model's `rhs < 0` would read it as negative
example : Rounding.binOp intOps .nrst .div (.int i64, 3) (.int i32, 2147483648) = .ok (.int i64, -1) ∧
    roundDiv (modeOf .nrst) 3 2147483648 = 0 ∧ ¬ i32.InRange 2147483648 := by decide +kernel
-- `T.InRange a`: the usual arithmetic conversions turn `-7` into `2^32 - 7` before dividing
example : Rounding.binOp intOps .nrst .div (.int i32, -7) (.int u32, 2) = .ok (.int u32, 2147483643) ∧
    ¬ (usualArith i32 u32).InRange (-7) := by decide +kernel

end Cnl.C08
