import CnlModel.Wide
namespace Cnl.C10
end Cnl.C10
