import CnlProofs.Wide
import CnlModel.WideCmp
import CnlProofs.WideFloat
/-!
# C10 — `cnl::wide_integer` behaves as an N-bit two's-complement integer for any N

`Cnl.Wide` (CnlModel/Wide.lean) transcribes the routines of the vendored `uintwide_t` that
`cnl::wide_integer` reaches: a value is a list of `n` limbs of `w` bits, least significant first.
`Cnl.WideSpec` (CnlSpec/Wide.lean) is the property's side: mathematical integers, `wrapTwos N signed`
(reduction to the N-bit two's-complement range), division truncating toward zero, floor right shift,
bitwise operators on N-bit patterns, decimal text from first principles — no limbs anywhere.

Every theorem below holds for **all limb widths `w ≥ 1` and all limb counts `n ≥ 1`** (induction on
the limb list); `Val f a` says `a` is a well-formed value of format `f` (`n` limbs, each `< 2^w`),
`toInt f a` is its two's-complement reading, `f.N = w·n` the width.

* Part 1: the limb routines (`eval_add_n`, `eval_subtract_n`, `eval_multiply_n_by_n_to_lo_part` generic and
  unrolled, `eval_multiply_n_by_n_to_2n`, `eval_multiply_kara_n_by_n_to_2n`, `eval_multiply_1d`, `eval_divide_by_single_limb`, `shl`, `shr`, `negate`, `compare_ranges`,
  bitwise, `eval_divide_knuth`) compute the exact arithmetic they stand for, with carries.
* Part 2: hence each operator, read as a value, equals `wrapTwos N` of the exact result, for signed and
  unsigned formats; the right-hand sides do not mention `w`.  Shift counts of any built-in type (`shl_wraps`, `shr_floor`)
  and counts given as a `cnl::constant<K>` / `K_c` literal of any value type, `K ≥ 256` included (`shift_by_constant`).
* Part 3: the corollary that results do not depend on how a value is split into limbs.
* Part 4: conversions from/to built-in integers, `numeric_limits`, decimal text, the storage rule.
* Part 4b: a built-in integer (any type of 8…128 bits, any value, the most negative ones included) on either side of a
  multi-limb `wide_integer` (`builtin_operand_spec`), with the two routes on which the code does not follow arithmetic
  on the values refuted from kernel-checked witnesses (`mod_small_unsigned_negative_dividend_refuted`,
  `signed_builtin_unsigned_wide_refuted`).  Comparisons with a built-in operand are `Cnl.Wide.wideCmp` (C03's theorems).
  Covered by correspondence only (no theorem): the result *type* of the mixed operators (digits of the wide operand,
  narrowest type of its width, signed if either operand is — the driver's oracle demands it on every line),
  `cnl::to_chars` / `to_chars_static` (`Cnl.Wide.toChars`, `toCharsBuf`: the numeral of `operator<<`, failing exactly when
  the buffer is shorter than the numeral) and `to_chars_capacity` (`toCharsCapacity`: the oracle demands room for the
  numerals of `lowest()` and `max()`; observed at the digit counts where `Digits·log₁₀2` is within 0.02 of an integer).

Division is **full**, not partial: `knuth_complete` proves that Algorithm D's `q̂` correction (decrement
loop + one add-back) always suffices — `divChecked` (run the transcription, then check `q·b + r = a ∧ r < b`)
never fails — so `div_wraps`/`mod_wraps` carry no hypothesis about the algorithm.

Side conditions that are genuinely needed and why: the unrolled four-limb multiply needs `3 ≤ w`
(its column sums must fit a double limb; it is instantiated for `w = 64` only) — `mul_wraps` asks
`3 ≤ w ∨ n ≠ 4`; decimal text needs `10 < 2^w`; conversion to a built-in type of `b` bits needs
`b ≤ w ∨ w ∣ b` (the code's limb-ratio shortcut), true for all 8/16/32/64/128-bit types over 8/16/32/64-bit limbs.

Karatsuba multiplication (`≥ 129` limbs; inside the property's 65..2048-digit range that is 8-bit limbs and
1056..2048 bits) is **covered in full** — Part 2b.  The routine is transcribed with its memory (`Cnl.Wide.kara`,
validated byte for byte against the real routine's result *and* scratch arrays) and proved exact for every limb
width, every limb count and every initial content of its uninitialised arrays: `schoolbook_full_product`
(`eval_multiply_n_by_n_to_2n`), `kara_one_level_correct` (one split, for any correct routine one level down:
`(a₁Bʰ + a₀)(b₁Bʰ + b₀) = a₁b₁B²ʰ + (a₁b₁ + a₀b₀ ± |a₁−a₀||b₀−b₁|)Bʰ + a₀b₀` with the carry/borrow ripples as
arithmetic modulo `B²ⁿ`), `karatsuba_routine_correct` (induction on the recursion), `karatsuba_correct`
(`KaratsubaCorrect`, the operator) — so `mul_wraps`, `binOp_spec` and `limb_size_independent` carry **no** hypothesis
about the limb count.  This is the routine as repaired in /repo 38967ec (schoolbook for odd limb counts).  The
routine before that commit is kept as `karaOrig`/`opMulWithOrig`: `karatsuba_unrepaired_refuted` (kernel-checked,
from a `wide_integer<1568, uint8_t>` witness) shows it violated the property — when halving the limb count reached
an odd count above the cutoff 48 (`karaOddSplit`) a limb of each operand was dropped
(`karatsuba_unrepaired_odd_level_ignores_top_limbs`, all widths and operands) and two limbs of the uninitialised
result array were read (`karatsuba_unrepaired_indeterminate`: the product depended on what the arrays held).
Former defect class `C10.karatsuba_odd_split` = `karaDefect n` (`karaDefect_instantiable`: exactly the limb counts
196, 204, …, 252 = 4·m, m odd, 49 ≤ m ≤ 63, i.e. 8-bit-limb widths 1568, 1632, 1696, 1760, 1824, 1888, 1952, 2016).

Not covered here (see the report): conversion to/from floating point, `operator~`
(does not compile for multi-limb `wide_integer`).
-/
namespace Cnl.C10
open Cnl Cnl.Wide Cnl.WideSpec
open Cnl.Wide.Bridge (Val)

/-! ## Part 1 — limb routines, for every limb width and limb count -/

/-- `eval_add_n`: sum with carry-in and carry-out -/
theorem add_with_carry {w : Nat} {a b : Limbs} {c : Nat} (hw : 1 ≤ w) (ha : WF w a) (hb : WF w b)
    (hl : a.length = b.length) (hc : c ≤ 1) :
    toNat w (addN w a b c).1 + (addN w a b c).2 * 2^(w * a.length) = toNat w a + toNat w b + c :=
  (Basic.addN_spec hw ha hb hl hc).1

/-- `eval_subtract_n`: difference with borrow-in and borrow-out -/
theorem subtract_with_borrow {w : Nat} {a b : Limbs} {bin : Bool} (hw : 1 ≤ w) (ha : WF w a) (hb : WF w b)
    (hl : a.length = b.length) :
    toNat w (subN w a b bin).1 + toNat w b + (if bin then 1 else 0)
      = toNat w a + (if (subN w a b bin).2 then 1 else 0) * 2^(w * a.length) :=
  (Basic.subN_spec hw ha hb hl).1

/-- generic `eval_multiply_n_by_n_to_lo_part`: the low `n` limbs of the product -/
theorem multiply_low_part {w : Nat} {a b : Limbs} (ha : WF w a) (hb : WF w b) (hl : a.length = b.length) :
    toNat w (mulLo w a b) = (toNat w a * toNat w b) % 2^(w * a.length) :=
  (Mul.mulLo_spec ha hb hl).1

/-- `eval_multiply_n_by_n_to_2n`: the full `2n`-limb schoolbook product (the leaves of Karatsuba) -/
theorem schoolbook_full_product {w : Nat} {a b : Limbs} (ha : WF w a) (hb : WF w b) (hl : a.length = b.length) :
    toNat w (mul2n w a b) = toNat w a * toNat w b ∧ (mul2n w a b).length = 2 * a.length :=
  ⟨(Kara.mul2n_spec ha hb hl).1, (Kara.mul2n_spec ha hb hl).2.2⟩

/-- one Karatsuba level (`n` even): if the routine one level down (`rec`, on `n/2` limbs) is correct, the split
`a = a₁·Bʰ + a₀`, `b = b₁·Bʰ + b₀` with the three sub-products, the two middle additions, the signed third one
and all carry/borrow ripples leaves the exact `2n`-limb product in `r` — whatever `r` and the scratch `t` held -/
theorem kara_one_level_correct {w : Nat} (hw : 1 ≤ w) {rec : Nat → Limbs → Limbs → Limbs → Limbs → Limbs × Limbs} {n : Nat}
    (hev : n % 2 = 0) (hrec : Kara.RecOK w rec (n / 2)) {a0 a1 b0 b1 r t : Limbs}
    (ha0 : WF w a0) (ha1 : WF w a1) (hb0 : WF w b0) (hb1 : WF w b1)
    (la0 : a0.length = n / 2) (la1 : a1.length = n / 2) (lb0 : b0.length = n / 2) (lb1 : b1.length = n / 2)
    (hr : r.length = 2 * n) (ht : 4 * n ≤ t.length) :
    toNat w (karaSplit w rec n a0 a1 b0 b1 r t).1
      = (toNat w a0 + 2^(w * (n / 2)) * toNat w a1) * (toNat w b0 + 2^(w * (n / 2)) * toNat w b1)
    ∧ WF w (karaSplit w rec n a0 a1 b0 b1 r t).1 ∧ (karaSplit w rec n a0 a1 b0 b1 r t).1.length = 2 * n :=
  let ⟨h1, h2, h3, _⟩ := Kara.karaSplit_spec hw hev hrec ha0 ha1 hb0 hb1 la0 la1 lb0 lb1 hr ht
  ⟨h1, h2, h3⟩

/-- `eval_multiply_kara_n_by_n_to_2n` (as repaired: only even counts are split): the exact `2n`-limb product for
every limb width, every limb count `n`, any contents of the result array `r` (2n limbs) and the scratch `t` (≥ 4n) -/
theorem karatsuba_routine_correct {w : Nat} (hw : 1 ≤ w) {n : Nat} {a b r t : Limbs} (ha : WF w a) (hb : WF w b)
    (la : a.length = n) (lb : b.length = n) (hr : r.length = 2 * n) (ht : 4 * n ≤ t.length) :
    toNat w (kara w n n a b r t).1 = toNat w a * toNat w b ∧ WF w (kara w n n a b r t).1
    ∧ (kara w n n a b r t).1.length = 2 * n :=
  let ⟨h1, h2, h3, _⟩ := Kara.kara_spec hw n n (Nat.le_refl n) a b r t ha hb la lb hr ht
  ⟨h1, h2, h3⟩

/-- the unrolled four-limb `eval_multiply_n_by_n_to_lo_part` -/
theorem multiply_low_part_unrolled4 {w a0 a1 a2 a3 b0 b1 b2 b3 : Nat} (hw : 3 ≤ w)
    (h0 : a0 < 2^w) (h1 : a1 < 2^w) (h2 : a2 < 2^w) (h3 : a3 < 2^w)
    (k0 : b0 < 2^w) (k1 : b1 < 2^w) (k2 : b2 < 2^w) (k3 : b3 < 2^w) :
    toNat w (mulLo4 w a0 a1 a2 a3 b0 b1 b2 b3) = (toNat w [a0,a1,a2,a3] * toNat w [b0,b1,b2,b3]) % 2^(w * 4) :=
  (Mul.mulLo4_spec hw h0 h1 h2 h3 k0 k1 k2 k3).1

/-- `eval_multiply_1d`: product by one limb, with the carry limb -/
theorem multiply_by_limb {w : Nat} {a : Limbs} {b : Nat} (ha : WF w a) (hb : b < 2^w) :
    toNat w (mul1d w a b).1 + (mul1d w a b).2 * 2^(w * a.length) = toNat w a * b :=
  (Basic.mul1d_spec ha hb).1

/-- `eval_divide_by_single_limb`: `q·d + r = a` and `r < d` -/
theorem short_division {w d : Nat} {a : Limbs} (hd : 0 < d) (hdw : d < 2^w) (ha : WF w a) :
    toNat w (divShort w d 0 a).1 * d + (divShort w d 0 a).2 = toNat w a ∧ (divShort w d 0 a).2 < d := by
  obtain ⟨hq, hr, _, _⟩ := Div.divShort_spec hd hdw ha
  rw [hq, hr]
  exact ⟨by rw [Nat.mul_comm]; exact Nat.div_add_mod _ _, Nat.mod_lt _ hd⟩

/-- `shl` -/
theorem shift_left_limbs {w : Nat} {a : Limbs} {k : Nat} (hw : 1 ≤ w) (ha : WF w a) (hk : k < w * a.length) :
    toNat w (shl w a k) = (toNat w a * 2^k) % 2^(w * a.length) :=
  (Shift.shl_spec hw ha hk).1

/-- `shr`: ones are shifted in for a negative signed value -/
theorem shift_right_limbs {f : Wide.Fmt} {a : Limbs} {k : Nat} (hw : 1 ≤ f.w) (ha : WF f.w a) (hl : a.length = f.n) (hk : k < f.N) :
    toNat f.w (shr f a k) = (toNat f.w a + (if isNeg f a then (2^k - 1) * 2^f.N else 0)) / 2^k :=
  (Shift.shr_spec hw ha hl hk).1

/-- `negate` (`bitwise_not` then `preincrement`) -/
theorem negate_limbs {w : Nat} {a : Limbs} (ha : WF w a) :
    toNat w (negate w a) = (2^(w * a.length) - toNat w a) % 2^(w * a.length) :=
  (Basic.negate_spec ha).1

/-- `compare_ranges` is the order of the values -/
theorem compare_limbs {w : Nat} {a b : Limbs} (ha : WF w a) (hb : WF w b) (hl : a.length = b.length) :
    cmpRanges a b = (if toNat w a < toNat w b then -1 else if toNat w a = toNat w b then 0 else 1) :=
  Basic.cmpRanges_spec ha hb hl

/-- limb-wise `&`, `|`, `^` are the bitwise operators on the values -/
theorem bitwise_limbs {w : Nat} {a b : Limbs} (ha : WF w a) (hb : WF w b) (hl : a.length = b.length) :
    toNat w (bitAnd a b) = toNat w a &&& toNat w b ∧ toNat w (bitOr a b) = toNat w a ||| toNat w b
    ∧ toNat w (bitXor a b) = toNat w a ^^^ toNat w b :=
  ⟨(Basic.bitAnd_spec ha hb hl).1, (Basic.bitOr_spec ha hb hl).1, (Basic.bitXor_spec ha hb hl).1⟩

/-- `eval_divide_knuth` (all paths: trivial, single limb, Algorithm D) returns the Euclidean quotient and remainder -/
theorem knuth_division {w : Nat} {u v : Limbs} (maxv : Limbs) (hw : 1 ≤ w) (hu : WF w u) (hv : WF w v)
    (hl : u.length = v.length) (hv0 : toNat w v ≠ 0) :
    ∃ o, divKnuth w u v maxv = some o ∧ toNat w o.q = toNat w u / toNat w v ∧ toNat w o.r = toNat w u % toNat w v :=
  let ⟨o, h, hq, hr, _⟩ := Knuth.divKnuth_spec maxv hw hu hv hl hv0
  ⟨o, h, hq, hr⟩

/-- a checked division result is the Euclidean quotient and remainder (uniqueness of Euclidean division) -/
theorem div_checked_sound {w : Nat} {a b : Limbs} {q r : Nat} (h : divChecked w a b = some (q, r)) :
    q = toNat w a / toNat w b ∧ r = toNat w a % toNat w b :=
  DivOp.divChecked_sound h

/-- full strength: Algorithm D's `q̂` correction always suffices — `divChecked` never fails on a non-zero divisor -/
def KnuthComplete : Prop :=
  ∀ (w : Nat) (a b : Limbs), 1 ≤ w → WF w a → WF w b → a.length = b.length → toNat w b ≠ 0 →
    (divChecked w a b).isSome = true

theorem knuth_complete : KnuthComplete := Knuth.knuth_complete

/-! ## Part 2 — every operator is `wrapTwos N` of the exact result (signed and unsigned) -/

theorem add_wraps {f : Wide.Fmt} {a b : Limbs} (hw : 1 ≤ f.w) (hn : 1 ≤ f.n) (ha : Val f a) (hb : Val f b) :
    toInt f (opAdd f.w a b) = wrapTwos f.N f.signed (toInt f a + toInt f b) :=
  (Arith.add_toInt hw hn ha hb).1

theorem sub_wraps {f : Wide.Fmt} {a b : Limbs} (hw : 1 ≤ f.w) (hn : 1 ≤ f.n) (ha : Val f a) (hb : Val f b) :
    toInt f (opSub f.w a b) = wrapTwos f.N f.signed (toInt f a - toInt f b) :=
  (Arith.sub_toInt hw hn ha hb).1

/-- `operator*`, every limb count: schoolbook (unrolled for four limbs) below 129 limbs, Karatsuba from 129 limbs -/
theorem mul_wraps {f : Wide.Fmt} {a b : Limbs} (hw : 1 ≤ f.w) (hn : 1 ≤ f.n) (h4 : 3 ≤ f.w ∨ f.n ≠ 4) (ha : Val f a) (hb : Val f b) :
    toInt f (opMul f.w a b) = wrapTwos f.N f.signed (toInt f a * toInt f b) :=
  (Arith.mul_toInt hw hn h4 ha hb).1

/-- the same whatever the local arrays of the Karatsuba overload hold on entry (the C++ does not initialise them) -/
theorem mul_wraps_any_init {f : Wide.Fmt} {a b : Limbs} (init : Limbs × Limbs) (hw : 1 ≤ f.w) (hn : 1 ≤ f.n) (h4 : 3 ≤ f.w ∨ f.n ≠ 4)
    (ha : Val f a) (hb : Val f b) :
    toInt f (opMulWith f.w init a b) = wrapTwos f.N f.signed (toInt f a * toInt f b) :=
  (Arith.mulWith_toInt init hw hn h4 ha hb).1

/-- the Knuth routine meets what the sign-handling wrappers of `/` and `%` need -/
theorem knuth_correct (f : Wide.Fmt) (hw : 1 ≤ f.w) :
    ∀ a' b', Val f.unsignedView a' → Val f.unsignedView b' → toNat f.w b' ≠ 0 → DivOp.KnuthCorrect f.w a' b' := by
  intro a' b' ha' hb' hb0 maxv
  obtain ⟨o, e, q, r, wq, wr, lq, lr⟩ :=
    Knuth.divKnuth_spec maxv hw ha'.1 hb'.1 (ha'.2.trans hb'.2.symm) hb0
  exact ⟨o, e, q, r, wq, lq, wr, lr⟩

/-- `operator/`: division truncating toward zero (only `lowest / -1` wraps) -/
theorem div_wraps {f : Wide.Fmt} {a b : Limbs} (hw : 1 ≤ f.w) (hn : 1 ≤ f.n) (ha : Val f a) (hb : Val f b) (hb0 : toInt f b ≠ 0) :
    ∃ o, opDiv f a b = some o ∧ toInt f o.q = wrapTwos f.N f.signed ((toInt f a).tdiv (toInt f b)) :=
  let ⟨o, h, hq, _⟩ := DivOp.opDiv_toInt hw hn ha hb hb0 (knuth_correct f hw)
  ⟨o, h, hq⟩

/-- `operator%`: the remainder of the truncating division (sign of the dividend) -/
theorem mod_wraps {f : Wide.Fmt} {a b : Limbs} (hw : 1 ≤ f.w) (hn : 1 ≤ f.n) (ha : Val f a) (hb : Val f b) (hb0 : toInt f b ≠ 0) :
    ∃ o, opMod f a b = some o ∧ toInt f o.r = wrapTwos f.N f.signed ((toInt f a).tmod (toInt f b)) :=
  let ⟨o, h, hr, _⟩ := DivOp.opMod_toInt hw hn ha hb hb0 (knuth_correct f hw)
  ⟨o, h, hr⟩

theorem neg_wraps {f : Wide.Fmt} {a : Limbs} (hw : 1 ≤ f.w) (hn : 1 ≤ f.n) (ha : Val f a) :
    toInt f (negate f.w a) = wrapTwos f.N f.signed (-(toInt f a)) :=
  (Arith.neg_toInt hw hn ha).1

/-- `++` and `--` -/
theorem inc_dec_wrap {f : Wide.Fmt} {a : Limbs} (hw : 1 ≤ f.w) (hn : 1 ≤ f.n) (ha : Val f a) :
    toInt f (preinc f.w a) = wrapTwos f.N f.signed (toInt f a + 1)
    ∧ toInt f (predec f.w a) = wrapTwos f.N f.signed (toInt f a - 1) :=
  ⟨(Arith.preinc_toInt hw hn ha).1, (Arith.predec_toInt hw hn ha).1⟩

/-- `&`, `|`, `^` act on the N-bit two's-complement patterns -/
theorem bitwise_wrap {f : Wide.Fmt} {a b : Limbs} (hw : 1 ≤ f.w) (hn : 1 ≤ f.n) (ha : Val f a) (hb : Val f b) :
    toInt f (bitAnd a b) = wrapTwos f.N f.signed (Int.ofNat (pattern f.N (toInt f a) &&& pattern f.N (toInt f b)))
    ∧ toInt f (bitOr a b) = wrapTwos f.N f.signed (Int.ofNat (pattern f.N (toInt f a) ||| pattern f.N (toInt f b)))
    ∧ toInt f (bitXor a b) = wrapTwos f.N f.signed (Int.ofNat (pattern f.N (toInt f a) ^^^ pattern f.N (toInt f b))) :=
  ⟨(Arith.and_toInt hw hn ha hb).1, (Arith.or_toInt hw hn ha hb).1, (Arith.xor_toInt hw hn ha hb).1⟩

/-- the six comparisons are the order of the integers -/
theorem comparisons {f : Wide.Fmt} {a b : Limbs} (op : CmpOp) (hw : 1 ≤ f.w) (hn : 1 ≤ f.n) (ha : Val f a) (hb : Val f b) :
    cmpOp f op a b = specCmp op (toInt f a) (toInt f b) :=
  Arith.cmpOp_spec op hw hn ha hb

/-- `<<` by `0 ≤ k < N` (count of signed or unsigned type): multiplication by `2^k`, reduced -/
theorem shl_wraps {f : Wide.Fmt} {a : Limbs} {k : Int} {sgn : Bool} (hw : 1 ≤ f.w) (hn : 1 ≤ f.n) (ha : Val f a)
    (hk0 : 0 ≤ k) (hkN : k < f.N) :
    toInt f (shlOp f a k sgn) = wrapTwos f.N f.signed (toInt f a * 2^k.toNat) :=
  (ShiftOp.shlOp_toInt hw hn ha hk0 hkN).1

/-- `>>` by `0 ≤ k < N`: floor division by `2^k` — arithmetic for negative values; no reduction is needed -/
theorem shr_floor {f : Wide.Fmt} {a : Limbs} {k : Int} {sgn : Bool} (hw : 1 ≤ f.w) (hn : 1 ≤ f.n) (ha : Val f a)
    (hk0 : 0 ≤ k) (hkN : k < f.N) :
    toInt f (shrOp f a k sgn) = toInt f a / 2^k.toNat
    ∧ toInt f (shrOp f a k sgn) = wrapTwos f.N f.signed (toInt f a / 2^k.toNat) :=
  ⟨(ShiftOp.shrOp_toInt hw hn ha hk0 hkN).1, ShiftOp.shrOp_toInt_wrap hw hn ha hk0 hkN⟩

/-- the count given as a `cnl::constant<K>` (the `K_c` literals; `<<=` / `>>=` with a constant): for every `0 ≤ K < N` —
also `K ≥ 256` — and every value type of the constant, `<<` is multiplication by `2^K` reduced to `N` bits and `>>` the floor
of the division by `2^K` (arithmetic for negative values) -/
theorem shift_by_constant {f : Wide.Fmt} {a : Limbs} {K : Int} {sgn : Bool} (hw : 1 ≤ f.w) (hn : 1 ≤ f.n) (ha : Val f a)
    (hk0 : 0 ≤ K) (hkN : K < f.N) :
    toInt f (shlConst f a K sgn) = wrapTwos f.N f.signed (toInt f a * 2^K.toNat)
    ∧ toInt f (shrConst f a K sgn) = toInt f a / 2^K.toNat
    ∧ toInt f (shrConst f a K sgn) = wrapTwos f.N f.signed (toInt f a / 2^K.toNat) :=
  ⟨shl_wraps hw hn ha hk0 hkN, (shr_floor hw hn ha hk0 hkN).1, (shr_floor hw hn ha hk0 hkN).2⟩

-- a 320-bit signed value over 8-bit limbs shifted by `constant<300>`: 3·2^300 and −2^319 / 2^300 = −2^19
set_option exponentiation.threshold 400 in
example : toInt ⟨8, 40, true⟩ (shlConst ⟨8, 40, true⟩ (3 :: List.replicate 39 0) 300 true) = 3 * 2^300 := by decide
set_option exponentiation.threshold 400 in
example : toInt ⟨8, 40, true⟩ (shrConst ⟨8, 40, true⟩ (List.replicate 39 0 ++ [128]) 300 true) = -2^19 := by decide

/-- all binary operators of `wide_integer op wide_integer` at once, against the spec's `specBin` -/
theorem binOp_spec {f : Wide.Fmt} {a b : Limbs} (op : BinOp) (hop : op ≠ .shl ∧ op ≠ .shr) (hw : 1 ≤ f.w) (hn : 1 ≤ f.n)
    (h4 : 3 ≤ f.w ∨ f.n ≠ 4) (ha : Val f a) (hb : Val f b) (hdiv : op = .div ∨ op = .mod → toInt f b ≠ 0) :
    ∃ r, binOp f op a b = .ok r ∧ some (toInt f r) = specBin f.N f.signed op (toInt f a) (toInt f b) := by
  cases op with
  | add => exact ⟨_, rfl, by simp [specBin, exactBin, add_wraps hw hn ha hb]⟩
  | sub => exact ⟨_, rfl, by simp [specBin, exactBin, sub_wraps hw hn ha hb]⟩
  | mul => exact ⟨_, rfl, by simp [specBin, exactBin, mul_wraps hw hn h4 ha hb]⟩
  | div =>
    have hb0 := hdiv (Or.inl rfl)
    obtain ⟨o, h, hq⟩ := div_wraps hw hn ha hb hb0
    exact ⟨o.q, by simp [binOp, h], by simp [specBin, exactBin, hb0, hq]⟩
  | mod =>
    have hb0 := hdiv (Or.inr rfl)
    obtain ⟨o, h, hr⟩ := mod_wraps hw hn ha hb hb0
    exact ⟨o.r, by simp [binOp, h], by simp [specBin, exactBin, hb0, hr]⟩
  | band => exact ⟨_, rfl, by simp [specBin, exactBin, (bitwise_wrap hw hn ha hb).1]⟩
  | bor => exact ⟨_, rfl, by simp [specBin, exactBin, (bitwise_wrap hw hn ha hb).2.1]⟩
  | bxor => exact ⟨_, rfl, by simp [specBin, exactBin, (bitwise_wrap hw hn ha hb).2.2]⟩
  | shl => exact absurd rfl hop.1
  | shr => exact absurd rfl hop.2

/-! ## Part 2b — `operator*` with 129 limbs or more: the Karatsuba overload of `eval_mul_unary`

`opMulWith w init a b` runs `Cnl.Wide.kara`, the transcription of `eval_multiply_kara_n_by_n_to_2n` (as repaired in
38967ec) with its in-place memory; `init` is what the two local arrays `result` (2n limbs) and `t` (4n limbs), which
the C++ declares without initialiser, hold on entry.  `opMulWithOrig`/`karaOrig` are the routine before the repair. -/

/-- FULL statement: `*` is exact modulo `2^N` on the Karatsuba overload too, whatever the uninitialised local
arrays hold -/
def KaratsubaCorrect : Prop :=
  ∀ (f : Wide.Fmt) (init : Limbs × Limbs) (a b : Limbs), 1 ≤ f.w → karaThreshold ≤ f.n → Val f a → Val f b →
    toInt f (opMulWith f.w init a b) = wrapTwos f.N f.signed (toInt f a * toInt f b)

/-- proved: the Karatsuba overload is exact for every limb width, limb count and initial array contents -/
theorem karatsuba_correct : KaratsubaCorrect := by
  intro f init a b hw hk ha hb
  have hn : 1 ≤ f.n := by unfold karaThreshold at hk; omega
  have h4 : 3 ≤ f.w ∨ f.n ≠ 4 := by right; unfold karaThreshold at hk; omega
  exact (Arith.mulWith_toInt init hw hn h4 ha hb).1

/-- the same statement about the routine before 38967ec (false: `karatsuba_unrepaired_refuted`) -/
def KaratsubaCorrectUnrepaired : Prop :=
  ∀ (f : Wide.Fmt) (init : Limbs × Limbs) (a b : Limbs), 1 ≤ f.w → karaThreshold ≤ f.n → Val f a → Val f b →
    toInt f (opMulWithOrig f.w init a b) = wrapTwos f.N f.signed (toInt f a * toInt f b)

/-- the cause, for every limb width and all operands: a call of the unrepaired routine with an odd `n > 48` does
not look at the top limb of either operand (`nh = n / 2` twice covers `n − 1` limbs) — two operand pairs that agree
on their low `n − 1` limbs leave identical result and scratch arrays -/
theorem karatsuba_unrepaired_odd_level_ignores_top_limbs (w fuel n : Nat) (a a' b b' r t : Limbs)
    (hn : karaCutoff < n) (hodd : n % 2 = 1)
    (ha : a.take (n - 1) = a'.take (n - 1)) (hb : b.take (n - 1) = b'.take (n - 1)) :
    karaOrig w (fuel + 1) n a b r t = karaOrig w (fuel + 1) n a' b' r t :=
  Kara.karaOrig_odd_drops_top_limbs w fuel n a a' b b' r t hn hodd ha hb

-- e.g. 49 limbs: [0,…,0,1] and [0,…,0,200] agree on the low 48 limbs
example : (zeros 48 ++ [1]).take (49 - 1) = (zeros 48 ++ [200]).take (49 - 1) := by decide

/-- `wide_integer<1568, uint8_t>`: 196 limbs of 8 bits, unsigned; 196 → 98 → 49, and 49 > 48 was split 24 + 24 -/
def fmt1568 : Wide.Fmt := ⟨8, 196, false⟩
/-- `2^384`: the only non-zero limb is limb 48, the one the 49-limb level dropped -/
def w2p384 : Limbs := zeros 48 ++ [1] ++ zeros 147
def wOne : Limbs := 1 :: zeros 195
/-- every limb `0xFF` (`2^1568 − 1`) -/
def wAllOnes : Limbs := List.replicate 196 255

theorem fmt1568_defect : karaDefect fmt1568.n = true := by decide

/-- before the repair: `2^384 · 1 = 0` in `wide_integer<1568, uint8_t>` when the local arrays happen to be zero-filled -/
theorem karatsuba_unrepaired_drops_limb :
    toNat 8 (opMulWithOrig 8 ([], []) w2p384 wOne) = 0 ∧ toNat 8 w2p384 * toNat 8 wOne = 2^384 := by
  decide +kernel

/-- the statement about the unrepaired routine is refuted by that witness (kernel evaluation of the transcription) -/
theorem karatsuba_unrepaired_refuted : ¬ KaratsubaCorrectUnrepaired := by
  intro h
  have hv : ∀ l : Limbs, l.length = 196 → (l.all (· < 2^8)) = true → Val fmt1568 l := by
    intro l hl hall
    refine ⟨?_, hl⟩
    intro x hx
    exact of_decide_eq_true (List.all_eq_true.mp hall x hx)
  have := h fmt1568 ([], []) w2p384 wOne (by decide) (by decide) (hv _ (by decide +kernel) (by decide +kernel)) (hv _ (by decide +kernel) (by decide +kernel))
  exact absurd this (by decide +kernel)

/-- dense operands: `(2^1568 − 1)²` was wrong as well -/
theorem karatsuba_unrepaired_refuted_dense :
    toNat 8 (opMulWithOrig 8 ([], []) wAllOnes wAllOnes) ≠ (toNat 8 wAllOnes * toNat 8 wAllOnes) % 2^(8 * 196) := by
  decide +kernel

/-- the unrepaired product was not a function of the operands: the same `2^384 · 1` with the `result` array holding
`0xA5` bytes on entry differs from the zero-filled run (the routine read limbs it never wrote) -/
theorem karatsuba_unrepaired_indeterminate :
    opMulWithOrig 8 (List.replicate 392 0xA5, []) w2p384 wOne ≠ opMulWithOrig 8 ([], []) w2p384 wOne := by
  decide +kernel

/-- before the repair the clause "results do not depend on how the value is split into limbs" failed across the
threshold: `2^384 · 1` as 49 limbs of 32 bits (schoolbook) is `2^384`, as 196 limbs of 8 bits (zero-filled arrays) `0` -/
theorem karatsuba_unrepaired_limb_split_dependent :
    toNat 32 (opMul 32 (zeros 12 ++ [1] ++ zeros 36) (1 :: zeros 48)) = 2^384
    ∧ toNat 8 (opMulWithOrig 8 ([], []) w2p384 wOne) = 0
    ∧ toNat 32 (zeros 12 ++ [1] ++ zeros 36) = toNat 8 w2p384 ∧ toNat 32 (1 :: zeros 48) = toNat 8 wOne := by
  decide +kernel

/-- limb counts for which `uintwide_t` instantiates with 8-bit limbs: the width `8·n` must be `2^k·m`, `m ≤ 63` -/
def instantiable8 (n : Nat) : Bool := (List.range 64).any fun m => (List.range 12).any fun j => n == 2^j * m

/-- the former defect class, listed: of the limb counts 129..256 that instantiate (8-bit limbs, widths 1032..2048
bits), exactly 4·m for odd m in 49..63 took an odd split — widths 1568, 1632, 1696, 1760, 1824, 1888, 1952, 2016 -/
theorem karaDefect_instantiable :
    ((List.range 257).filter fun n => instantiable8 n && karaDefect n) = [196, 204, 212, 220, 228, 236, 244, 252]
    ∧ ((List.range 257).filter fun n => instantiable8 n && decide (karaThreshold ≤ n) && !karaDefect n)
        = [132, 136, 140, 144, 148, 152, 156, 160, 164, 168, 172, 176, 180, 184, 188, 192, 200, 208, 216, 224, 232, 240, 248, 256] := by
  decide +kernel

theorem karaDefect_needs_threshold (n : Nat) (h : n < karaThreshold) : karaDefect n = false := by
  unfold karaDefect
  simp [Nat.not_le.mpr h]

-- instances of the REPAIRED routine evaluated by the kernel (non-vacuity of `karatsuba_correct`; the theorem covers them)
-- wide_integer<1056, uint8_t>, 132 limbs (132 → 66 → 33 odd: schoolbook): (0xFE…FE)², carries in every column
example : toNat 8 (opMul 8 (List.replicate 132 0xFE) (List.replicate 132 0xFE))
    = (toNat 8 (List.replicate 132 0xFE) * toNat 8 (List.replicate 132 0xFE)) % 2^(8 * 132) := by decide +kernel
-- wide_integer<1568, uint8_t>, 196 limbs (→ 98 → 49 odd: schoolbook), dirty arrays: the former witnesses are right now
example : toNat 8 (opMulWith 8 (List.replicate 392 0xA5, List.replicate 784 0x5A) w2p384 wOne) = 2^384 := by decide +kernel
example : toNat 8 (opMulWith 8 (List.replicate 392 0xA5, []) wAllOnes wAllOnes) = (toNat 8 wAllOnes * toNat 8 wAllOnes) % 2^(8 * 196) := by
  decide +kernel
-- wide_integer<2048, uint8_t>, 256 limbs (→ 128 → 64 → 32), dirty arrays: (2^2048 − 1)² = 1 mod 2^2048
example : toNat 8 (opMulWith 8 (List.replicate 512 0xA5, List.replicate 1024 0x5A) (List.replicate 256 255) (List.replicate 256 255)) = 1 := by
  decide +kernel

/-! ## Part 3 — results do not depend on how the value is split into limbs -/

/-- two formats of the same width and signedness (say 8 limbs of 32 bits and 4 limbs of 64 bits), operands
denoting the same integers: every binary operator yields the same integer — also across the Karatsuba threshold
(say 256 limbs of 8 bits and 64 limbs of 32 bits) -/
theorem limb_size_independent {f g : Wide.Fmt} {a b a' b' r r' : Limbs} (op : BinOp) (hop : op ≠ .shl ∧ op ≠ .shr)
    (hfw : 1 ≤ f.w) (hfn : 1 ≤ f.n) (hf4 : 3 ≤ f.w ∨ f.n ≠ 4) (hgw : 1 ≤ g.w) (hgn : 1 ≤ g.n) (hg4 : 3 ≤ g.w ∨ g.n ≠ 4)
    (hN : f.N = g.N) (hs : f.signed = g.signed)
    (ha : Val f a) (hb : Val f b) (ha' : Val g a') (hb' : Val g b')
    (hva : toInt f a = toInt g a') (hvb : toInt f b = toInt g b')
    (hdiv : op = .div ∨ op = .mod → toInt f b ≠ 0)
    (hr : binOp f op a b = .ok r) (hr' : binOp g op a' b' = .ok r') :
    toInt f r = toInt g r' := by
  obtain ⟨r1, e1, s1⟩ := binOp_spec op hop hfw hfn hf4 ha hb hdiv
  obtain ⟨r2, e2, s2⟩ := binOp_spec op hop hgw hgn hg4 ha' hb' (fun h => hvb ▸ hdiv h)
  rw [hr] at e1; rw [hr'] at e2
  cases e1; cases e2
  rw [hN, hs, hva, hvb] at s1
  exact Option.some.inj (s1.trans s2.symm)

/-- the same for shifts -/
theorem limb_size_independent_shift {f g : Wide.Fmt} {a a' : Limbs} {k : Int} {sgn sgn' : Bool}
    (hfw : 1 ≤ f.w) (hfn : 1 ≤ f.n) (hgw : 1 ≤ g.w) (hgn : 1 ≤ g.n) (hN : f.N = g.N) (hs : f.signed = g.signed)
    (ha : Val f a) (ha' : Val g a') (hva : toInt f a = toInt g a') (hk0 : 0 ≤ k) (hkN : k < f.N) :
    toInt f (shlOp f a k sgn) = toInt g (shlOp g a' k sgn') ∧ toInt f (shrOp f a k sgn) = toInt g (shrOp g a' k sgn') := by
  have hkN' : k < g.N := hN ▸ hkN
  constructor
  · rw [shl_wraps hfw hfn ha hk0 hkN, shl_wraps hgw hgn ha' hk0 hkN', hN, hs, hva]
  · rw [(shr_floor hfw hfn ha hk0 hkN).1, (shr_floor hgw hgn ha' hk0 hkN').1, hva]

/-! ## Part 4 — conversions, numeric_limits, decimal text, storage rule -/

/-- constructing from a built-in integer (no wider than the wide type) keeps the value -/
theorem from_builtin {f : Wide.Fmt} {t : IntTy} {v : Int} (hw : 1 ≤ f.w) (hn : 1 ≤ f.n) (ht : 1 ≤ t.bits) (hb : t.bits ≤ f.N)
    (hv : t.InRange v) :
    toInt f (fromBuiltin f t v) = wrapTwos f.N f.signed v := by
  obtain ⟨h1, h2, h3⟩ := Conv.fromBuiltin_toNat hw hn ht hb hv
  apply Bridge.toInt_of_cong (Bridge.N_pos hw hn) ⟨h2, h3⟩
  rw [h1, Int.toNat_of_nonneg (Int.emod_nonneg _ (by have : (0:Int) < 2^f.N := Int.pow_pos (by decide); omega))]
  exact Int.emod_emod_of_dvd _ (Int.dvd_refl _)

/-- conversion to a built-in integer type is the C++20 conversion of the value (reduction modulo `2^bits`) -/
theorem to_builtin {f : Wide.Fmt} {t : IntTy} {a : Limbs} (hw : 1 ≤ f.w) (hn : 1 ≤ f.n) (ht : 1 ≤ t.bits)
    (hr : t.bits ≤ f.w ∨ f.w ∣ t.bits) (hb : t.bits ≤ f.N) (ha : Val f a) :
    toBuiltin f t a = t.wrap (toInt f a) :=
  Conv.toBuiltin_spec hw hn ht hr hb ha.1 ha.2

/-- `numeric_limits<wide_integer<D, _>>::max()` is `2^D − 1`, `lowest()` is `−2^D` (signed) or `0` —
bounds follow `Digits` while arithmetic wraps at the storage width `N` -/
theorem limits {f : Wide.Fmt} {D : Nat} (hw : 1 ≤ f.w) (hn : 1 ≤ f.n) (hD : D ≤ f.digits) (hD1 : 1 ≤ D) :
    toInt f (limMax f D) = WideSpec.limMax D ∧ toInt f (limLowest f D) = WideSpec.limLowest D f.signed := by
  have hN := Bridge.N_pos hw hn
  obtain ⟨m1, m2, m3⟩ := Conv.limMax_toNat hw hn hD hD1
  obtain ⟨l1, l2, l3⟩ := Conv.limLowest_toNat hw hn hD hD1
  have hDN : D ≤ f.N - (if f.signed then 1 else 0) := by
    unfold Fmt.digits at hD; split <;> simp_all
  have hpD : (2:Nat)^D ≤ 2^(f.N - 1) ∨ f.signed = false := by
    by_cases hs : f.signed = true
    · left; apply Nat.pow_le_pow_right (by decide); simp [hs] at hDN; exact hDN
    · right; simpa using hs
  have hDle : (2:Nat)^D ≤ 2^f.N := Nat.pow_le_pow_right (by decide) (by split at hDN <;> omega)
  have hp := Bridge.two_pow_pred_nat hN
  have hpos : 0 < (2:Nat)^D := Nat.pow_pos (by decide)
  have c0 : ((2^f.N : Nat) : Int) = (2:Int)^f.N := by simp
  have cD : ((2^D : Nat) : Int) = (2:Int)^D := by simp
  constructor
  · unfold toInt WideSpec.limMax
    rw [m1]
    have : ¬ (f.signed = true ∧ 2^D - 1 ≥ 2^(f.N - 1)) := by
      rintro ⟨hs, hge⟩
      rcases hpD with h | h
      · omega
      · simp [hs] at h
    simp only [this, if_false]
    rw [Int.ofNat_sub hpos]; simp
  · unfold toInt WideSpec.limLowest
    rw [l1]
    by_cases hs : f.signed = true
    · have hle : (2:Nat)^D ≤ 2^(f.N - 1) := by rcases hpD with h | h; exact h; simp [hs] at h
      have : 2^f.N - 2^D ≥ 2^(f.N - 1) := by omega
      simp only [hs, if_true, this, and_self]
      rw [Int.ofNat_sub hDle, c0, cD]; omega
    · have hs' : f.signed = false := by simpa using hs
      simp [hs']

/-- `operator<<` on a stream (`wr_string`, base 10): the decimal text of the value -/
theorem decimal_text {f : Wide.Fmt} {a : Limbs} (hw : 10 < 2^f.w) (hn : 1 ≤ f.n) (ha : Val f a) :
    wrDec f a = decimalText (toInt f a) :=
  Dec.wrDec_spec hw hn ha.1 ha.2

/-- the storage rule of `wide_tag<Digits, Narrowest>` for multi-limb reps: limb = unsigned `Narrowest`,
signedness of `Narrowest`, width = `Digits` (+1 sign bit) rounded up to whole limbs, chosen exactly when
`Digits` exceeds the widest built-in integer -/
theorem storage_rule {d : Nat} {t : IntTy} {f : Wide.Fmt} (ht : 1 ≤ t.bits) (h : storage d t = .multi f) :
    f.w = t.bits ∧ f.signed = t.signed ∧ maxDigits t < d
    ∧ d + (if t.signed then 1 else 0) ≤ f.N ∧ f.N < d + (if t.signed then 1 else 0) + t.bits := by
  unfold storage at h
  by_cases hd : d > maxDigits t
  · simp only [hd, if_true] at h
    injection h with h
    subst h
    refine ⟨rfl, rfl, hd, ?_, ?_⟩ <;>
    · simp only [Fmt.N]
      generalize d + (if t.signed = true then 1 else 0) = m
      have h1 := Nat.div_add_mod (m + t.bits - 1) t.bits
      have h2 := Nat.mod_lt (m + t.bits - 1) (show t.bits > 0 by omega)
      omega
  · simp [hd] at h

/-! ## Part 4b — a built-in integer on one side of a multi-limb `wide_integer`

`Cnl.Wide.mixArith f g t op left v a` (CnlModel/WideCmp.lean) is `T ⊗ wide_integer` / `wide_integer ⊗ T` for a built-in
operand `v` of type `t`: `uintwide_t`'s `IntegralType` overloads construct a `uintwide_t` of the wide operand's type from
`v` and use the member operator; the result type has the digits of the wide operand and is signed if either operand is.
`builtin_operand_spec` covers every case in which the result type is the wide operand's own type (`g = f`, i.e. not a
signed built-in next to an unsigned `wide_integer`) and the operator takes the generic route (`takesModSmall = false`): the result is the operator
on the *values* `v` and `toInt f a`, reduced to `f.N` bits — for every limb width, limb count, built-in type no wider than
`f.N` bits (all of 8…128 bits are), every value of it, the most negative ones included.

The one other route, `wide % T` for an unsigned `T` no wider than a limb (`modSmall`, an overload of `uintwide_t` that
returns a limb), is exact for a non-negative dividend by correspondence only; for a **negative** dividend with a
non-zero remainder it returns `2^w − |rem|` instead of `−|rem|`: `mod_small_unsigned_negative_dividend_refuted`
(kernel-checked witness `wide_integer<…, int8_t>{-1} % uint8_t{255}`): open finding
`C10.mod_small_unsigned_builtin_negative_dividend`.
A signed built-in operand next to an unsigned multi-limb `wide_integer` is computed in the unsigned format and then
reinterpreted / zero-extended in the signed result type (`signed_builtin_unsigned_wide_refuted`): open finding
`C10.signed_builtin_unsigned_wide`; the model follows the code (correspondence), the oracle demands arithmetic on the
values everywhere, and the driver attributes a failure to one of the two classes only where the model of the
unchanged code itself departs from the demand. -/

/-- `T ⊗ wide` and `wide ⊗ T` (generic route, result type = the wide operand's type): the operator on the values -/
theorem builtin_operand_spec {f : Wide.Fmt} {t : IntTy} {v : Int} {a : Limbs} (op : BinOp) (left : Bool)
    (hop : op ≠ .shl ∧ op ≠ .shr) (hw : 1 ≤ f.w) (hn : 1 ≤ f.n) (h4 : 3 ≤ f.w ∨ f.n ≠ 4)
    (ht : 1 ≤ t.bits) (hb : t.bits ≤ f.N) (hv : t.InRange v) (hfit : wrapTwos f.N f.signed v = v)
    (hroute : takesModSmall f t op left = false)
    (ha : Val f a) (hdiv : op = .div ∨ op = .mod → (if left then toInt f a else v) ≠ 0) :
    ∃ r, mixArith f f t op left v a = .ok r ∧
      some (toInt f r) = (if left then specBin f.N f.signed op v (toInt f a) else specBin f.N f.signed op (toInt f a) v) := by
  obtain ⟨_, hwf, hlen⟩ := Conv.fromBuiltin_toNat (f := f) hw hn ht hb hv
  have hvb : Val f (fromBuiltin f t v) := ⟨hwf, hlen⟩
  have hval : toInt f (fromBuiltin f t v) = v := by rw [from_builtin hw hn ht hb hv, hfit]
  cases left with
  | true =>
    obtain ⟨r, hr, hs⟩ := binOp_spec (f := f) (a := fromBuiltin f t v) (b := a) op hop hw hn h4 hvb ha (by simpa using hdiv)
    refine ⟨r, ?_, ?_⟩
    · simp [mixArith, hroute, hr, Res.map, convTo, bind, Res.bind]
    · simpa [hval] using hs
  | false =>
    obtain ⟨r, hr, hs⟩ := binOp_spec (f := f) (a := a) (b := fromBuiltin f t v) op hop hw hn h4 ha hvb (by simpa [hval] using hdiv)
    refine ⟨r, ?_, ?_⟩
    · simp [mixArith, hroute, hr, Res.map, convTo, bind, Res.bind]
    · simpa [hval] using hs

-- non-vacuity: `INT_MIN / wide{-1}` in a 24-bit stand-in (`int8_t` operand, three 8-bit limbs) is `+128`,
-- and the hypotheses of `builtin_operand_spec` hold there
example : (mixArith ⟨8, 3, true⟩ ⟨8, 3, true⟩ i8 .div true (-128) [255, 255, 255]).map (toInt ⟨8, 3, true⟩) = .ok 128 := by decide
example : wrapTwos 24 true (-128) = -128 ∧ (i8).InRange (-128) ∧ takesModSmall ⟨8, 3, true⟩ i8 .div true = false := by decide
example : (mixArith ⟨8, 3, true⟩ ⟨8, 3, true⟩ ⟨16, false⟩ .mod false 1000 [249, 255, 255]).map (toInt ⟨8, 3, true⟩) = .ok (-7) := by decide

/-- `negative wide % unsigned T` with `T` no wider than a limb does **not** give the remainder: `-1 % 255` is `255` -/
theorem mod_small_unsigned_negative_dividend_refuted :
    (mixArith ⟨8, 3, true⟩ ⟨8, 3, true⟩ ⟨8, false⟩ .mod false 255 [255, 255, 255]).map (toInt ⟨8, 3, true⟩) = .ok 255
    ∧ specBin 24 true .mod (-1) 255 = some (-1) := by decide

/-- a signed built-in operand next to an unsigned `wide_integer` is converted to the unsigned format first:
`wide_u{7} / -2` is `0` in the signed result type, not `-3` -/
theorem signed_builtin_unsigned_wide_refuted :
    (mixArith ⟨8, 3, false⟩ ⟨8, 4, true⟩ i8 .div false (-2) [7, 0, 0]).map (toInt ⟨8, 4, true⟩) = .ok 0
    ∧ specBin 32 true .div 7 (-2) = some (-3) := by decide

/-! ## Non-vacuity: concrete instances (3 limbs of 8 bits, signed = a 24-bit integer; 4 limbs of 4 bits) -/

example : Val ⟨8, 3, true⟩ [255, 255, 127] := ⟨by intro x hx; show x < 2^8; simp at hx; omega, rfl⟩
-- max + 1 wraps to lowest
example : toInt ⟨8, 3, true⟩ (opAdd 8 [255, 255, 127] [1, 0, 0]) = -(2^23) := by decide
-- (-2) * 3 = -6 across limb boundaries
example : toInt ⟨8, 3, true⟩ (opMul 8 [254, 255, 255] [3, 0, 0]) = -6 := by decide
-- arithmetic right shift of -256 by 9 (one limb and one bit) is -1
example : toInt ⟨8, 3, true⟩ (shrOp ⟨8, 3, true⟩ [0, 255, 255] 9 true) = -1 := by decide
-- truncating division: -7 / 2 = -3, -7 % 2 = -1
example : (opDiv ⟨8, 3, true⟩ [249, 255, 255] [2, 0, 0]).map (fun o => toInt ⟨8, 3, true⟩ o.q) = some (-3) := by decide
example : (opMod ⟨8, 3, true⟩ [249, 255, 255] [2, 0, 0]).map (fun o => toInt ⟨8, 3, true⟩ o.r) = some (-1) := by decide
-- a division in which Algorithm D's add-back step fires (65535 / 3277 with 4-bit limbs), still checked
example : (divKnuth 4 [15, 15, 15, 15] [13, 12, 12, 0] []).map (fun o => o.stats.addBack) = some 1 := by decide
example : divChecked 4 [15, 15, 15, 15] [13, 12, 12, 0] = some (19, 3272) := by decide
-- the same integers in two limb sizes give the same product (24 bits as 3×8 and as 2×12)
example : toInt ⟨8, 3, true⟩ (opMul 8 [57, 48, 0] [254, 255, 255]) = toInt ⟨12, 2, true⟩ (opMul 12 [57, 3] [4094, 4095]) := by decide
-- storage of wide_integer<200, int32_t>: 7 limbs of 32 bits, signed (224-bit integer)
example : storage 200 i32 = .multi ⟨32, 7, true⟩ := by decide
example : wrDec ⟨8, 3, true⟩ [249, 255, 255] = "-7" := by decide

/-! ## Part 5 — conversions to and from floating point (model `Cnl.WideFloat`, spec `Cnl.WideFloatSpec`;
proofs in CnlProofs/WideFloat*.lean, CnlProofs/FloatFaithful.lean) -/

/-- `wide_integer{x}` for a finite `x` of `float`/`double`/`long double`: `trunc(x)` reduced to the N-bit range -/
theorem from_float_wraps (f : Wide.Fmt) (F : Cnl.Fmt) (hf : C10Float.FloatOk F) (hw : 1 ≤ f.w) (hn : 1 ≤ f.n) (hN : 64 < f.N)
    (x : FVal) (hc : F.Canonical x = true) (hx : x.isFinite = true) :
    ∃ l, WideFloat.fromFloat f F x = .ok l ∧ WF f.w l ∧ l.length = f.n
      ∧ some (toInt f l) = WideFloatSpec.fromFloat f.N f.signed x :=
  C10Float.from_float_wraps f F hf hw hn hN x hc hx

/-- … and `trunc(x)` itself when `|trunc x| < 2^(N-1)` -/
theorem from_float_exact (f : Wide.Fmt) (F : Cnl.Fmt) (hf : C10Float.FloatOk F) (hw : 1 ≤ f.w) (hn : 1 ≤ f.n) (hN : 64 < f.N)
    (s : Bool) (m : Nat) (e : Int) (hc : F.Canonical (.fin s m e) = true)
    (hr : (truncInt s m e).natAbs < 2^(f.N-1)) (hs : f.signed = true ∨ s = false) :
    ∃ l, WideFloat.fromFloat f F (.fin s m e) = .ok l ∧ WF f.w l ∧ l.length = f.n ∧ toInt f l = truncInt s m e :=
  C10Float.from_float_exact f F hf hw hn hN s m e hc hr hs

/-- values with at most `prec F` significant bits convert exactly -/
theorem to_float_exact (L F : Cnl.Fmt) (hL : FloatP.FmtOk L) (hF : FloatP.FmtOk F) (f : Wide.Fmt) (hw : 1 ≤ f.w) (hn : 1 ≤ f.n)
    (hLw : f.w ≤ L.prec) (hLN : (f.N : Int) ≤ L.emax)
    {a : Limbs} (ha : WF f.w a) (hl : a.length = f.n)
    (hrep : ∃ M t, (toInt f a).natAbs = M * 2^t ∧ M < 2^F.prec)
    (hmax : ((toInt f a).natAbs.log2 : Int) ≤ F.emax) :
    WideFloat.toFloat L F f a = F.ofInt (toInt f a) :=
  C10Float.to_float_exact L F hL hF f hw hn hLw hLN ha hl hrep hmax

/-- the result is the value's datum or one of its two neighbours, for `|v| < 2^(emax F − 1)` -/
theorem to_float_bracket_partial (L F : Cnl.Fmt) (hL : FloatP.FmtOk L) (hF : FloatP.FmtOk F) (f : Wide.Fmt) (hw : 1 ≤ f.w) (hn : 1 ≤ f.n)
    (hLw : f.w ≤ L.prec) (hLN : (f.N : Int) ≤ L.emax)
    {a : Limbs} (ha : WF f.w a) (hl : a.length = f.n)
    (hmax : ((toInt f a).natAbs.log2 : Int) + 2 ≤ F.emax) :
    WideFloatSpec.toFloatOk F (toInt f a) (WideFloat.toFloat L F f a) = true :=
  C10Float.to_float_bracket_partial L F hL hF f hw hn hLw hLN ha hl hmax

/-- … for every value when `N + 1 ≤ emax F` (`double` up to 1022 bits, `long double` always) -/
theorem to_float_bracket_of_width (L F : Cnl.Fmt) (hL : FloatP.FmtOk L) (hF : FloatP.FmtOk F) (f : Wide.Fmt) (hw : 1 ≤ f.w) (hn : 1 ≤ f.n)
    (hLw : f.w ≤ L.prec) (hLN : (f.N : Int) ≤ L.emax) (hFN : (f.N : Int) + 1 ≤ F.emax)
    {a : Limbs} (ha : WF f.w a) (hl : a.length = f.n) :
    WideFloatSpec.toFloatOk F (toInt f a) (WideFloat.toFloat L F f a) = true :=
  C10Float.to_float_bracket_of_width L F hL hF f hw hn hLw hLN hFN ha hl

/-- kernel-checked exhaustive instance of the full bracket (overflow to infinity included) in a tiny format -/
theorem to_float_bracket_tiny_overflow :
    C10Float.okAll ⟨8, -40, 40⟩ ⟨3, -6, 6⟩ ⟨5, 2, false⟩ (2^10) = true := C10Float.to_float_bracket_tiny_overflow

/-- the conversion is faithful, not correctly rounded (binary32 witness) -/
theorem to_float_not_correctly_rounded :
    WideFloat.toFloat x87ext binary32 ⟨32, 7, true⟩ (ofNat 32 7 (2^56 + 2^33 - 1)) = .fin false (2^23) 33
    ∧ WideFloatSpec.nearest binary32 (2^56 + 2^33 - 1) = .fin false (2^23 + 1) 33
    ∧ WideFloatSpec.toFloatOk binary32 (2^56 + 2^33 - 1) (.fin false (2^23) 33) = true :=
  C10Float.to_float_not_correctly_rounded

end Cnl.C10
