import CnlProofs.Overflow
import CnlProofs.OverflowFloat
/-!
# C07 — checked arithmetic is total: no undefined behaviour, no internal `unreachable`

Same executable model as C06 (`CnlModel/Overflow.lean`): every sub-expression of every overflow
test is evaluated in the C semantics core, so undefined behaviour *inside* a test (signed overflow,
`lowest / -1`, division by zero, out-of-range shift) and the `unreachable("CNL internal error")`
branch of the intrinsic path are values of the model (`Res.ub`, `Res.unreachable`).

Each theorem states, for the three checked tags (`Checked tag`: saturated, throwing, trapping),
**every integer width** and every in-range operand value, that the evaluation is *defined*
(`Res.isDefined`: not `ub`, not `unreachable`, not out-of-bounds, not diverging) **and** is not the
marker `.ill` of an ill-formed instantiation (so `isDefined` is not satisfied vacuously).

* `arith_total`    `+ - *`, **all** type pairs including mixed signedness, both detection paths.
* `div_total`      `/`, all type pairs including mixed signedness, both paths, divisor ≠ 0.
* `shl_total`      `<<`, every count ≥ 0 (no excluded class since the repair of `shl_zero_by_wide_count`).
* `shr_total`, `shr_value`   `>>`, every count ≥ 0, with the exact value (since the repair of
  `shr_count_ge_width`).
* `neg_total`, `convert_total`; `convert_float_total` (floating-point sources, see section 8).
* `wrapper_convert_total`   an overflow_integer converted as a number (constructors, assignment, conversion operator).
* `radix_scale_total`       radix-changing scaled_integer conversion into an overflow_integer representation,
  multiplying shape on the intrinsic path (`CnlProperties/C06.lean: radix_scale_correct`); the other shapes of
  `radixConvert` are covered by correspondence only (`sxr` lines).
* Covered by correspondence only (no theorem in this file): release builds (`CNL_RELEASE`: the model has one
  reaction per tag, the harness observes through the hook that the trapping tag aborts and never reaches
  `_impl::unreachable`, in a third of the translation units and in dedicated trapping-tag units); static_integer /
  static_number operations at full width of the word (`sn` lines, evaluated by the C11 model
  `CnlModel/Static.lean`, whose theorems are in `CnlProperties/C11.lean`).
* refutations of the **as-found** definitions of the repaired findings `C07.shl_zero_by_wide_count`,
  `C07.shr_count_ge_width`, `C07.float_at_limit_not_flagged` (the as-found operators are kept as
  `checkedShiftOrig`, `checkedConvertFloatOrig`): `shl_zero_wide_ub`, `shr_wide_ub`, `float_at_limit_ub`.

Hypotheses beyond the task's (see `CnlProperties/C06.lean` for the witnesses; none excludes a
built-in type): portable `*` needs `¬ MulGuardExact L R` (automatic for widths that are multiples of
8: `arith_total_bytes`); `convert_total` needs `1 ≤ S.digits`; `shl_total` needs `L.bits < 2^31`.

Nothing is left unproved.
-/
namespace Cnl.C07
open Cnl Cnl.Overflow Cnl.Spec

/-- `+ - *` -/
def Arith (op : BinOp) : Prop := op = .add ∨ op = .sub ∨ op = .mul

instance (op : BinOp) : Decidable (Arith op) := by unfold Arith; exact inferInstance

/-- defined, and a well-formed instantiation -/
def Total {α : Type} (x : Res α) : Prop := x.isDefined = true ∧ ∀ m, x ≠ .ill m

theorem total_iff_good {α : Type} (x : Res α) : Total x ↔ Good x := Iff.rfl

/-! ## 6. `+ - *` -/

/-- `+ - *` under a checked tag is total for **every** pair of operand types — any widths, mixed
signedness included — on both detection paths, for all in-range operands.  (On the portable path
`*` needs the digit guard not to be exact, which holds for all widths that are multiples of 8.) -/
theorem arith_total (path : Path) (tag : OvTag) (ht : Checked tag) (op : BinOp) (hop : Arith op)
    (L R : IntTy) (hL : 1 ≤ L.bits) (hR : 1 ≤ R.bits)
    (hg : path = .portable → op = .mul → ¬ MulGuardExact L R)
    (l r : Int) (hl : L.InRange l) (hr : R.InRange r) :
    Total (checkedBin path tag op (L, l) (R, r)) := by
  cases path
  · exact builtin_arith_defined ht hL hR hl hr hop
  · exact portable_arith_defined ht hL hR hl hr hop (hg rfl)

/-- … with no side condition for widths that are multiples of 8 (every built-in type) -/
theorem arith_total_bytes (path : Path) (tag : OvTag) (ht : Checked tag) (op : BinOp) (hop : Arith op)
    (L R : IntTy) (hL : 1 ≤ L.bits) (hR : 1 ≤ R.bits) (hL8 : 8 ∣ L.bits) (hR8 : 8 ∣ R.bits)
    (l r : Int) (hl : L.InRange l) (hr : R.InRange r) :
    Total (checkedBin path tag op (L, l) (R, r)) :=
  arith_total path tag ht op hop L R hL hR (fun _ _ => not_mulGuardExact_of_bytes hL8 hR8 hL hR) l r hl hr

/-- in particular: never undefined behaviour, never the "CNL internal error" branch -/
theorem arith_no_ub (path : Path) (tag : OvTag) (ht : Checked tag) (op : BinOp) (hop : Arith op)
    (L R : IntTy) (hL : 1 ≤ L.bits) (hR : 1 ≤ R.bits) (hL8 : 8 ∣ L.bits) (hR8 : 8 ∣ R.bits)
    (l r : Int) (hl : L.InRange l) (hr : R.InRange r) :
    (∀ k, checkedBin path tag op (L, l) (R, r) ≠ .ub k) ∧
    (∀ m, checkedBin path tag op (L, l) (R, r) ≠ .unreachable m) := by
  have h := (arith_total_bytes path tag ht op hop L R hL hR hL8 hR8 l r hl hr).1
  constructor <;> intro _ he <;> rw [he] at h <;> cases h

-- non-vacuity: mixed signedness on both paths, the formerly failing instances
example : Checked .sat ∧ Checked .thr ∧ Checked .trp ∧ ¬ Checked .und ∧ ¬ Checked .nat := by decide
example : checkedBin .builtin .sat .add (i32, -2147483648) (u32, 0) = .ok (u32, 0) := by decide
example : checkedBin .builtin .thr .add (i32, -1) (u32, 0) = .throws false := by decide
example : checkedBin .portable .sat .add (i32, -2147483648) (u32, 0) = .ok (u32, 2147483648) := by decide
example : checkedBin .portable .sat .mul (i32, 2147483647) (i32, -1) = .ok (i32, -2147483647) := by decide +kernel
example : checkedBin .portable .sat .mul (i32, -1) (u32, 2) = .ok (u32, 4294967294) := by decide +kernel
example : checkedBin .portable .trp .sub (u64, 0) (i8, -128) = .ok (u64, 128) := by decide +kernel

/-! ## 7. division, unary minus, conversion, shifts -/

/-- `/` under a checked tag is total for every pair of operand types (mixed signedness included),
both paths, every non-zero divisor: in particular `lowest / -1` is never executed. -/
theorem div_total (path : Path) (tag : OvTag) (ht : Checked tag) (L R : IntTy) (hL : 1 ≤ L.bits)
    (hR : 1 ≤ R.bits) (l r : Int) (hl : L.InRange l) (hr : R.InRange r) (hr0 : r ≠ 0) :
    Total (checkedBin path tag .div (L, l) (R, r)) :=
  div_defined ht hL hR hl hr path hr0

example : checkedBin .portable .sat .div (i32, -2147483648) (i32, -1) = .ok (i32, 2147483647) := by decide
example : checkedBin .builtin .trp .div (i64, -9223372036854775808) (i8, -1) = .trap true := by decide
example : checkedBin .builtin .sat .div (i32, -2147483648) (u32, 1) = .ok (u32, 2147483648) := by decide
example : checkedBin .builtin .sat .div (u32, 7) (i32, -1) = .ok (u32, 0) := by decide

theorem neg_total (tag : OvTag) (ht : Checked tag) (L : IntTy) (hL : 1 ≤ L.bits) (l : Int)
    (hl : L.InRange l) : Total (checkedNeg tag (L, l)) :=
  neg_defined ht hL hl

theorem convert_total (tag : OvTag) (ht : Checked tag) (S D : IntTy) (hS : 1 ≤ S.digits) (hD : 1 ≤ D.bits)
    (v : Int) (hv : S.InRange v) : Total (checkedConvert tag D (S, v)) :=
  convert_defined ht hS hD hv

example : checkedNeg .sat (i32, -2147483648) = .ok (i32, 2147483647) := by decide
example : checkedNeg .trp (i64, -9223372036854775808) = .trap true := by decide
example : checkedConvert .thr i8 (u64, 18446744073709551615) = .throws true := by decide

/-- an overflow_integer converted as a number (constructor from a related or unrelated wrapper or a built-in,
assignment, conversion operator to a built-in) under a checked tag is total, for every source and destination type -/
theorem wrapper_convert_total (tag : OvTag) (ht : Checked tag) (S D : IntTy) (hS : 1 ≤ S.digits) (hD : 1 ≤ D.bits)
    (v : Int) (hv : S.InRange v) : Total (wrapperConvert tag D (S, v)) :=
  convert_defined ht hS hD hv

example : wrapperConvert .trp u32 (i32, -2) = .trap false := by decide

/-- `scaled_integer<S, power<0, rS>>` → `scaled_integer<overflow_integer<D, tag>, power<-k, rD>>` (different radixes,
intrinsic path, source at least `int` wide, `rD^k` in its range): total — the multiplication is never executed
unchecked -/
theorem radix_scale_total (tag : OvTag) (ht : Checked tag) (S D : IntTy) (hp32 : promote S = S) (hS : 1 ≤ S.digits)
    (hD : 1 ≤ D.bits) (rS rD : Nat) (k : Nat) (hk : 0 < k) (hp : S.InRange ((rD : Int) ^ k)) (v : Int)
    (hv : S.InRange v) :
    Total (radixConvert .builtin tag S 0 rS D (-(k : Int)) rD v) := by
  rw [radixConvert_mul_eq ht.ne_nat hp32 hS hD rS rD k hk hp hv]
  exact good_bind (want_defined ht _ _) (fun _ => want_defined ht _ _)

example : radixConvert .builtin .sat i32 0 2 i32 (-3) 10 3000000 = .ok (i32, 2147483647) := by decide +kernel
example : radixConvert .builtin .trp i32 0 2 i32 (-3) 10 (-2147483648) = .trap false := by decide +kernel

/-- `<<` under a checked tag is total for **every** count `r ≥ 0` (counts at and beyond the width
included) and every operand types, both paths.  No excluded class since the repair of
`C07.shl_zero_by_wide_count`. -/
theorem shl_total (path : Path) (tag : OvTag) (ht : Checked tag) (L R : IntTy) (hL : 1 ≤ L.bits)
    (hR : 1 ≤ R.bits) (hw : L.bits ≤ 2147483647) (l r : Int) (hl : L.InRange l) (hr : R.InRange r)
    (h0 : 0 ≤ r) :
    Total (checkedBin path tag .shl (L, l) (R, r)) := by
  obtain ⟨j, rfl⟩ := Int.eq_ofNat_of_zero_le h0
  exact shl_defined ht hL hR hw hl hr path

/-- `>>` under a checked tag is total for **every** count `r ≥ 0` (counts at and beyond the width
included) and every operand types, both paths (since the repair of `C07.shr_count_ge_width`) … -/
theorem shr_total (path : Path) (tag : OvTag) (ht : Checked tag) (L R : IntTy) (hL : 1 ≤ L.bits)
    (hR : 1 ≤ R.bits) (hw : L.bits ≤ 2147483647) (l r : Int) (hl : L.InRange l) (hr : R.InRange r)
    (h0 : 0 ≤ r) :
    Total (checkedBin path tag .shr (L, l) (R, r)) := by
  obtain ⟨j, rfl⟩ := Int.eq_ofNat_of_zero_le h0
  exact shr_defined ht hL hR hw hl hr path

/-- … and returns the mathematically exact `⌊l / 2^r⌋` in the promoted left operand type (0 or −1 once
every bit is shifted out), never a signal -/
theorem shr_value (path : Path) (tag : OvTag) (ht : Checked tag) (L R : IntTy) (hL : 1 ≤ L.bits)
    (hR : 1 ≤ R.bits) (hw : L.bits ≤ 2147483647) (l r : Int) (hl : L.InRange l) (hr : R.InRange r)
    (h0 : 0 ≤ r) :
    checkedBin path tag .shr (L, l) (R, r) = .ok (promote L, l / 2^r.toNat) := by
  obtain ⟨j, rfl⟩ := Int.eq_ofNat_of_zero_le h0
  rw [Int.toNat_natCast]
  exact checkedBin_shr_eq hL hR hw hl hr path ht.ne_nat

example : checkedBin .builtin .sat .shl (i32, 1) (i32, 1000) = .ok (i32, 2147483647) := by decide
example : checkedBin .portable .sat .shl (i8, -1) (u64, 18446744073709551615) = .ok (i32, -2147483648) := by decide
example : checkedBin .builtin .thr .shl (i64, -1) (u32, 63) = .ok (i64, -9223372036854775808) := by decide +kernel
example : checkedBin .builtin .sat .shl (i32, 0) (i32, 31) = .ok (i32, 0) := by decide
-- the formerly undefined instances
example : checkedBin .builtin .sat .shl (i32, 0) (i32, 64) = .ok (i32, 0) := by decide
example : checkedBin .portable .sat .shl (u64, 0) (u8, 64) = .ok (u64, 0) := by decide
example : checkedBin .builtin .sat .shr (i32, 1) (i32, 64) = .ok (i32, 0) := by decide
example : checkedBin .portable .thr .shr (i8, -128) (u64, 32) = .ok (i32, -1) := by decide
example : checkedBin .builtin .trp .shr (u32, 4294967295) (i8, 32) = .ok (u32, 0) := by decide
example : checkedBin .builtin .trp .shr (u32, 4294967295) (i8, 31) = .ok (u32, 1) := by decide +kernel

/-- repaired finding `C07.shl_zero_by_wide_count`: **as found** (`checkedShiftOrig`), `0 << 64` executed
the built-in shift with an out-of-range count; the repaired operator returns 0 -/
theorem shl_zero_wide_ub :
    checkedShiftOrig .sat .shl (i32, 0) (i32, 64) = .ub .shiftCount ∧
    ¬ Total (checkedShiftOrig .sat .shl (i32, 0) (i32, 64)) ∧
    checkedBin .builtin .sat .shl (i32, 0) (i32, 64) = .ok (i32, 0) ∧
    checkedBin .portable .sat .shl (i32, 0) (i32, 64) = .ok (i32, 0) := by
  refine ⟨by decide, fun h => ?_, by decide, by decide⟩
  have : checkedShiftOrig .sat .shl (i32, 0) (i32, 64) = .ub .shiftCount := by decide
  rw [this] at h; exact absurd h.1 (by decide)

/-- repaired finding `C07.shr_count_ge_width`: **as found**, no test guarded `>>` and a count ≥ width
was executed; the repaired operator returns the exact quotient -/
theorem shr_wide_ub :
    checkedShiftOrig .sat .shr (i32, 1) (i32, 64) = .ub .shiftCount ∧
    ¬ Total (checkedShiftOrig .sat .shr (i32, 1) (i32, 64)) ∧
    checkedBin .builtin .sat .shr (i32, 1) (i32, 64) = .ok (i32, 0) ∧
    checkedBin .portable .sat .shr (i32, -1) (i32, 64) = .ok (i32, -1) := by
  refine ⟨by decide, fun h => ?_, by decide, by decide⟩
  have : checkedShiftOrig .sat .shr (i32, 1) (i32, 64) = .ub .shiftCount := by decide
  rw [this] at h; exact absurd h.1 (by decide)

/-! ## 8. conversion from floating point -/

/-- Conversion from a finite floating-point value under a checked tag is total — in particular the
float-to-integer cast is never executed out of range — for every format, every integer destination
whose `2^digits` is finite in the format, every finite operand (since the repair of
`C07.float_at_limit_not_flagged`). -/
theorem convert_float_total (tag : OvTag) (ht : Checked tag) (f : Fmt) (hf : FloatP.FmtOk f) (D : IntTy)
    (hmax : (D.digits : Int) ≤ f.emax) (s : Bool) (m : Nat) (e : Int) (hm : m < 2^f.prec) :
    Total (checkedConvertFloat tag f D (.fin s m e)) := by
  rw [checkedConvertFloat_eq ht.ne_nat f hf D hmax s m e hm]
  split
  · exact react_defined ht _ _
  · split
    · exact react_defined ht _ _
    · exact good_ok _

example : checkedConvertFloat .sat binary32 i32 (.fin false 8388608 8) = .ok (i32, 2147483647) := by decide +kernel
example : checkedConvertFloat .trp x87ext i64 (.fin false 9223372036854775808 0) = .trap true := by decide +kernel

/-- repaired finding `C07.float_at_limit_not_flagged`: **as found** (`checkedConvertFloatOrig`),
`float 2^31 → int32` passed the test and executed an out-of-range cast -/
theorem float_at_limit_ub :
    checkedConvertFloatOrig .sat binary32 i32 (.fin false 8388608 8) = .ub .floatToIntRange ∧
    ¬ Total (checkedConvertFloatOrig .sat binary32 i32 (.fin false 8388608 8)) ∧
    checkedConvertFloat .sat binary32 i32 (.fin false 8388608 8) = .ok (i32, 2147483647) := by
  refine ⟨by decide +kernel, fun h => ?_, by decide +kernel⟩
  have : checkedConvertFloatOrig .sat binary32 i32 (.fin false 8388608 8) = .ub .floatToIntRange := by
    decide +kernel
  rw [this] at h; exact absurd h.1 (by decide)

end Cnl.C07
