import CnlProofs.Overflow
/-!
# C07 — checked arithmetic is total: no undefined behaviour, no internal `unreachable`

Same executable model as C06 (`CnlModel/Overflow.lean`): every sub-expression of every overflow
test is evaluated in the C semantics core, so undefined behaviour *inside* a test (signed overflow,
`lowest / -1`, division by zero, out-of-range shift) and the `unreachable("CNL internal error")`
branch of the intrinsic path are values of the model (`Res.ub`, `Res.unreachable`).

Each theorem states, for the three checked tags (`Checked tag`: saturated, throwing, trapping),
**every integer width** and every in-range operand value, that the evaluation is *defined*
(`Res.isDefined`: not `ub`, not `unreachable`, not out-of-bounds, not diverging) **and** is not the
marker `.ill` of an ill-formed instantiation (so `isDefined` is not satisfied vacuously).

* `arith_total`    `+ - *`, **all** type pairs including mixed signedness, both detection paths.
* `div_total`      `/`, all type pairs including mixed signedness, both paths, divisor ≠ 0.
* `shl_total`      `<<`, count ≥ 0, outside the open class `0 << n`, `n ≥` width.
* `neg_total`, `convert_total`.
* refutations from witnesses (open findings `C07.shl_zero_by_wide_count`, `C07.shr_count_ge_width`):
  `shl_zero_wide_ub`, `shr_wide_ub`.

Hypotheses beyond the task's (see `CnlProperties/C06.lean` for the witnesses; none excludes a
built-in type): portable `*` needs `¬ MulGuardExact L R` (automatic for widths that are multiples of
8: `arith_total_bytes`); `convert_total` needs `1 ≤ S.digits`; `shl_total` needs `L.bits < 2^31`.

Nothing is left unproved.
-/
namespace Cnl.C07
open Cnl Cnl.Overflow Cnl.Spec

/-- `+ - *` -/
def Arith (op : BinOp) : Prop := op = .add ∨ op = .sub ∨ op = .mul

instance (op : BinOp) : Decidable (Arith op) := by unfold Arith; exact inferInstance

/-- defined, and a well-formed instantiation -/
def Total {α : Type} (x : Res α) : Prop := x.isDefined = true ∧ ∀ m, x ≠ .ill m

theorem total_iff_good {α : Type} (x : Res α) : Total x ↔ Good x := Iff.rfl

/-! ## 6. `+ - *` -/

/-- `+ - *` under a checked tag is total for **every** pair of operand types — any widths, mixed
signedness included — on both detection paths, for all in-range operands.  (On the portable path
`*` needs the digit guard not to be exact, which holds for all widths that are multiples of 8.) -/
theorem arith_total (path : Path) (tag : OvTag) (ht : Checked tag) (op : BinOp) (hop : Arith op)
    (L R : IntTy) (hL : 1 ≤ L.bits) (hR : 1 ≤ R.bits)
    (hg : path = .portable → op = .mul → ¬ MulGuardExact L R)
    (l r : Int) (hl : L.InRange l) (hr : R.InRange r) :
    Total (checkedBin path tag op (L, l) (R, r)) := by
  cases path
  · exact builtin_arith_defined ht hL hR hl hr hop
  · exact portable_arith_defined ht hL hR hl hr hop (hg rfl)

/-- … with no side condition for widths that are multiples of 8 (every built-in type) -/
theorem arith_total_bytes (path : Path) (tag : OvTag) (ht : Checked tag) (op : BinOp) (hop : Arith op)
    (L R : IntTy) (hL : 1 ≤ L.bits) (hR : 1 ≤ R.bits) (hL8 : 8 ∣ L.bits) (hR8 : 8 ∣ R.bits)
    (l r : Int) (hl : L.InRange l) (hr : R.InRange r) :
    Total (checkedBin path tag op (L, l) (R, r)) :=
  arith_total path tag ht op hop L R hL hR (fun _ _ => not_mulGuardExact_of_bytes hL8 hR8 hL hR) l r hl hr

/-- in particular: never undefined behaviour, never the "CNL internal error" branch -/
theorem arith_no_ub (path : Path) (tag : OvTag) (ht : Checked tag) (op : BinOp) (hop : Arith op)
    (L R : IntTy) (hL : 1 ≤ L.bits) (hR : 1 ≤ R.bits) (hL8 : 8 ∣ L.bits) (hR8 : 8 ∣ R.bits)
    (l r : Int) (hl : L.InRange l) (hr : R.InRange r) :
    (∀ k, checkedBin path tag op (L, l) (R, r) ≠ .ub k) ∧
    (∀ m, checkedBin path tag op (L, l) (R, r) ≠ .unreachable m) := by
  have h := (arith_total_bytes path tag ht op hop L R hL hR hL8 hR8 l r hl hr).1
  constructor <;> intro _ he <;> rw [he] at h <;> cases h

-- non-vacuity: mixed signedness on both paths, the formerly failing instances
example : Checked .sat ∧ Checked .thr ∧ Checked .trp ∧ ¬ Checked .und ∧ ¬ Checked .nat := by decide
example : checkedBin .builtin .sat .add (i32, -2147483648) (u32, 0) = .ok (u32, 0) := by decide
example : checkedBin .builtin .thr .add (i32, -1) (u32, 0) = .throws false := by decide
example : checkedBin .portable .sat .add (i32, -2147483648) (u32, 0) = .ok (u32, 2147483648) := by decide
example : checkedBin .portable .sat .mul (i32, 2147483647) (i32, -1) = .ok (i32, -2147483647) := by decide +kernel
example : checkedBin .portable .sat .mul (i32, -1) (u32, 2) = .ok (u32, 4294967294) := by decide +kernel
example : checkedBin .portable .trp .sub (u64, 0) (i8, -128) = .ok (u64, 128) := by decide +kernel

/-! ## 7. division, unary minus, conversion, shifts -/

/-- `/` under a checked tag is total for every pair of operand types (mixed signedness included),
both paths, every non-zero divisor: in particular `lowest / -1` is never executed. -/
theorem div_total (path : Path) (tag : OvTag) (ht : Checked tag) (L R : IntTy) (hL : 1 ≤ L.bits)
    (hR : 1 ≤ R.bits) (l r : Int) (hl : L.InRange l) (hr : R.InRange r) (hr0 : r ≠ 0) :
    Total (checkedBin path tag .div (L, l) (R, r)) :=
  div_defined ht hL hR hl hr path hr0

example : checkedBin .portable .sat .div (i32, -2147483648) (i32, -1) = .ok (i32, 2147483647) := by decide
example : checkedBin .builtin .trp .div (i64, -9223372036854775808) (i8, -1) = .trap true := by decide
example : checkedBin .builtin .sat .div (i32, -2147483648) (u32, 1) = .ok (u32, 2147483648) := by decide
example : checkedBin .builtin .sat .div (u32, 7) (i32, -1) = .ok (u32, 0) := by decide

theorem neg_total (tag : OvTag) (ht : Checked tag) (L : IntTy) (hL : 1 ≤ L.bits) (l : Int)
    (hl : L.InRange l) : Total (checkedNeg tag (L, l)) :=
  neg_defined ht hL hl

theorem convert_total (tag : OvTag) (ht : Checked tag) (S D : IntTy) (hS : 1 ≤ S.digits) (hD : 1 ≤ D.bits)
    (v : Int) (hv : S.InRange v) : Total (checkedConvert tag D (S, v)) :=
  convert_defined ht hS hD hv

example : checkedNeg .sat (i32, -2147483648) = .ok (i32, 2147483647) := by decide
example : checkedNeg .trp (i64, -9223372036854775808) = .trap true := by decide
example : checkedConvert .thr i8 (u64, 18446744073709551615) = .throws true := by decide

/-- `<<` under a checked tag is total for every count `r ≥ 0` and every operand types, both paths,
outside the open class `0 << n` with `n ≥` width of the promoted left operand (`-1 << digits` is
flagged wrongly — a C06 finding — but harmlessly here). -/
theorem shl_total (path : Path) (tag : OvTag) (ht : Checked tag) (L R : IntTy) (hL : 1 ≤ L.bits)
    (hR : 1 ≤ R.bits) (hw : L.bits ≤ 2147483647) (l r : Int) (hl : L.InRange l) (hr : R.InRange r)
    (h0 : 0 ≤ r) (hz : ¬(l = 0 ∧ r ≥ (promote L).bits)) :
    Total (checkedBin path tag .shl (L, l) (R, r)) := by
  obtain ⟨j, rfl⟩ := Int.eq_ofNat_of_zero_le h0
  exact shl_defined ht hL hR hw hl hr path (by omega)

example : checkedBin .builtin .sat .shl (i32, 1) (i32, 1000) = .ok (i32, 2147483647) := by decide
example : checkedBin .portable .sat .shl (i8, -1) (u64, 18446744073709551615) = .ok (i32, -2147483648) := by decide
example : checkedBin .builtin .thr .shl (i64, -1) (u32, 63) = .throws false := by decide
example : checkedBin .builtin .sat .shl (i32, 0) (i32, 31) = .ok (i32, 0) := by decide

/-- open finding `C07.shl_zero_by_wide_count`: `0 << 64` executes the built-in shift with an
out-of-range count -/
theorem shl_zero_wide_ub :
    checkedBin .builtin .sat .shl (i32, 0) (i32, 64) = .ub .shiftCount ∧
    checkedBin .portable .sat .shl (i32, 0) (i32, 64) = .ub .shiftCount ∧
    ¬ Total (checkedBin .builtin .sat .shl (i32, 0) (i32, 64)) := by
  refine ⟨by decide, by decide, fun h => ?_⟩
  have : checkedBin .builtin .sat .shl (i32, 0) (i32, 64) = .ub .shiftCount := by decide
  rw [this] at h; exact absurd h.1 (by decide)

/-- open finding `C07.shr_count_ge_width`: no test guards `>>`; a count ≥ width is executed -/
theorem shr_wide_ub :
    checkedBin .builtin .sat .shr (i32, 1) (i32, 64) = .ub .shiftCount ∧
    checkedBin .portable .sat .shr (i32, 1) (i32, 64) = .ub .shiftCount ∧
    ¬ Total (checkedBin .builtin .sat .shr (i32, 1) (i32, 64)) := by
  refine ⟨by decide, by decide, fun h => ?_⟩
  have : checkedBin .builtin .sat .shr (i32, 1) (i32, 64) = .ub .shiftCount := by decide
  rw [this] at h; exact absurd h.1 (by decide)

end Cnl.C07
