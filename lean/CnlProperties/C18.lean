import CnlProofs.Bits
/-!
# C18 — bit and digit-counting utilities match the C++20 `<bit>` definitions everywhere

Model: `CnlModel.Bits` (transcription of `cnl/bit.h`, `cnl/numeric.h`, `cnl/_impl/used_digits.h`;
built-in arithmetic through `CnlModel.CInt`).  Spec: `CnlSpec.Bits` (`Nat.log2`, `Nat.testBit`,
bit patterns — no C++).  `c : Cfg` ranges over the code configurations (GCC intrinsic
specialisations / Clang / generic definitions only), `w` over **all** widths `≥ 1`, `x` over all
`w`-bit patterns, `s` over all rotation counts, `T` over all built-in integer types of any width and
signedness, `v` over all values of `T`.  A theorem `f … = .ok r` says both that the function returns
`r` and that its evaluation executes no undefined behaviour (`Res.ub`), does not reach a compiler
intrinsic at an undefined argument, and terminates.

The two defects the check found in the unrepaired tree (`rotl`/`rotr` shifting by the full width;
GCC `countr_zero(0u)` calling `__builtin_ctz(0)`) were repaired in /repo (`fix:` commits); the
definitions as found are kept as `Bits.AsFound.*` and refuted below (`*_as_found_*`).

`ceil2`: the documented deviation `ceil2 0 = 0` is part of the spec; for `x > 2^(w-1)` the least power of
two `≥ x` is not representable and the property (like `std::bit_ceil`) does not constrain the call
— `ceil2_out_of_contract` records what the code does there for the widths that do not promote.
-/
namespace Cnl.C18
open Cnl Cnl.Bits

/-! ## `<bit>` functions -/

/-- `countl_zero x = w − bit_width x`, every configuration -/
theorem countl_zero_correct (c : Cfg) (w x : Nat) (hx : x < 2^w) :
    countlZero c w x = .ok ((Spec.Bits.countlZero w x : Nat) : Int) := by
  rw [countlZero_eq c w x hx]
  have := bitLength_le x w hx
  unfold Spec.Bits.countlZero
  congr 1; omega

/-- `countr_zero x` = length of the run of 0-bits from bit 0 (`w` for `x = 0`), every configuration -/
theorem countr_zero_correct (c : Cfg) (w x : Nat) (hx : x < 2^w) :
    countrZero c w x = .ok ((Spec.Bits.countrZero w x : Nat) : Int) :=
  countrZero_eq c w x hx

/-- `countl_one x = countl_zero (~x)` -/
theorem countl_one_correct (c : Cfg) (w x : Nat) (hw : 1 ≤ w) (hx : x < 2^w) :
    countlOne c w x = .ok ((Spec.Bits.countlOne w x : Nat) : Int) :=
  countlOne_eq_spec c w x hw hx

/-- `countr_one x` = length of the run of 1-bits from bit 0, every configuration (`unsigned int` goes through
`countr_zero(~x)`, narrower types recurse in `int`) -/
theorem countr_one_correct (c : Cfg) (w x : Nat) (hx : x < 2^w) :
    countrOne c w x = .ok ((Spec.Bits.countrOne w x : Nat) : Int) :=
  countrOne_eq c w x hx

/-- `popcount x` = number of set bits among the `w` -/
theorem popcount_correct (c : Cfg) (w x : Nat) (hx : x < 2^w) :
    popcount c w x = .ok ((Spec.Bits.popcount w x : Nat) : Int) :=
  popcount_eq c w x hx

/-- `ispow2 x` ⇔ `x` is a power of two (`std::has_single_bit`) -/
theorem ispow2_correct (w x : Nat) (hx : x < 2^w) : ispow2 w x = .ok (Spec.Bits.isPow2 x) :=
  ispow2_eq w x hx

/-- `log2p1 x = bit_width x` -/
theorem log2p1_correct (c : Cfg) (w x : Nat) (hx : x < 2^w) :
    log2p1 c w x = .ok ((Spec.Bits.bitLength x : Nat) : Int) :=
  log2p1_eq c w x hx

/-- `floor2 x = bit_floor x` (0 for 0, else `2^⌊log₂ x⌋`) -/
theorem floor2_correct (c : Cfg) (w x : Nat) (hx : x < 2^w) :
    floor2 c w x = .ok (Spec.Bits.floor2 x) :=
  floor2_eq c w x hx

/-- `ceil2 x` = least power of two `≥ x` whenever that is representable (`x ≤ 2^(w−1)`), and `ceil2 0 = 0` -/
theorem ceil2_correct (c : Cfg) (w x : Nat) (hw : 1 ≤ w) (hx : x ≤ 2^(w-1)) :
    (ceil2 c w x).map some = .ok (Spec.Bits.ceil2 w x) :=
  ceil2_eq c w x hw hx

/-- the documented deviation from `std::bit_ceil` -/
theorem ceil2_zero (c : Cfg) (w : Nat) : ceil2 c w 0 = .ok 0 := by simp [ceil2]

/-- outside the contract (`x > 2^(w−1)`, as for `std::bit_ceil`) the code shifts `T{1}` by the full width:
undefined for the operand types that do not promote (`w ≥ 32`); 8/16-bit operands yield 0.  Not a violation of
the property (which does not constrain these calls); recorded so that the out-of-contract lines of the
correspondence check are explained. -/
theorem ceil2_out_of_contract (c : Cfg) (w x : Nat) (hw : 32 ≤ w) (hlo : 2^(w-1) < x) (hx : x < 2^w) :
    ceil2 c w x = .ub .shiftCount := by
  have hp : 0 < 2^(w-1) := Nat.pow_pos (by decide)
  have h0 : x ≠ 0 := by omega
  unfold ceil2
  simp only [ne_eq, h0, not_false_eq_true, if_true]
  rw [sub_one_cast w x hx h0]
  simp only [Res.bind_ok, Int.toNat_natCast]
  rw [countlZero_eq c w (x-1) (by omega), bitLength_eq_of_range (x-1) w (by omega) (by omega) (by omega)]
  simp only [Res.bind_ok]
  have e : ((w:Int) - ((w:Int) - (w:Nat))) = ((w:Nat):Int) := by omega
  rw [e, cBin_shl_ub (uT w) 1 i32 w (by rw [promote_uT_ge hw]; exact Nat.le_refl _)]
  rfl

/-- `rotl x s` rotates the `w`-bit pattern left by `s` — any `s`, including 0 and the multiples of `w` -/
theorem rotl_correct (w x s : Nat) (hw : 1 ≤ w) (hx : x < 2^w) :
    rotl w x s = .ok (Spec.Bits.rotl w x s) :=
  rotl_eq w x s hw hx

theorem rotr_correct (w x s : Nat) (hw : 1 ≤ w) (hx : x < 2^w) :
    rotr w x s = .ok (Spec.Bits.rotr w x s) :=
  rotr_eq w x s hw hx

/-- rotation counts that are multiples of the width (0, `w`, `2w`, …) return the operand unchanged -/
theorem rotl_multiple_of_width (w x m : Nat) (hw : 1 ≤ w) (hx : x < 2^w) : rotl w x (m * w) = .ok x := by
  rw [rotl_eq w x _ hw hx, spec_rotl_multiple w x m hx]

theorem rotr_multiple_of_width (w x m : Nat) (hw : 1 ≤ w) (hx : x < 2^w) : rotr w x (m * w) = .ok x := by
  rw [rotr_eq w x _ hw hx, spec_rotr_multiple w x m hx]

/-! ## CNL's digit-counting functions -/

/-- `used_digits v` (radix 2) is the bit length of `v` for `v ≥ 0` and of `−v−1` for `v < 0`, for every
built-in type (any width, either signedness) and every value of it -/
theorem used_digits_correct (T : IntTy) (v : Int) (h : T.InRange v) :
    usedDigits T v 2 = .ok ((Spec.Bits.valueBits v : Nat) : Int) :=
  usedDigits_eq T v h

theorem used_digits_nonneg (T : IntTy) (v : Int) (h : T.InRange v) (h0 : 0 ≤ v) :
    usedDigits T v 2 = .ok ((Spec.Bits.bitLength v.toNat : Nat) : Int) := by
  rw [usedDigits_eq T v h]
  have : ¬ (v < 0) := by omega
  simp [Spec.Bits.valueBits, this]

theorem used_digits_neg (T : IntTy) (v : Int) (h : T.InRange v) (h0 : v < 0) :
    usedDigits T v 2 = .ok ((Spec.Bits.bitLength (-v - 1).toNat : Nat) : Int) := by
  rw [usedDigits_eq T v h]
  simp [Spec.Bits.valueBits, h0]

/-- `countl_rsb v` = number of redundant sign bits `(w − 1) − valueBits v`, every configuration -/
theorem countl_rsb_correct (c : Cfg) (w : Nat) (hw : 1 ≤ w) (v : Int) (h : (sT w).InRange v) :
    countlRsb c w v = .ok (Spec.Bits.countlRsb w v) :=
  countlRsb_eq c w hw v h

/-- `countl_rb` is `countl_rsb` on signed and `countl_zero` on unsigned operands -/
theorem countl_rb_signed_correct (c : Cfg) (w : Nat) (hw : 1 ≤ w) (v : Int) (h : (sT w).InRange v) :
    countlRb c (sT w) v = .ok (Spec.Bits.countlRsb w v) :=
  countlRb_signed c w hw v h

theorem countl_rb_unsigned_correct (c : Cfg) (w x : Nat) (hx : x < 2^w) :
    countlRb c (uT w) (x:Int) = .ok ((Spec.Bits.countlZero w x : Nat) : Int) := by
  rw [countlRb_unsigned c w x hx]
  have := bitLength_le x w hx
  unfold Spec.Bits.countlZero
  congr 1; omega

/-- `countr_used v` = the value bits: `bit_width x` for unsigned, `valueBits v` for signed operands -/
theorem countr_used_signed_correct (c : Cfg) (w : Nat) (hw : 1 ≤ w) (v : Int) (h : (sT w).InRange v) :
    countrUsed c (sT w) v = .ok ((Spec.Bits.valueBits v : Nat) : Int) :=
  countrUsed_signed c w hw v h

theorem countr_used_unsigned_correct (c : Cfg) (w x : Nat) (hx : x < 2^w) :
    countrUsed c (uT w) (x:Int) = .ok ((Spec.Bits.bitLength x : Nat) : Int) :=
  countrUsed_unsigned c w x hx

/-- Not proved (only compared with the oracle `Spec.Bits.radixDigits` on the harness inputs, radix 3, 10, 16):
`used_digits(v, radix)` for a radix other than 2 is the number of radix-`r` digits.  The property speaks of
bit lengths only (radix 2, proved above at full strength). -/
def FullUsedDigitsRadix : Prop :=
  ∀ (T : IntTy) (v : Int) (r : Nat), T.InRange v → 2 ≤ r → (r:Int) ≤ i32.max →
    usedDigits T v r = .ok ((Spec.Bits.radixDigits r (if v < 0 then -v - 1 else v).toNat (T.bits + 1) : Nat) : Int)

/-- `leading_bits v = digits − used_digits v` -/
theorem leading_bits_correct (T : IntTy) (v : Int) (h : T.InRange v) :
    leadingBits T v = .ok (Spec.Bits.leadingBits T.bits T.signed v) :=
  leadingBits_eq T v h

/-- `trailing_bits v` = number of trailing 0-bits of the object representation, 0 for 0 -/
theorem trailing_bits_correct (c : Cfg) (T : IntTy) (v : Int) :
    trailingBits c T v = .ok ((Spec.Bits.trailingBits T.bits v : Nat) : Int) :=
  trailingBits_eq c T v

/-! ## the spec's `bitLength` is the bit width (sanity of the statement side) -/

theorem bitLength_spec (x : Nat) :
    x < 2 ^ Spec.Bits.bitLength x ∧ (x ≠ 0 → 2 ^ (Spec.Bits.bitLength x - 1) ≤ x) :=
  ⟨lt_two_pow_bitLength x, two_pow_le_of_ne x⟩

/-- every count is at most the width (so the `int` arithmetic of the code cannot overflow) -/
theorem counts_le_width (w x : Nat) (hx : x < 2^w) :
    Spec.Bits.countlZero w x ≤ w ∧ Spec.Bits.countlOne w x ≤ w ∧ Spec.Bits.countrZero w x ≤ w ∧
    Spec.Bits.countrOne w x ≤ w ∧ Spec.Bits.popcount w x ≤ w ∧ Spec.Bits.bitLength x ≤ w := by
  refine ⟨Nat.sub_le _ _, Nat.sub_le _ _, run_le _ _ _, run_le _ _ _, ?_, bitLength_le x w hx⟩
  rw [← ones_eq]; exact ones_le w x

theorem value_bits_le_digits (w : Nat) (hw : 1 ≤ w) (v : Int) (h : (sT w).InRange v) :
    Spec.Bits.valueBits v ≤ w - 1 :=
  valueBits_le w hw v h

/-! ## the definitions as found (before the `fix:` commits) violate the property -/

/-- `rotl(1u, 0)` shifted a 32-bit operand by 32 -/
theorem rotl_as_found_undefined : AsFound.rotl 32 1 0 = .ub .shiftCount := by decide
theorem rotr_as_found_undefined : AsFound.rotr 64 5 128 = .ub .shiftCount := by decide
/-- … while 8/16-bit operands were promoted first, so the same expression was defined and right -/
theorem rotl_as_found_small_ok : AsFound.rotl 8 129 8 = .ok 129 := by decide
/-- GCC: `countr_zero(0u)` called `__builtin_ctz(0)`; so did `countr_one(0xFFFFFFFFu)` -/
theorem countr_zero_as_found_undefined : AsFound.countrZero ⟨true, false⟩ 32 0 = .ub .intrinsicArg := by decide
theorem countr_one_as_found_undefined : AsFound.countrOne ⟨true, false⟩ 32 4294967295 = .ub .intrinsicArg := by decide

/-! ## non-vacuity -/
example : rotl 32 1 0 = .ok 1 := by decide
example : rotl 32 2147483649 33 = .ok 3 := by decide
example : rotr 64 5 128 = .ok 5 := by decide
example : countrZero ⟨true, false⟩ 32 0 = .ok 32 := by decide
example : countlZero ⟨false, false⟩ 16 300 = .ok 7 := by decide
example : usedDigits i8 (-128) 2 = .ok 7 := by decide
example : countlRsb ⟨true, true⟩ 32 (-1) = .ok 31 := by decide
example : countlOne ⟨false, false⟩ 8 240 = .ok 4 := by decide
example : countrOne ⟨true, false⟩ 32 4294967295 = .ok 32 := by decide
example : popcount ⟨false, false⟩ 16 65535 = .ok 16 := by decide
example : ispow2 64 4096 = .ok true := by decide
example : usedDigits u16 65535 2 = .ok 16 := by decide
example : ceil2 ⟨true, true⟩ 32 2147483647 = .ok 2147483648 := by decide
example : floor2 ⟨true, false⟩ 64 1000 = .ok 512 := by decide
example : (2:Nat)^31 < 2^32 ∧ i8.InRange (-128) := by decide

end Cnl.C18
