import CnlProofs.RoundCvt
import CnlProofs.RoundWrap
import CnlProofs.ElasticScaled
import CnlModel.RoundElastic
/-!
# C09 — narrowing conversions under a rounding mode are correctly rounded

Model: `CnlModel.RoundCvt` (`rounding/convert_operator.h`, `scaled_integer/convert_operator.h`).
Spec: `CnlSpec.RoundCvt` — `roundShift m v k` is `v / 2^k` rounded in mode `m`
(`.floor`, `.nearestUp` = ties toward +∞, `.nearestAway` = ties away from zero, `.truncate`),
`roundDyadic m a e` is `a · 2^e` rounded; both are tied to the rounded quotient `roundDiv` of C08 and
to its division-free characterisation (`roundShift_isRounded`).

## scaled → scaled, built-in representations of every width (`k = eD − eS`)

* `scaled_no_digits_lost_is_native`, `scaled_exact_when_no_digits_lost` — `eD ≤ eS`: every tag is
  the native conversion, and that is exact when the scaled value fits.
* `scaled_neg_inf` — `k > 0`: the floor, for every source value (no further hypothesis).
* `scaled_ties_up`, `scaled_nearest` — correctly rounded **provided** the destination unit `2^k`
  fits the source representation (`k < S.digits`) and the biased value `v ± 2^(k−1)` fits the
  promoted source type.  Both hypotheses are necessary: `scaled_half_unit_refuted`,
  `scaled_bias_overflow_refuted` (classes `C09.scaled_half_unit_exceeds_source_rep`,
  `C09.scaled_bias_overflow_near_limits`).  `k < (promote D).digits` and `CmpZeroOk` only say that
  the instantiation compiles (`from_rep<result>(1)` converted to the source, `from >= 0`) — except
  for `eS > 0`, where `from >= 0` shifts the *source value* left by `eS` and must not overflow.
* `scaled_native_truncates` — the native tag truncates toward zero; `scaled_correctly_rounded` — all
  four tags in one statement (value only), under the representability hypothesis of the property.
* `scaled_nearest_cmp_overflow_refuted` — a class the correspondence harness does not reach
  (source exponent `> 0`): the sign test `from >= 0` overflows. Reported, not yet in known_findings.

## floating point → integer (`FVal.fin s m e = (-1)^s m 2^e`, every format `Fmt` with `FmtOk`)

* `float_native_truncates`, `float_native_value` — native tag = `static_cast` = truncation toward zero.
* `float_neg_inf_floor` — neg_inf is the floor for **every** canonical finite value whose floor fits
  the destination (any format, any destination width): full proof, through the exactness of
  `Source(Destination(x))` and of the subtraction in `CFloat` (`roundND_exact`).
* `float_ties_up_of_exact_bias`, `float_nearest_of_exact_bias` — tie_to_pos_inf and nearest are
  correctly rounded whenever the biased sum (`x + .5` in the source format, `x ± .5L` in long
  double) is exact — precisely the complement of the classes
  `C09.ties_up_float_bias_in_source_precision` / `C09.nearest_long_double_bias_rounds`, whose witnesses
  are refuted in `ties_up_float_refuted`, `nearest_long_double_refuted`.
* `float_nearest_correct` (the statement `FloatNearestCorrect`) — nearest is correctly rounded for
  **every** canonical finite `float` / `double` value and every destination width
  (`float_nearest_narrow_source`: any format with at most 53 significand bits inside the long double
  exponent range).  The `long double` sum `x ± .5L` is one rounding of `(m 2^j + 2^(k-1)) / 2^k`
  (`biased_roundND`); it is exact when it has at most 64 significant bits, rounds back to the even
  integer `x` for `|x| ≥ 2^63`, and stays inside `[0.5, 0.5 + 2^-11]` for `|x| < 2^-12`
  (`roundND_bias_core`), so the integer part never changes.

## floating point → scaled (`floatToScaled`, radix 2)

* `power_value_float_exact` — `power_value<Float, e, 2>()` (repeated squaring, reciprocal for `e < 0`)
  is exactly `2^e` whenever `2^e` and `2^|e|` are normal numbers of the format.
* `float_to_scaled_native_truncates` (the statement `FloatToScaledNativeFull`) — the native conversion
  is the truncation of the exact `x · 2^(-eD)` for every significand of the format whose product does
  not overflow (`ScaleFits`); products in the subnormal range may round but stay below one unit.
* `float_to_scaled_neg_inf_partial`, `float_to_scaled_ties_up_partial`,
  `float_to_scaled_nearest_partial` — the three rounding tags are correctly rounded on the complements
  of the open classes `C09.neg_inf_float_to_scaled_truncates` (non-negative input or a multiple of the
  resolution), `C09.ties_up_float_to_scaled_truncates_after_bias` (`x + half ≥ 0` or a multiple) and
  `C09.float_to_scaled_bias_rounds` (the biased sum is exact); the classes themselves are refuted in
  `neg_inf_float_to_scaled_refuted`, `ties_up_float_to_scaled_refuted`, `float_to_scaled_bias_refuted`.
* all of these quantify over every destination exponent `eD` and width; the finest exponents of each width
  (`eD = −63, −62` for a 64-bit representation, `−64` unsigned, `−31, −30, −32` for 32 bits: `2^−eD` and the half unit
  `2^(eD−1)` meet the width of `long long` / `int`) are instances of `power_value_float_exact` (`2^63`, `2^−63`,
  `2^−64` are normal in every format) and are exercised by the harness for every tag × format (lines `f2s`, inputs
  `n·2^(eD−7)` for all small `n` of both signs); concrete instances are checked by `decide` below.

## scaled → scaled with the rounding tag in the representation (last section)

`scaled_integer<rounding_integer<Rep, Tag>, power<E>>`, model `CnlModel.RoundWrap`: narrowing is the
*tagged division* of C08 by `2^k` in the promoted representation type (`rounding_integer.h`,
`num_traits/scale.h`), not the bias-and-shift of `rounding/convert_operator.h`.

* `wrapped_narrowing_correct` — `eS < eD`: for **every** source value and every tag the result is
  the correctly rounded `roundShift (modeOf mode) v k` (the same spec function as above), reduced into
  the destination representation; no bias can overflow, no representability hypothesis in the common
  type is needed (`wrapped_quotient_fits`).  Only hypothesis: `2^k` is representable in the promoted
  representation type (`k < (promote S).digits`), which is exactly "the instantiation compiles"
  (`wrapped_narrowing_wellformed_iff`: `default_scale<-k>` asserts `0 < divisor` on the `constexpr`
  divisor since the repair of `C09.wrapped_power_is_int_min`).  As found (`RoundWrap.convertOrig`) the
  excluded instantiation compiled and divided by `1 << 31 = INT_MIN`: `wrapped_narrowing_power_refuted`;
  where both are well-formed the two agree (`wrapped_narrowing_unchanged_where_wellformed`).
* `wrapped_narrowing_representable`, `wrapped_narrowing_isRounded`, `wrapped_narrowing_roundDiv` —
  the value itself when it fits the destination; the division-free characterisation; the C08 form.
* `wrapped_widening_exact`, `wrapped_widening_ub_iff`, `wrapped_widening_unsigned_wraps` —
  `eD ≤ eS`: exactly `v · 2^(eS − eD)` under every tag whenever that fits the promoted source type;
  undefined behaviour exactly when the promoted type is signed and the product does not fit.

## representations that are themselves CNL numbers (model `CnlModel.RoundElastic`, final section)

* `wrapped_to_integer_correct`, `wrapped_to_integer_representable`, `wrapped_to_integer_isRounded` —
  `static_cast<D>(scaled_integer<rounding_integer<S, Tag>, power<e>>)` (`wrapper::operator S()`) for a fundamental
  integer `D`, `e < 0`: for every source value and every tag the integer the representation's rounding mode selects
  (the same `roundShift`), under the only hypothesis that the instantiation compiles — corollaries of
  `wrapped_narrowing_correct` at destination exponent 0.
* `elastic_plain_truncates` — `elastic_scaled_integer<DS, power<eS>, N>` converted (plain conversion /
  `native_rounding_tag`) to `k = eD − eS ≤ DS` digits coarser, any digit counts and narrowest type for which the
  storage types exist: the truncated `v / 2^k` whenever that fits the destination's digits — in particular for
  `k = 31, 32, 63, 64`, where `2^k` is the most negative number / outside a `k+1`-*bit* divisor type
  (rests on `ElasticScaled.scaleDown_core`: the divisor's type has `k + 1` *digits*).
* the nearest / tie_to_pos_inf / neg_inf conversions of elastic_scaled_integer (`RoundElastic.nearest`, `tiesUp`,
  `negInf`), the static_number → integer route (`toIntStatic`) and the nests of rounding and native overflow layers
  (`toIntNest`) are covered **by correspondence only** (lines `e2e`, `w2i` of the harness, oracle = the rounded exact
  value); concrete instances are checked by `decide` below.  A static_number whose rounded value has magnitude above
  `2^(Digits − k) − 1` is clamped / signalled in the intermediate `static_integer<Digits − k>` although the integer
  destination holds it: the open class `C11.rounded_value_exceeds_intermediate_digits` of property C11 (the oracle of
  C09 does not judge those inputs; branch label `c11-intermediate-digits`).
-/
namespace Cnl.C09
open Cnl Cnl.Spec Cnl.Rounding Cnl.RoundCvt Cnl.RoundCvtP

/-! ## the specification is consistent -/

/-- the integer formulas select what the rounding mode prescribes (division-free characterisation
shared with C08, which has exactly one solution: `C08.isRounded_unique`) -/
theorem roundShift_isRounded (m : RoundMode) (v : Int) (k : Nat) :
    IsRounded m v (2^k) (roundShift m v k) := Spec.roundShift_isRounded m v k

/-- `⌊(v + 2^(k−1)) / 2^k⌋ = ⌊v/2^k + 1/2⌋` -/
theorem shift_bias_eq (v : Int) (k : Nat) (hk : 0 < k) :
    (v + 2^(k-1)) / 2^k = roundShift .nearestUp v k := Spec.shift_bias_eq v hk

/-- truncating `(v ± 2^(k−1)) / 2^k`, the bias taking the sign of `v`, is rounding to nearest with
ties away from zero -/
theorem trunc_bias_eq (v : Int) (k : Nat) (hk : 0 < k) :
    (if 0 ≤ v then v + 2^(k-1) else v - 2^(k-1)).tdiv (2^k) = roundShift .nearestAway v k :=
  Spec.trunc_bias_eq v hk

/-! ## scaled → scaled -/

/-- conversions that lose no digits: every rounding tag behaves as the native conversion … -/
theorem scaled_no_digits_lost_is_native (mode : RdMode) (S D : IntTy) (eS eD : Int) (v : Int) (h : eD ≤ eS) :
    scaledToScaled mode S eS D eD v = scaledToScaled .nat S eS D eD v := by
  rw [noloss_eq_plain mode S D eS eD v h, nat_eq_plain]

/-- … which is exact: the representation becomes `v · 2^(eS − eD)` whenever that value is
representable in the destination (and in the promoted source type, where it is computed) -/
theorem scaled_exact_when_no_digits_lost (mode : RdMode) (S D : IntTy) (hS : 1 ≤ S.bits) (hD : 1 ≤ D.bits)
    (eS eD : Int) (v : Int) (h : eD ≤ eS) (hv : S.InRange v)
    (hw : eS = eD ∨ (eS - eD).toNat < (promote S).digits)
    (hfitS : (promote S).InRange (v * 2^(eS - eD).toNat)) (hfitD : D.InRange (v * 2^(eS - eD).toNat)) :
    scaledToScaled mode S eS D eD v = .ok (D, v * 2^(eS - eD).toNat) := by
  rw [noloss_eq_plain mode S D eS eD v h, plain_up_eval S D eS eD v hS h hw hv hfitS, IntTy.wrap_id hD hfitD]

/-- neg_inf: the floor of the exact source value at the destination resolution, for every `v`
(the result has the promoted source representation type) -/
theorem scaled_neg_inf (S D : IntTy) (eS eD : Int) (v : Int) (h : eS < eD)
    (hk : (eD - eS).toNat < (promote S).bits) :
    scaledToScaled .ninf S eS D eD v = .ok (promote S, roundShift .floor v (eD - eS).toNat) :=
  ninf_eval S D eS eD v h hk

/-- tie_to_pos_inf: `⌊v/2^k + 1/2⌋`, converted to the destination representation -/
theorem scaled_ties_up (S D : IntTy) (hS : 1 ≤ S.bits) (eS eD : Int) (v : Int) (h : eS < eD)
    (hkD : (eD - eS).toNat < (promote D).digits) (hkS : (eD - eS).toNat < S.digits)
    (hv : S.InRange v) (hbias : (promote S).InRange (v + 2^((eD - eS).toNat - 1))) :
    scaledToScaled .tpi S eS D eD v = .ok (D, D.wrap (roundShift .nearestUp v (eD - eS).toNat)) := by
  rw [tpi_eval S D eS eD v hS h hkD hkS hv hbias, Spec.shift_bias_eq v (by omega)]

/-- nearest: `sgn v · ⌊|v|/2^k + 1/2⌋` (ties away from zero), converted to the destination
representation -/
theorem scaled_nearest (S D : IntTy) (hS : 1 ≤ S.bits) (eS eD : Int) (v : Int) (h : eS < eD)
    (hkD : (eD - eS).toNat < (promote D).digits) (hkS : (eD - eS).toNat < S.digits)
    (hv : S.InRange v) (hcmp : CmpZeroOk S eS v)
    (hbias : (promote S).InRange (if 0 ≤ v then v + 2^((eD - eS).toNat - 1) else v - 2^((eD - eS).toNat - 1))) :
    scaledToScaled .nrst S eS D eD v = .ok (D, D.wrap (roundShift .nearestAway v (eD - eS).toNat)) := by
  rw [nrst_eval S D eS eD v hS h hkD hkS hv hcmp hbias, Spec.trunc_bias_eq v (by omega)]

/-- native: truncation toward zero -/
theorem scaled_native_truncates (S D : IntTy) (hS : 1 ≤ S.bits) (eS eD : Int) (v : Int) (h : eS < eD)
    (hk : (eD - eS).toNat < (promote S).digits) (hv : S.InRange v) :
    scaledToScaled .nat S eS D eD v = .ok (D, D.wrap (roundShift .truncate v (eD - eS).toNat)) :=
  nat_down_eval S D eS eD v hS h hk hv

/-- all four tags at once, when the rounded value is representable in the destination -/
theorem scaled_correctly_rounded (mode : RdMode) (S D : IntTy) (hS : 1 ≤ S.bits) (hD : 1 ≤ D.bits)
    (eS eD : Int) (v : Int) (h : eS < eD)
    (hkD : (eD - eS).toNat < (promote D).digits) (hkS : (eD - eS).toNat < S.digits)
    (hv : S.InRange v) (hcmp : mode = .nrst → CmpZeroOk S eS v)
    (hbias : (promote S).InRange (if 0 ≤ v ∨ mode = .tpi then v + 2^((eD - eS).toNat - 1) else v - 2^((eD - eS).toNat - 1)))
    (hfit : D.InRange (roundShift (modeOf mode) v (eD - eS).toNat)) :
    (scaledToScaled mode S eS D eD v).map (·.2) = .ok (roundShift (modeOf mode) v (eD - eS).toNat) := by
  have hkP := digits_lt_promote hS hkS
  cases mode <;> simp only [modeOf] at hfit ⊢
  case nat => rw [scaled_native_truncates S D hS eS eD v h hkP hv, IntTy.wrap_id hD hfit]; rfl
  case ninf =>
    rw [scaled_neg_inf S D eS eD v h (Nat.lt_of_lt_of_le hkP (digits_le_bits _))]; rfl
  case tpi =>
    simp only [or_true, ite_true] at hbias
    rw [scaled_ties_up S D hS eS eD v h hkD hkS hv hbias, IntTy.wrap_id hD hfit]; rfl
  case nrst =>
    simp only [reduceCtorEq, or_false] at hbias
    rw [scaled_nearest S D hS eS eD v h hkD hkS hv (hcmp rfl) hbias, IntTy.wrap_id hD hfit]; rfl

/-! ## the hypotheses of `scaled_ties_up` / `scaled_nearest` are necessary (open defect classes) -/

/-- class `C09.scaled_bias_overflow_near_limits`: `from + half` wraps in `unsigned` (witness
`s2s tpi u32 -16 u32 -8 4294967295`): the code returns 0, the correctly rounded value 16777216 is
representable, and only the bias hypothesis of `scaled_ties_up` fails -/
theorem scaled_bias_overflow_refuted :
    scaledToScaled .tpi u32 (-16) u32 (-8) 4294967295 = .ok (u32, 0)
      ∧ roundShift .nearestUp 4294967295 8 = 16777216 ∧ u32.InRange 16777216
      ∧ (8 < (promote u32).digits ∧ 8 < u32.digits ∧ u32.InRange 4294967295)
      ∧ ¬ (promote u32).InRange (4294967295 + 2^(8-1)) := by decide +kernel

/-- … for a signed source the overflowing bias is undefined behaviour -/
theorem scaled_bias_overflow_signed_refuted :
    scaledToScaled .nrst i32 (-16) i32 (-8) 2147483647 = .ub .signedOverflow
      ∧ roundShift .nearestAway 2147483647 8 = 8388608 ∧ i32.InRange 8388608
      ∧ scaledToScaled .nrst i32 (-16) i32 (-8) (-2147483648) = .ub .signedOverflow
      ∧ roundShift .nearestAway (-2147483648) 8 = -8388608 := by decide +kernel

/-- class `C09.scaled_half_unit_exceeds_source_rep`: `half()` converts the destination unit `2^7`
to the `int8` source type, where it is `-128` (witness `s2s tpi i8 -7 i8 0 -128`): the code returns
`-2` for `-128/128 = -1`; only `k < S.digits` fails -/
theorem scaled_half_unit_refuted :
    scaledToScaled .tpi i8 (-7) i8 0 (-128) = .ok (i8, -2)
      ∧ roundShift .nearestUp (-128) 7 = -1 ∧ i8.InRange (-1)
      ∧ (7 < (promote i8).digits ∧ i8.InRange (-128) ∧ (promote i8).InRange (-128 + 2^(7-1)))
      ∧ ¬ (7 < i8.digits) := by decide +kernel

/-- `CmpZeroOk` is needed for positive source exponents: `from >= 0` shifts the source value left -/
theorem scaled_nearest_cmp_overflow_refuted :
    scaledToScaled .nrst i32 4 i32 8 1000000000 = .ub .signedOverflow
      ∧ roundShift .nearestAway 1000000000 4 = 62500000 ∧ ¬ CmpZeroOk i32 4 1000000000 := by decide +kernel

/-! ## non-vacuity: instances in every sign quadrant, ties included -/

-- 40/16 = 2.5, 41/16, 39/16 and their negatives, `int16` at 2^-4 → `int8` at 2^0
example : scaledToScaled .nrst i16 (-4) i8 0 40 = .ok (i8, 3) ∧ scaledToScaled .nrst i16 (-4) i8 0 (-40) = .ok (i8, -3)
    ∧ scaledToScaled .nrst i16 (-4) i8 0 39 = .ok (i8, 2) ∧ scaledToScaled .nrst i16 (-4) i8 0 (-39) = .ok (i8, -2) := by decide +kernel
example : scaledToScaled .tpi i16 (-4) i8 0 40 = .ok (i8, 3) ∧ scaledToScaled .tpi i16 (-4) i8 0 (-40) = .ok (i8, -2)
    ∧ scaledToScaled .tpi i16 (-4) i8 0 (-41) = .ok (i8, -3) ∧ scaledToScaled .tpi i16 (-4) i8 0 (-24) = .ok (i8, -1) := by decide +kernel
example : scaledToScaled .ninf i16 (-4) i8 0 40 = .ok (i32, 2) ∧ scaledToScaled .ninf i16 (-4) i8 0 (-40) = .ok (i32, -3)
    ∧ scaledToScaled .ninf i16 (-4) i8 0 (-48) = .ok (i32, -3) ∧ scaledToScaled .ninf i16 (-4) i8 0 (-1) = .ok (i32, -1) := by decide +kernel
example : scaledToScaled .nat i16 (-4) i8 0 40 = .ok (i8, 2) ∧ scaledToScaled .nat i16 (-4) i8 0 (-40) = .ok (i8, -2) := by decide +kernel
-- positive exponents on both sides, 64-bit and unsigned representations
example : scaledToScaled .nrst i64 3 i64 5 (-6) = .ok (i64, -2) ∧ scaledToScaled .tpi i64 3 i64 5 (-6) = .ok (i64, -1)
    ∧ scaledToScaled .nrst u64 3 u8 5 6 = .ok (u8, 2) ∧ scaledToScaled .ninf u64 3 u8 5 7 = .ok (u64, 1) := by decide +kernel
-- no digits lost: every tag multiplies exactly
example : scaledToScaled .nrst i8 0 i32 (-4) (-7) = .ok (i32, -112) ∧ scaledToScaled .tpi i8 0 i32 (-4) (-7) = .ok (i32, -112)
    ∧ scaledToScaled .ninf i8 2 i16 2 (-7) = .ok (i16, -7) := by decide +kernel
-- the hypotheses of `scaled_nearest` at the limits of `int`: the largest / smallest `v` whose bias fits
example : (8 < (promote i32).digits ∧ 8 < i32.digits ∧ i32.InRange 2147483519 ∧ CmpZeroOk i32 (-16) 2147483519
    ∧ (promote i32).InRange (2147483519 + 2^(8-1))) ∧ scaledToScaled .nrst i32 (-16) i32 (-8) 2147483519 = .ok (i32, 8388607) := by decide +kernel
example : ((promote i32).InRange (-2147483520 - 2^(8-1)) ∧ CmpZeroOk i32 (-16) (-2147483520))
    ∧ scaledToScaled .nrst i32 (-16) i32 (-8) (-2147483520) = .ok (i32, -8388608) := by decide +kernel
example : CmpZeroOk i16 3 (-1000) ∧ scaledToScaled .nrst i16 3 i16 5 (-1000) = .ok (i16, -250)
    ∧ scaledToScaled .nrst i16 3 i16 5 (-1002) = .ok (i16, -251) := by decide +kernel
example : IsRounded .nearestAway (-40) (2^4) (-3) ∧ IsRounded .nearestUp (-40) (2^4) (-2) ∧ IsRounded .floor (-40) (2^4) (-3)
    ∧ IsRounded .truncate (-40) (2^4) (-2) := by decide

/-! ## floating-point sources → built-in integer

A finite source value is `FVal.fin s m e = (-1)^s · m · 2^e`; `sval s m` is its signed significand and
`roundDyadic mode (sval s m) e` the integer the mode selects from the exact value. -/

open Cnl.FloatP

/-- native tag: the built-in `static_cast` … -/
theorem float_native_truncates (f : Fmt) (D : IntTy) (x : FVal) :
    floatToInt .nat f D x = fToInt D x := rfl

/-- … which truncates toward zero, and is undefined exactly when the truncated value does not fit -/
theorem float_native_value (D : IntTy) (s : Bool) (m : Nat) (e : Int) :
    fToInt D (.fin s m e) = if D.InRange (roundDyadic .truncate (sval s m) e)
      then .ok (roundDyadic .truncate (sval s m) e) else .ub .floatToIntRange := by
  rw [← truncInt_eq_roundDyadic]; rfl

/-- neg_inf: the floor of the exact source value, for every (canonical) finite source value whose
floor is representable in `D` — every format with at least two significand bits, every destination
that can hold `1` -/
theorem float_neg_inf_floor (f : Fmt) (hf : FmtOk f) (D : IntTy) (hD : 1 ≤ D.bits) (hD1 : D.InRange 1)
    (s : Bool) (m : Nat) (e : Int) (hx : f.Canonical (.fin s m e) = true)
    (hfit : D.InRange (roundDyadic .floor (sval s m) e)) :
    floatToInt .ninf f D (.fin s m e) = .ok (roundDyadic .floor (sval s m) e) :=
  float_ninf_canonical f hf D hD hD1 s m e hx hfit

/-- … also for non-canonical encodings `m · 2^e` as long as `|⌊x⌋| < 2^prec` -/
theorem float_neg_inf_floor_small (f : Fmt) (hf : FmtOk f) (D : IntTy) (hD : 1 ≤ D.bits) (hD1 : D.InRange 1)
    (s : Bool) (m : Nat) (e : Int) (hfit : D.InRange (roundDyadic .floor (sval s m) e))
    (hsmall : (roundDyadic .floor (sval s m) e).natAbs < 2^f.prec) :
    floatToInt .ninf f D (.fin s m e) = .ok (roundDyadic .floor (sval s m) e) :=
  float_ninf_eval f hf D hD hD1 s m e hfit hsmall

/-- tie_to_pos_inf: correctly rounded whenever the bias `from + Source(.5)` is exact in the source
format (the complement of class `C09.ties_up_float_bias_in_source_precision`) -/
theorem float_ties_up_of_exact_bias (f : Fmt) (hf : FmtOk f) (D : IntTy) (hD : 1 ≤ D.bits) (hD1 : D.InRange 1)
    (s : Bool) (m : Nat) (e : Int) (s' : Bool) (m' : Nat) (e' : Int)
    (hsum : f.add (.fin s m e) (f.ofDyadic false 1 (-1)) = .fin s' m' e')
    (hexact : ExactBias s m e s' m' e' 1)
    (hcanon : f.Canonical (.fin s' m' e') = true)
    (hfit : D.InRange (roundDyadic .nearestUp (sval s m) e)) :
    floatToInt .tpi f D (.fin s m e) = .ok (roundDyadic .nearestUp (sval s m) e) := by
  rw [← floor_exactBias hexact] at hfit ⊢
  exact float_tpi_eval_canonical f hf D hD hD1 _ s' m' e' hsum hcanon hfit

/-- nearest: correctly rounded (ties away from zero) whenever the long double sum `from ± .5L` is
exact (the complement of class `C09.nearest_long_double_bias_rounds`) -/
theorem float_nearest_of_exact_bias (f : Fmt) (D : IntTy) (s : Bool) (m : Nat) (e : Int)
    (s' : Bool) (m' : Nat) (e' : Int)
    (hsum : (if 0 ≤ sval s m then x87ext.add (x87ext.cvt (.fin s m e)) (x87ext.ofDyadic false 1 (-1))
             else x87ext.sub (x87ext.cvt (.fin s m e)) (x87ext.ofDyadic false 1 (-1))) = .fin s' m' e')
    (hexact : ExactBias s m e s' m' e' (if 0 ≤ sval s m then 1 else -1))
    (hfit : D.InRange (roundDyadic .nearestAway (sval s m) e)) :
    floatToInt .nrst f D (.fin s m e) = .ok (roundDyadic .nearestAway (sval s m) e) := by
  rw [float_nrst_eval f D s m e s' m' e' hsum, trunc_exactBias hexact]
  simp only [intoRange, hfit, ite_true]

/-- the full statement for `float` and `double` sources: every value is correctly rounded (the long
double sum is exact, or rounds harmlessly for `|x| < 2^-12` and `|x| ≥ 2^63`); proved below as
`float_nearest_correct`. -/
def FloatNearestCorrect : Prop :=
  ∀ (f : Fmt), f = binary32 ∨ f = binary64 → ∀ (D : IntTy), 1 ≤ D.bits → ∀ (s : Bool) (m : Nat) (e : Int),
    f.Canonical (.fin s m e) = true → D.InRange (roundDyadic .nearestAway (sval s m) e) →
    floatToInt .nrst f D (.fin s m e) = .ok (roundDyadic .nearestAway (sval s m) e)

/-- nearest: every canonical finite value of a format with at most 53 significand bits inside the
long double exponent range is correctly rounded, for every destination in which the result fits -/
theorem float_nearest_narrow_source (f : Fmt) (hn : Narrow f) (D : IntTy) (s : Bool) (m : Nat) (e : Int)
    (hx : f.Canonical (.fin s m e) = true) (hfit : D.InRange (roundDyadic .nearestAway (sval s m) e)) :
    floatToInt .nrst f D (.fin s m e) = .ok (roundDyadic .nearestAway (sval s m) e) :=
  float_nrst_narrow f hn D s m e hx hfit

/-- nearest, `float` and `double` sources: every finite value is correctly rounded (ties away from
zero) whenever the rounded value is representable in the destination -/
theorem float_nearest_correct : FloatNearestCorrect := by
  intro f hf D _ s m e hc hfit
  have hn : Narrow f := by
    rcases hf with rfl | rfl
    · exact narrow_binary32
    · exact narrow_binary64
  exact float_nrst_narrow f hn D s m e hc hfit

/-- the widened sum of the nearest conversion is a single rounding of `(m 2^j + 2^(k-1)) / 2^k`, and
that rounding preserves the integer part -/
theorem float_nearest_bias_harmless (neg : Bool) (m j k : Nat) (hm : m < 2^53) (hk : 64 ≤ k)
    (hhi : (m.log2 : Int) + j - k ≤ 16383) :
    ∃ m' e', x87ext.roundND neg (m * 2^j + 2^(k-1)) (2^k) = .fin neg m' e' ∧ -(k:Int) ≤ e' ∧
      (m' * 2^(e' + k).toNat) / 2^k = (m * 2^j + 2^(k-1)) / 2^k :=
  roundND_bias_core neg m j k hm hk hhi

/-! ### the floating-point defect classes (witnesses of known_findings.json) -/

/-- `C09.ties_up_float_bias_in_source_precision`: `0x1.fffffep-2f + 0.5f` rounds to `1.0f` -/
theorem ties_up_float_refuted :
    floatToInt .tpi binary32 i64 (.fin false (2^24-1) (-25)) = .ok 1
      ∧ roundDyadic .nearestUp (sval false (2^24-1)) (-25) = 0 ∧ i64.InRange 0 := by decide +kernel

/-- `C09.nearest_long_double_bias_rounds`: the largest long double below `0.5`, plus `0.5L`, rounds to `1.0L` -/
theorem nearest_long_double_refuted :
    floatToInt .nrst x87ext u32 (.fin false (2^64-1) (-65)) = .ok 1
      ∧ roundDyadic .nearestAway (sval false (2^64-1)) (-65) = 0 ∧ u32.InRange 0 := by decide +kernel

/-- `C09.neg_inf_float_to_scaled_truncates`: `-0x1.fffffep-3` at resolution `2^-4` is `-3.99…` units;
the code truncates to `-3`, the floor is `-4` -/
theorem neg_inf_float_to_scaled_refuted :
    floatToScaled .ninf binary32 i16 (-4) (.fin true (2^24-1) (-26)) = .ok (-3)
      ∧ roundDyadic .floor (sval true (2^24-1)) (-26 - (-4)) = -4 ∧ i16.InRange (-4) := by decide +kernel

/-- `C09.ties_up_float_to_scaled_truncates_after_bias`: `-2.0` at resolution `2^-1` is exactly `-4`
units; the code adds `2^-2` and truncates `-3.5` to `-3` -/
theorem ties_up_float_to_scaled_refuted :
    floatToScaled .tpi binary32 i16 (-1) (.fin true (2^23) (-22)) = .ok (-3)
      ∧ roundDyadic .nearestUp (sval true (2^23)) (-22 - (-1)) = -4 ∧ i16.InRange (-4) := by decide +kernel

/-- `C09.float_to_scaled_bias_rounds`: `0x1.fffffep-10` at resolution `2^-8` is `0.49999997` units;
adding `2^-9` in `float` rounds up to one unit -/
theorem float_to_scaled_bias_refuted :
    floatToScaled .nrst binary32 i32 (-8) (.fin false (2^24-1) (-33)) = .ok 1
      ∧ roundDyadic .nearestAway (sval false (2^24-1)) (-33 - (-8)) = 0 ∧ i32.InRange 0 := by decide +kernel

/-! ### floating point → scaled: what does hold -/

/-- `power_value<Float, e, 2>()` — repeated squaring in the floating type, and `1 / 2^|e|` for
negative `e` — is exactly `2^e` whenever `2^e` and `2^|e|` are normal numbers of the format -/
theorem power_value_float_exact (f : Fmt) (hf : FmtOk f) (e : Int) (hmin : f.emin ≤ e) (hmax : e ≤ f.emax)
    (hneg : -e ≤ f.emax) :
    ScaledFloat.powerValueF f 2 e = .fin false (2^(f.prec - 1)) (e - ((f.prec : Int) - 1)) :=
  powerValueF_two f hf e hmin hmax hneg

/-- the full statement of the native conversion: every finite value with a significand of the format
whose scaled product does not overflow the format — also those whose product is subnormal, where the
multiplication may round but stays below one unit; proved below -/
def FloatToScaledNativeFull : Prop :=
  ∀ (f : Fmt), FmtOk f → f.emin < 0 → ∀ (D : IntTy) (eD : Int), PowF f eD → ∀ (s : Bool) (m : Nat) (e : Int),
    ScaleFits f eD m e →
    floatToScaled .nat f D eD (.fin s m e)
      = if D.InRange (roundDyadic .truncate (sval s m) (e - eD))
        then .ok (roundDyadic .truncate (sval s m) (e - eD)) else .ub .floatToIntRange

/-- native tag: `static_cast<rep>(x * power_value<Float, -eD, 2>())` is the truncation toward zero of
the exact `x · 2^(-eD)`, and undefined exactly when that does not fit the representation type -/
theorem float_to_scaled_native_truncates : FloatToScaledNativeFull := by
  intro f hf hneg D eD hp s m e hx
  exact fromFloat_fits f hf hneg D eD hp s m e hx

/-- neg_inf, complement of class `C09.neg_inf_float_to_scaled_truncates`: for a non-negative input,
or one that is a multiple of the destination resolution, the result is the floor -/
theorem float_to_scaled_neg_inf_partial (f : Fmt) (hf : FmtOk f) (hneg : f.emin < 0) (D : IntTy) (eD : Int)
    (hp : PowF f eD) (s : Bool) (m : Nat) (e : Int) (hx : ScaleFits f eD m e)
    (hnd : TruncIsFloor (sval s m) (e - eD))
    (hfit : D.InRange (roundDyadic .floor (sval s m) (e - eD))) :
    floatToScaled .ninf f D eD (.fin s m e) = .ok (roundDyadic .floor (sval s m) (e - eD)) := by
  rw [← trunc_eq_floor hnd] at hfit ⊢
  have := fromFloat_fits f hf hneg D eD hp s m e hx
  simp only [floatToScaled, this, intoRange, hfit, ite_true]

/-- tie_to_pos_inf, complement of the classes `C09.ties_up_float_to_scaled_truncates_after_bias` and
`C09.float_to_scaled_bias_rounds`: when the sum `x + half` is exact in the source format and is
non-negative (or a multiple of the resolution), the result is `⌊x/2^eD + 1/2⌋` -/
theorem float_to_scaled_ties_up_partial (f : Fmt) (hf : FmtOk f) (hneg : f.emin < 0) (D : IntTy) (eD : Int)
    (hp : PowF f eD) (s : Bool) (m : Nat) (e : Int) (s' : Bool) (m' : Nat) (e' : Int)
    (hsum : f.add (.fin s m e) (ScaledFloat.powerValueF f 2 (eD - 1)) = .fin s' m' e')
    (hexact : ExactBias s m (e - eD) s' m' (e' - eD) 1)
    (hx : ScaleFits f eD m' e') (hnd : TruncIsFloor (sval s' m') (e' - eD))
    (hfit : D.InRange (roundDyadic .nearestUp (sval s m) (e - eD))) :
    floatToScaled .tpi f D eD (.fin s m e) = .ok (roundDyadic .nearestUp (sval s m) (e - eD)) := by
  rw [← floor_exactBias hexact, ← trunc_eq_floor hnd] at hfit ⊢
  have := fromFloat_fits f hf hneg D eD hp s' m' e' hx
  simp only [floatToScaled, hsum, this, intoRange, hfit, ite_true]

/-- nearest, complement of class `C09.float_to_scaled_bias_rounds`: whenever the sum `x ± half` is
exact in the source format the result is rounded to nearest, ties away from zero -/
theorem float_to_scaled_nearest_partial (f : Fmt) (hf : FmtOk f) (hneg : f.emin < 0) (D : IntTy) (eD : Int)
    (hp : PowF f eD) (s : Bool) (m : Nat) (e : Int) (s' : Bool) (m' : Nat) (e' : Int)
    (hsum : (if 0 ≤ sval s m then f.add (.fin s m e) (ScaledFloat.powerValueF f 2 (eD - 1))
             else f.sub (.fin s m e) (ScaledFloat.powerValueF f 2 (eD - 1))) = .fin s' m' e')
    (hexact : ExactBias s m (e - eD) s' m' (e' - eD) (if 0 ≤ sval s m then 1 else -1))
    (hx : ScaleFits f eD m' e')
    (hfit : D.InRange (roundDyadic .nearestAway (sval s m) (e - eD))) :
    floatToScaled .nrst f D eD (.fin s m e) = .ok (roundDyadic .nearestAway (sval s m) (e - eD)) := by
  rw [← trunc_exactBias hexact, truncInt_eq_roundDyadic] at hfit ⊢
  rw [floatToScaled_nrst_eq, hsum, fromFloat_fits f hf hneg D eD hp s' m' e' hx]
  simp only [intoRange, hfit, ite_true]

/-! ### non-vacuity (floating sources): ±2.5, ±2.75, ±0.5 in `float`, `double`, `long double` -/

-- 2.5 = 5·2^-1, -2.5, -2.75 = -11·2^-2 as canonical binary32 values
example : floatToInt .ninf binary32 i16 (.fin true (5 * 2^21) (-22)) = .ok (-3)
    ∧ floatToInt .ninf binary32 i16 (.fin false (5 * 2^21) (-22)) = .ok 2
    ∧ floatToInt .ninf binary64 i32 (.fin true (2^52) (-52)) = .ok (-1)
    ∧ floatToInt .ninf x87ext i64 (.fin true (2^63) (-64)) = .ok (-1) := by decide +kernel
example : floatToInt .tpi binary32 i16 (.fin true (5 * 2^21) (-22)) = .ok (-2)
    ∧ floatToInt .tpi binary32 i16 (.fin false (5 * 2^21) (-22)) = .ok 3
    ∧ floatToInt .tpi binary32 i16 (.fin true (11 * 2^20) (-22)) = .ok (-3) := by decide +kernel
example : floatToInt .nrst binary32 i16 (.fin true (5 * 2^21) (-22)) = .ok (-3)
    ∧ floatToInt .nrst binary32 i16 (.fin false (5 * 2^21) (-22)) = .ok 3
    ∧ floatToInt .nrst binary64 u8 (.fin false (2^52) (-53)) = .ok 1
    ∧ floatToInt .nrst binary64 i8 (.fin true (2^52) (-53)) = .ok (-1) := by decide +kernel
example : floatToInt .nat binary32 i16 (.fin true (11 * 2^20) (-22)) = .ok (-2) := by decide +kernel
-- an integral value above 2^prec: -(2^24-1)·2^10 from `float` to `int64_t`
example : floatToInt .ninf binary32 i64 (.fin true (2^24-1) 10) = .ok (-17179868160)
    ∧ binary32.Canonical (.fin true (2^24-1) 10) = true := by decide +kernel
-- the hypotheses of the theorems hold on these instances
example : FmtOk binary32 ∧ i16.InRange 1 ∧ binary32.Canonical (.fin true (5 * 2^21) (-22)) = true
    ∧ i16.InRange (roundDyadic .floor (sval true (5 * 2^21)) (-22)) := by decide +kernel
example : binary32.add (.fin true (5 * 2^21) (-22)) (binary32.ofDyadic false 1 (-1)) = .fin true (2^23) (-22)
    ∧ ExactBias true (5 * 2^21) (-22) true (2^23) (-22) 1 ∧ binary32.Canonical (.fin true (2^23) (-22)) = true
    ∧ roundDyadic .nearestUp (sval true (5 * 2^21)) (-22) = -2 := by decide +kernel
example : x87ext.sub (x87ext.cvt (.fin true (5 * 2^21) (-22))) (x87ext.ofDyadic false 1 (-1)) = .fin true (3 * 2^62) (-62)
    ∧ ExactBias true (5 * 2^21) (-22) true (3 * 2^62) (-62) (-1)
    ∧ roundDyadic .nearestAway (sval true (5 * 2^21)) (-22) = -3 := by decide +kernel
-- … and fail on the witnesses of the defect classes: the biased sums are not exact
example : binary32.add (.fin false (2^24-1) (-25)) (binary32.ofDyadic false 1 (-1)) = .fin false (2^23) (-23)
    ∧ ¬ ExactBias false (2^24-1) (-25) false (2^23) (-23) 1 := by decide +kernel
example : x87ext.add (x87ext.cvt (.fin false (2^64-1) (-65))) (x87ext.ofDyadic false 1 (-1)) = .fin false (2^63) (-63)
    ∧ ¬ ExactBias false (2^64-1) (-65) false (2^63) (-63) 1 := by decide +kernel

-- nearest on `float` / `double` values outside the exact-bias regime: the largest double below 2^-20,
-- a float above 2^63 into `uint64_t`, the largest float below one half
example : floatToInt .nrst binary64 i64 (.fin false (2^53-1) (-74)) = .ok 0
    ∧ floatToInt .nrst binary32 u64 (.fin false (2^24-1) 40) = .ok 18446742974197923840
    ∧ floatToInt .nrst binary32 i8 (.fin true (2^24-1) (-25)) = .ok 0
    ∧ binary64.Canonical (.fin false (2^53-1) (-74)) = true ∧ binary32.Canonical (.fin false (2^24-1) 40) = true
    ∧ u64.InRange (roundDyadic .nearestAway (sval false (2^24-1)) 40) := by decide +kernel
example : Narrow binary32 ∧ Narrow binary64 ∧ ¬ Narrow x87ext := by decide
-- float → scaled at resolution 2^-4: ±2.53125 = ±40.5 units, -2.5 = -40 units
example : ScaledFloat.powerValueF binary32 2 (-5) = .fin false (2^23) (-28)
    ∧ ScaledFloat.powerValueF binary64 2 1000 = .fin false (2^52) 948 := by decide +kernel
example : FmtOk binary32 ∧ binary32.emin < 0 ∧ PowF binary32 (-4) ∧ ScaleFits binary32 (-4) (81 * 2^17) (-22) ∧ ScaleFits binary32 (-4) (5 * 2^21) (-22)
    ∧ TruncIsFloor (sval false (81 * 2^17)) (-22 - -4) ∧ TruncIsFloor (sval true (5 * 2^21)) (-22 - -4)
    ∧ ¬ TruncIsFloor (sval true (81 * 2^17)) (-22 - -4)
    ∧ floatToScaled .ninf binary32 i16 (-4) (.fin false (81 * 2^17) (-22)) = .ok 40
    ∧ floatToScaled .ninf binary32 i16 (-4) (.fin true (5 * 2^21) (-22)) = .ok (-40)
    ∧ floatToScaled .nat binary32 i16 (-4) (.fin true (81 * 2^17) (-22)) = .ok (-40) := by decide +kernel
example : binary32.add (.fin false (81 * 2^17) (-22)) (ScaledFloat.powerValueF binary32 2 (-4 - 1)) = .fin false 10747904 (-22)
    ∧ ExactBias false (81 * 2^17) (-22 - -4) false 10747904 (-22 - -4) 1 ∧ ScaleFits binary32 (-4) 10747904 (-22)
    ∧ TruncIsFloor (sval false 10747904) (-22 - -4)
    ∧ floatToScaled .tpi binary32 i16 (-4) (.fin false (81 * 2^17) (-22)) = .ok 41
    ∧ roundDyadic .nearestUp (sval false (81 * 2^17)) (-22 - -4) = 41 := by decide +kernel
-- -40.5 units: the tie goes up to -40 (the biased sum -40 is a multiple of the resolution) …
example : binary32.add (.fin true (81 * 2^17) (-22)) (ScaledFloat.powerValueF binary32 2 (-4 - 1)) = .fin true 10485760 (-22)
    ∧ ExactBias true (81 * 2^17) (-22 - -4) true 10485760 (-22 - -4) 1 ∧ TruncIsFloor (sval true 10485760) (-22 - -4)
    ∧ floatToScaled .tpi binary32 i16 (-4) (.fin true (81 * 2^17) (-22)) = .ok (-40) := by decide +kernel
-- … and away from zero to -41 under nearest
example : binary32.sub (.fin true (81 * 2^17) (-22)) (ScaledFloat.powerValueF binary32 2 (-4 - 1)) = .fin true 10747904 (-22)
    ∧ ExactBias true (81 * 2^17) (-22 - -4) true 10747904 (-22 - -4) (-1)
    ∧ floatToScaled .nrst binary32 i16 (-4) (.fin true (81 * 2^17) (-22)) = .ok (-41)
    ∧ roundDyadic .nearestAway (sval true (81 * 2^17)) (-22 - -4) = -41 := by decide +kernel
-- the witnesses of the open classes fail the hypotheses: a negative non-multiple, an inexact bias
example : ¬ TruncIsFloor (sval true (2^24-1)) (-26 - -4)
    ∧ binary32.add (.fin true (2^23) (-22)) (ScaledFloat.powerValueF binary32 2 (-1 - 1)) = .fin true 14680064 (-23)
    ∧ ¬ TruncIsFloor (sval true 14680064) (-23 - -1)
    ∧ binary32.add (.fin false (2^24-1) (-33)) (ScaledFloat.powerValueF binary32 2 (-8 - 1)) = .fin false (2^23) (-31)
    ∧ ¬ ExactBias false (2^24-1) (-33 - -8) false (2^23) (-31 - -8) 1 := by decide +kernel
-- a product in the subnormal range (the multiplication rounds): 0x1.fffffep-126 at resolution 2^20
example : ScaleFits binary32 20 (2^24-1) (-149) ∧ PowF binary32 20 ∧ ¬ ScaleOk binary32 20 (2^24-1) (-149)
    ∧ floatToScaled .nat binary32 i32 20 (.fin true (2^24-1) (-149)) = .ok 0
    ∧ roundDyadic .truncate (sval true (2^24-1)) (-149 - 20) = 0 := by decide +kernel
-- the finest exponents of a 64-bit representation (2^63 meets the width of long long): the scaling power and the half
-- unit are +2^63 / +2^-63 / +2^-64 in every format; -2^-61 is -4 units of 2^-63 (+2^-61 under tie_to_pos_inf: 4 units); ±(1.5 units + 2^-70)
example : ScaledFloat.powerValueF binary32 2 63 = .fin false (2^23) 40 ∧ ScaledFloat.powerValueF binary64 2 63 = .fin false (2^52) 11
    ∧ ScaledFloat.powerValueF x87ext 2 63 = .fin false (2^63) 0 ∧ ScaledFloat.powerValueF x87ext 2 (-63) = .fin false (2^63) (-126)
    ∧ ScaledFloat.powerValueF binary32 2 (-64) = .fin false (2^23) (-87) ∧ ScaledFloat.powerValueF binary64 2 64 = .fin false (2^52) 12
    ∧ ScaledFloat.powerValueF binary32 2 31 = .fin false (2^23) 8 ∧ ScaledFloat.powerValueF binary32 2 (-32) = .fin false (2^23) (-55) := by decide +kernel
example : PowF binary32 (-63) ∧ PowF binary64 (-62) ∧ PowF x87ext (-64) ∧ ScaleFits binary32 (-63) (2^23) (-84)
    ∧ floatToScaled .nat binary32 i64 (-63) (.fin true (2^23) (-84)) = .ok (-4)
    ∧ floatToScaled .ninf binary64 i64 (-63) (.fin true (2^52) (-113)) = .ok (-4)
    ∧ floatToScaled .tpi x87ext i64 (-63) (.fin false (2^63) (-124)) = .ok 4
    ∧ floatToScaled .nrst binary32 i64 (-63) (.fin true (2^23) (-84)) = .ok (-4)
    ∧ floatToScaled .nrst binary64 i64 (-62) (.fin false 385 (-70)) = .ok 2
    ∧ floatToScaled .nrst binary64 i64 (-62) (.fin true 385 (-70)) = .ok (-2)
    ∧ floatToScaled .tpi binary64 i64 (-62) (.fin false 383 (-70)) = .ok 1
    ∧ floatToScaled .tpi binary32 u64 (-64) (.fin false 97 (-70)) = .ok 2
    ∧ floatToScaled .nrst binary32 i32 (-31) (.fin false (2^23) (-24)) = .ok 1073741824
    ∧ floatToScaled .ninf binary64 u32 (-32) (.fin false (2^53-1) (-53)) = .ok 4294967295 := by decide +kernel

/-! ## scaled → scaled through `rounding_integer` representations (`CnlModel.RoundWrap`)

`RoundWrap.convert mode S eS D eD v` converts
`scaled_integer<rounding_integer<S, Tag>, power<eS>>` holding `v` to
`scaled_integer<rounding_integer<D, Tag>, power<eD>>`; the result is the destination's innermost
representation (type and value). -/

/-- in every mode `v / 2^k` rounded lies between `0` and `v`; hence it is a value of every integer
type that holds `v` — in particular of the common type in which the tagged division runs -/
theorem wrapped_quotient_fits (T : IntTy) (m : RoundMode) (v : Int) (k : Nat) (hv : T.InRange v) :
    (min v 0 ≤ roundShift m v k ∧ roundShift m v k ≤ max v 0) ∧ T.InRange (roundShift m v k) :=
  ⟨RoundWrap.roundShift_between m v k, RoundWrap.roundShift_inRange m k hv⟩

/-- narrowing (`eS < eD`, `k = eD − eS`): for every representation type (all widths, signed and
unsigned), every rounding tag and **every** source value `v`, the conversion executes no undefined
behaviour and returns `v / 2^k` rounded as the tag prescribes, converted to the destination
representation type.  The hypothesis `k < (promote S).digits` says that the divisor
`power_value<rounding_integer<S, Tag>, k, 2>() = decltype(s >> …){1} << constant<k>`, whose
representation type is the (doubly, idempotently) promoted `S`, holds `2^k`; it is what the
`static_assert` of `power_value` enforces for built-in operands and the `static_assert(0 < divisor)` of
`default_scale<-k>` for a `rounding_integer` operand (`wrapped_narrowing_wellformed_iff`: the hypothesis is
exactly "the instantiation compiles").  Unsigned sources need nothing more: the
usual arithmetic conversions of `S` against `promote S` yield `promote S`, which holds `v` and `2^k`. -/
theorem wrapped_narrowing_correct (mode : RdMode) (S D : IntTy) (hS : 1 ≤ S.bits) (eS eD : Int) (v : Int)
    (h : eS < eD) (hk : (eD - eS).toNat < (promote S).digits) (hv : S.InRange v) :
    RoundWrap.convert mode S eS D eD v
      = .ok (Cnl.convert D (promote S, roundShift (modeOf mode) v (eD - eS).toNat)) :=
  RoundWrap.narrowing_eval mode S D hS eS eD v h hk hv

/-- … the rounded value itself whenever it is representable in the destination -/
theorem wrapped_narrowing_representable (mode : RdMode) (S D : IntTy) (hS : 1 ≤ S.bits) (hD : 1 ≤ D.bits)
    (eS eD : Int) (v : Int) (h : eS < eD) (hk : (eD - eS).toNat < (promote S).digits) (hv : S.InRange v)
    (hfit : D.InRange (roundShift (modeOf mode) v (eD - eS).toNat)) :
    RoundWrap.convert mode S eS D eD v = .ok (D, roundShift (modeOf mode) v (eD - eS).toNat) := by
  rw [wrapped_narrowing_correct mode S D hS eS eD v h hk hv]
  simp only [Cnl.convert, IntTy.wrap_id hD hfit]

/-- … which is the multiple of the destination resolution the mode selects from the exact source
value: it satisfies the division-free characterisation shared with C08 (which has one solution) -/
theorem wrapped_narrowing_isRounded (mode : RdMode) (S D : IntTy) (hS : 1 ≤ S.bits) (hD : 1 ≤ D.bits)
    (eS eD : Int) (v : Int) (h : eS < eD) (hk : (eD - eS).toNat < (promote S).digits) (hv : S.InRange v)
    (hfit : D.InRange (roundShift (modeOf mode) v (eD - eS).toNat)) :
    ∃ w, RoundWrap.convert mode S eS D eD v = .ok (D, w) ∧ IsRounded (modeOf mode) v (2^(eD - eS).toNat) w :=
  ⟨_, wrapped_narrowing_representable mode S D hS hD eS eD v h hk hv hfit, Spec.roundShift_isRounded _ v _⟩

/-- … in the vocabulary of C08: the rounded quotient `roundDiv (modeOf mode) v (2^k)` -/
theorem wrapped_narrowing_roundDiv (mode : RdMode) (S D : IntTy) (hS : 1 ≤ S.bits) (hD : 1 ≤ D.bits)
    (eS eD : Int) (v : Int) (h : eS < eD) (hk : (eD - eS).toNat < (promote S).digits) (hv : S.InRange v)
    (hfit : D.InRange (roundDiv (modeOf mode) v (2^(eD - eS).toNat))) :
    RoundWrap.convert mode S eS D eD v = .ok (D, roundDiv (modeOf mode) v (2^(eD - eS).toNat)) := by
  rw [← Spec.roundShift_eq_roundDiv] at hfit ⊢
  exact wrapped_narrowing_representable mode S D hS hD eS eD v h hk hv hfit

/-- the hypothesis on `k` is exactly well-formedness: the narrowing conversion compiles (is not `.ill`)
if and only if `2^k` is representable in the promoted representation type.  Otherwise the `constexpr`
divisor `decltype(s >> …){1} << constant<k>` is not a constant expression (`k ≥` the width) or is the most
negative number (`k` = the digits of a signed type), which `static_assert(0 < divisor)` rejects. -/
theorem wrapped_narrowing_wellformed_iff (mode : RdMode) (S D : IntTy) (hS : 1 ≤ S.bits) (eS eD : Int) (v : Int)
    (h : eS < eD) (hv : S.InRange v) :
    (∃ r, RoundWrap.convert mode S eS D eD v = .ok r) ↔ (eD - eS).toNat < (promote S).digits := by
  constructor
  · intro ⟨r, hr⟩
    apply Decidable.byContradiction; intro hk
    obtain ⟨m, hm⟩ := RoundWrap.narrowing_ill mode S D eS eD v h hk
    rw [hm] at hr; cases hr
  · intro hk; exact ⟨_, wrapped_narrowing_correct mode S D hS eS eD v h hk hv⟩

/-- … and outside it the instantiation is ill-formed (for every value: a compile-time fact) -/
theorem wrapped_narrowing_ill (mode : RdMode) (S D : IntTy) (eS eD : Int) (v : Int)
    (h : eS < eD) (hk : ¬ (eD - eS).toNat < (promote S).digits) :
    ∃ m, RoundWrap.convert mode S eS D eD v = .ill m :=
  RoundWrap.narrowing_ill mode S D eS eD v h hk

/-- the repair changed nothing where the conversion was well-formed before -/
theorem wrapped_narrowing_unchanged_where_wellformed (mode : RdMode) (S D : IntTy) (eS eD : Int) (v : Int)
    (h : eS < eD) (hk : (eD - eS).toNat < (promote S).digits) :
    RoundWrap.convertOrig mode S eS D eD v = RoundWrap.convert mode S eS D eD v :=
  RoundWrap.narrowing_orig_eq mode S D eS eD v h hk

/-- repaired finding `C09.wrapped_power_is_int_min`: **as found** (`RoundWrap.convertOrig`) the excluded
instantiation compiled: with `k = 31` on `int` the divisor `1 << 31` is `INT_MIN`, and
`(2^31 − 1)·2^-31 ≈ 1` converted to `-1`
(`scaled_integer<rounding_integer<int, nearest>, power<-31>>` → `power<0>`; the real code returned the
same).  The repaired conversion is ill-formed there. -/
theorem wrapped_narrowing_power_refuted :
    RoundWrap.convertOrig .nrst i32 (-31) i32 0 2147483647 = .ok (i32, -1)
      ∧ roundShift .nearestAway 2147483647 31 = 1 ∧ i32.InRange 1 ∧ i32.InRange 2147483647
      ∧ ¬ (31 < (promote i32).digits)
      ∧ cBin .shl (promote (promote i32), 1) (i32, 31) = .ok (i32, -2147483648)
      ∧ RoundWrap.convert .nrst i32 (-31) i32 0 2147483647
          = .ill "scale: attempted operation will result in overflow" := by decide +kernel

-- non-vacuity: both sides of the equivalence occur (k = 30 compiles, k = 31 and k = 32 do not)
example : RoundWrap.convert .nrst i32 (-30) i32 0 2147483647 = .ok (i32, 2)
    ∧ RoundWrap.convert .ninf i64 (-63) i64 0 (-5) = .ill "scale: attempted operation will result in overflow"
    ∧ RoundWrap.convert .tpi u32 (-32) u32 0 7 = .ill "scale: the divisor is not a constant expression"
    ∧ RoundWrap.convert .tpi u32 (-31) u32 0 4294967295 = .ok (u32, 2) := by decide +kernel

-- the input a seeded defect got wrong: 0xFFFFFFF8 / 16 = 268435455.5, ties toward +∞ in `unsigned`
example : RoundWrap.convert .tpi u32 (-4) u32 0 0xFFFFFFF8 = .ok (u32, 0x10000000) := by decide +kernel
example : (1 : Nat) ≤ u32.bits ∧ ((0:Int) - (-4)).toNat < (promote u32).digits ∧ u32.InRange 0xFFFFFFF8
    ∧ roundShift (modeOf .tpi) 0xFFFFFFF8 ((0:Int) - (-4)).toNat = 0x10000000 ∧ u32.InRange 0x10000000 := by decide
-- no bias is added, so the values at the limits that defeat `scaled_ties_up` / `scaled_nearest` are correct here
example : RoundWrap.convert .tpi u32 (-16) u32 (-8) 4294967295 = .ok (u32, 16777216)
    ∧ RoundWrap.convert .nrst i32 (-16) i32 (-8) 2147483647 = .ok (i32, 8388608)
    ∧ RoundWrap.convert .nrst i32 (-16) i32 (-8) (-2147483648) = .ok (i32, -8388608)
    ∧ RoundWrap.convert .tpi i8 (-7) i8 0 (-128) = .ok (i8, -1) := by decide +kernel
-- every sign quadrant, ties included: ±40/16 = ±2.5
example : RoundWrap.convert .nrst i16 (-4) i8 0 40 = .ok (i8, 3) ∧ RoundWrap.convert .nrst i16 (-4) i8 0 (-40) = .ok (i8, -3)
    ∧ RoundWrap.convert .tpi i16 (-4) i8 0 40 = .ok (i8, 3) ∧ RoundWrap.convert .tpi i16 (-4) i8 0 (-40) = .ok (i8, -2)
    ∧ RoundWrap.convert .ninf i16 (-4) i8 0 40 = .ok (i8, 2) ∧ RoundWrap.convert .ninf i16 (-4) i8 0 (-40) = .ok (i8, -3)
    ∧ RoundWrap.convert .nat i16 (-4) i8 0 40 = .ok (i8, 2) ∧ RoundWrap.convert .nat i16 (-4) i8 0 (-40) = .ok (i8, -2) := by decide +kernel
-- a rounded value outside the destination is reduced modulo 2^bits by the final `static_cast`
example : RoundWrap.convert .nrst i32 (-4) i8 0 32767 = .ok (i8, 0) ∧ roundShift .nearestAway 32767 4 = 2048 := by decide +kernel

/-- widening (`eD ≤ eS`): no digits are lost, so under every tag the representation becomes exactly
`v · 2^(eS − eD)` whenever that value fits the promoted source type (where the product is computed);
`hw` says that the instantiation compiles (`power_value<S, eS − eD, 2>`) -/
theorem wrapped_widening_exact (mode : RdMode) (S D : IntTy) (hS : 1 ≤ S.bits) (eS eD : Int) (v : Int)
    (h : eD ≤ eS) (hw : eS = eD ∨ (eS - eD).toNat < (promote S).digits) (hv : S.InRange v)
    (hfitS : (promote S).InRange (v * 2^(eS - eD).toNat)) :
    RoundWrap.convert mode S eS D eD v = .ok (Cnl.convert D (promote S, v * 2^(eS - eD).toNat)) := by
  rw [RoundWrap.widening_eval mode S D hS eS eD v h hw hv]
  simp only [hfitS, ite_true, Cnl.convert]

/-- … the value itself when it also fits the destination -/
theorem wrapped_widening_exact_representable (mode : RdMode) (S D : IntTy) (hS : 1 ≤ S.bits) (hD : 1 ≤ D.bits)
    (eS eD : Int) (v : Int) (h : eD ≤ eS) (hw : eS = eD ∨ (eS - eD).toNat < (promote S).digits) (hv : S.InRange v)
    (hfitS : (promote S).InRange (v * 2^(eS - eD).toNat)) (hfitD : D.InRange (v * 2^(eS - eD).toNat)) :
    RoundWrap.convert mode S eS D eD v = .ok (D, v * 2^(eS - eD).toNat) := by
  rw [wrapped_widening_exact mode S D hS eS eD v h hw hv hfitS]
  simp only [Cnl.convert, IntTy.wrap_id hD hfitD]

/-- the widening conversion is undefined exactly when the promoted source type is signed and the
product overflows it (then it is a signed overflow) -/
theorem wrapped_widening_ub_iff (mode : RdMode) (S D : IntTy) (hS : 1 ≤ S.bits) (eS eD : Int) (v : Int)
    (h : eD ≤ eS) (hw : eS = eD ∨ (eS - eD).toNat < (promote S).digits) (hv : S.InRange v) :
    (∃ u, RoundWrap.convert mode S eS D eD v = .ub u) ↔
      ((promote S).signed = true ∧ ¬ (promote S).InRange (v * 2^(eS - eD).toNat)) := by
  rw [RoundWrap.widening_eval mode S D hS eS eD v h hw hv]
  by_cases hfit : (promote S).InRange (v * 2^(eS - eD).toNat)
  · simp only [hfit, ite_true, not_true_eq_false, and_false, iff_false]
    intro ⟨u, hu⟩; cases hu
  · by_cases hs : (promote S).signed = true
    · simp only [hfit, hs, ite_false, ite_true, not_false_eq_true, and_self, iff_true]
      exact ⟨_, rfl⟩
    · have hs' : (promote S).signed = false := by simpa using hs
      simp only [hfit, hs', ite_false, Bool.false_eq_true, false_and, iff_false]
      intro ⟨u, hu⟩; cases hu

/-- an unsigned promoted source type multiplies modulo `2^bits` -/
theorem wrapped_widening_unsigned_wraps (mode : RdMode) (S D : IntTy) (hS : 1 ≤ S.bits) (eS eD : Int) (v : Int)
    (h : eD ≤ eS) (hw : eS = eD ∨ (eS - eD).toNat < (promote S).digits) (hv : S.InRange v)
    (hs : (promote S).signed = false) :
    RoundWrap.convert mode S eS D eD v
      = .ok (Cnl.convert D (promote S, (promote S).wrap (v * 2^(eS - eD).toNat))) := by
  rw [RoundWrap.widening_eval mode S D hS eS eD v h hw hv]
  by_cases hfit : (promote S).InRange (v * 2^(eS - eD).toNat)
  · simp only [hfit, ite_true, Cnl.convert, IntTy.wrap_id (ScaledP.promote_bits_pos S) hfit]
  · simp only [hfit, hs, ite_false, Cnl.convert, Bool.false_eq_true]

example : RoundWrap.convert .nrst i8 0 i32 (-4) (-7) = .ok (i32, -112) ∧ RoundWrap.convert .tpi i8 0 i32 (-4) (-7) = .ok (i32, -112)
    ∧ RoundWrap.convert .ninf i8 2 i16 2 (-7) = .ok (i16, -7)
    ∧ RoundWrap.convert .tpi u32 0 u32 (-4) 0x0FFFFFFF = .ok (u32, 0xFFFFFFF0) := by decide +kernel
example : ((0:Int) - (-4)).toNat < (promote u32).digits ∧ u32.InRange 0x0FFFFFFF
    ∧ (promote u32).InRange (0x0FFFFFFF * 2^((0:Int) - (-4)).toNat) := by decide
-- the complement: signed overflow of the product; modular product in `unsigned`
example : RoundWrap.convert .nrst i32 0 i32 (-4) 2147483647 = .ub .signedOverflow
    ∧ ¬ (promote i32).InRange (2147483647 * 2^((0:Int) - (-4)).toNat)
    ∧ RoundWrap.convert .nrst u32 0 u32 (-4) 0xFFFFFFFF = .ok (u32, 0xFFFFFFF0) := by decide +kernel

/-! ## representations that are themselves CNL numbers -/

open Cnl.Elastic Cnl.ElasticScaled in
/-- `static_cast<D>(x)` of a `scaled_integer<rounding_integer<S, Tag>, power<e>>`, `e < 0`, for a fundamental integer
`D` (`wrapper::operator S()`): for **every** source value and every tag, `v / 2^(-e)` rounded by the mode the
representation carries, converted to `D`.  Hypothesis: the instantiation compiles (`2^(-e)` fits the promoted `S`). -/
theorem wrapped_to_integer_correct (mode : RdMode) (S D : IntTy) (hS : 1 ≤ S.bits) (e : Int) (v : Int)
    (h : e < 0) (hk : (0 - e).toNat < (promote S).digits) (hv : S.InRange v) :
    RoundElastic.toIntWrapped mode S e D v = .ok (D, D.wrap (roundShift (modeOf mode) v (0 - e).toNat)) := by
  unfold RoundElastic.toIntWrapped
  rw [wrapped_narrowing_correct mode S D hS e 0 v h hk hv]
  rfl

/-- … the rounded value itself whenever the destination holds it (ties included, both signs) -/
theorem wrapped_to_integer_representable (mode : RdMode) (S D : IntTy) (hS : 1 ≤ S.bits) (hD : 1 ≤ D.bits) (e : Int)
    (v : Int) (h : e < 0) (hk : (0 - e).toNat < (promote S).digits) (hv : S.InRange v)
    (hfit : D.InRange (roundShift (modeOf mode) v (0 - e).toNat)) :
    RoundElastic.toIntWrapped mode S e D v = .ok (D, roundShift (modeOf mode) v (0 - e).toNat) := by
  rw [wrapped_to_integer_correct mode S D hS e v h hk hv, IntTy.wrap_id hD hfit]

/-- … which is the integer the mode selects from the exact source value `v · 2^e` -/
theorem wrapped_to_integer_isRounded (mode : RdMode) (S D : IntTy) (hS : 1 ≤ S.bits) (hD : 1 ≤ D.bits) (e : Int)
    (v : Int) (h : e < 0) (hk : (0 - e).toNat < (promote S).digits) (hv : S.InRange v)
    (hfit : D.InRange (roundShift (modeOf mode) v (0 - e).toNat)) :
    ∃ w, RoundElastic.toIntWrapped mode S e D v = .ok (D, w) ∧ IsRounded (modeOf mode) v (2^(0 - e).toNat) w :=
  ⟨_, wrapped_to_integer_representable mode S D hS hD e v h hk hv hfit, Spec.roundShift_isRounded _ v _⟩

-- -1.25 = -5 · 2^-2 and the ties ±1.5 = ±6 · 2^-2 under the four modes (what a conversion of the bare integer,
-- truncating, gets wrong)
example : RoundElastic.toIntWrapped .ninf i32 (-2) i32 (-5) = .ok (i32, -2) ∧ RoundElastic.toIntWrapped .nrst i32 (-2) i32 (-6) = .ok (i32, -2)
    ∧ RoundElastic.toIntWrapped .tpi i32 (-2) i32 (-6) = .ok (i32, -1) ∧ RoundElastic.toIntWrapped .nat i32 (-2) i32 (-6) = .ok (i32, -1)
    ∧ RoundElastic.toIntWrapped .nrst i32 (-2) i64 6 = .ok (i64, 2) := by decide +kernel
example : (1 : Nat) ≤ i32.bits ∧ (-2 : Int) < 0 ∧ ((0:Int) - (-2)).toNat < (promote i32).digits ∧ i32.InRange (-5)
    ∧ i32.InRange (roundShift (modeOf .ninf) (-5) ((0:Int) - (-2)).toNat) := by decide
-- static_number<12, -4> (nearest): 1.5 -> 2, -0.3125 -> 0; a nest with a native overflow layer
example : RoundElastic.toIntStatic ⟨.nrst, .und⟩ i32 12 (-4) i32 24 = .ok (i32, 2)
    ∧ RoundElastic.toIntStatic ⟨.nrst, .und⟩ i32 12 (-4) i32 (-5) = .ok (i32, 0)
    ∧ RoundElastic.toIntStatic ⟨.ninf, .sat⟩ i32 12 (-4) i32 (-5) = .ok (i32, -1) := by decide +kernel

open Cnl.Elastic Cnl.ElasticScaled in
/-- plain conversion (`static_cast`, `native_rounding_tag`) of an `elastic_scaled_integer<DS, power<eS>, N>` to a
resolution `k = eD − eS` digits coarser (`0 < k ≤ DS`), destination digits `DD`: the value truncated toward zero,
for every digit count, narrowest type and `k` for which the storage types exist — `k = 31, 32, 63, 64` included:
the divisor `divisor_rep{1} << k` lives in the storage of `elastic_integer<1 + k, N>`, which has more than `k` digits -/
theorem elastic_plain_truncates (x : ESNum) (DD : Nat) (eD : Int) (hx : x.InRange) (h : x.exp < eD)
    (hk : (eD - x.exp).toNat ≤ x.digits) {rep drep rrep dst : IntTy}
    (hRep : repTy x.digits x.narrowest = some rep)
    (hDv : repTy (1 + (eD - x.exp).toNat) x.narrowest = some drep)
    (hRr : repTy (x.digits - (eD - x.exp).toNat) x.narrowest = some rrep)
    (hDst : repTy DD x.narrowest = some dst)
    (hfit : Fits DD x.narrowest.signed (roundShift .truncate x.value (eD - x.exp).toNat)) :
    RoundElastic.plain x DD x.narrowest eD
      = .ok ⟨DD, x.narrowest, eD, roundShift .truncate x.value (eD - x.exp).toNat⟩ := by
  have ⟨hAs, hAd, hAb⟩ := setDigits_spec hRep
  have ⟨hDs, hDd, hDb⟩ := setDigits_spec hDst
  have hx' : Fits x.digits x.narrowest.signed x.value := hx
  have hxA : rep.InRange x.value := inRange_of_fits (by omega) hx' (fun h => by rw [← hAs]; exact h)
  have hqD : dst.InRange (x.value.tdiv (2^(eD - x.exp).toNat)) :=
    inRange_of_fits (by omega) hfit (fun h => by rw [← hDs]; exact h)
  have hsd := (scaleDown_core x.toE (eD - x.exp).toNat hx hk hRep hDv hRr).1
  have hne : ¬ (eD ≤ x.exp) := by omega
  have hc1 : RoundElastic.castE x.toE x.digits x.narrowest = .ok x.toE := by
    simp only [RoundElastic.castE, ESNum.toE, hRep, Cnl.convert, IntTy.wrap_id (by omega) hxA]
  have hc2 : RoundElastic.castE ⟨x.digits - (eD - x.exp).toNat, x.narrowest, x.value.tdiv (2^(eD - x.exp).toNat)⟩ DD x.narrowest
      = .ok ⟨DD, x.narrowest, x.value.tdiv (2^(eD - x.exp).toNat)⟩ := by
    simp only [RoundElastic.castE, hRr, hDst, Cnl.convert, IntTy.wrap_id (by omega : 1 ≤ dst.bits) hqD]
  unfold RoundElastic.plain
  rw [hc1]
  simp only [Res.bind_ok, hne, ite_false]
  rw [show scaleDown x.toE (eD - x.exp).toNat = _ from hsd]
  simp only [Res.bind_ok, ESNum.toE, hc2, Res.pure_eq, ofE, roundShift]

-- the witness of seeded change C09-10: -40 · 2^11 (and a neighbour) at resolution 2^-20, 31 digits coarser
example : RoundElastic.plain ⟨44, i32, -20, -85899345920⟩ 44 i32 11 = .ok ⟨44, i32, 11, -40⟩
    ∧ RoundElastic.plain ⟨44, i32, -20, -84825604097⟩ 44 i32 11 = .ok ⟨44, i32, 11, -39⟩ := by decide +kernel
example : (⟨44, i32, -20, -84825604097⟩ : ElasticScaled.ESNum).InRange ∧ ((11:Int) - (-20)).toNat ≤ 44
    ∧ Elastic.repTy 44 i32 = some i64 ∧ Elastic.repTy (1 + 31) i32 = some i64 ∧ Elastic.repTy (44 - 31) i32 = some i32 := by decide
-- the other tags on the same input, and an unsigned 64-digit source 63 digits coarser
example : RoundElastic.convert (some .nrst) ⟨44, i32, -20, -84825604097⟩ 44 i32 11 = .ok ⟨44, i32, 11, -40⟩
    ∧ RoundElastic.convert (some .tpi) ⟨44, i32, -20, -84825604097⟩ 44 i32 11 = .ok ⟨44, i32, 11, -40⟩
    ∧ RoundElastic.convert (some .ninf) ⟨44, i32, -20, -84825604097⟩ 44 i32 11 = .ok ⟨44, i32, 11, -40⟩
    ∧ RoundElastic.convert none ⟨64, u32, -20, 2^64 - 1⟩ 64 u32 43 = .ok ⟨64, u32, 43, 1⟩ := by decide +kernel

end Cnl.C09
