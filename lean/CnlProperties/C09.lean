import CnlModel.RoundCvt
