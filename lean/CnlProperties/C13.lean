import CnlProofs.Charconv
/-!
# C13 — `to_chars` never writes outside the caller's buffer and reports failure cleanly

Model: `CnlModel.Charconv` (buffer = `(len, cells)`, an out-of-range write is the value `Res.oob`,
a failed `CNL_ASSERT` is `Res.unreachable`).  The model follows the repaired code (three `fix:` commits,
`findings/C13.json`); the unrepaired selection and loop are kept as `chooseOrig`, `descaleOrig`,
`natResultOrig` and are *refuted* below by kernel-checked witnesses.

Proved for every integer width, every value, every buffer length and every base 2…36:
`integer_stays_inside`, `integer_succeeds_iff_numeral_fits`, `integer_never_out_of_bounds`,
`integer_capacity_suffices`, `integer_static_succeeds` (the repaired `to_chars_capacity<integer>{}(base)`;
the as-found, base-blind capacity is refuted by `static_capacity_unrepaired_refuted`); the layout selection (`layout_safe`, all digit counts, exponents, buffer sizes).

For `scaled_integer` (every value, exponent, radix 2…10, buffer length; signed AND unsigned significand types):
`scaled_positive_routine`, `descale_terminates`, `descale_terminates_any`, `descale_returns`,
`scaled_stays_inside`, `scaled_contract_unsigned` (= `FullScaledContractUnsigned`, formerly open).

Capacity of `scaled_integer`: `scaled_capacity_suffices_partial` proves `FullScaledCapacity` for non-negative
exponents (see its comment for the side condition at radix ten); negative exponents are covered by the
correspondence sweep (`fix` lines at capacity: every value of 8-bit reps × exponents −70…70) and a model search only.
Open findings: `MostNegative` (the most negative value of a ≥ 32-bit type: documented limitation) and
`input_radix_above_ten` (`descale_radix_above_ten_refuted`).
-/
namespace Cnl.C13
open Cnl Cnl.Charconv

/-- integers: on a buffer of `len` untouched cells the call returns normally; on success the pointer `p`
satisfies `0 < p ≤ len`, cells `[0,p)` are written and `[p,len)` untouched; on failure the pointer is `last` -/
theorem integer_stays_inside (T : IntTy) (len : Nat) (v : Int) (base : Nat)
    (hb : 2 ≤ base ∧ base ≤ 36) (hm : ¬ MostNegative T v) (hu : T.signed = false → 0 ≤ v) :
    ∃ r, intToChars T (Buf.fresh len) v base = .ok r ∧ Contract len r :=
  intToChars_contract T len v base hb hm hu

example : ¬ MostNegative i32 (-2147483647) ∧ (i32.signed = false → (0 : Int) ≤ -2147483647) := by decide

/-- it succeeds exactly when the canonical numeral fits -/
theorem integer_succeeds_iff_numeral_fits (T : IntTy) (len : Nat) (v : Int) (base : Nat)
    (hb : 2 ≤ base ∧ base ≤ 36) (hm : ¬ MostNegative T v) (hu : T.signed = false → 0 ≤ v) :
    ∃ r, intToChars T (Buf.fresh len) v base = .ok r ∧ r.ok = decide ((intText base v).length ≤ len) :=
  intToChars_ok T len v base hb hm hu

/-- no value at all — not even the unsupported most negative one — makes the integer routine write out of range -/
theorem integer_never_out_of_bounds (T : IntTy) (len : Nat) (v : Int) (base : Nat)
    (hb : 2 ≤ base ∧ base ≤ 36) (hu : T.signed = false → 0 ≤ v) (i : Nat) :
    intToChars T (Buf.fresh len) v base ≠ .oob i := by
  by_cases hm : MostNegative T v
  · have hbb : ¬ (base < 2 ∨ base > 36) := by omega
    have hP : 0 ≤ (promote T).max := by
      unfold IntTy.max
      have h1 : (0 : Int) < 2 ^ ((promote T).bits - 1) := Int.pow_pos (by omega)
      have h2 : (0 : Int) < 2 ^ (promote T).bits := Int.pow_pos (by omega)
      split <;> omega
    have hv : v ≠ 0 := by have := hm.2; omega
    have hn : T.signed = true ∧ v < 0 := ⟨hm.1, by have := hm.2; omega⟩
    unfold intToChars
    rw [if_neg hbb, if_neg hv, if_pos hn]
    by_cases hl : (Buf.fresh len).len < 2
    · rw [if_pos hl]; intro h; cases h
    · have h0 : 0 < (Buf.fresh len).len := by omega
      rw [if_neg hl]
      simp only [Buf.write, h0, if_true, hm.2]
      intro h; cases h
  · obtain ⟨r, hr, _⟩ := intToChars_contract T len v base hb hm hu
    rw [hr]; intro h; cases h

/-- `to_chars_capacity<T>{}(base)` cells are enough for every supported value of `T` (any width) in EVERY base
2…36: the fixed-capacity variants of integers (`to_chars_static<Base>`, `operator<<`) always succeed -/
theorem integer_capacity_suffices (T : IntTy) (v : Int) (base : Nat) (hb : 2 ≤ base ∧ base ≤ 36)
    (hbits : 1 ≤ T.bits) (hr : T.InRange v) (hm : ¬ MostNegative T v) :
    ∃ r, intToChars T (Buf.fresh (intCapacityB T base)) v base = .ok r ∧ r.ok = true := by
  have hu : T.signed = false → 0 ≤ v := by
    intro hs; have := hr.1; simp [IntTy.lowest, hs] at this; exact this
  obtain ⟨r, h1, h2⟩ := intToChars_ok T (intCapacityB T base) v base hb hm hu
  exact ⟨r, h1, by rw [h2]; exact decide_eq_true (intText_le_capacityB T v base hb.1 hr hbits)⟩

example : i64.InRange (-9223372036854775807) ∧ ¬ MostNegative i64 (-9223372036854775807) := by decide

/-- for base ten the capacity is the value it always had (`to_chars_capacity<T>{}()`) -/
theorem integer_capacity_decimal_unchanged (T : IntTy) : intCapacityB T 10 = intCapacity T := by
  have h : ¬ (10 < 10) := by omega
  simp only [intCapacityB, intCapacity, h, if_false]; omega

/-- hence `to_chars_static<Base>(value)` returns the canonical numeral… -/
theorem integer_static_succeeds (T : IntTy) (v : Int) (base : Nat) (hb : 2 ≤ base ∧ base ≤ 36)
    (hbits : 1 ≤ T.bits) (hr : T.InRange v) (hm : ¬ MostNegative T v) :
    ∃ t, intStaticTextBase T base v = .ok t ∧ 0 < t.length := by
  have hu : T.signed = false → 0 ≤ v := by
    intro hs; have := hr.1; simp [IntTy.lowest, hs] at this; exact this
  obtain ⟨r, h1, h2⟩ := integer_capacity_suffices T v base hb hbits hr hm
  obtain ⟨r', h1', hc⟩ := intToChars_contract T (intCapacityB T base) v base hb hm hu
  rw [h1] at h1'; cases h1'
  obtain ⟨p, hp, hp0, hple, _⟩ := hc.2.2.1 h2
  have hlen : r.buf.cells.length = intCapacityB T base := by rw [hc.2.1, hc.1]
  refine ⟨r.text, ?_, ?_⟩
  · unfold intStaticTextBase intStaticTextBaseWith staticText
    have hb2 : ¬ base < 2 := by omega
    have hc0 : ¬ ((intCapacityB T base : Nat) : Int) < 0 := by omega
    simp only [hb2, hc0, if_false, Int.toNat_natCast, h1, h2, hp]
    have : ¬ (p = 0 ∨ p > intCapacityB T base) := by omega
    simp [this]
  · simp [TCR.text, hp, List.length_take, hlen]; omega

/-- … which the capacity as first written (base ignored) did not: `to_chars_static<2>(INT_MAX)` fails its
assertion (31 binary digits, 11 cells) -/
theorem static_capacity_unrepaired_refuted :
    intStaticTextBaseOrig i32 2 2147483647 = .unreachable "assert: dynamic_result.ec == std::errc{}" := by
  decide +kernel

theorem static_capacity_repaired_witness :
    intStaticTextBase i32 2 2147483647 = .ok (List.replicate 31 '1') := by decide +kernel

/-- scaled_integer: the repaired selection never fills a layout without digits or beyond the space, for
every digit count, exponent, exponent-text length and buffer size -/
theorem layout_safe (i : Info) (he : 0 ≤ i.expChars) : Safe choose i := choose_safe i he

/-- the selection as first written does (13 digits, exponent −17, no room left, exponent text "-5") -/
theorem layout_unrepaired_refuted : ¬ Safe chooseOrig ⟨13, -17, 0, 2⟩ := chooseOrig_not_safe

/-- … which the whole unrepaired routine turns into a failed assertion (an out-of-bounds write in release
builds): `scaled_integer<int8_t, power<-20>>` rep −104 into one character -/
theorem scaled_unrepaired_refuted :
    scaledToCharsOrig i8 (-20) 2 1 (-104) = .unreachable "assert: scientific_solution.num_significand_digits > 0" := by
  decide +kernel

/-- the same call on the repaired code: `'-'` written, `value_too_large`, pointer = `last` -/
theorem scaled_repaired_witness :
    scaledToChars i8 (-20) 2 1 (-104) = .ok ⟨some 1, false, ⟨1, [some '-']⟩⟩ := by decide +kernel

/-- the unrepaired `descale` never returns for `scaled_integer<int, power<70>>` rep 3 … -/
theorem descale_unrepaired_diverges : descaleOrig i64 3 70 2 = .diverges := by decide +kernel

/-- … the repaired one does -/
theorem descale_repaired_witness : descale i64 3 70 2 = .ok ⟨354177486215223384, 4, 4⟩ := by decide +kernel

/-- a failed integer conversion used to return a null pointer; now `last` -/
theorem null_pointer_unrepaired_refuted :
    (natResultOrig (none, Buf.fresh 3)).ptr = none ∧ (natResult (none, Buf.fresh 3)).ptr = some 3 := by decide

/-- scaled_integer, the positive-value routine `_impl::to_chars_positive`, for every non-empty digit string,
every exponent, every buffer and every offset `first ≤ last`: either nothing is written and
`{last, value_too_large}` is returned, or a non-empty text that fits is written at `[first, first+|t|)`, nothing
else changes and `{first+|t|, errc{}}` is returned — never `oob`, never a failed assertion -/
theorem scaled_positive_routine (b : Buf) (first : Nat) (ds : List Char) (x : Int)
    (hds : ds ≠ []) (hf : first ≤ b.len) :
    toCharsPositive b first ds x = .ok ⟨some b.len, false, b⟩ ∨
    ∃ t : List Char, 0 < t.length ∧ first + t.length ≤ b.len ∧
      toCharsPositive b first ds x = .ok ⟨some (first + t.length), true,
        ⟨b.len, b.cells.take first ++ t.map some ++ b.cells.drop (first + t.length)⟩⟩ :=
  toCharsPositive_contract b first ds x hds hf

example : ("125".toList ≠ []) ∧ (1 ≤ (Buf.fresh 3).len) := by decide

/-- the repaired `descale` returns for every input, exponent and input radix `≥ 1` when the significand type is
signed (an overflowing `significand *= radix` is undefined behaviour there — a value of the model, not a loop) -/
theorem descale_terminates (S : IntTy) (hs : S.signed = true) (h8 : 8 ≤ S.bits) (input e : Int) (R : Nat)
    (hR : 1 ≤ R) (hr : S.InRange input) : descale S input e R ≠ .diverges :=
  Charconv.descale_terminates S hs h8 input e R hR hr

/-- … and for EVERY significand type, signed or unsigned (`uint64_t`, `unsigned __int128`, wide reps), with a
non-zero in-range significand of the input's sign: `significand *= radix` neither overflows nor wraps (radix 2…10) -/
theorem descale_returns (S : IntTy) (h8 : 8 ≤ S.bits) (input e : Int) (R : Nat)
    (hR2 : 2 ≤ R) (hR : R ≤ 10) (hr : S.InRange input) (h0 : input ≠ 0) :
    ∃ d, descale S input e R = .ok d ∧ SigOK S (decide (input < 0)) d.sig :=
  descale_ok S h8 input e R hR2 hR hr h0

example : 8 ≤ u64.bits ∧ u64.InRange 18446744073709551615 := by decide

/-- termination for every significand type (radix 2…10) -/
theorem descale_terminates_any (S : IntTy) (h8 : 8 ≤ S.bits) (input e : Int) (R : Nat)
    (hR2 : 2 ≤ R) (hR : R ≤ 10) (hr : S.InRange input) : descale S input e R ≠ .diverges :=
  Charconv.descale_terminates_any S h8 input e R hR2 hR hr

/-- beyond radix ten the headroom test (made for a multiplication by TEN) no longer protects `significand *= radix`:
for an unsigned significand the product wraps to zero and the loop never ends
(`scaled_integer<uint64_t, power<1, 16>>` rep `2^60`; open finding `input_radix_above_ten`) -/
theorem descale_radix_above_ten_refuted :
    mulS u64 1152921504606846976 16 = .ok 0 ∧ oobSig u64 false 1152921504606846976 = false ∧
    mulS i64 576460752303423488 16 = .ub .signedOverflow ∧ oobSig i64 false 576460752303423488 = false := by
  decide +kernel

/-- … as whole runs of the model: the unsigned case never returns, the signed case is undefined -/
theorem radix_above_ten_witnesses :
    descale u64 1152921504606846976 1 16 = .diverges ∧ descale i64 576460752303423488 1 16 = .ub .signedOverflow := by
  decide +kernel

/-- `cnl::to_chars(first, last, scaled_integer<T, power<e, radix>>)` for EVERY rep type (signed or unsigned
significand), value, exponent, radix 2…10 and buffer length: the call returns normally and meets the contract
(`0 < p ≤ len`, exactly `[0,p)` written; or pointer = `last` with `value_too_large`) — or the significand type is
signed and the descaled significand is its most negative value (the open finding) -/
theorem scaled_stays_inside (T : IntTy) (e : Int) (radix len : Nat) (rep : Int)
    (hr : (sigTy T).InRange rep) (hR2 : 2 ≤ radix) (hR : radix ≤ 10) :
    (∃ r, scaledToChars T e radix len rep = .ok r ∧ Contract len r) ∨
    ((sigTy T).signed = true ∧ scaledToChars T e radix len rep = .unreachable "assert: most negative value") :=
  scaledToChars_stays_inside T e radix len rep hr hR2 hR

example : (sigTy i8).InRange (-104) := by decide

/-- the statement that used to be open: UNSIGNED 64/128-bit (and wider) significand types, where `significand *=
radix` would wrap instead of being undefined — there is no exception at all -/
def FullScaledContractUnsigned : Prop :=
  ∀ (T : IntTy) (e : Int) (radix len : Nat) (rep : Int), (sigTy T).signed = false → 64 ≤ T.bits →
    2 ≤ radix → radix ≤ 10 → T.InRange rep →
    ∃ r, scaledToChars T e radix len rep = .ok r ∧ Contract len r

theorem scaled_contract_unsigned : FullScaledContractUnsigned := by
  intro T e radix len rep hS _ hR2 hR hr
  exact scaledToChars_stays_inside_unsigned T e radix len rep hS (sigTy_range T rep hr) hR2 hR

example : (sigTy u64).signed = false ∧ 64 ≤ u64.bits ∧ u64.InRange 18446744073709551615 := by decide

/-- full statement: the capacity of `scaled_integer` is enough for every value, exponent and radix 2…10 -/
def FullScaledCapacity : Prop :=
  ∀ (T : IntTy) (e : Int) (R : Nat) (rep : Int), 8 ≤ T.bits → e.natAbs < 2 ^ 31 → 2 ≤ R → R ≤ 10 → T.InRange rep →
    (∃ t, scaledStaticText T e R rep = .ok t) ∨
    ((sigTy T).signed = true ∧ scaledStaticText T e R rep = .unreachable "assert: most negative value")

/-- proved part of `FullScaledCapacity`: NON-NEGATIVE exponents — every rep type, value, exponent `e ≥ 0`, radix
2…9, and radix ten for digit counts with `1000·digits mod 3321 ≥ 320` (7, 8, 15, 16, 31, 32, 63, 64, 127, 128: every
built-in rep).  `to_chars_static` / `to_string` / `operator<<` succeed, or the descaled significand is the most
negative value.  (For radix ten `num_digits_to_binary` can be one bit short — `toBinary_spec` — so that for other
digit counts the fixed layout of the largest values may not fit; the scientific layout then does, which is not
proved.)  Negative exponents: not proved; a search over 973 620 (type, exponent −300…300, radix, value) cases of
the model and the per-run sweep at capacity found no failure. -/
theorem scaled_capacity_suffices_partial (T : IntTy) (e : Int) (R : Nat) (rep : Int)
    (he : 0 ≤ e) (hR2 : 2 ≤ R) (hR : R ≤ 10)
    (hside : R = 10 → 320 ≤ T.digits * 1000 % 3321) (hbits : 1 ≤ T.bits) (hr : T.InRange rep) :
    (∃ t, scaledStaticText T e R rep = .ok t) ∨
    ((sigTy T).signed = true ∧ scaledStaticText T e R rep = .unreachable "assert: most negative value") :=
  scaledStaticText_nonneg_exp T e R rep he hR2 hR hside hbits hr

example : (0 : Int) ≤ 70 ∧ ((10 : Nat) = 10 → 320 ≤ i64.digits * 1000 % 3321) ∧ i64.InRange (-9223372036854775807) := by
  decide

end Cnl.C13
