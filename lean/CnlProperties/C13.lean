import CnlProofs.Charconv
/-!
# C13 — `to_chars` never writes outside the caller's buffer and reports failure cleanly

Model: `CnlModel.Charconv` (buffer = `(len, cells)`, an out-of-range write is the value `Res.oob`,
a failed `CNL_ASSERT` is `Res.unreachable`).  The model follows the repaired code (six `fix:` commits,
`findings/C13.json`); the unrepaired selection, loops, headroom test and negation are kept as `chooseOrig`,
`descaleOrig`, `natResultOrig`, `intCapacityOrig`, `descaleTenOrig`, `intToCharsOrig`, `scaledToCharsTenOrig` and are
*refuted* below by kernel-checked witnesses.

Proved for every integer width, EVERY value (the most negative one included, since the repair of the negative
branch), every buffer length and every base 2…36:
`integer_stays_inside`, `integer_succeeds_iff_numeral_fits`, `integer_never_out_of_bounds`,
`integer_capacity_suffices`, `integer_static_succeeds` (the repaired `to_chars_capacity<integer>{}(base)`;
the as-found, base-blind capacity is refuted by `static_capacity_unrepaired_refuted`); the layout selection (`layout_safe`, all digit counts, exponents, buffer sizes).

For `scaled_integer` (every value, exponent, buffer length, EVERY radix `≥ 2` — `10·radix ≤ max` of the significand
type, which holds for every `int` radix: `radix_fits` —; signed AND unsigned significand types):
`scaled_positive_routine`, `descale_terminates`, `descale_terminates_any`, `descale_returns`,
`scaled_stays_inside`, `scaled_contract_unsigned` (= `FullScaledContractUnsigned`, formerly open).

Capacity of `scaled_integer`: `scaled_capacity_suffices_partial` proves `FullScaledCapacity` for non-negative
exponents and every radix (see its comment for the side condition at radix ten); negative exponents are covered by the
correspondence sweep (`fix` lines at capacity: every value of 8-bit reps × exponents −70…70) and a model search only.
No open finding is left: `most_negative_integer` (`most_negative_unrepaired_refuted`) and `input_radix_above_ten`
(`descale_radix_above_ten_refuted`, `radix_above_ten_witnesses`) are repaired; their theorems now speak of the
as-found definitions.
-/
namespace Cnl.C13
open Cnl Cnl.Charconv

/-- integers: on a buffer of `len` untouched cells the call returns normally; on success the pointer `p`
satisfies `0 < p ≤ len`, cells `[0,p)` are written and `[p,len)` untouched; on failure the pointer is `last` -/
theorem integer_stays_inside (T : IntTy) (len : Nat) (v : Int) (base : Nat)
    (hb : 2 ≤ base ∧ base ≤ 36) (hu : T.signed = false → 0 ≤ v) :
    ∃ r, intToChars T (Buf.fresh len) v base = .ok r ∧ Contract len r :=
  intToChars_contract T len v base hb hu

example : (2 ≤ 10 ∧ 10 ≤ 36) ∧ (i32.signed = false → (0 : Int) ≤ -2147483648) := by decide

/-- it succeeds exactly when the canonical numeral fits -/
theorem integer_succeeds_iff_numeral_fits (T : IntTy) (len : Nat) (v : Int) (base : Nat)
    (hb : 2 ≤ base ∧ base ≤ 36) (hu : T.signed = false → 0 ≤ v) :
    ∃ r, intToChars T (Buf.fresh len) v base = .ok r ∧ r.ok = decide ((intText base v).length ≤ len) :=
  intToChars_ok T len v base hb hu

example : (i64.signed = false → (0 : Int) ≤ -9223372036854775808) := by decide

/-- no value at all makes the integer routine write out of range -/
theorem integer_never_out_of_bounds (T : IntTy) (len : Nat) (v : Int) (base : Nat)
    (hb : 2 ≤ base ∧ base ≤ 36) (hu : T.signed = false → 0 ≤ v) (i : Nat) :
    intToChars T (Buf.fresh len) v base ≠ .oob i := by
  obtain ⟨r, hr, _⟩ := intToChars_contract T len v base hb hu
  rw [hr]; intro h; cases h

/-- the repaired negative branch (`quotient = value / base`, `-quotient`, `quotient * base`,
`value - quotient * base` and its negation) never leaves the type the arithmetic is done in: for every negative
value of a type `P` — the most negative one included — and every base `2 ≤ base ≤ max P` (the arithmetic is done in a
type of at least `int`'s width, the base is at most 36) all five intermediate results are values of `P` -/
theorem negative_branch_in_range (P : IntTy) (v : Int) (base : Nat) (hb : 2 ≤ base) (hbm : (base : Int) ≤ P.max)
    (hr : P.InRange v) (hv : v < 0) :
    P.InRange (v.tdiv base) ∧ P.InRange (-(v.tdiv base)) ∧ P.InRange (v.tdiv base * base) ∧
    P.InRange (v - v.tdiv base * base) ∧ P.InRange (-(v - v.tdiv base * base)) ∧
    0 ≤ -(v - v.tdiv base * base) ∧ -(v - v.tdiv base * base) < base := by
  obtain ⟨h1, h2⟩ := hr
  have hl := lowest_cases P
  have hdm := Int.mul_tdiv_add_tmod v base
  have hd3 : v.tdiv (base : Int) ≤ 0 := by
    have : 0 ≤ (-v).tdiv (base : Int) := Int.tdiv_nonneg (by omega) (by omega)
    rw [Int.neg_tdiv] at this; omega
  have hm3 : v.tmod (base : Int) ≤ 0 := by
    have : 0 ≤ (-v).tmod (base : Int) := Int.tmod_nonneg _ (by omega)
    rw [Int.neg_tmod] at this; omega
  have hm4 : -(base : Int) < v.tmod base := by
    have : (-v).tmod (base : Int) < base := Int.tmod_lt_of_pos _ (by omega)
    rw [Int.neg_tmod] at this; omega
  have hc : v.tdiv (base : Int) * base = (base : Int) * v.tdiv base := Int.mul_comm _ _
  -- 2·|q| ≤ base·|q| ≤ |v|
  have hq2 : (base : Int) * v.tdiv base ≤ 2 * v.tdiv base :=
    Int.mul_le_mul_of_nonpos_right (by omega) hd3
  rw [hc]
  unfold IntTy.InRange
  generalize (base : Int) * v.tdiv base = qb at *
  omega

example : i32.InRange (-2147483648) ∧ (-2147483648 : Int) < 0 ∧ ((36 : Nat) : Int) ≤ i32.max := by decide

/-- `to_chars_capacity<T>{}(base)` cells are enough for EVERY value of `T` (any width; the sign is counted) in EVERY base
2…36: the fixed-capacity variants of integers (`to_chars_static<Base>`, `operator<<`) always succeed -/
theorem integer_capacity_suffices (T : IntTy) (v : Int) (base : Nat) (hb : 2 ≤ base ∧ base ≤ 36)
    (hbits : 1 ≤ T.bits) (hr : T.InRange v) :
    ∃ r, intToChars T (Buf.fresh (intCapacityB T base)) v base = .ok r ∧ r.ok = true := by
  have hu : T.signed = false → 0 ≤ v := by
    intro hs; have := hr.1; simp [IntTy.lowest, hs] at this; exact this
  obtain ⟨r, h1, h2⟩ := intToChars_ok T (intCapacityB T base) v base hb hu
  exact ⟨r, h1, by rw [h2]; exact decide_eq_true (intText_le_capacityB T v base hb.1 hr hbits)⟩

example : i64.InRange (-9223372036854775808) ∧ 1 ≤ i64.bits := by decide

/-- for base ten the capacity is the value it always had (`to_chars_capacity<T>{}()`) -/
theorem integer_capacity_decimal_unchanged (T : IntTy) : intCapacityB T 10 = intCapacity T := by
  have h : ¬ (10 < 10) := by omega
  simp only [intCapacityB, intCapacity, h, if_false]; omega

/-- hence `to_chars_static<Base>(value)` returns the canonical numeral… -/
theorem integer_static_succeeds (T : IntTy) (v : Int) (base : Nat) (hb : 2 ≤ base ∧ base ≤ 36)
    (hbits : 1 ≤ T.bits) (hr : T.InRange v) :
    ∃ t, intStaticTextBase T base v = .ok t ∧ 0 < t.length := by
  have hu : T.signed = false → 0 ≤ v := by
    intro hs; have := hr.1; simp [IntTy.lowest, hs] at this; exact this
  obtain ⟨r, h1, h2⟩ := integer_capacity_suffices T v base hb hbits hr
  obtain ⟨r', h1', hc⟩ := intToChars_contract T (intCapacityB T base) v base hb hu
  rw [h1] at h1'; cases h1'
  obtain ⟨p, hp, hp0, hple, _⟩ := hc.2.2.1 h2
  have hlen : r.buf.cells.length = intCapacityB T base := by rw [hc.2.1, hc.1]
  refine ⟨r.text, ?_, ?_⟩
  · unfold intStaticTextBase intStaticTextBaseWith staticText
    have hb2 : ¬ base < 2 := by omega
    have hc0 : ¬ ((intCapacityB T base : Nat) : Int) < 0 := by omega
    simp only [hb2, hc0, if_false, Int.toNat_natCast, h1, h2, hp]
    have : ¬ (p = 0 ∨ p > intCapacityB T base) := by omega
    simp [this]
  · simp [TCR.text, hp, List.length_take, hlen]; omega

/-- … which the capacity as first written (base ignored) did not: `to_chars_static<2>(INT_MAX)` fails its
assertion (31 binary digits, 11 cells) -/
theorem static_capacity_unrepaired_refuted :
    intStaticTextBaseOrig i32 2 2147483647 = .unreachable "assert: dynamic_result.ec == std::errc{}" := by
  decide +kernel

theorem static_capacity_repaired_witness :
    intStaticTextBase i32 2 2147483647 = .ok (List.replicate 31 '1') := by decide +kernel

/-- the negative branch as first written negated the value: the most negative value of a type of `int`'s width or
more failed `CNL_ASSERT(-max <= value)` (undefined negation in a release build), whatever the buffer … -/
theorem most_negative_unrepaired_refuted :
    MostNegative i32 (-2147483648) ∧
    intToCharsOrig i32 (Buf.fresh 2) (-2147483648) 10 = .unreachable "assert: most negative value" ∧
    intToCharsOrig i64 (Buf.fresh 20) (-9223372036854775808) 10 = .unreachable "assert: most negative value" := by
  decide +kernel

/-- … and in general: every `MostNegative` value on a buffer of at least two cells -/
theorem most_negative_unrepaired_general (T : IntTy) (len : Nat) (v : Int) (base : Nat)
    (hb : 2 ≤ base ∧ base ≤ 36) (hm : MostNegative T v) (hl : 2 ≤ len) :
    intToCharsOrig T (Buf.fresh len) v base = .unreachable "assert: most negative value" := by
  have hbb : ¬ (base < 2 ∨ base > 36) := by omega
  have hP : 0 ≤ (promote T).max := (sigOK_bounds (promote T)).2
  have hv : v ≠ 0 := by have := hm.2; omega
  have hn : T.signed = true ∧ v < 0 := ⟨hm.1, by have := hm.2; omega⟩
  have hl2 : ¬ (Buf.fresh len).len < 2 := by simp only [Buf.fresh]; omega
  have h0 : 0 < (Buf.fresh len).len := by simp only [Buf.fresh]; omega
  unfold intToCharsOrig
  rw [if_neg hbb, if_neg hv, if_pos hn, if_neg hl2]
  simp only [Buf.write, h0, if_true, hm.2]

/-- the same calls on the repaired code: the numeral, or `value_too_large` with the pointer at `last` -/
theorem most_negative_repaired_witness :
    intToChars i32 (Buf.fresh 2) (-2147483648) 10 = .ok ⟨some 2, false, ⟨2, [some '-', some '2']⟩⟩ ∧
    (intToChars i64 (Buf.fresh 20) (-9223372036854775808) 10).map TCR.text = .ok "-9223372036854775808".toList ∧
    intStaticTextBase i32 2 (-2147483648) = .ok ('-' :: '1' :: List.replicate 31 '0') := by
  decide +kernel

/-- scaled_integer: the repaired selection never fills a layout without digits or beyond the space, for
every digit count, exponent, exponent-text length and buffer size -/
theorem layout_safe (i : Info) (he : 0 ≤ i.expChars) : Safe choose i := choose_safe i he

/-- the selection as first written does (13 digits, exponent −17, no room left, exponent text "-5") -/
theorem layout_unrepaired_refuted : ¬ Safe chooseOrig ⟨13, -17, 0, 2⟩ := chooseOrig_not_safe

/-- … which the whole unrepaired routine turns into a failed assertion (an out-of-bounds write in release
builds): `scaled_integer<int8_t, power<-20>>` rep −104 into one character -/
theorem scaled_unrepaired_refuted :
    scaledToCharsOrig i8 (-20) 2 1 (-104) = .unreachable "assert: scientific_solution.num_significand_digits > 0" := by
  decide +kernel

/-- the same call on the repaired code: `'-'` written, `value_too_large`, pointer = `last` -/
theorem scaled_repaired_witness :
    scaledToChars i8 (-20) 2 1 (-104) = .ok ⟨some 1, false, ⟨1, [some '-']⟩⟩ := by decide +kernel

/-- the unrepaired `descale` never returns for `scaled_integer<int, power<70>>` rep 3 … -/
theorem descale_unrepaired_diverges : descaleOrig i64 3 70 2 = .diverges := by decide +kernel

/-- … the repaired one does -/
theorem descale_repaired_witness : descale i64 3 70 2 = .ok ⟨354177486215223384, 4, 4⟩ := by decide +kernel

/-- a failed integer conversion used to return a null pointer; now `last` -/
theorem null_pointer_unrepaired_refuted :
    (natResultOrig (none, Buf.fresh 3)).ptr = none ∧ (natResult (none, Buf.fresh 3)).ptr = some 3 := by decide

/-- scaled_integer, the positive-value routine `_impl::to_chars_positive`, for every non-empty digit string,
every exponent, every buffer and every offset `first ≤ last`: either nothing is written and
`{last, value_too_large}` is returned, or a non-empty text that fits is written at `[first, first+|t|)`, nothing
else changes and `{first+|t|, errc{}}` is returned — never `oob`, never a failed assertion -/
theorem scaled_positive_routine (b : Buf) (first : Nat) (ds : List Char) (x : Int)
    (hds : ds ≠ []) (hf : first ≤ b.len) :
    toCharsPositive b first ds x = .ok ⟨some b.len, false, b⟩ ∨
    ∃ t : List Char, 0 < t.length ∧ first + t.length ≤ b.len ∧
      toCharsPositive b first ds x = .ok ⟨some (first + t.length), true,
        ⟨b.len, b.cells.take first ++ t.map some ++ b.cells.drop (first + t.length)⟩⟩ :=
  toCharsPositive_contract b first ds x hds hf

example : ("125".toList ≠ []) ∧ (1 ≤ (Buf.fresh 3).len) := by decide

/-- `Radix` is an `int` template parameter and the significand type has at least 64 bits: the side condition
`10·radix ≤ max` of the theorems below holds for every radix the library can be instantiated with -/
theorem radix_fits (T : IntTy) (radix : Nat) (h : radix < 2 ^ 31) : 10 * (radix : Int) ≤ (sigTy T).max :=
  sigTy_radix_fits T radix h

example : 10 * ((16 : Nat) : Int) ≤ (sigTy u64).max ∧ 10 * ((2147483647 : Nat) : Int) ≤ (sigTy i8).max := by decide

/-- the repaired `descale` returns for every input, exponent and input radix `≥ 1` when the significand type is
signed (an overflowing `significand *= radix` would be undefined behaviour there — a value of the model, not a loop) -/
theorem descale_terminates (S : IntTy) (hs : S.signed = true) (h8 : 8 ≤ S.bits) (input e : Int) (R : Nat)
    (hR : 1 ≤ R) (hRS : 10 * (R : Int) ≤ S.max) (hr : S.InRange input) : descale S input e R ≠ .diverges :=
  Charconv.descale_terminates S hs h8 input e R hR hRS hr

/-- … and for EVERY significand type, signed or unsigned (`uint64_t`, `unsigned __int128`, wide reps), and EVERY
input radix `≥ 2` (with `10·R ≤ max`), with a non-zero in-range significand of the input's sign: `significand *= radix`
neither overflows nor wraps, because the headroom test is made for the greater of the two radixes -/
theorem descale_returns (S : IntTy) (h8 : 8 ≤ S.bits) (input e : Int) (R : Nat)
    (hR2 : 2 ≤ R) (hRS : 10 * (R : Int) ≤ S.max) (hr : S.InRange input) (h0 : input ≠ 0) :
    ∃ d, descale S input e R = .ok d ∧ SigOK S (decide (input < 0)) d.sig :=
  descale_ok S h8 input e R hR2 hRS hr h0

example : 8 ≤ u64.bits ∧ u64.InRange 18446744073709551615 ∧ 10 * ((36 : Nat) : Int) ≤ u64.max := by decide

/-- termination for every significand type and every radix -/
theorem descale_terminates_any (S : IntTy) (h8 : 8 ≤ S.bits) (input e : Int) (R : Nat)
    (hR2 : 2 ≤ R) (hRS : 10 * (R : Int) ≤ S.max) (hr : S.InRange input) : descale S input e R ≠ .diverges :=
  Charconv.descale_terminates_any S h8 input e R hR2 hRS hr

/-- as found, beyond radix ten the headroom test (made for a multiplication by TEN) did not protect
`significand *= radix`: for an unsigned significand the product wraps to zero and the loop never ends
(`scaled_integer<uint64_t, power<1, 16>>` rep `2^60`), for a signed one it overflows; the repaired test
(`max / 16`) sends both to the division -/
theorem descale_radix_above_ten_refuted :
    mulS u64 1152921504606846976 16 = .ok 0 ∧ oobSig u64 10 false 1152921504606846976 = false ∧
    mulS i64 576460752303423488 16 = .ub .signedOverflow ∧ oobSig i64 10 false 576460752303423488 = false ∧
    oobSig u64 (headroomRadix 16) false 1152921504606846976 = true ∧
    oobSig i64 (headroomRadix 16) false 576460752303423488 = true := by
  decide +kernel

/-- … as whole runs of the as-found loop (`descaleTenOrig`): the unsigned case never returns, the signed case is
undefined; the repaired `descale` returns for both, and `to_chars` prints them -/
theorem radix_above_ten_witnesses :
    descaleTenOrig u64 1152921504606846976 1 16 = .diverges ∧
    descaleTenOrig i64 576460752303423488 1 16 = .ub .signedOverflow ∧
    scaledToCharsTenOrig u64 1 16 30 1152921504606846976 = .diverges ∧
    descale u64 1152921504606846976 1 16 = .ok ⟨1844674407370955152, 1, 1⟩ ∧
    descale i64 576460752303423488 1 16 = .ok ⟨922337203685477568, 1, 1⟩ ∧
    (scaledToChars u64 1 16 30 1152921504606846976).map TCR.text = .ok "18446744073709551520".toList := by
  decide +kernel

/-- for the radixes 2…10 the repair changes nothing: the headroom radix is ten as before -/
theorem descale_unchanged_up_to_ten (S : IntTy) (input e : Int) (R : Nat) (hR : R ≤ 10) :
    descale S input e R = descaleTenOrig S input e R := by
  have hH : headroomRadix R = 10 := by unfold headroomRadix; omega
  unfold descale descaleTenOrig
  rw [hH]; rfl

/-- the most negative significand: as found `to_chars_static<10>(significand)` failed its assertion
(`scaled_integer<int64_t, power<0>>` lowest); repaired, it is printed -/
theorem scaled_most_negative_witnesses :
    scaledToCharsTenOrig i64 0 2 30 (-9223372036854775808) = .unreachable "assert: most negative value" ∧
    (scaledToChars i64 0 2 30 (-9223372036854775808)).map TCR.text = .ok "-9223372036854775808".toList := by
  decide +kernel

/-- `cnl::to_chars(first, last, scaled_integer<T, power<e, radix>>)` for EVERY rep type (signed or unsigned
significand), value, exponent, radix `≥ 2` and buffer length: the call returns normally and meets the contract
(`0 < p ≤ len`, exactly `[0,p)` written; or pointer = `last` with `value_too_large`).  No exception is left. -/
theorem scaled_stays_inside (T : IntTy) (e : Int) (radix len : Nat) (rep : Int)
    (hr : (sigTy T).InRange rep) (hR2 : 2 ≤ radix) (hRS : 10 * (radix : Int) ≤ (sigTy T).max) :
    ∃ r, scaledToChars T e radix len rep = .ok r ∧ Contract len r :=
  scaledToChars_stays_inside T e radix len rep hr hR2 hRS

example : (sigTy i8).InRange (-104) ∧ (sigTy i64).InRange (-9223372036854775808) ∧
    10 * ((16 : Nat) : Int) ≤ (sigTy i64).max := by decide

/-- the statement that used to be open: UNSIGNED 64/128-bit (and wider) significand types, where `significand *=
radix` would wrap instead of being undefined — every radix of type `int` -/
def FullScaledContractUnsigned : Prop :=
  ∀ (T : IntTy) (e : Int) (radix len : Nat) (rep : Int), (sigTy T).signed = false → 64 ≤ T.bits →
    2 ≤ radix → radix < 2 ^ 31 → T.InRange rep →
    ∃ r, scaledToChars T e radix len rep = .ok r ∧ Contract len r

theorem scaled_contract_unsigned : FullScaledContractUnsigned := by
  intro T e radix len rep hS _ hR2 hR hr
  exact scaledToChars_stays_inside_unsigned T e radix len rep hS (sigTy_range T rep hr) hR2 (sigTy_radix_fits T radix hR)

example : (sigTy u64).signed = false ∧ 64 ≤ u64.bits ∧ u64.InRange 18446744073709551615 := by decide

/-- full statement: the capacity of `scaled_integer` is enough for every value, exponent and radix -/
def FullScaledCapacity : Prop :=
  ∀ (T : IntTy) (e : Int) (R : Nat) (rep : Int), 8 ≤ T.bits → e.natAbs < 2 ^ 31 → 2 ≤ R → R < 2 ^ 31 → T.InRange rep →
    ∃ t, scaledStaticText T e R rep = .ok t

/-- proved part of `FullScaledCapacity`: NON-NEGATIVE exponents — every rep type, value, exponent `e ≥ 0`, EVERY radix
`≥ 2` other than ten (`10·R ≤ max` of the significand type: every `int` radix), and radix ten for digit counts with `1000·digits mod 3321 ≥ 320` (7, 8, 15, 16, 31, 32, 63, 64, 127, 128: every
built-in rep).  `to_chars_static` / `to_string` / `operator<<` succeed for every value (the most negative one included).  (For radix ten `num_digits_to_binary` can be one bit short — `toBinary_spec` — so that for other
digit counts the fixed layout of the largest values may not fit; the scientific layout then does, which is not
proved.)  Negative exponents: not proved; a search over 973 620 (type, exponent −300…300, radix, value) cases of
the model and the per-run sweep at capacity found no failure. -/
theorem scaled_capacity_suffices_partial (T : IntTy) (e : Int) (R : Nat) (rep : Int)
    (he : 0 ≤ e) (hR2 : 2 ≤ R) (hRS : 10 * (R : Int) ≤ (sigTy T).max)
    (hside : R = 10 → 320 ≤ T.digits * 1000 % 3321) (hbits : 1 ≤ T.bits) (hr : T.InRange rep) :
    ∃ t, scaledStaticText T e R rep = .ok t :=
  scaledStaticText_nonneg_exp T e R rep he hR2 hRS hside hbits hr

example : (0 : Int) ≤ 70 ∧ ((10 : Nat) = 10 → 320 ≤ i64.digits * 1000 % 3321) ∧ i64.InRange (-9223372036854775808) ∧
    10 * ((36 : Nat) : Int) ≤ (sigTy i64).max := by
  decide

end Cnl.C13
