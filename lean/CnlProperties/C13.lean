import CnlProofs.Charconv
/-!
# C13 — `to_chars` never writes outside the caller's buffer and reports failure cleanly

Model: `CnlModel.Charconv` (buffer = `(len, cells)`, an out-of-range write is the value `Res.oob`,
a failed `CNL_ASSERT` is `Res.unreachable`).  The model follows the repaired code (three `fix:` commits,
`findings/C13.json`); the unrepaired selection and loop are kept as `chooseOrig`, `descaleOrig`,
`natResultOrig` and are *refuted* below by kernel-checked witnesses.

Proved for every integer width, every value, every buffer length and every base 2…36:
`integer_stays_inside`, `integer_succeeds_iff_numeral_fits`, `integer_never_out_of_bounds`,
`integer_capacity_suffices`; the layout selection (`layout_safe`, all digit counts, exponents, buffer sizes).

For `scaled_integer` (every value, exponent, radix 2…10, buffer length; signed significand type):
`scaled_positive_routine`, `descale_terminates`, `descale_returns`, `scaled_stays_inside`.

Not proved (full statements kept as `FullScaledContractUnsigned`, `FullScaledCapacity`): the unsigned
64/128-bit significand types, and that `to_chars_capacity<scaled_integer>` is always enough (it depends on
the `descale` output for every exponent).  Both are covered by the correspondence sweep only (every value of
8-bit reps × every length 0…capacity+2 × exponents −70…70; `fix` lines at capacity).
The one open finding is `MostNegative` (the most negative value of a ≥ 32-bit type: documented limitation).
-/
namespace Cnl.C13
open Cnl Cnl.Charconv

/-- integers: on a buffer of `len` untouched cells the call returns normally; on success the pointer `p`
satisfies `0 < p ≤ len`, cells `[0,p)` are written and `[p,len)` untouched; on failure the pointer is `last` -/
theorem integer_stays_inside (T : IntTy) (len : Nat) (v : Int) (base : Nat)
    (hb : 2 ≤ base ∧ base ≤ 36) (hm : ¬ MostNegative T v) (hu : T.signed = false → 0 ≤ v) :
    ∃ r, intToChars T (Buf.fresh len) v base = .ok r ∧ Contract len r :=
  intToChars_contract T len v base hb hm hu

example : ¬ MostNegative i32 (-2147483647) ∧ (i32.signed = false → (0 : Int) ≤ -2147483647) := by decide

/-- it succeeds exactly when the canonical numeral fits -/
theorem integer_succeeds_iff_numeral_fits (T : IntTy) (len : Nat) (v : Int) (base : Nat)
    (hb : 2 ≤ base ∧ base ≤ 36) (hm : ¬ MostNegative T v) (hu : T.signed = false → 0 ≤ v) :
    ∃ r, intToChars T (Buf.fresh len) v base = .ok r ∧ r.ok = decide ((intText base v).length ≤ len) :=
  intToChars_ok T len v base hb hm hu

/-- no value at all — not even the unsupported most negative one — makes the integer routine write out of range -/
theorem integer_never_out_of_bounds (T : IntTy) (len : Nat) (v : Int) (base : Nat)
    (hb : 2 ≤ base ∧ base ≤ 36) (hu : T.signed = false → 0 ≤ v) (i : Nat) :
    intToChars T (Buf.fresh len) v base ≠ .oob i := by
  by_cases hm : MostNegative T v
  · have hbb : ¬ (base < 2 ∨ base > 36) := by omega
    have hP : 0 ≤ (promote T).max := by
      unfold IntTy.max
      have h1 : (0 : Int) < 2 ^ ((promote T).bits - 1) := Int.pow_pos (by omega)
      have h2 : (0 : Int) < 2 ^ (promote T).bits := Int.pow_pos (by omega)
      split <;> omega
    have hv : v ≠ 0 := by have := hm.2; omega
    have hn : T.signed = true ∧ v < 0 := ⟨hm.1, by have := hm.2; omega⟩
    unfold intToChars
    rw [if_neg hbb, if_neg hv, if_pos hn]
    by_cases hl : (Buf.fresh len).len < 2
    · rw [if_pos hl]; intro h; cases h
    · have h0 : 0 < (Buf.fresh len).len := by omega
      rw [if_neg hl]
      simp only [Buf.write, h0, if_true, hm.2]
      intro h; cases h
  · obtain ⟨r, hr, _⟩ := intToChars_contract T len v base hb hm hu
    rw [hr]; intro h; cases h

/-- `to_chars_capacity<T>` cells are enough for every supported value of `T` (any width): the fixed-capacity
variants of integers always succeed -/
theorem integer_capacity_suffices (T : IntTy) (v : Int) (hbits : 1 ≤ T.bits) (hr : T.InRange v)
    (hm : ¬ MostNegative T v) :
    ∃ r, intToChars T (Buf.fresh (intCapacity T)) v 10 = .ok r ∧ r.ok = true := by
  have hu : T.signed = false → 0 ≤ v := by
    intro hs; have := hr.1; simp [IntTy.lowest, hs] at this; exact this
  obtain ⟨r, h1, h2⟩ := intToChars_ok T (intCapacity T) v 10 (by omega) hm hu
  exact ⟨r, h1, by rw [h2]; exact decide_eq_true (intText_le_capacity T v hr hbits)⟩

example : i64.InRange (-9223372036854775807) ∧ ¬ MostNegative i64 (-9223372036854775807) := by decide

/-- scaled_integer: the repaired selection never fills a layout without digits or beyond the space, for
every digit count, exponent, exponent-text length and buffer size -/
theorem layout_safe (i : Info) (he : 0 ≤ i.expChars) : Safe choose i := choose_safe i he

/-- the selection as first written does (13 digits, exponent −17, no room left, exponent text "-5") -/
theorem layout_unrepaired_refuted : ¬ Safe chooseOrig ⟨13, -17, 0, 2⟩ := chooseOrig_not_safe

/-- … which the whole unrepaired routine turns into a failed assertion (an out-of-bounds write in release
builds): `scaled_integer<int8_t, power<-20>>` rep −104 into one character -/
theorem scaled_unrepaired_refuted :
    scaledToCharsOrig i8 (-20) 2 1 (-104) = .unreachable "assert: scientific_solution.num_significand_digits > 0" := by
  decide +kernel

/-- the same call on the repaired code: `'-'` written, `value_too_large`, pointer = `last` -/
theorem scaled_repaired_witness :
    scaledToChars i8 (-20) 2 1 (-104) = .ok ⟨some 1, false, ⟨1, [some '-']⟩⟩ := by decide +kernel

/-- the unrepaired `descale` never returns for `scaled_integer<int, power<70>>` rep 3 … -/
theorem descale_unrepaired_diverges : descaleOrig i64 3 70 2 = .diverges := by decide +kernel

/-- … the repaired one does -/
theorem descale_repaired_witness : descale i64 3 70 2 = .ok ⟨354177486215223384, 4, 4⟩ := by decide +kernel

/-- a failed integer conversion used to return a null pointer; now `last` -/
theorem null_pointer_unrepaired_refuted :
    (natResultOrig (none, Buf.fresh 3)).ptr = none ∧ (natResult (none, Buf.fresh 3)).ptr = some 3 := by decide

/-- scaled_integer, the positive-value routine `_impl::to_chars_positive`, for every non-empty digit string,
every exponent, every buffer and every offset `first ≤ last`: either nothing is written and
`{last, value_too_large}` is returned, or a non-empty text that fits is written at `[first, first+|t|)`, nothing
else changes and `{first+|t|, errc{}}` is returned — never `oob`, never a failed assertion -/
theorem scaled_positive_routine (b : Buf) (first : Nat) (ds : List Char) (x : Int)
    (hds : ds ≠ []) (hf : first ≤ b.len) :
    toCharsPositive b first ds x = .ok ⟨some b.len, false, b⟩ ∨
    ∃ t : List Char, 0 < t.length ∧ first + t.length ≤ b.len ∧
      toCharsPositive b first ds x = .ok ⟨some (first + t.length), true,
        ⟨b.len, b.cells.take first ++ t.map some ++ b.cells.drop (first + t.length)⟩⟩ :=
  toCharsPositive_contract b first ds x hds hf

example : ("125".toList ≠ []) ∧ (1 ≤ (Buf.fresh 3).len) := by decide

/-- the repaired `descale` returns for every input, exponent and input radix (signed significand types) -/
theorem descale_terminates (S : IntTy) (hs : S.signed = true) (h8 : 8 ≤ S.bits) (input e : Int) (R : Nat)
    (hR : 1 ≤ R) (hr : S.InRange input) : descale S input e R ≠ .diverges :=
  Charconv.descale_terminates S hs h8 input e R hR hr

/-- … with a non-zero in-range significand of the input's sign: no overflow in `significand *= radix` -/
theorem descale_returns (S : IntTy) (hs : S.signed = true) (h8 : 8 ≤ S.bits) (input e : Int) (R : Nat)
    (hR2 : 2 ≤ R) (hR : R ≤ 10) (hr : S.InRange input) (h0 : input ≠ 0) :
    ∃ d, descale S input e R = .ok d ∧ SigOK S (decide (input < 0)) d.sig :=
  descale_ok S hs h8 input e R hR2 hR hr h0

example : i64.signed = true ∧ 8 ≤ i64.bits ∧ i64.InRange 3 := by decide

/-- `cnl::to_chars(first, last, scaled_integer<T, power<e, radix>>)` for EVERY value, exponent, radix 2…10 and
buffer length (significand type signed: `int64_t` for every rep of at most 63 digits, or a wider signed rep):
the call returns normally and meets the contract (`0 < p ≤ len`, exactly `[0,p)` written; or pointer = `last`
with `value_too_large`) — or the descaled significand is the most negative value (the open finding) -/
theorem scaled_stays_inside (T : IntTy) (e : Int) (radix len : Nat) (rep : Int)
    (hS : (sigTy T).signed = true) (hr : (sigTy T).InRange rep) (hR2 : 2 ≤ radix) (hR : radix ≤ 10) :
    (∃ r, scaledToChars T e radix len rep = .ok r ∧ Contract len r) ∨
    scaledToChars T e radix len rep = .unreachable "assert: most negative value" :=
  scaledToChars_stays_inside T e radix len rep hS hr hR2 hR

example : (sigTy i8).signed = true ∧ (sigTy i8).InRange (-104) := by decide

/-- not proved: the same for the unsigned 64/128-bit significand types (`uint64_t`, `unsigned __int128` reps),
where `significand *= radix` wraps instead of being undefined — covered by the correspondence sweep only -/
def FullScaledContractUnsigned : Prop :=
  ∀ (T : IntTy) (e : Int) (radix len : Nat) (rep : Int), (sigTy T).signed = false → 64 ≤ T.bits →
    2 ≤ radix → radix ≤ 10 → T.InRange rep →
    ∃ r, scaledToChars T e radix len rep = .ok r ∧ Contract len r

/-- full statement: the capacity of `scaled_integer` is enough for every value -/
def FullScaledCapacity : Prop :=
  ∀ (T : IntTy) (e : Int) (rep : Int), 8 ≤ T.bits → -70 ≤ e → e ≤ 70 → T.InRange rep →
    (∃ t, scaledStaticText T e 2 rep = .ok t) ∨
    scaledStaticText T e 2 rep = .unreachable "assert: most negative value"

end Cnl.C13
