import CnlModel.Basic
