import CnlModel.Layered
