import CnlProofs.Scaled
import CnlProofs.ScaledReps
/-!
# C01 — `scaled_integer` `+`, `-`, `*` and unary `-` are exact on `rep · radix^exponent`

`sc T e ρ v` is the number `scaled_integer<T, power<e, ρ>>` with representation value `v`
(`T` a built-in integer type of **any** width `bits ≥ 1`, signed or unsigned; `e` any exponent;
`ρ ≥ 2` any radix); it denotes `v · ρ^e`.  `Layered.bin / un` are the executable model of the
operators (`scaled/binary_operator.h`, `scaled/unary_operator.h`, `scaled/definition.h`,
`num_traits/scale.h`, `power_value.h`, the wrapper dispatch of `wrapper/binary_arithmetic_operator.h`).

With `c = min eL eR`, `aligned ρ eL c l = l · ρ^(eL-c)` is the left operand re-expressed at the
common exponent `c` (an integer — the exponent difference is never negative, `no_division`), so
`l · ρ^eL = aligned ρ eL c l · ρ^c`, and sums / differences of denoted values are sums / differences
of aligned representations at exponent `c`.  `T = usualArith L R` is the C++ result type of the
built-in operator on the two (promoted) representation types.

* `add_sub_exact` — `+`/`-`: result type `T`, exponent `min eL eR`, representation exactly
  `aligned l ± aligned r`, whenever (the property's restriction) the aligned operands fit their
  promoted representation types and the exact result fits `T`.
* `no_digit_discarded` — the result re-expressed at any finer exponent `b` is the sum/difference of
  the operands re-expressed at `b`: no low-order digit of either operand is lost.
* `mul_exact` — `*`: exponent `eL + eR`, representation exactly `l · r`, whenever that fits `T`.
* `guard_characterised`, `guard_iff`, `mul_guard_characterised` — for signed (promoted)
  representation types the restriction is *exactly* the set of inputs on which the evaluation is
  defined; outside it the evaluation executes a signed overflow.  `unsigned_wraps`,
  `mul_unsigned_wraps`: for an unsigned common type nothing is undefined, the result is reduced
  modulo `2^bits`.
* `neg_exact`, `neg_guard_characterised`, `neg_unsigned_wraps` — unary minus.
* `add_sub_denotes`, `mul_denotes`, `neg_denotes` — the representations named above denote, as exact
  rationals `den ρ rep e = rep · ρ^e`, the sum / difference / product / negation of the operands' values.
* `lifted_builtin_right/left` — a built-in integer operand behaves as exponent 0.
* `wellformed_iff` — the hypothesis `PowOk S k ρ` (the instantiation of `power_value<S, k, ρ>`
  compiles) is exactly "the model does not report an ill-formed program".

`PowOk` is trivially true for equal exponents (`k = 0`).

## Wrapped representations (table `C01w`, model `CnlModel/ScaledReps.lean`) — last section

* `ov_neg_exact`, `ov_mul_exact`, `ov_add_sub_exact` — `scaled_integer<overflow_integer<T, tag>, power<e, ρ>>` under every
  *reacting* tag (saturated, throwing, trapping, undefined), every width and signedness mix: unary minus (judged in
  the promoted type: `-x` of an unsigned 8/16-bit representation is an exact negative `int`), `*`, and `+ -` on equal
  exponents return exactly the negation / product / sum / difference **as a value — no saturation, throw or trap** —
  whenever it fits the result type; `ov_neg_reaction`, `ov_mul_reaction`, `ov_add_sub_reaction`: for *all* in-range
  operands the outcome is the one the tag prescribes for the exact result alone (`Spec.checkedWant`, C06's specification).
  `+ -` on *different* exponents under a reacting tag (the alignment is a tagged multiplication by a tagged power,
  `ScaledReps.scaleOv`) and the native tag over `overflow_integer` are covered by the correspondence table only.
* `safe_bin_is_elastic`, `safe_neg_is_elastic` — over `overflow_integer<elastic_integer<D, N>, tag>` the model is the
  elastic_scaled_integer model whatever the tag (no test of the overflow layer can fire — a claim checked against
  the code by the correspondence table); exactness for all digits / exponents / signedness mixes is then
  `C05.scaled_binOp_exact`, `C05.scaled_neg_exact`.
* `builtin_operand_right/left` — a built-in integer combined with an elastic representation (`*`, and `+ -` at
  exponent 0) is the elastic number `elastic_integer<digits T, set_width_t<T, width N>>` of exponent 0 — `T`'s own
  signedness, so a negative `int` against an unsigned narrowest type keeps its value; exactness again by C05.  With a
  non-zero exponent the built-in operand is first scaled in its own promoted type: by correspondence only.
* `ww_add_sub_exact`, `ww_mul_exact` — `scaled_integer<wide_integer<D, N>, power<e, ρ>>` over MULTI-WORD storage (any limb
  width and count, any radix `ρ`, any exponents): whenever the power `ρ^d`, the aligned operands `rep · ρ^d` (`d` = own
  exponent minus the smaller one — a power of the **radix**, not of two) and the exact sum / difference / product fit the
  two's-complement storage, the result is exactly that, in `wide_integer<max(D1, D2), N>` at the exponent
  `min eL eR` (`eL + eR` for `*`).  (That the limb routines of `uintwide_t` are arithmetic modulo `2^(limbs·width)` is
  C10's theorem; operands of different limb counts are outside the model.)
* `constant_operand_signed`, `constant_operand_right/left` — a `cnl::constant<V>` next to a scaled_integer of ANY
  representation (unsigned ones included) becomes a scaled_integer over a **signed** built-in integer holding `V`
  exactly (`rep · 2^e = V`), and the operator is the one between the two scaled_integers: exactness is then
  `add_sub_exact` / `mul_exact` above with that signed right/left type.  Elastic representations next to a constant
  (`ScaledReps.binCE`): by correspondence only.
-/
namespace Cnl.C01
open Cnl Cnl.Spec Cnl.Layered Cnl.ScaledP
open Cnl.Elastic (AOp.toBin)

/-- the alignment of the operands of `+`/`-` multiplies, it never divides: both exponent
differences are non-negative, one of them is zero -/
theorem no_division (eL eR : Int) :
    0 ≤ eL - min eL eR ∧ 0 ≤ eR - min eL eR ∧ (eL - min eL eR = 0 ∨ eR - min eL eR = 0) := by omega

/-- `+` and `-` are exact at the smaller exponent (all widths, exponents, radixes) -/
theorem add_sub_exact (op : AOp) (hop : op = .add ∨ op = .sub)
    (L R : IntTy) (hL : 1 ≤ L.bits) (hR : 1 ≤ R.bits) (eL eR : Int) (ρ : Nat) (hρ : 2 ≤ ρ)
    (l r : Int) (hl : L.InRange l) (hr : R.InRange r)
    (hwL : PowOk L (eL - min eL eR).toNat ρ) (hwR : PowOk R (eR - min eL eR).toNat ρ)
    (hal : (promote L).InRange (aligned ρ eL (min eL eR) l))
    (har : (promote R).InRange (aligned ρ eR (min eL eR) r))
    (hres : (usualArith L R).InRange (exact op (aligned ρ eL (min eL eR) l) (aligned ρ eR (min eL eR) r))) :
    Layered.bin (AOp.toBin op) (sc L eL ρ l) (sc R eR ρ r)
      = .ok (sc (usualArith L R) (min eL eR) ρ
              (exact op (aligned ρ eL (min eL eR) l) (aligned ρ eR (min eL eR) r))) := by
  have hring : IsRing op := by rcases hop with h | h <;> simp [IsRing, h]
  rw [bin_aligned op hop L R hL hR eL eR ρ hρ l r hl hr hwL hwR hal har,
    cBin_ring_exact op hring (usualArith_alTy L R eL eR)
      (fun hs => ⟨inRange_common_left hal (Or.inl hs), inRange_common_right har (Or.inl hs)⟩) hres]
  rfl

/-- radix 2, the common case: `PowOk` is the `static_assert` of `power_value` -/
theorem add_sub_exact_radix2 (op : AOp) (hop : op = .add ∨ op = .sub)
    (L R : IntTy) (hL : 1 ≤ L.bits) (hR : 1 ≤ R.bits) (eL eR : Int)
    (l r : Int) (hl : L.InRange l) (hr : R.InRange r)
    (hwL : eL = min eL eR ∨ (eL - min eL eR).toNat < (promote L).digits)
    (hwR : eR = min eL eR ∨ (eR - min eL eR).toNat < (promote R).digits)
    (hal : (promote L).InRange (l * 2 ^ (eL - min eL eR).toNat))
    (har : (promote R).InRange (r * 2 ^ (eR - min eL eR).toNat))
    (hres : (usualArith L R).InRange (exact op (l * 2 ^ (eL - min eL eR).toNat) (r * 2 ^ (eR - min eL eR).toNat))) :
    Layered.bin (AOp.toBin op) (sc L eL 2 l) (sc R eR 2 r)
      = .ok (sc (usualArith L R) (min eL eR) 2
              (exact op (l * 2 ^ (eL - min eL eR).toNat) (r * 2 ^ (eR - min eL eR).toNat))) := by
  apply add_sub_exact op hop L R hL hR eL eR 2 (Nat.le_refl 2) l r hl hr _ _ hal har hres
  · rcases hwL with h | h
    · left; omega
    · right; simpa using h
  · rcases hwR with h | h
    · left; omega
    · right; simpa using h

/-- no low-order digit is discarded: at every exponent `b` at or below the result's, the result is
the exact sum / difference of the two operands expressed at `b` -/
theorem no_digit_discarded (op : AOp) (hop : op = .add ∨ op = .sub) (ρ : Nat) (eL eR b : Int)
    (hb : b ≤ min eL eR) (l r : Int) :
    aligned ρ (min eL eR) b (exact op (aligned ρ eL (min eL eR) l) (aligned ρ eR (min eL eR) r))
      = exact op (aligned ρ eL b l) (aligned ρ eR b r) := by
  have h1 := aligned_aligned ρ (show min eL eR ≤ eL by omega) hb l
  have h2 := aligned_aligned ρ (show min eL eR ≤ eR by omega) hb r
  rcases hop with h | h <;> subst h <;> simp only [exact]
  · rw [aligned_add, h1, h2]
  · rw [aligned_sub, h1, h2]

/-- `*` is exact, the exponents add: no alignment, no condition other than the product fitting -/
theorem mul_exact (L R : IntTy) (hL : 1 ≤ L.bits) (hR : 1 ≤ R.bits) (eL eR : Int) (ρ : Nat)
    (l r : Int) (hl : L.InRange l) (hr : R.InRange r)
    (hres : (usualArith L R).InRange (l * r)) :
    Layered.bin .mul (sc L eL ρ l) (sc R eR ρ r) = .ok (sc (usualArith L R) (eL + eR) ρ (l * r)) := by
  have h := bin_direct .mul (Or.inl rfl) L R eL eR ρ l r
  have hring : IsRing .mul := by simp [IsRing]
  rw [show AOp.toBin .mul = BinOp.mul from rfl] at h
  rw [h, show BinOp.mul = AOp.toBin .mul from rfl, cBin_ring_exact .mul hring rfl
      (fun hs => ⟨inRange_common_of_left hL hl (Or.inl hs), inRange_common_of_right hR hr (Or.inl hs)⟩) hres]
  rfl

/-- signed promoted representation types: the evaluation of `+`/`-` is defined **exactly** on the
property's restriction, and is a signed overflow outside it -/
theorem guard_characterised (op : AOp) (hop : op = .add ∨ op = .sub)
    (L R : IntTy) (hL : 1 ≤ L.bits) (hR : 1 ≤ R.bits) (eL eR : Int) (ρ : Nat) (hρ : 2 ≤ ρ)
    (l r : Int) (hl : L.InRange l) (hr : R.InRange r)
    (hwL : PowOk L (eL - min eL eR).toNat ρ) (hwR : PowOk R (eR - min eL eR).toNat ρ)
    (hsL : (promote L).signed = true) (hsR : (promote R).signed = true) :
    Layered.bin (AOp.toBin op) (sc L eL ρ l) (sc R eR ρ r)
      = if (promote L).InRange (aligned ρ eL (min eL eR) l) ∧ (promote R).InRange (aligned ρ eR (min eL eR) r)
            ∧ (usualArith L R).InRange (exact op (aligned ρ eL (min eL eR) l) (aligned ρ eR (min eL eR) r))
        then .ok (sc (usualArith L R) (min eL eR) ρ (exact op (aligned ρ eL (min eL eR) l) (aligned ρ eR (min eL eR) r)))
        else .ub .signedOverflow :=
  bin_signed_guard op hop L R hL hR eL eR ρ hρ l r hl hr hwL hwR hsL hsR

/-- … in particular the model returns a value iff the restriction holds -/
theorem guard_iff (op : AOp) (hop : op = .add ∨ op = .sub)
    (L R : IntTy) (hL : 1 ≤ L.bits) (hR : 1 ≤ R.bits) (eL eR : Int) (ρ : Nat) (hρ : 2 ≤ ρ)
    (l r : Int) (hl : L.InRange l) (hr : R.InRange r)
    (hwL : PowOk L (eL - min eL eR).toNat ρ) (hwR : PowOk R (eR - min eL eR).toNat ρ)
    (hsL : (promote L).signed = true) (hsR : (promote R).signed = true) :
    (∃ v, Layered.bin (AOp.toBin op) (sc L eL ρ l) (sc R eR ρ r) = .ok v)
      ↔ ((promote L).InRange (aligned ρ eL (min eL eR) l) ∧ (promote R).InRange (aligned ρ eR (min eL eR) r)
          ∧ (usualArith L R).InRange (exact op (aligned ρ eL (min eL eR) l) (aligned ρ eR (min eL eR) r))) := by
  rw [guard_characterised op hop L R hL hR eL eR ρ hρ l r hl hr hwL hwR hsL hsR]
  split
  · rename_i h; exact ⟨fun _ => h, fun _ => ⟨_, rfl⟩⟩
  · rename_i h
    constructor
    · intro ⟨v, hv⟩; cases hv
    · intro h'; exact absurd h' h

/-- unsigned common type (some operand of unsigned type of rank ≥ `int` and ≥ the other's):
nothing is undefined once the aligned operands fit; the result is reduced modulo `2^bits` -/
theorem unsigned_wraps (op : AOp) (hop : op = .add ∨ op = .sub)
    (L R : IntTy) (hL : 1 ≤ L.bits) (hR : 1 ≤ R.bits) (eL eR : Int) (ρ : Nat) (hρ : 2 ≤ ρ)
    (l r : Int) (hl : L.InRange l) (hr : R.InRange r)
    (hwL : PowOk L (eL - min eL eR).toNat ρ) (hwR : PowOk R (eR - min eL eR).toNat ρ)
    (hal : (promote L).InRange (aligned ρ eL (min eL eR) l))
    (har : (promote R).InRange (aligned ρ eR (min eL eR) r))
    (hT : (usualArith L R).signed = false) :
    Layered.bin (AOp.toBin op) (sc L eL ρ l) (sc R eR ρ r)
      = .ok (sc (usualArith L R) (min eL eR) ρ
              ((usualArith L R).wrap (exact op (aligned ρ eL (min eL eR) l) (aligned ρ eR (min eL eR) r)))) := by
  have hring : IsRing op := by rcases hop with h | h <;> simp [IsRing, h]
  rw [bin_aligned op hop L R hL hR eL eR ρ hρ l r hl hr hwL hwR hal har,
    cBin_ring_unsigned op hring (usualArith_alTy L R eL eR) hT]
  rfl

/-- `*`, signed common type: defined exactly when the product fits -/
theorem mul_guard_characterised (L R : IntTy) (hL : 1 ≤ L.bits) (hR : 1 ≤ R.bits) (eL eR : Int) (ρ : Nat)
    (l r : Int) (hl : L.InRange l) (hr : R.InRange r) (hT : (usualArith L R).signed = true) :
    Layered.bin .mul (sc L eL ρ l) (sc R eR ρ r)
      = if (usualArith L R).InRange (l * r) then .ok (sc (usualArith L R) (eL + eR) ρ (l * r))
        else .ub .signedOverflow := by
  have h := bin_direct .mul (Or.inl rfl) L R eL eR ρ l r
  have hring : IsRing .mul := by simp [IsRing]
  rw [show AOp.toBin .mul = BinOp.mul from rfl] at h
  rw [h, show BinOp.mul = AOp.toBin .mul from rfl, cBin_ring_signed .mul hring rfl hT
      (inRange_common_of_left hL hl (Or.inl hT)) (inRange_common_of_right hR hr (Or.inl hT))]
  show wrapAt _ ρ (if (usualArith L R).InRange (l * r) then _ else _) = _
  by_cases hh : (usualArith L R).InRange (l * r) <;> simp only [hh, ite_true, ite_false] <;> rfl

/-- `*`, unsigned common type: wraps -/
theorem mul_unsigned_wraps (L R : IntTy) (eL eR : Int) (ρ : Nat) (l r : Int)
    (hT : (usualArith L R).signed = false) :
    Layered.bin .mul (sc L eL ρ l) (sc R eR ρ r)
      = .ok (sc (usualArith L R) (eL + eR) ρ ((usualArith L R).wrap (l * r))) := by
  have h := bin_direct .mul (Or.inl rfl) L R eL eR ρ l r
  have hring : IsRing .mul := by simp [IsRing]
  rw [show AOp.toBin .mul = BinOp.mul from rfl] at h
  rw [h, show BinOp.mul = AOp.toBin .mul from rfl, cBin_ring_unsigned .mul hring rfl hT]
  rfl

/-- unary minus: same exponent, promoted representation type, representation exactly `-l` -/
theorem neg_exact (L : IntTy) (hL : 1 ≤ L.bits) (e : Int) (ρ : Nat) (l : Int) (hl : L.InRange l)
    (hres : (promote L).InRange (-l)) :
    Layered.un .neg (sc L e ρ l) = .ok (sc (promote L) e ρ (-l)) := by
  have hb := promote_bits_pos L
  rw [neg_sc]
  simp only [cNeg, IntTy.wrap_id hb (promote_inRange hL hl), arith_ok hb hres]
  rfl

/-- unary minus, signed promoted type: defined exactly when `-l` fits (i.e. `l` is not the most
negative value of a type of rank ≥ `int`) -/
theorem neg_guard_characterised (L : IntTy) (hL : 1 ≤ L.bits) (e : Int) (ρ : Nat) (l : Int) (hl : L.InRange l)
    (hs : (promote L).signed = true) :
    Layered.un .neg (sc L e ρ l)
      = if (promote L).InRange (-l) then .ok (sc (promote L) e ρ (-l)) else .ub .signedOverflow := by
  have hb := promote_bits_pos L
  rw [neg_sc]
  simp only [cNeg, IntTy.wrap_id hb (promote_inRange hL hl), arith_signed hs]
  split <;> rfl

/-- unary minus, unsigned promoted type (`unsigned`, `unsigned long`, …): wraps -/
theorem neg_unsigned_wraps (L : IntTy) (hL : 1 ≤ L.bits) (e : Int) (ρ : Nat) (l : Int) (hl : L.InRange l)
    (hs : (promote L).signed = false) :
    Layered.un .neg (sc L e ρ l) = .ok (sc (promote L) e ρ ((promote L).wrap (-l))) := by
  have hb := promote_bits_pos L
  rw [neg_sc]
  simp only [cNeg, IntTy.wrap_id hb (promote_inRange hL hl), arith_unsigned hs]
  rfl

/-- a built-in integer on the right is treated as a scaled integer of exponent 0 (every operator) -/
theorem lifted_builtin_right (op : BinOp) (L R : IntTy) (eL : Int) (ρ : Nat) (l r : Int) :
    Layered.bin op (sc L eL ρ l) (.int R, r) = Layered.bin op (sc L eL ρ l) (sc R 0 ρ r) := by
  cases op <;> rfl

/-- … and on the left (arithmetic and bitwise operators; a shift's left operand decides its type) -/
theorem lifted_builtin_left (op : BinOp) (hs : Native.isShift op = false) (L R : IntTy) (eR : Int) (ρ : Nat) (l r : Int) :
    Layered.bin op (.int L, l) (sc R eR ρ r) = Layered.bin op (sc L 0 ρ l) (sc R eR ρ r) := by
  cases op <;> first | rfl | (simp [Native.isShift] at hs)

/-- the well-formedness hypothesis `PowOk` is exactly "`power_value<S, k, ρ>` compiles"
(`ρ` is an `int` template argument) -/
theorem wellformed_iff (S : IntTy) (k ρ : Nat) (hρ : 2 ≤ ρ) (hρi : (ρ:Int) ≤ 2147483647) :
    (∃ v, powerValueInt S k ρ = .ok v) ↔ PowOk S k ρ :=
  powerValueInt_ok_iff S k ρ hρ hρi

theorem not_wellformed_ill (S : IntTy) (k ρ : Nat) (hρ : 2 ≤ ρ) (hρi : (ρ:Int) ≤ 2147483647)
    (h : ¬ PowOk S k ρ) : ∃ m, powerValueInt S k ρ = .ill m :=
  powerValueInt_ill S k ρ hρ hρi h

/-! ### the same statements about the denoted rational values `den ρ rep e = rep · ρ^e` -/

/-- the representation `aligned l ± aligned r` at exponent `min eL eR` denotes exactly the
sum / difference of the denoted values of the operands -/
theorem add_sub_denotes (op : AOp) (hop : op = .add ∨ op = .sub) (ρ : Nat) (hρ : 2 ≤ ρ) (eL eR l r : Int) :
    den ρ (exact op (aligned ρ eL (min eL eR) l) (aligned ρ eR (min eL eR) r)) (min eL eR)
      = (match op with | .sub => den ρ l eL - den ρ r eR | _ => den ρ l eL + den ρ r eR) := by
  have h1 := den_aligned ρ hρ (show min eL eR ≤ eL by omega) l
  have h2 := den_aligned ρ hρ (show min eL eR ≤ eR by omega) r
  rcases hop with h | h <;> subst h <;> simp only [exact]
  · rw [den_add, h1, h2]
  · rw [den_sub, h1, h2]

/-- the representation `l · r` at exponent `eL + eR` denotes the product of the denoted values -/
theorem mul_denotes (ρ : Nat) (hρ : 2 ≤ ρ) (eL eR l r : Int) :
    den ρ (l * r) (eL + eR) = den ρ l eL * den ρ r eR := den_mul ρ hρ l r eL eR

theorem neg_denotes (ρ : Nat) (e l : Int) : den ρ (-l) e = -den ρ l e := den_neg ρ l e

/-! Non-vacuity: concrete instances (hypotheses satisfiable, results as stated). -/

-- sc(i32,-4) + sc(u16,3): 17·2^-4 + 5·2^3 = (17 + 640)·2^-4
example : Layered.bin .add (sc i32 (-4) 2 17) (sc u16 3 2 5) = .ok (sc i32 (-4) 2 657) := by decide
example : PowOk u16 (3 - min (-4) 3 : Int).toNat 2 ∧ (promote u16).InRange (aligned 2 3 (min (-4) 3) 5)
    ∧ exact .add (aligned 2 (-4) (min (-4) 3) 17) (aligned 2 3 (min (-4) 3) 5) = 657 := by decide
-- radix 10, signed 64-bit times signed 16-bit
example : Layered.bin .mul (sc i64 (-6) 10 1234567) (sc i16 (-3) 10 (-250))
    = .ok (sc i64 (-9) 10 (-308641750)) := by decide +kernel
-- radix 10 alignment by 10^3
example : Layered.bin .sub (sc i32 0 10 7) (sc i8 (-3) 10 (-5)) = .ok (sc i32 (-3) 10 7005) := by decide
-- outside the restriction: the alignment overflows `int`
example : Layered.bin .add (sc i32 20 2 4096) (sc i32 0 2 1) = .ub .signedOverflow := by decide
-- unsigned common type wraps
example : Layered.bin .sub (sc u32 0 2 1) (sc u32 0 2 2) = .ok (sc u32 0 2 4294967295) := by decide
example : Layered.un .neg (sc i8 5 2 (-128)) = .ok (sc i32 5 2 128) := by decide
example : Layered.bin .add (sc i16 (-2) 2 3) (.int i32, 5) = .ok (sc i32 (-2) 2 23) := by decide
-- ill-formed instantiation: `power_value<int, 31, 2>`
example : ¬ PowOk i32 31 2 := by decide

/-! ## wrapped representations (`CnlModel/ScaledReps.lean`, table `C01w`) -/

open Cnl.ScaledReps Cnl.ScaledRepsP Cnl.Overflow in
/-- unary minus over `overflow_integer<L, tag>`, every reacting tag, all in-range operands: the outcome the tag
prescribes for the exact `-l` in the promoted type, at the same exponent -/
theorem ov_neg_reaction (tag : OvTag) (ht : tag ≠ .nat) (L : IntTy) (hL : 1 ≤ L.bits) (e : Int) (ρ : Nat) (l : Int)
    (hl : L.InRange l) :
    negO (scOv L tag e ρ l) = wrapOv tag e ρ (checkedWant tag (promote L) (-l)) := by
  rw [negO_checked tag ht, checkedNeg_eq ht hL hl]

open Cnl.ScaledReps Cnl.ScaledRepsP Cnl.Overflow in
/-- … in particular a value, exactly `-l`, whenever that fits the promoted type: `-x` of an unsigned 8/16-bit
representation never signals -/
theorem ov_neg_exact (tag : OvTag) (ht : tag ≠ .nat) (L : IntTy) (hL : 1 ≤ L.bits) (e : Int) (ρ : Nat) (l : Int)
    (hl : L.InRange l) (hres : (promote L).InRange (-l)) :
    negO (scOv L tag e ρ l) = .ok (scOv (promote L) tag e ρ (-l)) := by
  rw [ov_neg_reaction tag ht L hL e ρ l hl, want_in hres]; rfl

open Cnl.ScaledReps Cnl.ScaledRepsP Cnl.Overflow in
theorem ov_mul_reaction (tag : OvTag) (ht : tag ≠ .nat) (L R : IntTy) (hL : 1 ≤ L.bits) (hR : 1 ≤ R.bits)
    (eL eR : Int) (ρ : Nat) (l r : Int) (hl : L.InRange l) (hr : R.InRange r) :
    binO .mul (scOv L tag eL ρ l) (scOv R tag eR ρ r)
      = wrapOv tag (eL + eR) ρ (checkedWant tag (usualArith L R) (l * r)) := by
  rw [binO_mul_checked tag ht, builtin_mul_eq ht hL hR hl hr]

open Cnl.ScaledReps Cnl.ScaledRepsP Cnl.Overflow in
/-- `*` over overflow_integer representations: exact, exponents add, no signal whenever the product fits -/
theorem ov_mul_exact (tag : OvTag) (ht : tag ≠ .nat) (L R : IntTy) (hL : 1 ≤ L.bits) (hR : 1 ≤ R.bits)
    (eL eR : Int) (ρ : Nat) (l r : Int) (hl : L.InRange l) (hr : R.InRange r)
    (hres : (usualArith L R).InRange (l * r)) :
    binO .mul (scOv L tag eL ρ l) (scOv R tag eR ρ r) = .ok (scOv (usualArith L R) tag (eL + eR) ρ (l * r)) := by
  rw [ov_mul_reaction tag ht L R hL hR eL eR ρ l r hl hr, want_in hres]; rfl

open Cnl.ScaledReps Cnl.ScaledRepsP Cnl.Overflow in
theorem ov_add_sub_reaction (op : AOp) (hop : op = .add ∨ op = .sub) (tag : OvTag) (ht : tag ≠ .nat) (L R : IntTy)
    (hL : 1 ≤ L.bits) (hR : 1 ≤ R.bits) (e : Int) (ρ : Nat) (l r : Int) (hl : L.InRange l) (hr : R.InRange r) :
    binO (AOp.toBin op) (scOv L tag e ρ l) (scOv R tag e ρ r)
      = wrapOv tag e ρ (checkedWant tag (usualArith L R) (exact op l r)) := by
  rcases hop with h | h <;> subst h
  · rw [show AOp.toBin .add = BinOp.add from rfl, binO_addsub_checked .add (Or.inl rfl) tag ht,
      builtin_add_eq ht hL hR hl hr]; rfl
  · rw [show AOp.toBin .sub = BinOp.sub from rfl, binO_addsub_checked .sub (Or.inr rfl) tag ht,
      builtin_sub_eq ht hL hR hl hr]; rfl

open Cnl.ScaledReps Cnl.ScaledRepsP Cnl.Overflow in
/-- `+ -` on equal exponents over overflow_integer representations: exact, no signal whenever the result fits -/
theorem ov_add_sub_exact (op : AOp) (hop : op = .add ∨ op = .sub) (tag : OvTag) (ht : tag ≠ .nat) (L R : IntTy)
    (hL : 1 ≤ L.bits) (hR : 1 ≤ R.bits) (e : Int) (ρ : Nat) (l r : Int) (hl : L.InRange l) (hr : R.InRange r)
    (hres : (usualArith L R).InRange (exact op l r)) :
    binO (AOp.toBin op) (scOv L tag e ρ l) (scOv R tag e ρ r) = .ok (scOv (usualArith L R) tag e ρ (exact op l r)) := by
  rw [ov_add_sub_reaction op hop tag ht L R hL hR e ρ l r hl hr, want_in hres]; rfl

/-- over `overflow_integer<elastic_integer<D, N>, tag>` `+ - *` are the elastic_scaled_integer operators, whatever the tag -/
theorem safe_bin_is_elastic (tag : OvTag) (op : BinOp) (hop : op = .add ∨ op = .sub ∨ op = .mul)
    (x y : ElasticScaled.ESNum) : ScaledReps.binOE tag op x y = ElasticScaled.binOp op x y := by
  rcases hop with h | h | h <;> subst h <;> rfl

theorem safe_neg_is_elastic (tag : OvTag) (x : ElasticScaled.ESNum) : ScaledReps.negOE tag x = ElasticScaled.neg x := rfl

/-- a built-in integer on the right of an elastic representation (`*`; `+ -` at exponent 0) -/
theorem builtin_operand_right (op : BinOp) (x : ElasticScaled.ESNum) (B : IntTy) (b : Int)
    (h : op = .mul ∨ ((op = .add ∨ op = .sub) ∧ x.exp = 0)) :
    ScaledReps.binOpB x.narrowest op (.es x) (.builtin B b)
      = ElasticScaled.binOp op x (ScaledReps.ofBuiltin x.narrowest B b 0) :=
  ScaledRepsP.binOpB_right_eq op x B b h

theorem builtin_operand_left (op : BinOp) (x : ElasticScaled.ESNum) (B : IntTy) (b : Int)
    (h : op = .mul ∨ ((op = .add ∨ op = .sub) ∧ x.exp = 0)) :
    ScaledReps.binOpB x.narrowest op (.builtin B b) (.es x)
      = ElasticScaled.binOp op (ScaledReps.ofBuiltin x.narrowest B b 0) x :=
  ScaledRepsP.binOpB_left_eq op x B b h

-- non-vacuity: -12.5 over overflow_integer<uint8_t, saturated>: rep 200 at exponent -4 gives the int -200
example : ScaledReps.negO (ScaledReps.scOv u8 .sat (-4) 2 200) = .ok (ScaledReps.scOv i32 .sat (-4) 2 (-200)) := by decide
example : u8.InRange 200 ∧ (promote u8).InRange (-200) := by decide
example : ScaledReps.negO (ScaledReps.scOv u32 .thr 0 2 1) = .throws false := by decide
example : ScaledReps.binO .mul (ScaledReps.scOv i16 .trp (-8) 2 (-300)) (ScaledReps.scOv u8 .trp 3 2 255)
    = .ok (ScaledReps.scOv i32 .trp (-5) 2 (-76500)) := by decide +kernel
example : ScaledReps.binO .sub (ScaledReps.scOv u32 .sat (-4) 2 5) (ScaledReps.scOv u32 .sat (-4) 2 600)
    = .ok (ScaledReps.scOv u32 .sat (-4) 2 0) := by decide
-- different exponents under a reacting tag (correspondence only): 3·2^-1 + 5·2^2 = 43·2^-1, radix 10: 7 − (−5)·10^-3
example : ScaledReps.binO .add (ScaledReps.scOv u8 .sat (-1) 2 3) (ScaledReps.scOv i16 .sat 2 2 5)
    = .ok (ScaledReps.scOv i32 .sat (-1) 2 43) := by decide +kernel
example : ScaledReps.binO .sub (ScaledReps.scOv i32 .trp 0 10 7) (ScaledReps.scOv i8 .trp (-3) 10 (-5))
    = .ok (ScaledReps.scOv i32 .trp (-3) 10 7005) := by decide +kernel
-- safe unsigned fixed point: 0.3125 − 37.5 = −595·2^-4 in a signed 10-digit result
example : ScaledReps.binOE .sat .sub ⟨10, u32, -4, 5⟩ ⟨10, u32, -4, 600⟩ = .ok ⟨10, i32, -4, -595⟩ := by decide
-- elastic_integer<40, unsigned> at exponent -8 plus the int -3: 10^12 − 768, in a signed 41-digit result
example : ScaledReps.binOpB u32 .add (.es ⟨40, u32, -8, 1000000000000⟩) (.builtin i32 (-3))
    = .ok ⟨41, i32, -8, 999999999232⟩ := by decide
example : ScaledReps.binOpB u8 .mul (.builtin i8 (-3)) (.es ⟨12, u8, 0, 4000⟩) = .ok ⟨19, i8, 0, -12000⟩ := by decide

/-! ### multi-word wide_integer representations, `constant<V>` operands -/

open Cnl.ScaledReps Cnl.ScaledRepsP in
/-- `+ -` over multi-word `wide_integer` storage `f`: alignment multiplies by `ρ^d` and the result is exact whenever powers,
aligned operands and result fit the storage -/
theorem ww_add_sub_exact (op : BinOp) (hop : op = .add ∨ op = .sub) (ρ : Nat) (x y : WNum) (f : Wide.Fmt) (hN : 1 ≤ f.N)
    (hx : wFmt x.digits x.narrowest = some f) (hy : wFmt y.digits y.narrowest = some f) (hn : x.narrowest = y.narrowest)
    (a b : Int)
    (ha : a = x.value * (ρ : Int)^(x.exp - min x.exp y.exp).toNat) (hb : b = y.value * (ρ : Int)^(y.exp - min x.exp y.exp).toNat)
    (hpa : InBits f.N f.signed ((ρ : Int)^(x.exp - min x.exp y.exp).toNat))
    (hpb : InBits f.N f.signed ((ρ : Int)^(y.exp - min x.exp y.exp).toNat))
    (hfa : InBits f.N f.signed a) (hfb : InBits f.N f.signed b)
    (hr : InBits f.N f.signed (if op = .add then a + b else a - b)) :
    wwBin ρ op x y = .ok ⟨max x.digits y.digits, x.narrowest, min x.exp y.exp, if op = .add then a + b else a - b⟩ :=
  wwBin_add_sub_exact op hop ρ x y f hN hx hy hn a b ha hb hpa hpb hfa hfb hr

open Cnl.ScaledReps Cnl.ScaledRepsP in
theorem ww_mul_exact (ρ : Nat) (x y : WNum) (f : Wide.Fmt) (hN : 1 ≤ f.N)
    (hx : wFmt x.digits x.narrowest = some f) (hy : wFmt y.digits y.narrowest = some f) (hn : x.narrowest = y.narrowest)
    (hr : InBits f.N f.signed (x.value * y.value)) :
    wwBin ρ .mul x y = .ok ⟨max x.digits y.digits, x.narrowest, x.exp + y.exp, x.value * y.value⟩ :=
  wwBin_mul_exact ρ x y f hN hx hy hn hr

open Cnl.ScaledReps Cnl.ScaledRepsP in
/-- whatever the representation of the scaled_integer next to it, a `constant<V>` is a scaled_integer over a signed
built-in integer, of radix 2, holding `V` exactly -/
theorem constant_operand_signed (v : Int) (c : Num) (h : constNum v = .ok c) :
    ∃ t e, c.1 = .sc (.int t) (e : Nat) 2 ∧ t.signed = true ∧ c.2 * (2 : Int)^e = v :=
  constNum_signed v c h

open Cnl.ScaledReps in
theorem constant_operand_right (op : BinOp) (x : Num) (v : Int) (c : Num) (h : constNum v = .ok c) :
    binC op false x v = Layered.bin op x c := by
  simp [binC, h, bind, Res.bind]

open Cnl.ScaledReps in
theorem constant_operand_left (op : BinOp) (x : Num) (v : Int) (c : Num) (h : constNum v = .ok c) :
    binC op true x v = Layered.bin op c x := by
  simp [binC, h, bind, Res.bind]

-- non-vacuity: 3.25 + 1.5 in decimal fixed point over wide_integer<200> (7 limbs of 32 bits): 325·10^2 + 15000 at 10^-4
example : ScaledReps.wFmt 200 i32 = some ⟨32, 7, true⟩ := by decide
example : ScaledReps.wwBin 10 .add ⟨200, i32, -2, 325⟩ ⟨200, i32, -4, 15000⟩ = .ok ⟨200, i32, -4, 47500⟩ := by decide +kernel
example : ScaledRepsP.InBits 224 true ((10 : Int)^2) ∧ ScaledRepsP.InBits 224 true (325 * (10 : Int)^2) ∧ ScaledRepsP.InBits 224 true 47500 := by
  decide +kernel
-- beyond the storage the result wraps (outside the hypotheses): 2^223 + 2^223 in 224 bits
example : ScaledReps.wwBin 2 .add ⟨223, i32, 0, 2^222⟩ ⟨223, i32, 0, 2^222⟩ = .ok ⟨223, i32, 0, -(2^223)⟩ := by decide +kernel
-- scaled_integer<uint8_t, power<-4>>{1.5} + constant<-3>: the int -24 at exponent -4, i.e. -1.5
example : ScaledReps.constNum (-3) = .ok (.sc (.int i32) 0 2, -3) := by decide +kernel
example : ScaledReps.binC .add false (.sc (.int u8) (-4) 2, 24) (-3) = .ok (.sc (.int i32) (-4) 2, -24) := by decide +kernel
example : ScaledReps.binC .sub true (.sc (.int u16) (-8) 2, 512) 1 = .ok (.sc (.int i32) (-8) 2, -256) := by decide +kernel
example : ScaledReps.constNum (-40) = .ok (.sc (.int i32) 3 2, -5) := by decide +kernel
-- elastic_integer<10, unsigned> at exponent -4 plus constant<-3> (correspondence only)
example : ScaledReps.binCE .add false ⟨10, u32, -4, 5⟩ (-3) = .ok ⟨32, i32, -4, -43⟩ := by decide +kernel

end Cnl.C01
