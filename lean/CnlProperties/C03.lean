import CnlProofs.Scaled
/-!
# C03 — `scaled_integer` comparisons agree with the order of the denoted values

Notation as in C01.  With `c = min eL eR`, the operands `l · ρ^eL` and `r · ρ^eR` are
`al · ρ^c` and `ar · ρ^c` for the aligned representations `al = aligned ρ eL c l`,
`ar = aligned ρ eR c r`; `ρ^c > 0`, so the order of the denoted values **is** the order of `al`, `ar`
(`den_order` proves this against the rational `den`).  `cmpInt op a b` is the relation `op` on
mathematical integers.  The model is `scaled_integer/operators.h`: the operand with the larger
exponent is converted to the smaller exponent in `decltype(rep << constant<k>)` (the promoted
type), then the representations are compared with the built-in operator.

Restriction (the property's): the alignment is well-formed (`PowOk`) and the aligned operand fits
its promoted representation type.

* `cmp_by_value` — operands of the same signedness, or both non-negative (more generally:
  whenever the common type is signed or both are non-negative, `cmp_by_value_general`): all six operators
  return exactly the truth value of the relation between the denoted values.
* `cmp_mixed_builtin` — in every case, mixed signedness included, the result is the built-in
  comparison `cCmp` of the aligned representations in the types `cmpTy` (the property's last
  sentence; this is C12's requirement for the exponent-0 case).
* `cmp_consistent`, `trichotomy` — the six operators are mutually consistent in every case: they
  are the six relations between one pair of integers, so exactly one of `<`, `==`, `>` holds.
* `cmp_builtin_operand` — comparing with a built-in integer is comparing with that integer wrapped
  at exponent 0.
-/
namespace Cnl.C03
open Cnl Cnl.Spec Cnl.Layered Cnl.ScaledP Cnl.Rounding

/-- in every case: the built-in comparison of the aligned representations -/
theorem cmp_mixed_builtin (op : CmpOp) (L R : IntTy) (hL : 1 ≤ L.bits) (hR : 1 ≤ R.bits)
    (eL eR : Int) (ρ : Nat) (hρ : 2 ≤ ρ) (l r : Int) (hl : L.InRange l) (hr : R.InRange r)
    (hwL : PowOk L (eL - min eL eR).toNat ρ) (hwR : PowOk R (eR - min eL eR).toNat ρ)
    (hal : (promote L).InRange (aligned ρ eL (min eL eR) l))
    (har : (promote R).InRange (aligned ρ eR (min eL eR) r)) :
    Layered.cmp op (sc L eL ρ l) (sc R eR ρ r)
      = .ok (cCmp op (cmpTy L eL eR, aligned ρ eL (min eL eR) l) (cmpTy R eR eL, aligned ρ eR (min eL eR) r)) :=
  cmp_aligned op L R hL hR eL eR ρ hρ l r hl hr hwL hwR hal har

/-- by value whenever the common type is signed or both operands are non-negative -/
theorem cmp_by_value_general (op : CmpOp) (L R : IntTy) (hL : 1 ≤ L.bits) (hR : 1 ≤ R.bits)
    (eL eR : Int) (ρ : Nat) (hρ : 2 ≤ ρ) (l r : Int) (hl : L.InRange l) (hr : R.InRange r)
    (hwL : PowOk L (eL - min eL eR).toNat ρ) (hwR : PowOk R (eR - min eL eR).toNat ρ)
    (hal : (promote L).InRange (aligned ρ eL (min eL eR) l))
    (har : (promote R).InRange (aligned ρ eR (min eL eR) r))
    (hsg : (usualArith L R).signed = true ∨ (0 ≤ l ∧ 0 ≤ r)) :
    Layered.cmp op (sc L eL ρ l) (sc R eR ρ r)
      = .ok (cmpInt op (aligned ρ eL (min eL eR) l) (aligned ρ eR (min eL eR) r)) := by
  rw [cmp_aligned op L R hL hR eL eR ρ hρ l r hl hr hwL hwR hal har]
  congr 1
  apply cCmp_value op (usualArith_cmpTy L R eL eR) (usualArith_bits_pos L R)
  · exact inRange_common_left hal (hsg.imp id (fun h => aligned_nonneg hρ _ _ h.1))
  · exact inRange_common_right har (hsg.imp id (fun h => aligned_nonneg hρ _ _ h.2))

/-- representations of the same signedness, or both operands non-negative: all six operators
compare the denoted values -/
theorem cmp_by_value (op : CmpOp) (L R : IntTy) (hL : 1 ≤ L.bits) (hR : 1 ≤ R.bits)
    (eL eR : Int) (ρ : Nat) (hρ : 2 ≤ ρ) (l r : Int) (hl : L.InRange l) (hr : R.InRange r)
    (hwL : PowOk L (eL - min eL eR).toNat ρ) (hwR : PowOk R (eR - min eL eR).toNat ρ)
    (hal : (promote L).InRange (aligned ρ eL (min eL eR) l))
    (har : (promote R).InRange (aligned ρ eR (min eL eR) r))
    (hsg : L.signed = R.signed ∨ (0 ≤ l ∧ 0 ≤ r)) :
    Layered.cmp op (sc L eL ρ l) (sc R eR ρ r)
      = .ok (cmpInt op (aligned ρ eL (min eL eR) l) (aligned ρ eR (min eL eR) r)) := by
  apply cmp_by_value_general op L R hL hR eL eR ρ hρ l r hl hr hwL hwR hal har
  rcases hsg with hs | hs
  · cases hLs : L.signed with
    | true =>
      left
      exact usualArith_signed (promote_signed_of_signed hLs) (promote_signed_of_signed (hs ▸ hLs))
    | false =>
      right
      have hRs : R.signed = false := hs ▸ hLs
      have h1 := hl.1; have h2 := hr.1
      unfold IntTy.lowest at h1 h2
      simp only [hLs, hRs, Bool.false_eq_true, ite_false] at h1 h2
      exact ⟨h1, h2⟩
  · exact Or.inr hs

/-- the relation between the aligned representations **is** the relation between the denoted
rational values `l · ρ^eL` and `r · ρ^eR` -/
theorem den_order (op : CmpOp) (ρ : Nat) (hρ : 2 ≤ ρ) (eL eR l r : Int) :
    cmpRat op (den ρ l eL) (den ρ r eR)
      = cmpInt op (aligned ρ eL (min eL eR) l) (aligned ρ eR (min eL eR) r) :=
  cmpRat_den_aligned ρ hρ op eL eR l r

/-- `cmp_by_value` in terms of the denoted values -/
theorem cmp_by_denoted_value (op : CmpOp) (L R : IntTy) (hL : 1 ≤ L.bits) (hR : 1 ≤ R.bits)
    (eL eR : Int) (ρ : Nat) (hρ : 2 ≤ ρ) (l r : Int) (hl : L.InRange l) (hr : R.InRange r)
    (hwL : PowOk L (eL - min eL eR).toNat ρ) (hwR : PowOk R (eR - min eL eR).toNat ρ)
    (hal : (promote L).InRange (aligned ρ eL (min eL eR) l))
    (har : (promote R).InRange (aligned ρ eR (min eL eR) r))
    (hsg : L.signed = R.signed ∨ (0 ≤ l ∧ 0 ≤ r)) :
    Layered.cmp op (sc L eL ρ l) (sc R eR ρ r) = .ok (cmpRat op (den ρ l eL) (den ρ r eR)) := by
  rw [den_order op ρ hρ]
  exact cmp_by_value op L R hL hR eL eR ρ hρ l r hl hr hwL hwR hal har hsg

/-- equal exponents: the comparison of the representations (no restriction at all) -/
theorem cmp_same_exponent (op : CmpOp) (L R : IntTy) (hL : 1 ≤ L.bits) (hR : 1 ≤ R.bits)
    (e : Int) (ρ : Nat) (l r : Int) (hl : L.InRange l) (hr : R.InRange r)
    (hsg : (usualArith L R).signed = true ∨ (0 ≤ l ∧ 0 ≤ r)) :
    Layered.cmp op (sc L e ρ l) (sc R e ρ r) = .ok (cmpInt op l r) := by
  rw [cmp_same_exp]
  congr 1
  exact cCmp_value op rfl (usualArith_bits_pos L R)
    (inRange_common_of_left hL hl (hsg.imp id (·.1))) (inRange_common_of_right hR hr (hsg.imp id (·.2)))

/-- the order of the aligned representations is the order of the denoted values, whatever common
exponent `b ≤ min eL eR` the two are expressed at -/
theorem aligned_order (op : CmpOp) (ρ : Nat) (hρ : 2 ≤ ρ) (eL eR b : Int) (hb : b ≤ min eL eR) (l r : Int) :
    cmpInt op (aligned ρ eL b l) (aligned ρ eR b r)
      = cmpInt op (aligned ρ eL (min eL eR) l) (aligned ρ eR (min eL eR) r) := by
  rw [← aligned_aligned ρ (show min eL eR ≤ eL by omega) hb l, ← aligned_aligned ρ (show min eL eR ≤ eR by omega) hb r]
  exact cmpInt_aligned hρ op _ _ _ _

/-- the six operators are the six relations between one pair of integers (the converted aligned
representations) — in every case, mixed signedness included -/
theorem cmp_consistent (L R : IntTy) (hL : 1 ≤ L.bits) (hR : 1 ≤ R.bits)
    (eL eR : Int) (ρ : Nat) (hρ : 2 ≤ ρ) (l r : Int) (hl : L.InRange l) (hr : R.InRange r)
    (hwL : PowOk L (eL - min eL eR).toNat ρ) (hwR : PowOk R (eR - min eL eR).toNat ρ)
    (hal : (promote L).InRange (aligned ρ eL (min eL eR) l))
    (har : (promote R).InRange (aligned ρ eR (min eL eR) r)) :
    ∃ a b : Int, ∀ op, Layered.cmp op (sc L eL ρ l) (sc R eR ρ r) = .ok (cmpInt op a b) :=
  ⟨_, _, fun op => by
    rw [cmp_aligned op L R hL hR eL eR ρ hρ l r hl hr hwL hwR hal har, cCmp_wrapped]⟩

/-- exactly one of `<`, `==`, `>` holds -/
theorem trichotomy (L R : IntTy) (hL : 1 ≤ L.bits) (hR : 1 ≤ R.bits)
    (eL eR : Int) (ρ : Nat) (hρ : 2 ≤ ρ) (l r : Int) (hl : L.InRange l) (hr : R.InRange r)
    (hwL : PowOk L (eL - min eL eR).toNat ρ) (hwR : PowOk R (eR - min eL eR).toNat ρ)
    (hal : (promote L).InRange (aligned ρ eL (min eL eR) l))
    (har : (promote R).InRange (aligned ρ eR (min eL eR) r)) :
    let c := fun op => Layered.cmp op (sc L eL ρ l) (sc R eR ρ r)
    (c .lt = .ok true ∧ c .eq = .ok false ∧ c .gt = .ok false) ∨
    (c .lt = .ok false ∧ c .eq = .ok true ∧ c .gt = .ok false) ∨
    (c .lt = .ok false ∧ c .eq = .ok false ∧ c .gt = .ok true) := by
  obtain ⟨a, b, h⟩ := cmp_consistent L R hL hR eL eR ρ hρ l r hl hr hwL hwR hal har
  simp only [h, cmpInt]
  rcases Int.lt_trichotomy a b with h1 | h1 | h1
  · left; simp only [Res.ok.injEq, decide_eq_true_eq, decide_eq_false_iff_not]; omega
  · right; left; simp only [Res.ok.injEq, decide_eq_true_eq, decide_eq_false_iff_not]; omega
  · right; right; simp only [Res.ok.injEq, decide_eq_true_eq, decide_eq_false_iff_not]; omega

/-- `<=`, `>=`, `!=` are determined by `<`, `==`, `>` as they should be -/
theorem derived_operators (L R : IntTy) (hL : 1 ≤ L.bits) (hR : 1 ≤ R.bits)
    (eL eR : Int) (ρ : Nat) (hρ : 2 ≤ ρ) (l r : Int) (hl : L.InRange l) (hr : R.InRange r)
    (hwL : PowOk L (eL - min eL eR).toNat ρ) (hwR : PowOk R (eR - min eL eR).toNat ρ)
    (hal : (promote L).InRange (aligned ρ eL (min eL eR) l))
    (har : (promote R).InRange (aligned ρ eR (min eL eR) r)) :
    ∃ lt eq gt : Bool,
      Layered.cmp .lt (sc L eL ρ l) (sc R eR ρ r) = .ok lt ∧
      Layered.cmp .eq (sc L eL ρ l) (sc R eR ρ r) = .ok eq ∧
      Layered.cmp .gt (sc L eL ρ l) (sc R eR ρ r) = .ok gt ∧
      Layered.cmp .le (sc L eL ρ l) (sc R eR ρ r) = .ok (lt || eq) ∧
      Layered.cmp .ge (sc L eL ρ l) (sc R eR ρ r) = .ok (gt || eq) ∧
      Layered.cmp .ne (sc L eL ρ l) (sc R eR ρ r) = .ok (!eq) := by
  obtain ⟨a, b, h⟩ := cmp_consistent L R hL hR eL eR ρ hρ l r hl hr hwL hwR hal har
  refine ⟨_, _, _, h .lt, h .eq, h .gt, ?_, ?_, ?_⟩
  · rw [h]; congr 1; simp only [cmpInt]; rw [Bool.eq_iff_iff]; simp; omega
  · rw [h]; congr 1; simp only [cmpInt]; rw [Bool.eq_iff_iff]; simp; omega
  · rw [h]; congr 1; simp only [cmpInt]; rw [Bool.eq_iff_iff]; simp

/-- comparing with a built-in integer is comparing with it wrapped at exponent 0 -/
theorem cmp_builtin_operand (op : CmpOp) (L R : IntTy) (eL : Int) (ρ : Nat) (l r : Int) :
    Layered.cmp op (sc L eL ρ l) (.int R, r) = Layered.cmp op (sc L eL ρ l) (sc R 0 ρ r)
    ∧ Layered.cmp op (.int R, r) (sc L eL ρ l) = Layered.cmp op (sc R 0 ρ r) (sc L eL ρ l) :=
  ⟨rfl, rfl⟩

/-! Non-vacuity -/

-- 17·2^-4 = 1.0625 < 5·2^3 = 40, across signedness, both non-negative
example : Layered.cmp .lt (sc i32 (-4) 2 17) (sc u16 3 2 5) = .ok true := by decide
-- negative vs positive, radix 10: -5·10^-3 < 7
example : Layered.cmp .lt (sc i8 (-3) 10 (-5)) (sc i32 0 10 7) = .ok true := by decide
example : PowOk i32 (0 - min (-3) 0 : Int).toNat 10 ∧ (promote i32).InRange (aligned 10 0 (min (-3) 0) 7) := by decide
-- mixed signedness with a negative operand: the built-in comparison, not by value
example : Layered.cmp .lt (sc i32 0 2 (-1)) (sc u32 0 2 1) = .ok false := by decide

end Cnl.C03
