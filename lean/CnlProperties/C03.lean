import CnlProofs.Scaled
import CnlProofs.WideCmp
/-!
# C03 — `scaled_integer` comparisons agree with the order of the denoted values

Notation as in C01.  With `c = min eL eR`, the operands `l · ρ^eL` and `r · ρ^eR` are
`al · ρ^c` and `ar · ρ^c` for the aligned representations `al = aligned ρ eL c l`,
`ar = aligned ρ eR c r`; `ρ^c > 0`, so the order of the denoted values **is** the order of `al`, `ar`
(`den_order` proves this against the rational `den`).  `cmpInt op a b` is the relation `op` on
mathematical integers.  The model is `scaled_integer/operators.h`: the operand with the larger
exponent is converted to the smaller exponent in `decltype(rep << constant<k>)` (the promoted
type), then the representations are compared with the built-in operator.

Restriction (the property's): the alignment is well-formed (`PowOk`) and the aligned operand fits
its promoted representation type.

* `cmp_by_value` — operands of the same signedness, or both non-negative (more generally:
  whenever the common type is signed or both are non-negative, `cmp_by_value_general`): all six operators
  return exactly the truth value of the relation between the denoted values.
* `cmp_mixed_builtin` — in every case, mixed signedness included, the result is the built-in
  comparison `cCmp` of the aligned representations in the types `cmpTy` (the property's last
  sentence; this is C12's requirement for the exponent-0 case).
* `cmp_consistent`, `trichotomy` — the six operators are mutually consistent in every case: they
  are the six relations between one pair of integers, so exactly one of `<`, `==`, `>` holds.
* `cmp_builtin_operand` — comparing with a built-in integer is comparing with that integer wrapped
  at exponent 0.

## `wide_integer` operands of different types (second part of the file)

Comparisons of two `wide_integer`s of the *same* type are C10's (`Cnl.C10.comparisons`: every limb width, limb
count, signedness).  Two *different* `wide_integer` types go through `wide_integer/custom_operator.h`, modelled
in `CnlModel/WideCmp.lean` (`Wide.wideCmp`, `Wide.cmpMixed`).  Two repairs: (1) two multi-limb representations of
different widths are both `static_cast` to the wider one (`Wide.widenCtor` = `uintwide_t`'s converting constructor,
transcribed limb by limb) and compared there; (2) where a multi-limb representation meets a representation of the
other signedness, the operand of the signed type is first tested for `< 0`, and a negative operand decides the
comparison (it is less than every value of an unsigned type) instead of being converted to the unsigned type.

* `wide_widening_keeps_value` — the converting constructor keeps the value, for every limb width and limb counts.
* `wide_mixed_width_by_value` — all six operators on operands of **any two limb counts** (same limb type and
  signedness — the pairs of instantiations that exist for every pair of widths) return the relation between the
  two integers; `wide_mixed_width_symmetric` — so `a OP b` and the mirrored `b OP' a` agree.
* `wide_mixed_signedness_by_value` — pairs of different widths also compile when the signedness differs (same
  width and different signedness does not): **by value for every pair of formats of different widths, whatever the
  two signednesses**, with the wider operand on either side (no hypothesis on the operands any more).
* `wide_mixed_width_values` — the same through `wide_tag`'s storage rule, on the values: for all digit counts
  `dl`, `dr` with multi-limb storage (same limb width; different storage widths or the same signedness) and all
  values of the two storage ranges.
* `wide_single_word_vs_multi_by_value` — a `wide_integer` with built-in storage compared with one with multi-limb
  storage, either one on the left, any narrowest types and signednesses: by value.  Together with the previous one:
  every pair of `wide_integer` types of which at least one has multi-limb storage.  (Two built-in representations
  follow the built-in rule, `Wide.wideCmp`'s first case — the property's last sentence.)
* `wide_mixed_width_converts` — what the code did after the first repair only (`Wide.cmpMixedOrig2`): both operands
  converted to the wider format; `wide_mixed_signedness_unrepaired_refuted` — which violated the property where a
  negative operand met a wider unsigned type: kernel-checked from the witnesses
  `wide_integer<200, int>{-1} < wide_integer<300, unsigned>{5}` and `wide_integer<20, int>{-1} < wide_integer<200, unsigned>{5}`
  (both false); the repaired code returns true.  Former defect class `C03.wide_mixed_signedness_converts_to_unsigned`.
* `wide_mixed_width_unrepaired_refuted` — the code **as found** (`Wide.cmpMixedOrig`: the right operand implicitly
  converted — narrowed — to the left operand's type) violated the property: kernel-checked from the witness
  `wide_integer<200>{5} == wide_integer<300>{2^250 + 5}`; `wide_mixed_width_unrepaired_asymmetric`: the mirrored
  comparison was correct.  Former defect class `C03.wide_mixed_width_comparison_narrows_rhs`.
-/
namespace Cnl.C03
open Cnl Cnl.Spec Cnl.Layered Cnl.ScaledP Cnl.Rounding

/-- in every case: the built-in comparison of the aligned representations -/
theorem cmp_mixed_builtin (op : CmpOp) (L R : IntTy) (hL : 1 ≤ L.bits) (hR : 1 ≤ R.bits)
    (eL eR : Int) (ρ : Nat) (hρ : 2 ≤ ρ) (l r : Int) (hl : L.InRange l) (hr : R.InRange r)
    (hwL : PowOk L (eL - min eL eR).toNat ρ) (hwR : PowOk R (eR - min eL eR).toNat ρ)
    (hal : (promote L).InRange (aligned ρ eL (min eL eR) l))
    (har : (promote R).InRange (aligned ρ eR (min eL eR) r)) :
    Layered.cmp op (sc L eL ρ l) (sc R eR ρ r)
      = .ok (cCmp op (cmpTy L eL eR, aligned ρ eL (min eL eR) l) (cmpTy R eR eL, aligned ρ eR (min eL eR) r)) :=
  cmp_aligned op L R hL hR eL eR ρ hρ l r hl hr hwL hwR hal har

/-- by value whenever the common type is signed or both operands are non-negative -/
theorem cmp_by_value_general (op : CmpOp) (L R : IntTy) (hL : 1 ≤ L.bits) (hR : 1 ≤ R.bits)
    (eL eR : Int) (ρ : Nat) (hρ : 2 ≤ ρ) (l r : Int) (hl : L.InRange l) (hr : R.InRange r)
    (hwL : PowOk L (eL - min eL eR).toNat ρ) (hwR : PowOk R (eR - min eL eR).toNat ρ)
    (hal : (promote L).InRange (aligned ρ eL (min eL eR) l))
    (har : (promote R).InRange (aligned ρ eR (min eL eR) r))
    (hsg : (usualArith L R).signed = true ∨ (0 ≤ l ∧ 0 ≤ r)) :
    Layered.cmp op (sc L eL ρ l) (sc R eR ρ r)
      = .ok (cmpInt op (aligned ρ eL (min eL eR) l) (aligned ρ eR (min eL eR) r)) := by
  rw [cmp_aligned op L R hL hR eL eR ρ hρ l r hl hr hwL hwR hal har]
  congr 1
  apply cCmp_value op (usualArith_cmpTy L R eL eR) (usualArith_bits_pos L R)
  · exact inRange_common_left hal (hsg.imp id (fun h => aligned_nonneg hρ _ _ h.1))
  · exact inRange_common_right har (hsg.imp id (fun h => aligned_nonneg hρ _ _ h.2))

/-- representations of the same signedness, or both operands non-negative: all six operators
compare the denoted values -/
theorem cmp_by_value (op : CmpOp) (L R : IntTy) (hL : 1 ≤ L.bits) (hR : 1 ≤ R.bits)
    (eL eR : Int) (ρ : Nat) (hρ : 2 ≤ ρ) (l r : Int) (hl : L.InRange l) (hr : R.InRange r)
    (hwL : PowOk L (eL - min eL eR).toNat ρ) (hwR : PowOk R (eR - min eL eR).toNat ρ)
    (hal : (promote L).InRange (aligned ρ eL (min eL eR) l))
    (har : (promote R).InRange (aligned ρ eR (min eL eR) r))
    (hsg : L.signed = R.signed ∨ (0 ≤ l ∧ 0 ≤ r)) :
    Layered.cmp op (sc L eL ρ l) (sc R eR ρ r)
      = .ok (cmpInt op (aligned ρ eL (min eL eR) l) (aligned ρ eR (min eL eR) r)) := by
  apply cmp_by_value_general op L R hL hR eL eR ρ hρ l r hl hr hwL hwR hal har
  rcases hsg with hs | hs
  · cases hLs : L.signed with
    | true =>
      left
      exact usualArith_signed (promote_signed_of_signed hLs) (promote_signed_of_signed (hs ▸ hLs))
    | false =>
      right
      have hRs : R.signed = false := hs ▸ hLs
      have h1 := hl.1; have h2 := hr.1
      unfold IntTy.lowest at h1 h2
      simp only [hLs, hRs, Bool.false_eq_true, ite_false] at h1 h2
      exact ⟨h1, h2⟩
  · exact Or.inr hs

/-- the relation between the aligned representations **is** the relation between the denoted
rational values `l · ρ^eL` and `r · ρ^eR` -/
theorem den_order (op : CmpOp) (ρ : Nat) (hρ : 2 ≤ ρ) (eL eR l r : Int) :
    cmpRat op (den ρ l eL) (den ρ r eR)
      = cmpInt op (aligned ρ eL (min eL eR) l) (aligned ρ eR (min eL eR) r) :=
  cmpRat_den_aligned ρ hρ op eL eR l r

/-- `cmp_by_value` in terms of the denoted values -/
theorem cmp_by_denoted_value (op : CmpOp) (L R : IntTy) (hL : 1 ≤ L.bits) (hR : 1 ≤ R.bits)
    (eL eR : Int) (ρ : Nat) (hρ : 2 ≤ ρ) (l r : Int) (hl : L.InRange l) (hr : R.InRange r)
    (hwL : PowOk L (eL - min eL eR).toNat ρ) (hwR : PowOk R (eR - min eL eR).toNat ρ)
    (hal : (promote L).InRange (aligned ρ eL (min eL eR) l))
    (har : (promote R).InRange (aligned ρ eR (min eL eR) r))
    (hsg : L.signed = R.signed ∨ (0 ≤ l ∧ 0 ≤ r)) :
    Layered.cmp op (sc L eL ρ l) (sc R eR ρ r) = .ok (cmpRat op (den ρ l eL) (den ρ r eR)) := by
  rw [den_order op ρ hρ]
  exact cmp_by_value op L R hL hR eL eR ρ hρ l r hl hr hwL hwR hal har hsg

/-- equal exponents: the comparison of the representations (no restriction at all) -/
theorem cmp_same_exponent (op : CmpOp) (L R : IntTy) (hL : 1 ≤ L.bits) (hR : 1 ≤ R.bits)
    (e : Int) (ρ : Nat) (l r : Int) (hl : L.InRange l) (hr : R.InRange r)
    (hsg : (usualArith L R).signed = true ∨ (0 ≤ l ∧ 0 ≤ r)) :
    Layered.cmp op (sc L e ρ l) (sc R e ρ r) = .ok (cmpInt op l r) := by
  rw [cmp_same_exp]
  congr 1
  exact cCmp_value op rfl (usualArith_bits_pos L R)
    (inRange_common_of_left hL hl (hsg.imp id (·.1))) (inRange_common_of_right hR hr (hsg.imp id (·.2)))

/-- the order of the aligned representations is the order of the denoted values, whatever common
exponent `b ≤ min eL eR` the two are expressed at -/
theorem aligned_order (op : CmpOp) (ρ : Nat) (hρ : 2 ≤ ρ) (eL eR b : Int) (hb : b ≤ min eL eR) (l r : Int) :
    cmpInt op (aligned ρ eL b l) (aligned ρ eR b r)
      = cmpInt op (aligned ρ eL (min eL eR) l) (aligned ρ eR (min eL eR) r) := by
  rw [← aligned_aligned ρ (show min eL eR ≤ eL by omega) hb l, ← aligned_aligned ρ (show min eL eR ≤ eR by omega) hb r]
  exact cmpInt_aligned hρ op _ _ _ _

/-- the six operators are the six relations between one pair of integers (the converted aligned
representations) — in every case, mixed signedness included -/
theorem cmp_consistent (L R : IntTy) (hL : 1 ≤ L.bits) (hR : 1 ≤ R.bits)
    (eL eR : Int) (ρ : Nat) (hρ : 2 ≤ ρ) (l r : Int) (hl : L.InRange l) (hr : R.InRange r)
    (hwL : PowOk L (eL - min eL eR).toNat ρ) (hwR : PowOk R (eR - min eL eR).toNat ρ)
    (hal : (promote L).InRange (aligned ρ eL (min eL eR) l))
    (har : (promote R).InRange (aligned ρ eR (min eL eR) r)) :
    ∃ a b : Int, ∀ op, Layered.cmp op (sc L eL ρ l) (sc R eR ρ r) = .ok (cmpInt op a b) :=
  ⟨_, _, fun op => by
    rw [cmp_aligned op L R hL hR eL eR ρ hρ l r hl hr hwL hwR hal har, cCmp_wrapped]⟩

/-- exactly one of `<`, `==`, `>` holds -/
theorem trichotomy (L R : IntTy) (hL : 1 ≤ L.bits) (hR : 1 ≤ R.bits)
    (eL eR : Int) (ρ : Nat) (hρ : 2 ≤ ρ) (l r : Int) (hl : L.InRange l) (hr : R.InRange r)
    (hwL : PowOk L (eL - min eL eR).toNat ρ) (hwR : PowOk R (eR - min eL eR).toNat ρ)
    (hal : (promote L).InRange (aligned ρ eL (min eL eR) l))
    (har : (promote R).InRange (aligned ρ eR (min eL eR) r)) :
    let c := fun op => Layered.cmp op (sc L eL ρ l) (sc R eR ρ r)
    (c .lt = .ok true ∧ c .eq = .ok false ∧ c .gt = .ok false) ∨
    (c .lt = .ok false ∧ c .eq = .ok true ∧ c .gt = .ok false) ∨
    (c .lt = .ok false ∧ c .eq = .ok false ∧ c .gt = .ok true) := by
  obtain ⟨a, b, h⟩ := cmp_consistent L R hL hR eL eR ρ hρ l r hl hr hwL hwR hal har
  simp only [h, cmpInt]
  rcases Int.lt_trichotomy a b with h1 | h1 | h1
  · left; simp only [Res.ok.injEq, decide_eq_true_eq, decide_eq_false_iff_not]; omega
  · right; left; simp only [Res.ok.injEq, decide_eq_true_eq, decide_eq_false_iff_not]; omega
  · right; right; simp only [Res.ok.injEq, decide_eq_true_eq, decide_eq_false_iff_not]; omega

/-- `<=`, `>=`, `!=` are determined by `<`, `==`, `>` as they should be -/
theorem derived_operators (L R : IntTy) (hL : 1 ≤ L.bits) (hR : 1 ≤ R.bits)
    (eL eR : Int) (ρ : Nat) (hρ : 2 ≤ ρ) (l r : Int) (hl : L.InRange l) (hr : R.InRange r)
    (hwL : PowOk L (eL - min eL eR).toNat ρ) (hwR : PowOk R (eR - min eL eR).toNat ρ)
    (hal : (promote L).InRange (aligned ρ eL (min eL eR) l))
    (har : (promote R).InRange (aligned ρ eR (min eL eR) r)) :
    ∃ lt eq gt : Bool,
      Layered.cmp .lt (sc L eL ρ l) (sc R eR ρ r) = .ok lt ∧
      Layered.cmp .eq (sc L eL ρ l) (sc R eR ρ r) = .ok eq ∧
      Layered.cmp .gt (sc L eL ρ l) (sc R eR ρ r) = .ok gt ∧
      Layered.cmp .le (sc L eL ρ l) (sc R eR ρ r) = .ok (lt || eq) ∧
      Layered.cmp .ge (sc L eL ρ l) (sc R eR ρ r) = .ok (gt || eq) ∧
      Layered.cmp .ne (sc L eL ρ l) (sc R eR ρ r) = .ok (!eq) := by
  obtain ⟨a, b, h⟩ := cmp_consistent L R hL hR eL eR ρ hρ l r hl hr hwL hwR hal har
  refine ⟨_, _, _, h .lt, h .eq, h .gt, ?_, ?_, ?_⟩
  · rw [h]; congr 1; simp only [cmpInt]; rw [Bool.eq_iff_iff]; simp; omega
  · rw [h]; congr 1; simp only [cmpInt]; rw [Bool.eq_iff_iff]; simp; omega
  · rw [h]; congr 1; simp only [cmpInt]; rw [Bool.eq_iff_iff]; simp

/-- comparing with a built-in integer is comparing with it wrapped at exponent 0 -/
theorem cmp_builtin_operand (op : CmpOp) (L R : IntTy) (eL : Int) (ρ : Nat) (l r : Int) :
    Layered.cmp op (sc L eL ρ l) (.int R, r) = Layered.cmp op (sc L eL ρ l) (sc R 0 ρ r)
    ∧ Layered.cmp op (.int R, r) (sc L eL ρ l) = Layered.cmp op (sc R 0 ρ r) (sc L eL ρ l) :=
  ⟨rfl, rfl⟩

/-! Non-vacuity -/

-- 17·2^-4 = 1.0625 < 5·2^3 = 40, across signedness, both non-negative
example : Layered.cmp .lt (sc i32 (-4) 2 17) (sc u16 3 2 5) = .ok true := by decide
-- negative vs positive, radix 10: -5·10^-3 < 7
example : Layered.cmp .lt (sc i8 (-3) 10 (-5)) (sc i32 0 10 7) = .ok true := by decide
example : PowOk i32 (0 - min (-3) 0 : Int).toNat 10 ∧ (promote i32).InRange (aligned 10 0 (min (-3) 0) 7) := by decide
-- mixed signedness with a negative operand: the built-in comparison, not by value
example : Layered.cmp .lt (sc i32 0 2 (-1)) (sc u32 0 2 1) = .ok false := by decide

end Cnl.C03


/-! # `wide_integer` operands of different types -/
namespace Cnl.C03
open Cnl Cnl.Wide Cnl.WideSpec
open Cnl.Wide.Bridge (Val)

/-- `uintwide_t`'s converting constructor from a narrower `uintwide_t` of the same limb type keeps the value
(reduced to the destination format, which only changes a negative value going to an unsigned format) -/
theorem wide_widening_keeps_value {f g : Wide.Fmt} {a : Limbs} (hw : 1 ≤ f.w) (hwe : f.w = g.w) (hn : 1 ≤ f.n)
    (hle : f.n ≤ g.n) (ha : Val f a) :
    Val g (widenCtor f g a) ∧ toInt g (widenCtor f g a) = wrapTwos g.N g.signed (toInt f a) :=
  CmpMixed.widenCtor_spec hw hwe hn hle ha

/-- the six comparisons of two multi-limb wide integers of any two limb counts (same limb type, same
signedness) are the order of the two integers -/
theorem wide_mixed_width_by_value {f g : Wide.Fmt} {a b : Limbs} (op : CmpOp) (hw : 1 ≤ f.w) (hwe : f.w = g.w)
    (hs : f.signed = g.signed) (hfn : 1 ≤ f.n) (hgn : 1 ≤ g.n) (ha : Val f a) (hb : Val g b) :
    cmpMixed f g op a b = .ok (specCmp op (toInt f a) (toInt g b)) :=
  CmpMixed.cmpMixed_spec op hw hwe hs hfn hgn ha hb

/-- the wider operand may stand on either side: `a < b` iff `b > a`, `a == b` iff `b == a`, … -/
theorem wide_mixed_width_symmetric {f g : Wide.Fmt} {a b : Limbs} (hw : 1 ≤ f.w) (hwe : f.w = g.w)
    (hs : f.signed = g.signed) (hfn : 1 ≤ f.n) (hgn : 1 ≤ g.n) (ha : Val f a) (hb : Val g b) :
    cmpMixed f g .lt a b = cmpMixed g f .gt b a ∧ cmpMixed f g .le a b = cmpMixed g f .ge b a ∧
    cmpMixed f g .eq a b = cmpMixed g f .eq b a ∧ cmpMixed f g .ne a b = cmpMixed g f .ne b a := by
  have hgw : 1 ≤ g.w := by omega
  simp only [CmpMixed.cmpMixed_spec _ hw hwe hs hfn hgn ha hb, CmpMixed.cmpMixed_spec _ hgw hwe.symm hs.symm hgn hfn hb ha,
    specCmp]
  generalize toInt f a = x
  generalize toInt g b = y
  refine ⟨trivial, trivial, ?_, ?_⟩ <;> congr 1 <;> rw [Bool.eq_iff_iff] <;>
    simp only [decide_eq_true_eq] <;> constructor <;> intro h <;> omega

/-- after the first repair only (`cmpMixedOrig2`): different widths, any signedness — both operands are converted to
the wider format (a negative operand reduced modulo `2^N` if that format is unsigned) -/
theorem wide_mixed_width_converts {f g : Wide.Fmt} {a b : Limbs} (op : CmpOp) (hw : 1 ≤ f.w) (hwe : f.w = g.w)
    (hfn : 1 ≤ f.n) (hgn : 1 ≤ g.n) (hne : f.N ≠ g.N) (ha : Val f a) (hb : Val g b) :
    cmpMixedOrig2 f g op a b
      = .ok (specCmp op (wrapTwos (CmpMixed.wider f g).N (CmpMixed.wider f g).signed (toInt f a))
                        (wrapTwos (CmpMixed.wider f g).N (CmpMixed.wider f g).signed (toInt g b))) :=
  CmpMixed.cmpMixedOrig2_converts op hw hwe hfn hgn hne ha hb

/-- different widths, **any two signednesses**: by value, with the wider operand on either side -/
theorem wide_mixed_signedness_by_value {f g : Wide.Fmt} {a b : Limbs} (op : CmpOp) (hw : 1 ≤ f.w) (hwe : f.w = g.w)
    (hfn : 1 ≤ f.n) (hgn : 1 ≤ g.n) (hlt : f.N < g.N) (ha : Val f a) (hb : Val g b) :
    cmpMixed f g op a b = .ok (specCmp op (toInt f a) (toInt g b))
    ∧ cmpMixed g f op b a = .ok (specCmp op (toInt g b) (toInt f a)) :=
  CmpMixed.cmpMixed_mixed_signedness op hw hwe hfn hgn hlt ha hb

/-- through the storage rule: `wide_integer<dl, nl> OP wide_integer<dr, nr>` with multi-limb storage on both
sides (narrowest types of the same width; of the same signedness or of different storage widths — the pairs that
compile) compares the values, whatever the two digit counts -/
theorem wide_mixed_width_values {dl dr : Nat} {nl nr : IntTy} {f g : Wide.Fmt} (op : CmpOp) {l r : Int}
    (hb : 1 ≤ nl.bits) (hbe : nl.bits = nr.bits) (hs : nl.signed = nr.signed ∨ f.N ≠ g.N)
    (hf : storage dl nl = .multi f) (hg : storage dr nr = .multi g)
    (hl : InRange f.N f.signed l) (hr : InRange g.N g.signed r) :
    wideCmp dl nl dr nr op l r = .ok (specCmp op l r) :=
  CmpMixed.wideCmp_multi op hb hbe hs hf hg hl hr

/-- a `wide_integer` with built-in storage (`db` digits over `nb`) and one with multi-limb storage (`dm` over `nm`),
any two narrowest types, either one on the left: the six operators compare the values -/
theorem wide_single_word_vs_multi_by_value {db dm : Nat} {nb nm s : IntTy} {g : Wide.Fmt} (op : CmpOp) {x y : Int}
    (hm : 1 ≤ nm.bits) (hsb : storage db nb = .builtin s) (hg : storage dm nm = .multi g)
    (hx : s.InRange x) (hy : InRange g.N g.signed y) :
    wideCmp db nb dm nm op x y = .ok (specCmp op x y) ∧ wideCmp dm nm db nb op y x = .ok (specCmp op y x) :=
  ⟨CmpMixed.wideCmp_builtin_multi op hm hsb hg hx hy, CmpMixed.wideCmp_multi_builtin op hm hg hsb hy hx⟩

/-! ## the comparison as found -/

/-- `wide_integer<200, int>` and `wide_integer<300, int>`: 7 and 10 limbs of 32 bits -/
example : storage 200 i32 = .multi ⟨32, 7, true⟩ ∧ storage 300 i32 = .multi ⟨32, 10, true⟩ := by decide

/-- as found, `wide_integer<200>{5} == wide_integer<300>{2^250 + 5}` (and `<=`, `>=`; not `<`) -/
theorem wide_mixed_width_unrepaired_refuted :
    wideCmpOrig 200 i32 300 i32 .eq 5 (2^250 + 5) = .ok true
    ∧ wideCmpOrig 200 i32 300 i32 .lt 5 (2^250 + 5) = .ok false
    ∧ ¬ (∀ (f g : Wide.Fmt) (a b : Limbs), 1 ≤ f.w → f.w = g.w → f.signed = g.signed → 1 ≤ f.n → 1 ≤ g.n → Val f a → Val g b →
          cmpMixedOrig f g .eq a b = .ok (specCmp .eq (toInt f a) (toInt g b))) := by
  refine ⟨by decide +kernel, by decide +kernel, fun h => ?_⟩
  have h' := h ⟨32, 7, true⟩ ⟨32, 10, true⟩ (encode ⟨32, 7, true⟩ 5) (encode ⟨32, 10, true⟩ (2^250 + 5))
    (by decide) rfl rfl (by decide) (by decide)
    ⟨Basic.ofNat_WF _ _ _, Basic.ofNat_length _ _ _⟩ ⟨Basic.ofNat_WF _ _ _, Basic.ofNat_length _ _ _⟩
  revert h'
  decide +kernel

/-- as found, the mirrored comparison (wider operand on the left) was correct; the repaired code is correct both ways -/
theorem wide_mixed_width_unrepaired_asymmetric :
    wideCmpOrig 300 i32 200 i32 .eq (2^250 + 5) 5 = .ok false
    ∧ wideCmp 200 i32 300 i32 .eq 5 (2^250 + 5) = .ok false
    ∧ wideCmp 200 i32 300 i32 .lt 5 (2^250 + 5) = .ok true
    ∧ wideCmp 300 i32 200 i32 .gt (2^250 + 5) 5 = .ok true := by
  refine ⟨by decide +kernel, by decide +kernel, by decide +kernel, by decide +kernel⟩

/-! ## the comparison after the first repair only -/

/-- `wide_integer<200, int>`, `wide_integer<300, unsigned>`: 7 and 10 limbs; `wide_integer<20, int>`: an `int` -/
example : storage 200 i32 = .multi ⟨32, 7, true⟩ ∧ storage 300 u32 = .multi ⟨32, 10, false⟩
    ∧ storage 20 i32 = .builtin i32 ∧ storage 200 u32 = .multi ⟨32, 7, false⟩ := by decide

/-- after the first repair `wide_integer<200, int>{-1} < wide_integer<300, unsigned>{5}` and
`wide_integer<20, int>{-1} < wide_integer<200, unsigned>{5}` were false (and `>` true, in either operand order): the
negative operand was converted to the unsigned type; so "by value for all formats of different widths" did not hold -/
theorem wide_mixed_signedness_unrepaired_refuted :
    wideCmpOrig2 200 i32 300 u32 .lt (-1) 5 = .ok false
    ∧ wideCmpOrig2 300 u32 200 i32 .gt 5 (-1) = .ok false
    ∧ wideCmpOrig2 20 i32 200 u32 .lt (-1) 5 = .ok false
    ∧ wideCmpOrig2 200 u32 20 i32 .gt 5 (-1) = .ok false
    ∧ ¬ (∀ (f g : Wide.Fmt) (a b : Limbs), 1 ≤ f.w → f.w = g.w → 1 ≤ f.n → 1 ≤ g.n → f.N < g.N → Val f a → Val g b →
          cmpMixedOrig2 f g .lt a b = .ok (specCmp .lt (toInt f a) (toInt g b))) := by
  refine ⟨by decide +kernel, by decide +kernel, by decide +kernel, by decide +kernel, fun h => ?_⟩
  have h' := h ⟨32, 7, true⟩ ⟨32, 10, false⟩ (encode ⟨32, 7, true⟩ (-1)) (encode ⟨32, 10, false⟩ 5)
    (by decide) rfl (by decide) (by decide) (by decide)
    ⟨Basic.ofNat_WF _ _ _, Basic.ofNat_length _ _ _⟩ ⟨Basic.ofNat_WF _ _ _, Basic.ofNat_length _ _ _⟩
  revert h'
  decide +kernel

/-- the repaired code on the same operands -/
theorem wide_mixed_signedness_repaired_witness :
    wideCmp 200 i32 300 u32 .lt (-1) 5 = .ok true
    ∧ wideCmp 300 u32 200 i32 .gt 5 (-1) = .ok true
    ∧ wideCmp 20 i32 200 u32 .lt (-1) 5 = .ok true
    ∧ wideCmp 200 u32 20 i32 .gt 5 (-1) = .ok true
    ∧ wideCmp 200 i32 300 u32 .eq (-1) (2^320 - 1) = .ok false := by
  refine ⟨by decide +kernel, by decide +kernel, by decide +kernel, by decide +kernel, by decide +kernel⟩

/-! Non-vacuity -/

-- -5 (7 limbs) versus 2^250 - 5 (10 limbs), and a negative value widened
example : cmpMixed ⟨32, 7, true⟩ ⟨32, 10, true⟩ .lt (encode ⟨32, 7, true⟩ (-5)) (encode ⟨32, 10, true⟩ (2^250 - 5)) = .ok true := by
  decide +kernel
example : toInt ⟨32, 10, true⟩ (widenCtor ⟨32, 7, true⟩ ⟨32, 10, true⟩ (encode ⟨32, 7, true⟩ (-5))) = -5 := by decide +kernel
-- unsigned narrower operand, signed wider operand: by value
example : cmpMixed ⟨8, 17, false⟩ ⟨8, 20, true⟩ .gt (encode ⟨8, 17, false⟩ (2^135)) (encode ⟨8, 20, true⟩ (-1)) = .ok true := by
  decide +kernel
-- signed narrower operand, negative, unsigned wider operand (the former defect class): by value, both orders
example : cmpMixed ⟨8, 17, true⟩ ⟨8, 20, false⟩ .lt (encode ⟨8, 17, true⟩ (-2^135)) (encode ⟨8, 20, false⟩ (2^159)) = .ok true
    ∧ cmpMixed ⟨8, 20, false⟩ ⟨8, 17, true⟩ .le (encode ⟨8, 20, false⟩ 0) (encode ⟨8, 17, true⟩ (-1)) = .ok false := by
  decide +kernel
-- the hypotheses of `wide_single_word_vs_multi_by_value`: `wide_integer<40, int16_t>` is an `int64_t`, -7 is in its range
example : storage 40 i16 = .builtin i64 ∧ i64.InRange (-7) ∧ storage 200 u16 = .multi ⟨16, 13, false⟩
    ∧ InRange (16 * 13) false (2^207) :=
  ⟨by decide, by decide, by decide, by unfold InRange; decide +kernel⟩
-- same width, different signedness: ill-formed (ambiguous conversion), before and after the repairs
example : cmpMixed ⟨32, 7, true⟩ ⟨32, 7, false⟩ .eq (encode ⟨32, 7, true⟩ 5) (encode ⟨32, 7, false⟩ 5)
    = .ill "no (unambiguous) conversion between the two uintwide_t types" := by decide +kernel

end Cnl.C03
