import CnlModel.CFloat
/-!
# CnlSpec.ScaledFloat — what C04 demands of scaled_integer → floating point

Exact mathematics on dyadic rationals `a · 2^e` (`a`, `e` integers), with no rational arithmetic:
two dyadics are compared after expressing both as integers in a common unit `2^q` (`q` below both
exponents).  Nothing here mentions how the conversion is computed.

* `IsExact a e y` — the finite floating-point value `y` equals `a · 2^e`;
* `IsNearestEven f a e y` — `y` is a finite datum of the format `f` (canonical encoding), no finite datum
  of `f` is strictly closer to `a · 2^e` than `y`, and whenever another datum is exactly as close the
  significand of `y` is even: IEEE 754 round-to-nearest, ties to even — "correctly rounded".
-/
namespace Cnl.ScaledFloatSpec
open Cnl

/-- the integer `(-1)^s · m` -/
def signed (s : Bool) (m : Nat) : Int := if s then -(m : Int) else m

/-- the dyadic `a · 2^ea` in units of `2^q` (an integer, for `q ≤ ea`) -/
def units (a : Int) (ea q : Int) : Int := a * 2^(ea - q).toNat

/-- `| (-1)^s · m · 2^E  −  a · 2^e |` in units of `2^q` (`q ≤ E`, `q ≤ e`) -/
def dist (s : Bool) (m : Nat) (E : Int) (a : Int) (e : Int) (q : Int) : Nat :=
  (units (signed s m) E q - units a e q).natAbs

/-- the floating-point value `y` is finite and equal to `a · 2^e` -/
def IsExact (a : Int) (e : Int) (y : FVal) : Prop :=
  ∃ s m E, y = .fin s m E ∧ units (signed s m) E (min e E) = units a e (min e E)

/-- `y` is the correctly rounded (to nearest, ties to even) value of `a · 2^e` in the format `f`:
a finite datum of `f` such that every finite datum `z = (-1)^s2 · m2 · 2^E2` of `f` is at least as far
from `a · 2^e`, and a different datum at the same distance exists only when the significand of `y` is even -/
def IsNearestEven (f : Fmt) (a : Int) (e : Int) (y : FVal) : Prop :=
  ∃ s m E, y = .fin s m E ∧ f.Canonical y = true ∧
    ∀ (s2 : Bool) (m2 : Nat) (E2 : Int), f.Canonical (.fin s2 m2 E2) = true →
      dist s m E a e (min e (min E E2)) ≤ dist s2 m2 E2 a e (min e (min E E2)) ∧
      (dist s m E a e (min e (min E E2)) = dist s2 m2 E2 a e (min e (min E E2)) →
        units (signed s2 m2) E2 (min e (min E E2)) ≠ units (signed s m) E (min e (min E E2)) → m % 2 = 0)

/-! sanity: 16777217 · 2^-3 (25 significant bits) lies midway between two binary32 data; the even one is nearest -/
example : dist false 8388608 (-2) 16777217 (-3) (-3) = 1 ∧ dist false 8388609 (-2) 16777217 (-3) (-3) = 1
    ∧ dist false 8388607 (-2) 16777217 (-3) (-3) = 3 := by decide
example : IsExact 5 (-1) (.fin false 10 (-2)) := ⟨false, 10, -2, rfl, by decide⟩

end Cnl.ScaledFloatSpec
