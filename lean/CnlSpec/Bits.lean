/-!
# CnlSpec.Bits — what C++20 `<bit>` (and CNL's documentation) say the functions of C18 return

Pure mathematics on natural numbers (bit patterns below `2^w`) and integers; no C++ notions, no
shifts, no recursion on halved values.  `w` is the width of the operand type.

* `bitLength x` — `std::bit_width`: 0 for 0, else `⌊log₂ x⌋ + 1`  (`Nat.log2`);
* `countlZero w x = w − bitLength x`; `countlOne w x = countlZero w (~x)`;
* `countrZero w x` / `countrOne w x` — length of the run of 0 / 1 bits starting at bit 0, at most `w`
  ("number of consecutive 0 bits, starting from the least significant bit"), by `Nat.testBit`;
* `popcount w x` — number of positions `i < w` with `x.testBit i`;
* `isPow2 x` — `x = 2^k` for some `k` (`std::has_single_bit`);
* `floor2 x` — 0 for 0, else `2^⌊log₂ x⌋`; `ceil2 w x` — least power of two `≥ x` when that is representable
  (`x ≤ 2^(w−1)`), **0 for 0** (CNL's documented deviation from `std::bit_ceil(0) = 1`), unconstrained otherwise
  (`std::bit_ceil` has the same precondition);
* `rotl w x s`, `rotr w x s` — the number below `2^w` whose bit `i` is bit `(i − s) mod w` (resp. `(i + s) mod w`) of `x`;
* signed operands: `valueBits v = bitLength v` for `v ≥ 0` and `bitLength (−v−1)` for `v < 0` (the value bits of
  the two's-complement form) — `used_digits`, `countr_used`; `countl_rsb = (w − 1) − valueBits`;
  `leading_bits = digits − valueBits`; `trailing_bits v` = trailing zeros of the pattern, 0 for 0.
-/
namespace Cnl.Spec.Bits

def bitLength (x : Nat) : Nat := if x = 0 then 0 else Nat.log2 x + 1

def countlZero (w x : Nat) : Nat := w - bitLength x
/-- `~x` on `w` bits is `2^w − 1 − x` -/
def countlOne (w x : Nat) : Nat := w - bitLength (2^w - 1 - x)

/-- length of the run of positions `i, i+1, …` (at most `n` of them) at which `p` holds -/
def run (p : Nat → Bool) : Nat → Nat → Nat
  | _, 0 => 0
  | i, n+1 => if p i then run p (i+1) n + 1 else 0

def countrZero (w x : Nat) : Nat := run (fun i => !x.testBit i) 0 w
def countrOne (w x : Nat) : Nat := run (fun i => x.testBit i) 0 w

/-- number of `i < w` with bit `i` of `x` set -/
def popcount : Nat → Nat → Nat
  | 0, _ => 0
  | w+1, x => popcount w x + (if x.testBit w then 1 else 0)

def isPow2 (x : Nat) : Bool := x != 0 && x == 2 ^ Nat.log2 x

def floor2 (x : Nat) : Nat := if x = 0 then 0 else 2 ^ Nat.log2 x

/-- `none`: outside the contract (the least power of two `≥ x` is not representable in `w` bits) -/
def ceil2 (w x : Nat) : Option Nat :=
  if x = 0 then some 0
  else if x ≤ 2^(w-1) then some (2 ^ bitLength (x - 1))
  else none

/-- the number below `2^w` whose bit `i` is `f i` -/
def ofBits : Nat → (Nat → Bool) → Nat
  | 0, _ => 0
  | w+1, f => ofBits w f ||| (if f w then 2^w else 0)

/-- rotate the `w`-bit pattern left by `s` (any `s`): bit `i` of the result is bit `(i − s) mod w` of `x` -/
def rotl (w x s : Nat) : Nat := ofBits w (fun i => x.testBit ((i + (w - s % w)) % w))
/-- rotate right: bit `i` of the result is bit `(i + s) mod w` of `x` -/
def rotr (w x s : Nat) : Nat := ofBits w (fun i => x.testBit ((i + s % w) % w))

/-- value bits of the two's-complement form -/
def valueBits (v : Int) : Nat := bitLength (if v < 0 then -v - 1 else v).toNat

/-- `numeric_limits<T>::digits` -/
def digits (w : Nat) (signed : Bool) : Nat := if signed then w - 1 else w

def countlRsb (w : Nat) (v : Int) : Int := (w : Int) - 1 - valueBits v
def leadingBits (w : Nat) (signed : Bool) (v : Int) : Int := (digits w signed : Int) - valueBits v
/-- the object representation of `v` in `w` bits -/
def pattern (w : Nat) (v : Int) : Nat := (v % 2^w).toNat
def trailingBits (w : Nat) (v : Int) : Nat := if v = 0 then 0 else countrZero w (pattern w v)

/-- number of radix-`r` digits of `n` (`r ≥ 2`): the least `k ≤ bound` with `n < r^k` -/
def radixDigits (r n : Nat) : Nat → Nat
  | 0 => 0
  | k+1 => let d := radixDigits r n k; if n < r ^ d then d else k + 1

end Cnl.Spec.Bits
