/-!
# The mathematics of `scaled_integer` (properties C01–C04)

A `scaled_integer<Rep, power<e, radix>>` with representation value `rep` denotes the real number
`rep · radix^e`.  Everything the properties say about two such numbers can be said with integers
only, by expressing both at a common exponent `c ≤ min eL eR`:
`rep · radix^e = (rep · radix^(e-c)) · radix^c`, and `radix^c > 0` is a common positive factor.
`den` is the denoted value itself, as an exact rational.  Lean core only.
-/
namespace Cnl.Spec

/-- `radix^k`, `k ≥ 0`, as an integer -/
def pw (radix : Nat) (k : Nat) : Int := (radix : Int) ^ k

/-- the representation value `rep` at exponent `e`, re-expressed at the exponent `c ≤ e`:
`rep · radix^(e - c)` (for `c > e` the factor is `radix^0 = 1`; never used that way) -/
def aligned (radix : Nat) (e c : Int) (rep : Int) : Int := rep * pw radix (e - c).toNat

/-- `rep · radix^k` for `k ≥ 0`, `rep / radix^(-k)` truncated toward zero for `k < 0`:
the exact value of `rep · radix^k` truncated toward zero to an integer -/
def scaleTrunc (radix : Nat) (k : Int) (rep : Int) : Int :=
  if 0 ≤ k then rep * pw radix k.toNat else rep.tdiv (pw radix (-k).toNat)

/-- the real number a scaled integer denotes, as an exact rational -/
def den (radix : Nat) (rep : Int) (e : Int) : Rat :=
  if 0 ≤ e then (rep : Rat) * ((radix : Int) ^ e.toNat : Int) else (rep : Rat) / ((radix : Int) ^ (-e).toNat : Int)

end Cnl.Spec
