/-!
# CnlSpec.Decimal — what a numeral denotes (independent of any printer)

`numeralValue base cs` reads an optionally signed integer numeral in `base` (digits `0-9a-z`).
`decimalValue cs` reads `[-] digits [. digits] [e [+|-] digits]` (at least one digit in the
mantissa) and returns the sign and the exact value as `mant · 10^exp` — every decimal numeral denotes
such a number, so no rationals are needed to state it.  `exp` is the weight of the last mantissa
digit read ("one unit of the last printed digit" = `10^exp`).

`Dec.within` compares a numeral with an exact value `|rep| · radix^e` by cross-multiplication in ℕ.
Lean core only (the driver uses these definitions as the oracle of C14).
-/
namespace Cnl.Spec

/-- value of one digit character, if it is one -/
def digitVal (c : Char) : Option Nat :=
  if '0' ≤ c ∧ c ≤ '9' then some (c.toNat - 48)
  else if 'a' ≤ c ∧ c ≤ 'z' then some (c.toNat - 97 + 10)
  else none

/-- value of a digit string read left to right, starting from `acc`; `none` on a foreign character
or a digit not below the base -/
def digitsValue (base : Nat) : List Char → Nat → Option Nat
  | [], acc => some acc
  | c :: cs, acc =>
    match digitVal c with
    | some d => if d < base then digitsValue base cs (acc * base + d) else none
    | none => none

/-- `(negative, magnitude)` of an integer numeral -/
def numeralValue (base : Nat) (cs : List Char) : Option (Bool × Nat) :=
  match cs with
  | [] => none
  | '-' :: rest => if rest.isEmpty then none else (digitsValue base rest 0).map (fun v => (true, v))
  | _ => (digitsValue base cs 0).map (fun v => (false, v))

/-- a signed decimal: `(-1)^neg · mant · 10^exp` -/
structure Dec where
  neg : Bool
  mant : Nat
  exp : Int
deriving Repr, DecidableEq

def isDigit (c : Char) : Bool := '0' ≤ c ∧ c ≤ '9'

/-- longest prefix of decimal digits, and the rest -/
def spanDigits : List Char → List Char × List Char
  | [] => ([], [])
  | c :: cs => if isDigit c then let r := spanDigits cs; (c :: r.1, r.2) else ([], c :: cs)

/-- the optional exponent part: `e`, optional sign, at least one digit, nothing after -/
def expValue (cs : List Char) : Option Int :=
  match cs with
  | [] => some 0
  | 'e' :: '-' :: ds => if ds.isEmpty then none else (digitsValue 10 ds 0).map (fun v => -(v : Int))
  | 'e' :: '+' :: ds => if ds.isEmpty then none else (digitsValue 10 ds 0).map (fun v => (v : Int))
  | 'e' :: ds => if ds.isEmpty then none else (digitsValue 10 ds 0).map (fun v => (v : Int))
  | _ => none

def unsignedDecimal (cs : List Char) : Option (Nat × Int) :=
  let (ip, r1) := spanDigits cs
  let (fp, r2) := match r1 with
    | '.' :: r => spanDigits r
    | _ => ([], r1)
  if ip.isEmpty ∧ fp.isEmpty then none else
  match digitsValue 10 (ip ++ fp) 0, expValue r2 with
  | some m, some e => some (m, e - (fp.length : Int))
  | _, _ => none

def decimalValue (cs : List Char) : Option Dec :=
  match cs with
  | '-' :: rest => (unsignedDecimal rest).map (fun p => ⟨true, p.1, p.2⟩)
  | _ => (unsignedDecimal cs).map (fun p => ⟨false, p.1, p.2⟩)

/-- number of decimal digits of `n` (`0` for `0`) -/
def numDigits10 : Nat → Nat → Nat
  | 0, _ => 0
  | fuel + 1, n => if n = 0 then 0 else 1 + numDigits10 fuel (n / 10)

/-- strip trailing zeros: `n = m · 10^k`, `10 ∤ m` (for `n > 0`) -/
def stripZeros : Nat → Nat → Nat × Nat
  | 0, n => (n, 0)
  | fuel + 1, n => if n ≠ 0 ∧ n % 10 = 0 then let r := stripZeros fuel (n / 10); (r.1, r.2 + 1) else (n, 0)

/-- the exact value `mag · radix^e` (`mag > 0`) as a fraction `num / den` of naturals -/
def exactFrac (mag : Nat) (radix : Nat) (e : Int) : Nat × Nat :=
  if e ≥ 0 then (mag * radix ^ e.toNat, 1) else (mag, radix ^ (-e).toNat)

/-- `d` against the exact magnitude `num/den`:
`printed ≤ exact` and `exact − printed < 10^d.exp + exact · allowNum / allowDen`  -/
def Dec.within (d : Dec) (num den : Nat) (allowNum allowDen : Nat) : Bool :=
  -- common scale: printed = d.mant · 10^d.exp
  let up := (max d.exp 0).toNat       -- printed = d.mant · 10^up / 10^dn
  let dn := (max (-d.exp) 0).toNat
  let p := d.mant * 10 ^ up * den     -- printed · den · 10^dn
  let v := num * 10 ^ dn              -- exact   · den · 10^dn
  let u := 10 ^ up * den              -- unit    · den · 10^dn
  decide (p ≤ v) && decide ((v - p) * allowDen < u * allowDen + v * allowNum)

def Dec.exactly (d : Dec) (num den : Nat) : Bool :=
  let up := (max d.exp 0).toNat
  let dn := (max (-d.exp) 0).toNat
  decide (d.mant * 10 ^ up * den = num * 10 ^ dn)

/-- the exact decimal expansion of `num/den`, if it terminates within `limit` further digits:
`(digits without trailing zeros as a number, exponent of its last digit)` -/
def finiteExpansion (num den : Nat) : Nat → Int → Option (Nat × Int)
  | 0, _ => none
  | fuel + 1, x => if num % den = 0 then some (num / den, x) else finiteExpansion (num * 10) den fuel (x - 1)

/-- shortest text (without sign) that shows all `n` significant digits when the last one has weight `10^x`:
fixed notation `ddd000`, `dd.ddd`, `.000ddd`; scientific `d.ddde±x` -/
def shortestExactLen (n : Nat) (x : Int) : Nat :=
  let fixed : Int := if x ≥ 0 then n + x else if (n : Int) + x > 0 then n + 1 else 1 + (-x)
  let ev : Int := x + n - 1
  let evLen : Nat := (if ev < 0 then 1 else 0) + (if ev = 0 then 1 else numDigits10 (ev.natAbs + 1) ev.natAbs)
  let sci : Int := n + 2 + evLen
  (min fixed sci).toNat

end Cnl.Spec
