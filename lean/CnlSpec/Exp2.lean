import CnlModel.CInt
/-!
# CnlSpec.Exp2 — the exact mathematics C20 speaks of: `⌊2^x · 2^(−E)⌋`, without floating point

`2^(k/2^n)` is irrational unless `2^n ∣ k`, so "`r` is its floor" is stated with integers only:
`IsFloorPow2 n k r  :=  r^(2^n) ≤ 2^k < (r+1)^(2^n)`   (and `r = 0` for `k < 0`).
That statement is decidable but astronomically expensive for `n ≥ 14`, so the executable oracle
`floorPow2?` works with certified rational enclosures instead:

* `rootTable[i-1] = (lo_i, hi_i)` with `lo_i / 2^100 ≤ 2^(2^−i) ≤ hi_i / 2^100`, `i = 1 … 40`.  The table is certified by the
  chain of integer inequalities `lo_1² ≤ 2·D²  ≤ hi_1²`, `lo_{i+1}² ≤ lo_i·D`, `hi_i·D ≤ hi_{i+1}²` (`chainOK`, checked by
  `decide +kernel` in `CnlProofs.Exp2`), from which `lo_i^(2^i) ≤ 2·D^(2^i) ≤ hi_i^(2^i)` follows by induction;
* `2^(k/2^n)` is enclosed by `2^⌊k/2^n⌋` times the interval product over the set bits of the fraction
  (products rounded outwards to 100 fractional bits);
* the floor is read off when the enclosure does not straddle an integer; a straddling input is settled by
  the direct power inequality.

`CnlProofs.Exp2.floorPow2?_sound : floorPow2? n k = some r → IsFloorPow2 n k r` makes the oracle a theorem, so a
kernel-evaluated table over all inputs of a format is a statement about the true `⌊2^x⌋`.
Lean core only (the driver links this file).
-/
namespace Cnl.Spec.Exp2

/-- `r = ⌊2^(k / 2^n)⌋`, in integers -/
def IsFloorPow2 (n : Nat) (k : Int) (r : Nat) : Prop :=
  if k < 0 then r = 0 else r^(2^n) ≤ 2^k.toNat ∧ 2^k.toNat < (r+1)^(2^n)

instance (n : Nat) (k : Int) (r : Nat) : Decidable (IsFloorPow2 n k r) := by
  unfold IsFloorPow2; exact inferInstance

/-- denominator of the enclosures -/
def D : Nat := 2^100

/-- `(lo_i, hi_i)`, `i = 1, 2, …`: `lo_i / D ≤ 2^(2^−i) ≤ hi_i / D` -/
def rootTable : List (Nat × Nat) :=
  [(1792728671193156477399422023277, 1792728671193156477399422023280),
   (1507499113128880389969770996484, 1507499113128880389969770996487),
   (1382382781866639398002081157354, 1382382781866639398002081157357),
   (1323774287096714591494552121731, 1323774287096714591494552121734),
   (1295408533862907174262462278503, 1295408533862907174262462278506),
   (1281454410227724375900157682934, 1281454410227724375900157682937),
   (1274533817633053828745639158581, 1274533817633053828745639158584),
   (1271087549673002404956479766208, 1271087549673002404956479766211),
   (1269367911712601490856697735499, 1269367911712601490856697735502),
   (1268508965357727925512416525448, 1268508965357727925512416525451),
   (1268079710164394224611614170196, 1268079710164394224611614170199),
   (1267865137042238223387869669147, 1267865137042238223387869669150),
   (1267757864097099423165883173655, 1267757864097099423165883173658),
   (1267704231028178812475980235591, 1267704231028178812475980235594),
   (1267677415344588706483392730520, 1267677415344588706483392730523),
   (1267664007715505953783040177315, 1267664007715505953783040177318),
   (1267657303954141996327093411482, 1267657303954141996327093411485),
   (1267653952086754290301021227723, 1267653952086754290301021227726),
   (1267652276156383995210804243842, 1267652276156383995210804243845),
   (1267651438192029735864821681823, 1267651438192029735864821681826),
   (1267651019210060328081414725964, 1267651019210060328081414725967),
   (1267650809719127554642082697066, 1267650809719127554642082697069),
   (1267650704973674150533006466619, 1267650704973674150533006466622),
   (1267650652600950694130802912661, 1267650652600950694130802912664),
   (1267650626414589777342745665411, 1267650626414589777342745665414),
   (1267650613321409521801973285394, 1267650613321409521801973285397),
   (1267650606774819444744900545185, 1267650606774819444744900545188),
   (1267650603501524418894692461143, 1267650603501524418894692461146),
   (1267650601864876909139170481088, 1267650601864876909139170481091),
   (1267650601046553155053805005359, 1267650601046553155053805005362),
   (1267650600637391278209221145920, 1267650600637391278209221145923),
   (1267650600432810339836453935788, 1267650600432810339836453935791),
   (1267650600330519870662451510617, 1267650600330519870662451510620),
   (1267650600279374636078545593005, 1267650600279374636078545593008),
   (1267650600253802018787366457942, 1267650600253802018787366457945),
   (1267650600241015710141970346346, 1267650600241015710141970346349),
   (1267650600234622555819320654532, 1267650600234622555819320654535),
   (1267650600231425978658007899621, 1267650600231425978658007899624),
   (1267650600229827690077354544915, 1267650600229827690077354544918),
   (1267650600229028545787028623249, 1267650600229028545787028623252)]


/-- the certificate of `rootTable`: each level squares to the previous one (level 0 is the number 2) -/
def chainOK (plo phi : Nat) : List (Nat × Nat) → Bool
  | [] => true
  | (lo, hi) :: t => decide (lo * lo ≤ plo * D) && decide (phi * D ≤ hi * hi) && chainOK lo hi t

/-- an enclosure `lo / D ≤ 2^(g / 2^n) ≤ hi / D` -/
structure Encl where
  lo : Nat
  hi : Nat
  g : Nat
deriving Repr, DecidableEq

/-- multiply in the levels `i, i+1, …` whose bit `2^(n−i)` is set in `f` -/
def enclGo (n f : Nat) : List (Nat × Nat) → Nat → Encl → Encl
  | [], _, acc => acc
  | (lo, hi) :: t, i, acc =>
    if i ≤ n ∧ (f / 2^(n - i)) % 2 = 1 then
      enclGo n f t (i+1) ⟨acc.lo * lo / D, (acc.hi * hi + (D - 1)) / D, acc.g + 2^(n - i)⟩
    else enclGo n f t (i+1) acc

/-- enclosure of `2^(k / 2^n)` -/
def encl (n k : Nat) : Encl :=
  let m := k / 2^n
  enclGo n (k % 2^n) rootTable 1 ⟨D * 2^m, D * 2^m, m * 2^n⟩

/-- `⌊2^(k/2^n)⌋`, or `none` when neither the enclosure nor the direct inequality decides (never observed) -/
def floorPow2? (n : Nat) (k : Int) : Option Nat :=
  if k < 0 then some 0
  else
    let e := encl n k.toNat
    let r := e.lo / D
    if e.g = k.toNat ∧ e.hi < (r + 1) * D then some r
    else if n > 16 then none                       -- the direct inequality is out of reach there
    else if IsFloorPow2 n k r then some r
    else if IsFloorPow2 n k (r + 1) then some (r + 1)
    else none

/-- the exponent pair `(n, k)` with `2^x · 2^(−E) = 2^(k/2^n)` for `x = rep · 2^E` -/
def expArg (E rep : Int) : Nat × Int :=
  if E < 0 then ((-E).toNat, rep + (-E) * 2^(-E).toNat) else (0, rep * 2^E.toNat - E)

/-- `r` is the representation of the true `2^x` truncated to the resolution `2^E` -/
def IsRef (E rep : Int) (r : Nat) : Prop := IsFloorPow2 (expArg E rep).1 (expArg E rep).2 r

/-- the true result is at least `2^W` units (not representable in any `W`-bit type) -/
def tooBig (W : Nat) (E rep : Int) : Bool := decide ((expArg E rep).2 ≥ (W : Int) * 2^(expArg E rep).1)

/-- executable reference `⌊2^x · 2^(−E)⌋` for results below `2^W` units; `none` = not decided here
(result ≥ `2^W` units, or more fractional bits than `rootTable` has levels) -/
def ref? (W : Nat) (E rep : Int) : Option Nat :=
  if tooBig W E rep then none
  else if (expArg E rep).1 > rootTable.length then none
  else floorPow2? (expArg E rep).1 (expArg E rep).2

end Cnl.Spec.Exp2
