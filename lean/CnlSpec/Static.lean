import CnlModel.StaticExpr
import CnlSpec.Rounding
/-!
# What C11 demands of static_integer / static_number

The ideal evaluation of a history: exact integers at known exponents (the value of `⟨e, v⟩` is
`v · 2^e`), the rounding mode applied at each division and at each precision-losing conversion, and an
overflow *signal* exactly when a conversion's (rounded) value does not fit the destination's digits
— for the saturated tag the signal is the clamped limit, which later operations consume.
Independent of the model's arithmetic: only the expression type `SExpr` and the tags are shared.
-/
namespace Cnl.Static
open Cnl Cnl.Spec

/-- the rounding a rounding tag prescribes -/
def rmode : RdMode → RoundMode
  | .nat => .truncate | .nrst => .nearestAway | .tpi => .nearestUp | .ninf => .floor

/-- "in range": `|value| ≤ 2^digits − 1` -/
def SNum.InRange (x : SNum) : Prop := -(2^x.digits - 1 : Int) ≤ x.value ∧ x.value ≤ 2^x.digits - 1

instance (x : SNum) : Decidable x.InRange := by unfold SNum.InRange; exact inferInstance

/-- result of an ideal evaluation -/
inductive Ideal where
  /-- the number `v · 2^exp` -/
  | val (exp : Int) (v : Int)
  /-- an overflow signal of the given polarity (under the throwing / trapping / undefined tags) -/
  | signal (pos : Bool)
  /-- the property does not constrain the history (zero divisor) -/
  | undef
deriving DecidableEq, Repr

/-- the two operands at the smaller of their exponents -/
def alignL (ea eb : Int) (va : Int) : Int := va * 2^(ea - min ea eb).toNat
def alignR (ea eb : Int) (vb : Int) : Int := vb * 2^(eb - min ea eb).toNat

/-- the exact result of an operator; the quotient rounded in mode `m`.  The first signal wins
(operands are evaluated left to right). -/
def idealBin (m : RoundMode) (op : BinOp) (a b : Ideal) : Ideal :=
  match a, b with
  | .val ea va, .val eb vb =>
    (match op with
     | .add => .val (min ea eb) (alignL ea eb va + alignR ea eb vb)
     | .sub => .val (min ea eb) (alignL ea eb va - alignR ea eb vb)
     | .mul => .val (ea + eb) (va * vb)
     | .div => if vb = 0 then .undef else .val (ea - eb) (roundDiv m va vb)
     | _ => .undef)
  | .signal p, _ => .signal p
  | .val _ _, .signal p => .signal p
  | _, _ => .undef

def idealNeg : Ideal → Ideal
  | .val e v => .val e (-v)
  | o => o

/-- `v · 2^e` expressed at exponent `E`: exact when `E ≤ e`, otherwise rounded in mode `m` -/
def rescale (m : RoundMode) (E e : Int) (v : Int) : Int :=
  if E ≤ e then v * 2^(e - E).toNat else roundDiv m v (2^(E - e).toNat)

/-- assigning the integer `w` (at exponent `E`) to `D` digits: the value itself when
`|w| ≤ 2^D − 1`; otherwise the saturated tag clamps to the limit and every other tag signals -/
def idealNarrow (tag : OvTag) (D : Nat) (E : Int) (w : Int) : Ideal :=
  if w > 2^D - 1 then (if tag = .sat then .val E (2^D - 1) else .signal true)
  else if w < -(2^D - 1 : Int) then (if tag = .sat then .val E (-(2^D - 1 : Int)) else .signal false)
  else .val E w

/-- conversion / assignment to `static_number<D, E>` -/
def idealCvt (c : Cfg) (D : Nat) (E : Int) : Ideal → Ideal
  | .val e v => idealNarrow c.tag D E (rescale (rmode c.mode) E e v)
  | o => o

/-- `x << k` in `D` digits: `x · 2^k` when it fits, otherwise the overflow reaction -/
def idealShl (tag : OvTag) (D : Nat) (k : Nat) : Ideal → Ideal
  | .val e v => idealNarrow tag D e (v * 2^k)
  | o => o

/-- `x >> k`: `⌊x / 2^k⌋` -/
def idealShr (k : Nat) : Ideal → Ideal
  | .val e v => .val e (v / 2^k)
  | o => o

/-- a constant shift of a static_number: the same significand at another exponent -/
def idealMoveExp (k : Int) : Ideal → Ideal
  | .val e v => .val (e + k) v
  | o => o

/-- `x << constant<k>` on a static_integer: exact, the type widens -/
def idealShlWiden (k : Nat) : Ideal → Ideal
  | .val e v => .val e (v * 2^k)
  | o => o

/-- ideal evaluation of a history -/
def evalIdeal (c : Cfg) : SExpr → Ideal
  | .lit x => .val x.exp x.value
  | .add a b => idealBin (rmode c.mode) .add (evalIdeal c a) (evalIdeal c b)
  | .sub a b => idealBin (rmode c.mode) .sub (evalIdeal c a) (evalIdeal c b)
  | .mul a b => idealBin (rmode c.mode) .mul (evalIdeal c a) (evalIdeal c b)
  | .div a b => idealBin (rmode c.mode) .div (evalIdeal c a) (evalIdeal c b)
  | .neg a => idealNeg (evalIdeal c a)
  | .cvt D E a => idealCvt c D E (evalIdeal c a)
  | .shl D k a => idealShl c.tag D k (evalIdeal c a)
  | .shr k a => idealShr k (evalIdeal c a)
  | .shlN k a => idealMoveExp k (evalIdeal c a)
  | .shlI k a => idealShlWiden k (evalIdeal c a)
  | .shrI k a => idealShr k (evalIdeal c a)

/-! ## the exact result of one operator, with the digits its type declares -/

/-- digits of a product (`elastic_tag/policy.h`): a one-digit operand contributes none -/
def prodDigits (a b : Nat) : Nat := max 1 ((if a = 1 then 0 else a) + (if b = 1 then 0 else b))

/-- what the property demands of `x op y`: the declared digits (operands of `+ -` are first aligned
to the smaller exponent, which adds digits), the exponent, and the exact value at that exponent —
for `/` the quotient of the representation values rounded in mode `m` -/
def exactBin (m : RoundMode) (op : BinOp) (x y : SNum) : SNum :=
  let e := min x.exp y.exp
  let kx := (x.exp - e).toNat
  let ky := (y.exp - e).toNat
  match op with
  | .add => ⟨max (x.digits + kx) (y.digits + ky) + 1, e, x.value * 2^kx + y.value * 2^ky⟩
  | .sub => ⟨max (x.digits + kx) (y.digits + ky) + 1, e, x.value * 2^kx - y.value * 2^ky⟩
  | .mul => ⟨prodDigits x.digits y.digits, x.exp + y.exp, x.value * y.value⟩
  | .div => ⟨x.digits, x.exp - y.exp, roundDiv m x.value y.value⟩
  | _ => x

/-- the operators of a static number -/
def IsArith (op : BinOp) : Prop := op = .add ∨ op = .sub ∨ op = .mul ∨ op = .div

/-- the model's outcome `r` agrees with the ideal outcome `i`: the same exponent and value, or the
reaction the overflow tag prescribes for a signal of the same polarity.  Undefined behaviour,
an out-of-bounds access, divergence or an ill-formed instantiation agree with nothing. -/
def Agrees (tag : OvTag) : Res SNum → Ideal → Prop
  | .ok v, .val e w => v.exp = e ∧ v.value = w
  | .throws p, .signal q => tag = .thr ∧ p = q
  | .trap p, .signal q => tag = .trp ∧ p = q
  | .unreachable _, .signal _ => tag = .und
  | _, _ => False

/-! ## the two open defect classes of the narrowing conversion, and the side conditions -/

/-- class `C11.narrowing_drops_all_digits`: the exponent is raised by more than the source's digits
(raising it by exactly the digit count goes through an `elastic_integer<0>`, whose range is `[0, 0]`) -/
def NarrowingDropsAllDigits (E : Int) (x : SNum) : Prop :=
  x.exp < E ∧ x.digits < (E - x.exp).toNat

/-- class `C11.rounded_value_exceeds_intermediate_digits`: the rounded quotient has magnitude
`2^(digits − k)`, one above what the intermediate `digits − k` digits hold (`k ≤ digits`; for
`k = digits` the intermediate type holds only `0`) -/
def RoundedExceedsIntermediate (c : Cfg) (E : Int) (x : SNum) : Prop :=
  x.exp < E ∧ (E - x.exp).toNat ≤ x.digits ∧
    (roundDiv (rmode c.mode) x.value (2^(E - x.exp).toNat)).natAbs > 2^(x.digits - (E - x.exp).toNat) - 1

instance (E : Int) (x : SNum) : Decidable (NarrowingDropsAllDigits E x) := by
  unfold NarrowingDropsAllDigits; exact inferInstance

instance (c : Cfg) (E : Int) (x : SNum) : Decidable (RoundedExceedsIntermediate c E x) := by
  unfold RoundedExceedsIntermediate; exact inferInstance

/-- an input of one of the two open defect classes -/
def KnownDefect (c : Cfg) (E : Int) (x : SNum) : Prop :=
  NarrowingDropsAllDigits E x ∨ RoundedExceedsIntermediate c E x

instance (c : Cfg) (E : Int) (x : SNum) : Decidable (KnownDefect c E x) := by
  unfold KnownDefect NarrowingDropsAllDigits RoundedExceedsIntermediate; exact inferInstance

/-- class `C11.shr_constant_below_declared_range` (the elastic layer's open finding
`C05.shr_negative_below_declared_range` seen through a static_integer): `x >> constant<k>` has
`digits − k` digits but `⌊x / 2^k⌋ = −2^(digits − k)`, one below the declared range -/
def ShrBelowRange (k : Nat) (x : SNum) : Prop := x.value / 2^k < -(2^(x.digits - k) - 1 : Int)

instance (k : Nat) (x : SNum) : Decidable (ShrBelowRange k x) := by unfold ShrBelowRange; exact inferInstance

/-- `p` holds of the value `r` returns, if it returns one -/
def onOk {α : Type} (r : Res α) (p : α → Prop) : Prop :=
  match r with
  | .ok a => p a
  | _ => True

instance {α : Type} (r : Res α) (p : α → Prop) [DecidablePred p] : Decidable (onOk r p) :=
  match r with
  | .ok a => inferInstanceAs (Decidable (p a))
  | .ub _ => isTrue trivial
  | .trap _ => isTrue trivial
  | .throws _ => isTrue trivial
  | .unreachable _ => isTrue trivial
  | .oob _ => isTrue trivial
  | .diverges => isTrue trivial
  | .ill _ => isTrue trivial

/-- side conditions of a history: literals are in range, no divisor (as the model computes it) is
zero, no conversion meets one of the two open defect classes at its (model-computed) argument, the
digit annotation of a run-time left shift is the operand's digit count, and a constant right shift
of a static_integer removes fewer digits than there are and stays outside the open class
`ShrBelowRange` -/
def SideOK (c : Cfg) : SExpr → Prop
  | .lit x => x.InRange
  | .add a b => SideOK c a ∧ SideOK c b
  | .sub a b => SideOK c a ∧ SideOK c b
  | .mul a b => SideOK c a ∧ SideOK c b
  | .div a b => SideOK c a ∧ SideOK c b ∧ onOk (evalModel c b) (fun y => y.value ≠ 0)
  | .neg a => SideOK c a
  | .cvt _ E a => SideOK c a ∧ onOk (evalModel c a) (fun x => ¬ KnownDefect c E x)
  | .shl D _ a => SideOK c a ∧ onOk (evalModel c a) (fun x => x.digits = D)
  | .shr _ a => SideOK c a
  | .shlN _ a => SideOK c a
  | .shlI _ a => SideOK c a
  | .shrI k a => SideOK c a ∧ onOk (evalModel c a) (fun x => k < x.digits ∧ ¬ ShrBelowRange k x)

instance SideOK.dec (c : Cfg) : (e : SExpr) → Decidable (SideOK c e)
  | .lit x => inferInstanceAs (Decidable x.InRange)
  | .add a b => @instDecidableAnd _ _ (SideOK.dec c a) (SideOK.dec c b)
  | .sub a b => @instDecidableAnd _ _ (SideOK.dec c a) (SideOK.dec c b)
  | .mul a b => @instDecidableAnd _ _ (SideOK.dec c a) (SideOK.dec c b)
  | .div a b => @instDecidableAnd _ _ (SideOK.dec c a) (@instDecidableAnd _ _ (SideOK.dec c b) inferInstance)
  | .neg a => SideOK.dec c a
  | .cvt _ _ a => @instDecidableAnd _ _ (SideOK.dec c a) inferInstance
  | .shl _ _ a => @instDecidableAnd _ _ (SideOK.dec c a) inferInstance
  | .shr _ a => SideOK.dec c a
  | .shlN _ a => SideOK.dec c a
  | .shlI _ a => SideOK.dec c a
  | .shrI _ a => @instDecidableAnd _ _ (SideOK.dec c a) inferInstance

end Cnl.Static
