/-!
# CnlSpec.Numbers — what C20 demands of the constants: `|c − K·2^(−E)| < 1` for the stored representation `c`

Two oracles.
* **Algebraic constants** (`sqrt2`, `sqrt3`, `inv_sqrt3`, `phi`): `K` is the positive root of an integer polynomial that is
  negative on `[0, K)` and positive on `(K, ∞)`, so `a/2^f < K` and `K < a/2^f` are integer inequalities (`algBelow`, `algAbove`):
  exact, no approximation of `K` is involved.
* **All constants**: a 60-digit decimal enclosure `n/10^60 ≤ K < (n+1)/10^60` (`ref60`; digits computed with mpmath and cross-checked by the
  generator on every run when the tooling venv is present).  This is a *numerical* reference, not a theorem about π or e.
Lean core only.
-/
namespace Cnl.Spec.Numbers

/-- `⌊K · 10^60⌋` -/
def ref60 : List (String × Nat) :=
  [("e", 2718281828459045235360287471352662497757247093699959574966967),
   ("log2e", 1442695040888963407359924681001892137426645954152985934135449),
   ("log10e", 434294481903251827651128918916605082294397005803666566114453),
   ("pi", 3141592653589793238462643383279502884197169399375105820974944),
   ("inv_pi", 318309886183790671537767526745028724068919291480912897495334),
   ("inv_sqrtpi", 564189583547756286948079451560772585844050629328998856844085),
   ("ln2", 693147180559945309417232121458176568075500134360255254120680),
   ("ln10", 2302585092994045684017991454684364207601101488628772976033327),
   ("sqrt2", 1414213562373095048801688724209698078569671875376948073176679),
   ("sqrt3", 1732050807568877293527446341505872366942805253810380628055806),
   ("inv_sqrt3", 577350269189625764509148780501957455647601751270126876018602),
   ("egamma", 577215664901532860606512090082402431042159335939923598805767),
   ("phi", 1618033988749894848204586834365638117720309179805762862135448)]

def lookup (name : String) : List (String × Nat) → Option Nat
  | [] => none
  | (n, v) :: t => if n = name then some v else lookup name t

/-- the rational `a · 2^E` as numerator and binary denominator exponent -/
def asFrac (a : Nat) (E : Int) : Nat × Nat := if E < 0 then (a, (-E).toNat) else (a * 2^E.toNat, 0)

/-- numerical oracle: `(c−1)·2^E < n/10^60` and `(n+1)/10^60 ≤ (c+1)·2^E`, hence `|c − K·2^(−E)| < 1` for any `K` in the enclosure -/
def within1Ref (name : String) (E : Int) (c : Int) : Option Bool :=
  match lookup name ref60 with
  | none => none
  | some n =>
    if c < 0 then some false
    else
      let up := asFrac (c.toNat + 1) E
      let lowOK : Bool := c ≤ 1 || (let lo := asFrac (c.toNat - 1) E; decide (lo.1 * 10^60 < n * 2^lo.2))
      some (lowOK && decide ((n + 1) * 2^up.2 ≤ up.1 * 10^60))

/-- `a/2^f < K` for the algebraic constants, exactly (`a, f` natural) -/
def algBelow (name : String) (a f : Nat) : Option Bool :=
  if name = "sqrt2" then some (decide (a * a < 2 * 4^f))
  else if name = "sqrt3" then some (decide (a * a < 3 * 4^f))
  else if name = "inv_sqrt3" then some (decide (3 * (a * a) < 4^f))
  else if name = "phi" then some (decide (a * a < a * 2^f + 4^f))
  else none

/-- `K < a/2^f`, exactly -/
def algAbove (name : String) (a f : Nat) : Option Bool :=
  if name = "sqrt2" then some (decide (2 * 4^f < a * a))
  else if name = "sqrt3" then some (decide (3 * 4^f < a * a))
  else if name = "inv_sqrt3" then some (decide (4^f < 3 * (a * a)))
  else if name = "phi" then some (decide (a * 2^f + 4^f < a * a))
  else none

/-- exact oracle for the algebraic constants: `(c−1)·2^E < K < (c+1)·2^E` -/
def within1Alg (name : String) (E : Int) (c : Int) : Option Bool :=
  if c < 0 then (algBelow name 0 0).map fun _ => false
  else
    let up := asFrac (c.toNat + 1) E
    let lo := asFrac (c.toNat - 1) E
    match algAbove name up.1 up.2, algBelow name lo.1 lo.2 with
    | some hi, some low => some (hi && (c == 0 || low))
    | _, _ => none

/-- `c ≤ K·2^(−E)` (the stored value is the *truncation*, not merely within one unit): numerical -/
def truncRef (name : String) (E : Int) (c : Int) : Option Bool :=
  match lookup name ref60 with
  | none => none
  | some n => if c < 0 then some false else
    let q := asFrac c.toNat E
    some (decide (q.1 * 10^60 ≤ n * 2^q.2))

end Cnl.Spec.Numbers
