import CnlModel.Ty
/-! What C06 demands of a checked operation: decided by the exact mathematical result alone. -/
namespace Cnl.Spec
open Cnl

/-- the outcome the overflow tag prescribes for an exact result `e` in result type `T` -/
def checkedWant (tag : OvTag) (T : IntTy) (e : Int) : Res TV :=
  if e > T.max then
    (match tag with
     | .sat => .ok (T, T.max)
     | .thr => .throws true
     | .trp => .trap true
     | .und => .unreachable "positive overflow"
     | .nat => .ok (T, T.wrap e))
  else if e < T.lowest then
    (match tag with
     | .sat => .ok (T, T.lowest)
     | .thr => .throws false
     | .trp => .trap false
     | .und => .unreachable "negative overflow"
     | .nat => .ok (T, T.wrap e))
  else .ok (T, e)

/-- exact results of the operators C06 lists (`none`: the property does not constrain the input:
zero divisor, negative shift count) -/
def exactBin (op : BinOp) (l r : Int) : Option Int :=
  match op with
  | .add => some (l + r)
  | .sub => some (l - r)
  | .mul => some (l * r)
  | .div => if r = 0 then none else some (l.tdiv r)
  | .shl => if r < 0 then none else some (l * 2^r.toNat)
  | _ => none

end Cnl.Spec
