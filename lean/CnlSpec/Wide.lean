import CnlModel.CInt
/-!
# CnlSpec.Wide — what C10 demands: arithmetic on mathematical integers reduced to N bits

Nothing here mentions limbs: a value is an `Int`, the format is the width `N` and the signedness.
`wrapTwos` is the reduction to the N-bit two's-complement range; division truncates toward zero,
right shift of negatives is arithmetic (floor), bitwise operators act on the N-bit patterns.
These definitions are the right-hand sides of the theorems in `CnlProperties/C10.lean` and the
driver's independent oracle.
-/
namespace Cnl.WideSpec
open Cnl

/-- reduction of a mathematical integer to the `N`-bit two's-complement (or unsigned) range -/
def wrapTwos (N : Nat) (signed : Bool) (x : Int) : Int :=
  if signed then (x + 2^(N-1)) % 2^N - 2^(N-1) else x % 2^N

/-- the `N`-bit pattern of `x` -/
def pattern (N : Nat) (x : Int) : Nat := (x % 2^N).toNat

def InRange (N : Nat) (signed : Bool) (x : Int) : Prop :=
  if signed then -(2^(N-1)) ≤ x ∧ x < 2^(N-1) else 0 ≤ x ∧ x < 2^N

/-- exact result of a binary operator on mathematical integers; `none` where C10 does not constrain
the result (zero divisor).  Shifts take the count as second operand (`0 ≤ k < N` is the caller's guard). -/
def exactBin (N : Nat) (op : BinOp) (a b : Int) : Option Int :=
  match op with
  | .add => some (a + b)
  | .sub => some (a - b)
  | .mul => some (a * b)
  | .div => if b = 0 then none else some (a.tdiv b)
  | .mod => if b = 0 then none else some (a.tmod b)
  | .band => some (Int.ofNat (pattern N a &&& pattern N b))
  | .bor => some (Int.ofNat (pattern N a ||| pattern N b))
  | .bxor => some (Int.ofNat (pattern N a ^^^ pattern N b))
  | .shl => some (a * 2^b.toNat)
  | .shr => some (a / 2^b.toNat)

/-- what the property demands of `a op b` in an `N`-bit format -/
def specBin (N : Nat) (signed : Bool) (op : BinOp) (a b : Int) : Option Int :=
  (exactBin N op a b).map (wrapTwos N signed)

def specCmp (op : CmpOp) (a b : Int) : Bool :=
  match op with
  | .lt => decide (a < b) | .le => decide (a ≤ b) | .gt => decide (a > b) | .ge => decide (a ≥ b)
  | .eq => decide (a = b) | .ne => decide (a ≠ b)

/-- decimal text of an integer (Lean's own conversion; the driver's oracle) -/
def decimal (x : Int) : String := toString x

/-- decimal digits of a natural number, most significant first, in front of `acc`; the recursion
stops at 0, `fuel` only has to be at least the number of digits (the value itself is plenty) -/
def natDigits : Nat → Nat → List Char → List Char
  | 0, _, acc => acc
  | fuel+1, n, acc => if n = 0 then acc else natDigits fuel (n / 10) (Char.ofNat (n % 10 + 48) :: acc)

/-- the decimal text the property speaks of, defined from first principles: optional `-`, then the
digits of the magnitude (`0` for zero).  The driver checks on every `dec` line that it agrees with `decimal`. -/
def decimalText (x : Int) : String :=
  let n := x.natAbs
  let ds := if n = 0 then ['0'] else natDigits n n []
  String.ofList (if x < 0 then '-' :: ds else ds)

/-- `numeric_limits<wide_integer<Digits, _>>`: bounds follow `Digits`, not the storage width -/
def limMax (digits : Nat) : Int := 2^digits - 1
def limLowest (digits : Nat) (signed : Bool) : Int := if signed then -(2^digits) else 0

end Cnl.WideSpec
