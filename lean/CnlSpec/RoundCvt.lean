import CnlSpec.Rounding
/-!
# Rounding an exact value to an integer (property C09)

The narrowing conversions of C09 take an exact source value `x` (a finer scaled integer
`v · 2^(-k)` or a finite floating-point number `a · 2^e`) and must return the integer the rounding
mode selects from `x` (in units of the destination resolution).

* `roundShift m v k` : `v / 2^k` rounded in mode `m`, with `Int` operations only;
* `roundDyadic m a e` : `a · 2^e` rounded in mode `m` (`e` of either sign);
* `IsRoundedShift` : the division-free characterisation shared with C08 (`IsRounded`), which pins the
  value (`roundShift_isRounded` in `CnlProofs.RoundCvt`, uniqueness in `CnlProofs.Rounding`).

Lean core only.
-/
namespace Cnl.Spec

/-- `v / 2^k` rounded to an integer:
floor `⌊v/2^k⌋`; nearest with ties toward +∞ `⌊v/2^k + 1/2⌋`; nearest with ties away from zero
`sgn v · ⌊|v|/2^k + 1/2⌋`; truncation toward zero. -/
def roundShift (m : RoundMode) (v : Int) (k : Nat) : Int :=
  match m with
  | .floor => v / 2^k
  | .truncate => v.tdiv (2^k)
  | .nearestUp => (2 * v + 2^k) / 2^(k+1)
  | .nearestAway => sgn v * ((2 * (v.natAbs : Int) + 2^k) / 2^(k+1))

/-- `a · 2^e` rounded to an integer (exact for `e ≥ 0`) -/
def roundDyadic (m : RoundMode) (a : Int) (e : Int) : Int :=
  if 0 ≤ e then a * 2^e.toNat else roundShift m a (-e).toNat

/-- division-free characterisation of `roundShift` (decidable; used for sanity checks):
`q` is `v / 2^k` rounded in mode `m` -/
def IsRoundedShift (m : RoundMode) (v : Int) (k : Nat) (q : Int) : Prop := IsRounded m v (2^k) q

instance (m : RoundMode) (v : Int) (k : Nat) (q : Int) : Decidable (IsRoundedShift m v k q) := by
  unfold IsRoundedShift; exact inferInstance

/-! sanity: the four modes on `±5/2`, `±7/4` -/
example : roundShift .floor 5 1 = 2 ∧ roundShift .floor (-5) 1 = -3 := by decide
example : roundShift .truncate 5 1 = 2 ∧ roundShift .truncate (-5) 1 = -2 := by decide
example : roundShift .nearestUp 5 1 = 3 ∧ roundShift .nearestUp (-5) 1 = -2 := by decide
example : roundShift .nearestAway 5 1 = 3 ∧ roundShift .nearestAway (-5) 1 = -3 := by decide
example : roundShift .nearestUp 7 2 = 2 ∧ roundShift .nearestUp (-7) 2 = -2 := by decide
example : roundShift .nearestAway (-7) 2 = -2 ∧ roundShift .nearestAway (-5) 2 = -1 := by decide

end Cnl.Spec
