import CnlModel.MakeFraction
/-!
# CnlSpec.MakeFraction — what property C17 demands of `fraction<T>(floating)`

Pure mathematics on exact values: the input `x` is the dyadic rational denoted by a finite
`FVal`, the output a pair of integers.  No floating-point operation occurs here; every clause is
an (in)equality between integers obtained by cross-multiplying with the positive denominators,
i.e. exact rational arithmetic.  `D = I.digits` is the number of digits of the component type.

The property (properties.jsonl, C17): for every finite `x` with `|x| ≤ max`:
* the construction terminates (the caller checks that a fraction was returned at all);
* `den > 0`; the components are in range; the fraction has the sign of the input;
* if `x` is exactly a ratio of two integers representable in the component type, the fraction
  equals `x`; otherwise `⌊x⌋ ≤ fraction ≤ ⌊x⌋+1` and `|fraction − x| < max(1,|x|) · 2^(4−D)`.

Reading of "has the sign of the input" used here: a positive input yields a positive fraction,
a negative input a negative one, zero yields zero.
-/
namespace Cnl.MakeFractionSpec
open Cnl Cnl.MakeFraction

/-- the exact value `num/den` (`den > 0`) of a finite floating-point datum -/
def exact? (x : FVal) : Option (Int × Nat) := x.toFrac?

/-- the property's domain: finite and `|x| ≤ numeric_limits<int_t>::max()` -/
def inDomain (I : IntTy) (x : FVal) : Bool :=
  match exact? x with
  | some (n, d) => decide ((n.natAbs : Int) ≤ I.max * d)
  | none => false

/-- `x` is a ratio of two integers representable in `I` (iff its reduced form is) -/
def exactRep (I : IntTy) (xn : Int) (xd : Nat) : Bool :=
  let g := Int.gcd xn xd
  decide (I.InRange (xn / g)) && decide (I.InRange ((xd / g : Nat) : Int))

inductive Clause where
  | denPositive | inRange | sign | exact | between | bound
deriving DecidableEq, Repr

def Clause.toString : Clause → String
  | .denPositive => "den_positive" | .inRange => "in_range" | .sign => "sign"
  | .exact => "exact" | .between => "between" | .bound => "bound"

/-- first clause of the property that the result `fr` violates for the input `xn/xd`, if any -/
def violatedQ (I : IntTy) (xn : Int) (xd : Nat) (fr : Frac) : Option Clause :=
  let n := fr.num
  let dn := fr.den
  if ¬ (0 < dn) then some .denPositive
  else if ¬ (I.InRange n ∧ I.InRange dn) then some .inRange
  else if ¬ ((0 < xn → 0 < n) ∧ (xn < 0 → n < 0) ∧ (xn = 0 → n = 0)) then some .sign
  else if exactRep I xn xd then
    (if n * xd = xn * dn then none else some .exact)
  else
    let fl := xn / (xd : Int)
    if ¬ (fl * dn ≤ n ∧ n ≤ (fl + 1) * dn) then some .between
    else
      -- |n/dn − xn/xd| < max(1,|x|)·2^(4−D)  ⟺  |n·xd − xn·dn|·2^D < max(xd,|xn|)·dn·2^4
      let err := (n * xd - xn * dn).natAbs
      let scale := if xn.natAbs ≤ xd then xd else xn.natAbs
      if err * 2 ^ I.digits < scale * dn.natAbs * 2 ^ 4 then none else some .bound

def violated (I : IntTy) (x : FVal) (fr : Frac) : Option Clause :=
  match exact? x with
  | some (xn, xd) => violatedQ I xn xd fr
  | none => none

/-- the result is faithful to the input in the sense of the property -/
def Faithful (I : IntTy) (x : FVal) (fr : Frac) : Prop := violated I x fr = none
instance (I : IntTy) (x : FVal) (fr : Frac) : Decidable (Faithful I x fr) := by unfold Faithful; exact inferInstance

end Cnl.MakeFractionSpec

/-! ## Known defect classes (decidable predicates of the input)

The unchanged code violates the property on large parts of its domain.  Each class is a
decidable predicate of `(F, I, x)` — defined through the model's evaluation, which the
correspondence check ties to the real code on every run — and is listed in `findings/C17.json`. -/
namespace Cnl.MakeFractionSpec
open Cnl Cnl.MakeFraction

inductive Defect where
  /-- an internal `CNL_ASSERT` fails (debug build: abort; release build: `unreachable()`) -/
  | assertion
  /-- `⌊|x|⌋ = max`: `left.numerator + 1` overflows before anything is compared -/
  | ubFloorMax
  /-- undefined behaviour inside the search: out-of-range `static_cast<int_t>(floating)` or signed overflow -/
  | ubSearch
  /-- the search does not terminate within the fuel -/
  | hang
  /-- a fraction is returned that violates the given clause -/
  | clause (c : Clause)
  /-- the returned fraction converts back to the input (`static_cast<FP>(f) == x`) but is not equal
  to it although the input is a ratio of representable integers (simplest fraction in the rounding interval) -/
  | notExactRoundTrip
deriving DecidableEq, Repr

def Defect.id : Defect → String
  | .assertion => "C17.internal_assertion_fails"
  | .ubFloorMax => "C17.ub_floor_is_max"
  | .ubSearch => "C17.ub_in_search"
  | .hang => "C17.hang"
  | .clause c => "C17." ++ c.toString
  | .notExactRoundTrip => "C17.simplest_fraction_not_exact"

/-- `⌊|x|⌋ = numeric_limits<int_t>::max()` -/
def floorIsMax (I : IntTy) (x : FVal) : Bool :=
  match fToInt ⟨I.bits + 1, true⟩ x.abs with
  | .ok v => decide (v = I.max)
  | _ => false

/-- the defect class of an input (none: the model's result is faithful, or the input is outside
the property's domain) -/
def classify (F : Fmt) (I : IntTy) (x : FVal) (fuel : Nat) : Option Defect :=
  if inDomain I x = false then none else
  match makeFractionX F I x fuel with
  | .ok (fr, _) =>
    match violated I x fr with
    | none => none
    | some .exact => if fCmp .eq (fracToF F fr) x then some .notExactRoundTrip else some (.clause .exact)
    | some c => some (.clause c)
  | .unreachable _ => some .assertion
  | .ub _ => if floorIsMax I x then some .ubFloorMax else some .ubSearch
  | .diverges => some .hang
  | _ => some .hang


/-- the integer type of `C.digits` digits against which the property's range clause is judged -/
def compTy (C : Comp) : IntTy := ⟨C.digits + 1, true⟩

/-- does the same evaluation with range-checked arithmetic (every `+ - *` and every `static_cast<int_t>(floating)`
whose value leaves `[lowest, max]` is an error, as it is undefined for a built-in component) overflow? -/
def checkedOverflows (F : Fmt) (C : Comp) (x : FVal) (fuel : Nat) : Bool :=
  match makeFractionC F { C with arith := .ub, fcvt := .ub } x fuel with
  | .ub _ => true
  | _ => false

/-- the defect class of an input for a component type that is a CNL number: the same classes, read off
the generic model.  Where a built-in component executes undefined behaviour in the search (the arithmetic
leaves the component's range) an `overflow_integer` traps / throws, a saturating one carries on with the
clamped value, a `wide_integer` / `elastic_integer` silently leaves its digit count (`ill` = beyond what the
model predicts): all of these are the overflow-in-the-search class, decided by `checkedOverflows` for the
component kinds that do not stop (`sat`, `keep`). -/
def classifyC (F : Fmt) (C : Comp) (x : FVal) (fuel : Nat) : Option Defect :=
  if inDomain (compTy C) x = false then none else
  let ovf : Defect := if floorIsMax (compTy C) x then .ubFloorMax else .ubSearch
  match makeFractionC F C x fuel with
  | .ok (fr, _) =>
    match violated (compTy C) x fr with
    | none => none
    | some c =>
      if (C.arith = .sat ∨ C.arith = .keep) ∧ checkedOverflows F C x fuel then some ovf
      else if c = .exact then
        (if fCmp .eq (fracToFC F C fr) x then some .notExactRoundTrip else some (.clause .exact))
      else some (.clause c)
  | .unreachable _ =>
    if (C.arith = .sat ∨ C.arith = .keep) ∧ checkedOverflows F C x fuel then some ovf else some .assertion
  | .diverges => some .hang
  | _ => some ovf

end Cnl.MakeFractionSpec
