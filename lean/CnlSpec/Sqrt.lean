/-!
# CnlSpec.Sqrt — the mathematics property C19 speaks of

`r` is the floor of the square root of `x` when `r ≥ 0` and `r² ≤ x < (r+1)²`.  A scaled integer
with representation `r` and `power<e, radix>` denotes the rational `r · radix^e` (core `Rat`); the
scaled statement is the same inequality between the denoted rationals, with "one unit" being one
step of the result's representation.  Nothing here mentions the algorithm or C++; the definitions
are the right-hand sides of the theorems in `CnlProperties.C19` and the oracle the driver applies
to the implementation's results.
-/
namespace Cnl.SqrtSpec

/-- `r = ⌊√x⌋` -/
def IsFloorSqrt (x r : Int) : Prop := 0 ≤ r ∧ r * r ≤ x ∧ x < (r + 1) * (r + 1)
instance (x r : Int) : Decidable (IsFloorSqrt x r) := by unfold IsFloorSqrt; exact inferInstance

/-- the rational denoted by representation `rep` at `radix^e` -/
def den (rep : Int) (e : Int) (radix : Nat) : Rat := (rep : Rat) * (radix : Rat) ^ e

/-- `scaled_integer` statement: input `x` at exponent `e`, result `r` at exponent `e'`:
`e' = e/2` exactly, and `(r·radix^e')² ≤ x·radix^e < ((r+1)·radix^e')²` -/
def IsScaledFloorSqrt (x e : Int) (radix : Nat) (r e' : Int) : Prop :=
  2 * e' = e ∧ 0 ≤ r ∧ (den r e' radix) ^ 2 ≤ den x e radix ∧ den x e radix < (den (r + 1) e' radix) ^ 2
instance (x e : Int) (radix : Nat) (r e' : Int) : Decidable (IsScaledFloorSqrt x e radix r e') := by
  unfold IsScaledFloorSqrt; exact inferInstance

/-- the result fits `digits` binary digits (elastic_integer: `(Digits+1)/2`) -/
def FitsDigits (digits : Nat) (r : Int) : Prop := 0 ≤ r ∧ r < 2 ^ digits
instance (d : Nat) (r : Int) : Decidable (FitsDigits d r) := by unfold FitsDigits; exact inferInstance

end Cnl.SqrtSpec
