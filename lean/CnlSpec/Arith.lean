/-! Exact mathematics the properties speak of: integer operators without any type. -/
namespace Cnl.Spec

inductive AOp where | add | sub | mul | div | mod
deriving DecidableEq, Repr

/-- the exact mathematical result; division truncates toward zero, the remainder has the sign of
the dividend (the C++ meaning of `/` and `%` on integers) -/
def exact (op : AOp) (l r : Int) : Int :=
  match op with
  | .add => l + r
  | .sub => l - r
  | .mul => l * r
  | .div => l.tdiv r
  | .mod => l.tmod r

end Cnl.Spec
