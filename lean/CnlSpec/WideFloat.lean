import CnlSpec.Wide
import CnlModel.CFloat
/-!
# CnlSpec.WideFloat — what C10 demands of the floating-point conversions of `wide_integer`

Nothing here mentions limbs or the order of any accumulation.

* **to floating point** (`toFloatOk`): the exact value `v` (a mathematical integer) either is a datum of the
  format — then the result must be that datum — or lies strictly between two neighbouring data `lo < v < hi`
  — then the result must be one of the two (`hi` is `∞` when `v` exceeds the largest finite value; the
  round-to-nearest overflow threshold is *not* demanded, any of the two neighbours is accepted).
  `nearest` is the correctly rounded value, reported separately (DESIGN.md C10: correct rounding is not required).
* **from floating point** (`fromFloat`): truncation toward zero, reduced to the `N`-bit two's-complement range;
  NaN and infinities are not constrained.
-/
namespace Cnl.WideFloatSpec
open Cnl Cnl.WideSpec

/-- the two neighbouring data of the format around the magnitude `n > 0`: `(lower, upper, exact?)`,
as canonical `FVal`s with sign `neg`.  (Integers `≥ 1` are never subnormal in a format with `emin ≤ 0`.) -/
def bracket (F : Fmt) (neg : Bool) (n : Nat) : FVal × FVal × Bool :=
  let b := n.log2
  if F.emax < (b : Int) then
    -- beyond the largest binade: between the largest finite value and infinity
    (F.maxFinite neg, .inf neg, false)
  else if b < F.prec then
    -- at most `prec` significant bits: representable
    let x := FVal.fin neg (n * 2^(F.prec - 1 - b)) ((b : Int) - ((F.prec : Int) - 1))
    (x, x, true)
  else
    let sh := b + 1 - F.prec
    let m := n / 2^sh
    let exact := n % 2^sh = 0
    let mk : Nat → FVal := fun m =>
      let m' := if m = 2^F.prec then 2^(F.prec - 1) else m
      let e : Int := if m = 2^F.prec then (sh : Int) + 1 else sh
      if F.emax < e + ((F.prec : Int) - 1) then .inf neg else .fin neg m' e
    let lo := mk m
    (lo, if exact then lo else mk (m + 1), exact)

/-- the result `r` of converting the integer `v` to the format is acceptable -/
def toFloatOk (F : Fmt) (v : Int) (r : FVal) : Bool :=
  if v = 0 then r == .fin false 0 F.qmin
  else
    let br := bracket F (decide (v < 0)) v.natAbs
    r == br.1 || r == br.2.1

/-- the value has a datum of the format (no rounding needed) -/
def representable (F : Fmt) (v : Int) : Bool :=
  v = 0 || (bracket F (decide (v < 0)) v.natAbs).2.2

/-- the correctly rounded conversion (reported, not demanded) -/
def nearest (F : Fmt) (v : Int) : FVal := F.ofInt v

/-- what the property demands of `wide_integer{x}` for a finite `x = (-1)^s · m · 2^e` -/
def fromFloat (N : Nat) (signed : Bool) : FVal → Option Int
  | .fin s m e => some (wrapTwos N signed (truncInt s m e))
  | _ => none

end Cnl.WideFloatSpec
