/-! Exact rounding of a rational `a / b` to an integer, as the rounding tags prescribe. -/
namespace Cnl.Spec

inductive RoundMode where
  | truncate        -- toward zero (native)
  | nearestAway     -- nearest, ties away from zero
  | nearestUp       -- nearest, ties toward +infinity
  | floor           -- toward -infinity
deriving DecidableEq, Repr

def sgn (x : Int) : Int := if x < 0 then -1 else if x = 0 then 0 else 1

/-- the quotient `a / b` (`b ≠ 0`) rounded to an integer -/
def roundDiv (m : RoundMode) (a b : Int) : Int :=
  match m with
  | .truncate => a.tdiv b
  | .floor => a.fdiv b
  | .nearestUp => (2 * a * sgn b + b.natAbs) / (2 * (b.natAbs : Int))   -- ⌊a/b + 1/2⌋
  | .nearestAway =>
    -- magnitude ⌊|a|/|b| + 1/2⌋ with the sign of the quotient
    sgn a * sgn b * ((2 * (a.natAbs : Int) + b.natAbs) / (2 * (b.natAbs : Int)))

/-- characterisation without division, used by proofs and as a sanity check of `roundDiv`:
`q` is `a / b` rounded in mode `m` -/
def IsRounded (m : RoundMode) (a b q : Int) : Prop :=
  match m with
  | .truncate =>
    -- `q * b` lies between `0` and `a`, less than `|b|` away from `a`
    (a - q * b).natAbs < b.natAbs ∧ (0 ≤ a → 0 ≤ q * b ∧ q * b ≤ a) ∧ (a ≤ 0 → a ≤ q * b ∧ q * b ≤ 0)
  | .floor => if 0 < b then q * b ≤ a ∧ a < (q + 1) * b else (q + 1) * b < a ∧ a ≤ q * b
  | .nearestUp => if 0 < b then 2 * q * b ≤ 2 * a + b ∧ 2 * a + b < 2 * (q + 1) * b
                  else 2 * (q + 1) * b < 2 * a + b ∧ 2 * a + b ≤ 2 * q * b
  | .nearestAway =>
    (2 * (q * b - a)).natAbs ≤ b.natAbs ∧
    ((2 * (q * b - a)).natAbs = b.natAbs → (q * b).natAbs > a.natAbs)

instance (m : RoundMode) (a b q : Int) : Decidable (IsRounded m a b q) := by
  cases m <;> unfold IsRounded <;> exact inferInstance

end Cnl.Spec
