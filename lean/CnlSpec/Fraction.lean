import CnlModel.CInt
/-!
# CnlSpec.Fraction — the mathematics property C16 speaks of

The value of a fraction is the rational number `numerator / denominator` (core `Rat`, a field with
a decidable order).  The property's restriction "operands small enough that the cross products fit"
is spelt out as explicit range conditions on the *mathematical* products and sums in the types
C++ computes them in (`usualArith` of the component types): nothing wraps, nothing overflows, no
operand changes value when converted to the common type.

Independent of `CnlModel.Fraction`; these definitions are the right-hand sides of the theorems in
`CnlProperties.C16` and the oracle the driver applies to the implementation's results.
-/
namespace Cnl.FractionSpec
open Cnl

/-- the rational number denoted by numerator `n` and denominator `d` -/
def value (n d : Int) : Rat := (n : Rat) / (d : Rat)

/-- lowest terms -/
def Coprime (n d : Int) : Prop := Int.gcd n d = 1
instance (n d : Int) : Decidable (Coprime n d) := by unfold Coprime; exact inferInstance

/-- the unique representation of `n/d` (`d ≠ 0`) in lowest terms with a positive denominator -/
def lowestTerms (n d : Int) : Int × Int := ((value n d).num, (value n d).den)

/-- `x ⊕ y` is computed exactly by the built-in operator: both operands are representable in the
common type and so is the mathematical result -/
def OpFits (f : Int → Int → Int) (x y : TV) : Prop :=
  (usualArith x.1 y.1).InRange x.2 ∧ (usualArith x.1 y.1).InRange y.2 ∧ (usualArith x.1 y.1).InRange (f x.2 y.2)
instance (f : Int → Int → Int) (x y : TV) : Decidable (OpFits f x y) := by unfold OpFits; exact inferInstance

/-- the product `x * y` in its C++ type, as a typed value -/
def prodTV (x y : TV) : TV := (usualArith x.1 y.1, x.2 * y.2)

/-- both operands of a built-in comparison are representable in the common type -/
def CmpFits (x y : TV) : Prop := (usualArith x.1 y.1).InRange x.2 ∧ (usualArith x.1 y.1).InRange y.2
instance (x y : TV) : Decidable (CmpFits x y) := by unfold CmpFits; exact inferInstance

/-- `-x` is computed exactly: `x` and `-x` are representable in the promoted type -/
def NegFits (x : TV) : Prop := (promote x.1).InRange x.2 ∧ (promote x.1).InRange (-x.2)
instance (x : TV) : Decidable (NegFits x) := by unfold NegFits; exact inferInstance

/-- a component holds a value of its type -/
def WF (x : TV) : Prop := x.1.InRange x.2
instance (x : TV) : Decidable (WF x) := by unfold WF; exact inferInstance

/-! Guards per operator, on the four typed components `an/ad ⊕ bn/bd`. -/

def AddGuard (an ad bn bd : TV) : Prop :=
  OpFits (· * ·) an bd ∧ OpFits (· * ·) bn ad ∧ OpFits (· + ·) (prodTV an bd) (prodTV bn ad) ∧ OpFits (· * ·) ad bd
def SubGuard (an ad bn bd : TV) : Prop :=
  OpFits (· * ·) an bd ∧ OpFits (· * ·) bn ad ∧ OpFits (· - ·) (prodTV an bd) (prodTV bn ad) ∧ OpFits (· * ·) ad bd
def MulGuard (an ad bn bd : TV) : Prop := OpFits (· * ·) an bn ∧ OpFits (· * ·) ad bd
def DivGuard (an ad bn bd : TV) : Prop := OpFits (· * ·) an bd ∧ OpFits (· * ·) ad bn
/-- the cross products fit and can be compared in their common type -/
def CmpGuard (an ad bn bd : TV) : Prop :=
  OpFits (· * ·) an bd ∧ OpFits (· * ·) bn ad ∧ CmpFits (prodTV an bd) (prodTV bn ad)
instance (an ad bn bd : TV) : Decidable (AddGuard an ad bn bd) := by unfold AddGuard; exact inferInstance
instance (an ad bn bd : TV) : Decidable (SubGuard an ad bn bd) := by unfold SubGuard; exact inferInstance
instance (an ad bn bd : TV) : Decidable (MulGuard an ad bn bd) := by unfold MulGuard; exact inferInstance
instance (an ad bn bd : TV) : Decidable (DivGuard an ad bn bd) := by unfold DivGuard; exact inferInstance
instance (an ad bn bd : TV) : Decidable (CmpGuard an ad bn bd) := by unfold CmpGuard; exact inferInstance

/-- `std::common_type_t` of two integer types (the type of `false ? m : n`) -/
def commonTy (a b : IntTy) : IntTy := if a = b then a else usualArith a b

/-- guard of `reduce` on numerator `n`, denominator `d` (typed): the components hold values of their
types, the denominator is not zero, `std::gcd`'s precondition (both magnitudes representable in the
common type; we also ask the values themselves to be) and both operands of the two divisions
representable in the types the divisions are computed in -/
structure ReduceGuard (n d : TV) : Prop where
  nbits : 1 ≤ n.1.bits
  dbits : 1 ≤ d.1.bits
  nwf : n.1.InRange n.2
  dwf : d.1.InRange d.2
  dnz : d.2 ≠ 0
  cn : (commonTy n.1 d.1).InRange n.2
  cd : (commonTy n.1 d.1).InRange d.2
  cna : (commonTy n.1 d.1).InRange n.2.natAbs
  cda : (commonTy n.1 d.1).InRange d.2.natAbs
  qn : (usualArith n.1 (commonTy n.1 d.1)).InRange n.2
  qng : (usualArith n.1 (commonTy n.1 d.1)).InRange (Int.gcd n.2 d.2)
  qd : (usualArith d.1 (commonTy n.1 d.1)).InRange d.2
  qdg : (usualArith d.1 (commonTy n.1 d.1)).InRange (Int.gcd n.2 d.2)

/-- guard of `canonical`: that of `reduce`, and the negated reduced parts are representable
(they are the lowest terms when the denominator is negative) -/
structure CanonGuard (n d : TV) : Prop extends ReduceGuard n d where
  negn : d.2 < 0 → (usualArith n.1 (commonTy n.1 d.1)).InRange (-(n.2 / Int.gcd n.2 d.2))
  negd : d.2 < 0 → (usualArith d.1 (commonTy n.1 d.1)).InRange (-(d.2 / Int.gcd n.2 d.2))

/-- what a comparison operator must return on rationals -/
def cmpRat (op : CmpOp) (p q : Rat) : Bool :=
  match op with
  | .lt => decide (p < q)
  | .le => decide (p ≤ q)
  | .gt => decide (p > q)
  | .ge => decide (p ≥ q)
  | .eq => decide (p = q)
  | .ne => decide (p ≠ q)

end Cnl.FractionSpec
