/-!
# CnlSpec.Token — what a numeric token denotes (property C15), independent of the parser

The C++ grammar of integer literals (decimal, hexadecimal, octal, binary, with `'` digit
separators) and of decimal literals with a fractional part, as a decidable predicate, and the exact
value a well-formed token denotes.  Nothing here mentions strides, chunks or widths: the value is
the plain positional sum over all digits.  An optional leading `+`/`-` is accepted for the
run-time parser (a literal never contains one).  Lean core only.
-/
namespace Cnl.Token

/-- value of a digit character in `base` (upper- or lower-case hexadecimal letters) -/
def digitValue (base : Nat) (c : Char) : Option Nat :=
  let n := c.toNat
  let v : Option Nat :=
    if 48 ≤ n ∧ n ≤ 57 then some (n - 48)
    else if 97 ≤ n ∧ n ≤ 102 then some (n - 87)
    else if 65 ≤ n ∧ n ≤ 70 then some (n - 55)
    else none
  match v with
  | some d => if d < base then some d else none
  | none => none

/-- `digit ('? digit)*` in `base`: non-empty, starts and ends with a digit, no two separators in a
row; returns the digit values, most significant first -/
def digitSeq (base : Nat) : List Char → Option (List Nat)
  | [] => none
  | [c] => (digitValue base c).map (fun d => [d])
  | c :: '\'' :: rest =>
    match digitValue base c, digitSeq base rest with
    | some d, some ds => some (d :: ds)
    | _, _ => none
  | c :: rest =>
    match digitValue base c, digitSeq base rest with
    | some d, some ds => some (d :: ds)
    | _, _ => none

/-- positional value of a digit list -/
def positional (base : Nat) (ds : List Nat) : Nat := ds.foldl (fun acc d => acc * base + d) 0

/-- a token without its sign -/
structure Body where
  base : Nat
  /-- digits of the integer part followed by those of the fractional part -/
  digits : List Nat
  /-- number of fractional digits (0 for an integer token) -/
  frac : Nat
  /-- the token has a radix point -/
  hasPoint : Bool
deriving Repr, DecidableEq

def splitAtPoint : List Char → List Char × Option (List Char)
  | [] => ([], none)
  | '.' :: rest => ([], some rest)
  | c :: rest => let (a, b) := splitAtPoint rest; (c :: a, b)

/-- the C++ grammar: `0x`/`0X` hexadecimal, `0b`/`0B` binary, a leading `0` followed by more digits
octal, otherwise decimal; a radix point makes the token decimal
(`digit-sequence? . digit-sequence | digit-sequence .`) -/
def body (cs : List Char) : Option Body :=
  match splitAtPoint cs with
  | (ip, some fp) =>
    if ip.isEmpty ∧ fp.isEmpty then none
    else
      match (if ip.isEmpty then some [] else digitSeq 10 ip), (if fp.isEmpty then some [] else digitSeq 10 fp) with
      | some a, some b => some ⟨10, a ++ b, b.length, true⟩
      | _, _ => none
  | (_, none) =>
    match cs with
    | '0' :: 'x' :: rest | '0' :: 'X' :: rest => (digitSeq 16 rest).map (fun ds => ⟨16, ds, 0, false⟩)
    | '0' :: 'b' :: rest | '0' :: 'B' :: rest => (digitSeq 2 rest).map (fun ds => ⟨2, ds, 0, false⟩)
    | ['0'] => some ⟨10, [0], 0, false⟩
    | '0' :: '\'' :: rest => (digitSeq 8 rest).map (fun ds => ⟨8, ds, 0, false⟩)
    | '0' :: rest => (digitSeq 8 rest).map (fun ds => ⟨8, ds, 0, false⟩)
    | _ => (digitSeq 10 cs).map (fun ds => ⟨10, ds, 0, false⟩)

structure Token where
  negative : Bool
  signed : Bool
  body : Body
deriving Repr, DecidableEq

def token (cs : List Char) : Option Token :=
  match cs with
  | '+' :: rest => (body rest).map (fun b => ⟨false, true, b⟩)
  | '-' :: rest => (body rest).map (fun b => ⟨true, true, b⟩)
  | _ => (body cs).map (fun b => ⟨false, false, b⟩)

/-- the token grammar as a decidable predicate -/
def WellFormed (cs : List Char) : Prop := (token cs).isSome = true
instance (cs : List Char) : Decidable (WellFormed cs) := by unfold WellFormed; exact inferInstance

/-- the significand: all digits read as one integer, with the sign -/
def Token.significand (t : Token) : Int :=
  let m : Int := positional t.body.base t.body.digits
  if t.negative then -m else m

def Token.isInteger (t : Token) : Bool := t.body.frac == 0

/-- exact value of a token: `significand / base ^ frac` -/
def Token.value (t : Token) : Rat := (t.significand : Rat) / ((t.body.base : Rat) ^ t.body.frac)

/-- the value a token denotes (`none` for ill-formed text) -/
def tokenValue (cs : List Char) : Option Rat := (token cs).map Token.value

/-- the integer an integer token denotes -/
def tokenInt (cs : List Char) : Option Int :=
  match token cs with
  | some t => if t.isInteger then some t.significand else none
  | none => none

/-- `sig · radix ^ exp` as an exact rational -/
def scaledValue (sig : Int) (radix : Nat) (exp : Int) : Rat :=
  if exp ≥ 0 then (sig : Rat) * ((radix : Rat) ^ exp.toNat) else (sig : Rat) / ((radix : Rat) ^ (-exp).toNat)

/-- number of bits of a natural number -/
def bitLength (n : Nat) : Nat := if n = 0 then 0 else n.log2 + 1

/-- largest `k` with `2^k ∣ n` (0 for 0), by trial division -/
def trailingZeros (n : Nat) : Nat := ((List.range (bitLength n)).takeWhile (fun k => n % 2 ^ (k + 1) == 0)).length

end Cnl.Token
