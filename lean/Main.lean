import CnlDriver
import Std.Data.HashMap
import Std.Data.HashSet
/-!
Line-protocol driver.  Reads `<table> <tokens…> => <implementation result>` lines, evaluates the
model (and, where the table has one, the spec oracle on the implementation's result) and prints
* `MISMATCH <line> || model=<m>`      model and implementation disagree
* `SPECFAIL <class|UNLISTED> <line> || model=<m>` the implementation's result violates the property
* `STAT <key> <count>` histogram of model branches, `TOTAL …` summary.
-/
open Cnl Cnl.Drv

def dispatch (table : String) (toks : List String) (res : String) : Option Verdict :=
  match table with
  | "CS" => checkCS toks
  | "C01" => checkC01 toks res
  | "C01w" => checkC01w toks res
  | "C02" => checkC02 toks res
  | "C02w" => checkC02w toks res
  | "C03" => checkC03 toks res
  | "C04" => checkC04 toks res
  | "C04w" => checkC04w toks res
  | "C05" => checkC05 toks res
  | "C06" => checkC06 toks res
  | "C07" => checkC07 toks res
  | "C08" => checkC08 toks res
  | "C09" => checkC09 toks res
  | "C10" => checkC10 toks res
  | "C11" => checkC11 toks res
  | "C12" => checkC12 toks res
  | "C13" => checkC13 toks res
  | "C14" => checkC14 toks res
  | "C15" => checkC15 toks res
  | "C16" => checkC16 toks res
  | "C17" => checkC17 toks res
  | "C18" => checkC18 toks res
  | "C19" => checkC19 toks res
  | "C20" => checkC20 toks res
  | _ => none

structure DAcc where
  total : Nat := 0
  agree : Nat := 0
  mismatch : Nat := 0
  bad : Nat := 0
  specOk : Nat := 0
  specFail : Nat := 0
  specNA : Nat := 0
  nontrivial : Nat := 0
  hist : Std.HashMap String Nat := {}
  seen : Std.HashSet UInt64 := {}
  samples : Nat := 0
  specSeen : Std.HashMap String Nat := {}
  printed : Nat := 0

def bump (h : Std.HashMap String Nat) (k : String) : Std.HashMap String Nat :=
  h.insert k (h.getD k 0 + 1)

partial def loop (h : IO.FS.Stream) (echo : Bool) (a : DAcc) : IO DAcc := do
  let line ← h.getLine
  if line.isEmpty then return a
  let line := line.trimAscii.toString
  if line.isEmpty || line.startsWith "#" then return ← loop h echo a
  match line.splitOn " => " with
  | [lhs, res] =>
    match lhs.splitOn " " with
    | table :: toks =>
      match dispatch table toks res with
      | none =>
        if a.printed < 200 then IO.println s!"BADLINE {line}"
        loop h echo { a with total := a.total + 1, bad := a.bad + 1, printed := a.printed + 1 }
      | some v =>
        let agree := v.model == res
        if echo then IO.println s!"ECHO {line} || model={v.model} spec={repr v.spec} class={v.cls}"
        let mut a := { a with total := a.total + 1 }
        if agree then a := { a with agree := a.agree + 1 }
        else
          if a.printed < 200 then IO.println s!"MISMATCH {line} || model={v.model}"
          a := { a with mismatch := a.mismatch + 1, printed := a.printed + 1 }
        match v.spec with
        | none => a := { a with specNA := a.specNA + 1 }
        | some true => a := { a with specOk := a.specOk + 1 }
        | some false =>
          let c := if v.cls.isEmpty then "UNLISTED" else v.cls
          -- cap the output per class, so that a rare unlisted failure is never crowded out
          let n := a.specSeen.getD c 0
          if n < (if v.cls.isEmpty then 300 else 40) then IO.println s!"SPECFAIL {c} {line} || model={v.model}"
          a := { a with specFail := a.specFail + 1, specSeen := a.specSeen.insert c (n + 1) }
        let hsh := hash lhs
        if v.nontrivial && !a.seen.contains hsh then
          a := { a with nontrivial := a.nontrivial + 1, seen := a.seen.insert hsh }
          -- a few actual cases for the evidence file, spread over the stream
          if a.samples < 6 && a.nontrivial % 7919 == 1 then
            IO.println s!"SAMPLE {line} || model={v.model}"
            a := { a with samples := a.samples + 1 }
        let key := table ++ ":" ++ v.branch
        loop h echo { a with hist := bump a.hist key }
    | [] => loop h echo { a with total := a.total + 1, bad := a.bad + 1 }
  | _ =>
    if a.printed < 200 then IO.println s!"BADLINE {line}"
    loop h echo { a with total := a.total + 1, bad := a.bad + 1, printed := a.printed + 1 }

def main (args : List String) : IO UInt32 := do
  let echo := args.contains "--echo"
  let a ← loop (← IO.getStdin) echo {}
  for (k, n) in a.hist.toList do IO.println s!"STAT {k} {n}"
  IO.println s!"TOTAL lines={a.total} agree={a.agree} mismatch={a.mismatch} bad={a.bad} spec_ok={a.specOk} spec_fail={a.specFail} spec_na={a.specNA} nontrivial={a.nontrivial}"
  return 0
