import CnlDriver.CS
import CnlDriver.FloatIO
import CnlSpec.MakeFraction
/-!
`C17` driver table.

* `C17 cf …` — the `CF` sub-table validating `CnlModel.CFloat` against the hardware:
  `cf bin <add|sub|mul|div> <fmt> <x> <y>`, `cf cmp <lt|…> <fmt> <x> <y>`, `cf neg <fmt> <x>`,
  `cf i2f <ity> <fmt> <int>`, `cf f2i <fmt> <ity> <x>`, `cf f2f <src> <dst> <x>`
  (floating values as C hex floats, results compared verbatim with glibc's `%a`/`%La`).
* `C17 mf <fmt> <ity> <x>` — `cnl::fraction<ity>(x)`: result `num/den`, or `UB`, `UNREACHABLE`, `TIMEOUT`.
  The generic model `makeFractionC` with `Comp.builtin` is evaluated next to `makeFractionX` on each of
  these lines (component types of at least 32 bits) and has to agree (`GENERIC-MODEL-DISAGREES` otherwise).
* `C17 mfw <fmt> <cnl type> <x>` — the same for a component type that is a CNL number (`wd(N,i32)`,
  `ov(i32|i64|wd(N,i32),sat|trp|thr)`, `el(N,i32)`, `rd(i32,nrst)`); components in decimal; also `TRAP±`,
  `THROW±`.  Model: `makeFractionC` with the component description `compOfTy`.  Where that model does not
  predict the line (a component left its stored width: `ill`) the line carries the implementation's own
  result and is judged by the oracle alone (branch label `unpredicted`, counted as trivial).
-/
namespace Cnl.Drv.C17
open Cnl Cnl.Drv Cnl.FloatIO Cnl.MakeFraction

def checkCF (toks : List String) : Option Verdict :=
  match toks with
  | ["bin", op, fm, x, y] => do
    let F ← parseFmt fm; let op' ← parseBinOp op; let x ← F.ofHex? x; let y ← F.ofHex? y
    let r ← fBin F op' x y
    let kind := match r with
      | .nan => "/nan" | .inf _ => "/inf"
      | .fin _ m e => if m = 0 then "/zero" else if e = F.qmin ∧ m < 2 ^ (F.prec - 1) then "/subnormal" else ""
    some { model := showF F r, branch := "cf/" ++ op ++ "/" ++ fm ++ kind }
  | ["cmp", op, fm, x, y] => do
    let F ← parseFmt fm; let op' ← parseCmpOp op; let x ← F.ofHex? x; let y ← F.ofHex? y
    some { model := showBool (fCmp op' x y), branch := "cf/" ++ op ++ "/" ++ fm }
  | ["neg", fm, x] => do
    let F ← parseFmt fm; let x ← F.ofHex? x
    some { model := showF F x.neg, branch := "cf/neg/" ++ fm }
  | ["i2f", it, fm, v] => do
    let I ← parseIntTy it; let F ← parseFmt fm; let v ← v.toInt?
    if ¬ I.InRange v then none else
    some { model := showF F (F.ofInt v), branch := "cf/i2f/" ++ it ++ "/" ++ fm }
  | ["f2i", fm, it, x] => do
    let F ← parseFmt fm; let I ← parseIntTy it; let x ← F.ofHex? x
    let r := fToInt I x
    some { model := showRes (fun v => showTV (I, v)) r, branch := "cf/f2i/" ++ fm ++ "/" ++ it ++ (if r.isOk then "" else "/ub") }
  | ["f2f", sf, df, x] => do
    let S ← parseFmt sf; let D ← parseFmt df; let x ← S.ofHex? x
    some { model := showF D (D.cvt x), branch := "cf/f2f/" ++ sf ++ "/" ++ df }
  | _ => none

/-- fuel given to the model's loop: the harness's per-case alarm allows far fewer iterations of
the real loop than would be needed to exhaust a *terminating* search of this length -/
def mfFuel : Nat := 4000

def showFrac (fr : Frac) : String := toString fr.num ++ "/" ++ toString fr.den

def parseFrac (s : String) : Option Frac :=
  match s.splitOn "/" with
  | [a, b] => do let a ← a.toInt?; let b ← b.toInt?; some ⟨a, b⟩
  | _ => none

def exitName : Exit → String
  | .left0 => "left0" | .right0 => "right0" | .mid => "mid" | .jumpEq => "jump_eq" | .zeroJump => "zero_jump"

def checkMF (fm it xs : String) (res : String) : Option Verdict := do
  let F ← parseFmt fm; let I ← parseIntTy it; let x ← F.ofHex? xs
  let r := makeFractionX F I x mfFuel
  -- the generic (component-parametric) model must agree with the built-in one on every built-in line
  let generic := if I.signed ∧ 32 ≤ I.bits then
      decide ((makeFractionC F (Comp.builtin (I.bits - 1)) x mfFuel).map (·.1) = r.map (·.1))
    else true
  let model := if generic then showRes (fun p => showFrac p.1) r else "GENERIC-MODEL-DISAGREES"
  let dom := MakeFractionSpec.inDomain I x
  -- the oracle judges the implementation's own result
  let (spec, clause) : Option Bool × String :=
    if !dom then (none, "") else
    match parseFrac res with
    | some fr =>
      match MakeFractionSpec.violated I x fr with
      | none => (some true, "")
      | some c => (some false, c.toString)
    | none => (some false, res)
  let branch := match r with
    | .ok p => exitName p.2
    | _ => model
  let cls := match MakeFractionSpec.classify F I x mfFuel with
    | some c => c.id
    | none => ""
  some { model := model, spec := spec, cls := cls, branch := "mf/" ++ fm ++ "/" ++ it ++ "/" ++ branch ++ (if clause.isEmpty then "" else "!" ++ clause),
         nontrivial := dom }

/-- the component description of a CNL number type (`none`: not a kind this table covers) -/
def compOfTy : Ty → Option Comp
  | .wd d (.int n) =>
    -- single word: the narrowest built-in that holds d digits (at least `n`); multi-word: whole 32-bit limbs
    let store := if d ≤ 31 ∧ n.bits ≤ 32 then 32 else if d ≤ 63 ∧ n.bits ≤ 64 then 64 else if d ≤ 127 then 128
                 else n.bits * ((d + 1 + n.bits - 1) / n.bits)
    let multi := decide (127 < d ∨ 64 < n.bits)
    some ⟨d, store, .keep, .keep, false, if multi then .unknown else .ub, if multi then n.bits else 0⟩
  | .el d (.int n) =>
    let store := if d ≤ 31 ∧ n.bits ≤ 32 then 32 else if d ≤ 63 then 64 else 128
    some ⟨d, store, .keep, .keep, false, .keep, 0⟩
  | .ov r t => do
    let m ← match t with
      | .sat => some OvMode.sat | .trp => some OvMode.trap | .thr => some OvMode.throw | _ => none
    match r with
    | .int i => if i.signed ∧ 32 ≤ i.bits then some ⟨i.bits - 1, i.bits, m, m, false, .ub, 0⟩ else none
    | .wd d (.int _) => if d ≤ 127 then some ⟨d, d + 1, m, m, false, .ub, 0⟩ else none
    | _ => none
  | .rd (.int i) .nrst => if i.signed ∧ 32 ≤ i.bits then some ⟨i.bits - 1, i.bits, .ub, .ub, true, .ub, 0⟩ else none
  | _ => none

def checkMFW (fm ct xs : String) (res : String) : Option Verdict := do
  let F ← parseFmt fm; let T ← parseTy ct; let C ← compOfTy T; let x ← F.ofHex? xs
  let I := MakeFractionSpec.compTy C
  let r := makeFractionC F C x mfFuel
  -- a component beyond its stored width is not predicted: the line then carries the implementation's
  -- own result and is judged by the oracle alone
  let unpredicted := match r with | .ill _ => true | _ => false
  let model := if unpredicted then res else showRes (fun p => showFrac p.1) r
  let dom := MakeFractionSpec.inDomain I x
  let (spec, clause) : Option Bool × String :=
    if !dom then (none, "") else
    match parseFrac res with
    | some fr =>
      match MakeFractionSpec.violated I x fr with
      | none => (some true, "")
      | some c => (some false, c.toString)
    | none => (some false, res)
  let branch := match r with
    | .ok p => exitName p.2
    | .ill _ => "unpredicted"
    | _ => model
  let cls := match MakeFractionSpec.classifyC F C x mfFuel with
    | some c => c.id
    | none => ""
  some { model := model, spec := spec, cls := cls, branch := "mfw/" ++ fm ++ "/" ++ ct ++ "/" ++ branch ++ (if clause.isEmpty then "" else "!" ++ clause),
         nontrivial := dom && !unpredicted }

end Cnl.Drv.C17
namespace Cnl.Drv
open Cnl.Drv.C17

def checkC17 (toks : List String) (res : String) : Option Verdict :=
  match toks with
  | "cf" :: rest => checkCF rest
  | ["mf", fm, it, x] => checkMF fm it x res
  | ["mfw", fm, ct, x] => checkMFW fm ct x res
  | _ => none

end Cnl.Drv
