import CnlDriver.CS
import CnlDriver.FloatIO
import CnlSpec.MakeFraction
/-!
`C17` driver table.

* `C17 cf …` — the `CF` sub-table validating `CnlModel.CFloat` against the hardware:
  `cf bin <add|sub|mul|div> <fmt> <x> <y>`, `cf cmp <lt|…> <fmt> <x> <y>`, `cf neg <fmt> <x>`,
  `cf i2f <ity> <fmt> <int>`, `cf f2i <fmt> <ity> <x>`, `cf f2f <src> <dst> <x>`
  (floating values as C hex floats, results compared verbatim with glibc's `%a`/`%La`).
* `C17 mf <fmt> <ity> <x>` — `cnl::fraction<ity>(x)`: result `num/den`, or `UB`, `UNREACHABLE`, `TIMEOUT`.
-/
namespace Cnl.Drv.C17
open Cnl Cnl.Drv Cnl.FloatIO Cnl.MakeFraction

def checkCF (toks : List String) : Option Verdict :=
  match toks with
  | ["bin", op, fm, x, y] => do
    let F ← parseFmt fm; let op' ← parseBinOp op; let x ← F.ofHex? x; let y ← F.ofHex? y
    let r ← fBin F op' x y
    let kind := match r with
      | .nan => "/nan" | .inf _ => "/inf"
      | .fin _ m e => if m = 0 then "/zero" else if e = F.qmin ∧ m < 2 ^ (F.prec - 1) then "/subnormal" else ""
    some { model := showF F r, branch := "cf/" ++ op ++ "/" ++ fm ++ kind }
  | ["cmp", op, fm, x, y] => do
    let F ← parseFmt fm; let op' ← parseCmpOp op; let x ← F.ofHex? x; let y ← F.ofHex? y
    some { model := showBool (fCmp op' x y), branch := "cf/" ++ op ++ "/" ++ fm }
  | ["neg", fm, x] => do
    let F ← parseFmt fm; let x ← F.ofHex? x
    some { model := showF F x.neg, branch := "cf/neg/" ++ fm }
  | ["i2f", it, fm, v] => do
    let I ← parseIntTy it; let F ← parseFmt fm; let v ← v.toInt?
    if ¬ I.InRange v then none else
    some { model := showF F (F.ofInt v), branch := "cf/i2f/" ++ it ++ "/" ++ fm }
  | ["f2i", fm, it, x] => do
    let F ← parseFmt fm; let I ← parseIntTy it; let x ← F.ofHex? x
    let r := fToInt I x
    some { model := showRes (fun v => showTV (I, v)) r, branch := "cf/f2i/" ++ fm ++ "/" ++ it ++ (if r.isOk then "" else "/ub") }
  | ["f2f", sf, df, x] => do
    let S ← parseFmt sf; let D ← parseFmt df; let x ← S.ofHex? x
    some { model := showF D (D.cvt x), branch := "cf/f2f/" ++ sf ++ "/" ++ df }
  | _ => none

/-- fuel given to the model's loop: the harness's per-case alarm allows far fewer iterations of
the real loop than would be needed to exhaust a *terminating* search of this length -/
def mfFuel : Nat := 4000

def showFrac (fr : Frac) : String := toString fr.num ++ "/" ++ toString fr.den

def parseFrac (s : String) : Option Frac :=
  match s.splitOn "/" with
  | [a, b] => do let a ← a.toInt?; let b ← b.toInt?; some ⟨a, b⟩
  | _ => none

def exitName : Exit → String
  | .left0 => "left0" | .right0 => "right0" | .mid => "mid" | .jumpEq => "jump_eq" | .zeroJump => "zero_jump"

def checkMF (fm it xs : String) (res : String) : Option Verdict := do
  let F ← parseFmt fm; let I ← parseIntTy it; let x ← F.ofHex? xs
  let r := makeFractionX F I x mfFuel
  let model := showRes (fun p => showFrac p.1) r
  let dom := MakeFractionSpec.inDomain I x
  -- the oracle judges the implementation's own result
  let (spec, clause) : Option Bool × String :=
    if !dom then (none, "") else
    match parseFrac res with
    | some fr =>
      match MakeFractionSpec.violated I x fr with
      | none => (some true, "")
      | some c => (some false, c.toString)
    | none => (some false, res)
  let branch := match r with
    | .ok p => exitName p.2
    | _ => model
  let cls := match MakeFractionSpec.classify F I x mfFuel with
    | some c => c.id
    | none => ""
  some { model := model, spec := spec, cls := cls, branch := "mf/" ++ fm ++ "/" ++ it ++ "/" ++ branch ++ (if clause.isEmpty then "" else "!" ++ clause),
         nontrivial := dom }

end Cnl.Drv.C17
namespace Cnl.Drv
open Cnl.Drv.C17

def checkC17 (toks : List String) (res : String) : Option Verdict :=
  match toks with
  | "cf" :: rest => checkCF rest
  | ["mf", fm, it, x] => checkMF fm it x res
  | _ => none

end Cnl.Drv
