import CnlDriver.CS
/-! `C17` driver table (stub). -/
namespace Cnl.Drv
open Cnl

def checkC17 (_toks : List String) (_res : String) : Option Verdict := none

end Cnl.Drv
