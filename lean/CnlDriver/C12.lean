import CnlDriver.CS
import CnlModel.Layered
/-! `C12` table: native-tag wrapper nests against the built-in expression. -/
namespace Cnl.Drv
open Cnl

/-- innermost built-in type of a nest -/
def innerTy : Ty → Option IntTy
  | .int t => some t
  | .sc r _ _ => innerTy r
  | .ov r _ => innerTy r
  | .rd r _ => innerTy r
  | _ => none

/-- the nest `t` with its innermost built-in type replaced -/
def withInner (t : Ty) (i : IntTy) : Ty :=
  match t with
  | .int _ => .int i
  | .sc r e x => .sc (withInner r i) e x
  | .ov r g => .ov (withInner r i) g
  | .rd r m => .rd (withInner r i) m
  | o => o

def deeper (a b : Ty) : Ty := if b.depth > a.depth then b else a

def parseUnOp : String → Option Layered.UnOp
  | "neg" => some .neg | "not" => some .bnot | "pos" => some .pos | _ => none

/-- spec: what the bare built-in expression yields, re-wrapped in the deeper operand's nest -/
def c12SpecBin (op : BinOp) (x y : Num) : Option String := do
  let a ← innerTy x.1; let b ← innerTy y.1
  match cBin op (a, x.2) (b, y.2) with
  | .ok v =>
    let shape := match op with
      | .shl | .shr => x.1
      | _ => deeper x.1 y.1
    some (showNum (withInner shape v.1, v.2))
  | _ => some "UB"

def checkC12 (toks : List String) (res : String) : Option Verdict :=
  match toks with
  | ["bin", op, tl, tr, l, r] => do
    let op ← parseBinOp op; let L ← parseTy tl; let R ← parseTy tr; let l ← l.toInt?; let r ← r.toInt?
    let m := showRes showNum (Layered.bin op (L, l) (R, r))
    let want ← c12SpecBin op (L, l) (R, r)
    some { model := m, spec := some (want == res), branch := "bin/" ++ toks[1]! ++ (if want == "UB" then "/ub" else ""), nontrivial := want != "UB" }
  | ["cmp", op, tl, tr, l, r] => do
    let op ← parseCmpOp op; let L ← parseTy tl; let R ← parseTy tr; let l ← l.toInt?; let r ← r.toInt?
    let a ← innerTy L; let b ← innerTy R
    let m := showRes showBool (Layered.cmp op (L, l) (R, r))
    let want := showBool (cCmp op (a, l) (b, r))
    some { model := m, spec := some (want == res), branch := "cmp/" ++ toks[1]! }
  | ["un", op, tl, l] => do
    let u ← parseUnOp op; let L ← parseTy tl; let l ← l.toInt?
    let a ← innerTy L
    let m := showRes showNum (Layered.un u (L, l))
    let bare := match u with
      | .neg => cNeg (a, l) | .bnot => cNot (a, l) | .pos => cPos (a, l)
    let want := match bare with
      | .ok v => showNum (withInner L v.1, v.2)
      | _ => "UB"
    some { model := m, spec := some (want == res), branch := "un/" ++ op ++ (if want == "UB" then "/ub" else ""), nontrivial := want != "UB" }
  | ["asg", op, tl, tr, l, r] => do
    let op ← parseBinOp op; let L ← parseTy tl; let R ← parseTy tr; let l ← l.toInt?; let r ← r.toInt?
    let a ← innerTy L; let b ← innerTy R
    let m := showRes showNum (Layered.compound op (L, l) (R, r))
    let want := match cBin op (a, l) (b, r) with
      | .ok v => showNum (L, (convert a v).2)
      | _ => "UB"
    some { model := m, spec := some (want == res), branch := "asg/" ++ toks[1]! ++ (if want == "UB" then "/ub" else ""), nontrivial := want != "UB" }
  | _ => none

end Cnl.Drv
