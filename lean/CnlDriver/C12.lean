import CnlDriver.CS
import CnlModel.Layered
/-! `C12` table: native-tag wrapper nests against the built-in expression. -/
namespace Cnl.Drv
open Cnl

/-- innermost built-in type of a nest -/
def innerTy : Ty → Option IntTy
  | .int t => some t
  | .sc r _ _ => innerTy r
  | .ov r _ => innerTy r
  | .rd r _ => innerTy r
  | _ => none

/-- the nest `t` with its innermost built-in type replaced -/
def withInner (t : Ty) (i : IntTy) : Ty :=
  match t with
  | .int _ => .int i
  | .sc r e x => .sc (withInner r i) e x
  | .ov r g => .ov (withInner r i) g
  | .rd r m => .rd (withInner r i) m
  | o => o

def deeper (a b : Ty) : Ty := if b.depth > a.depth then b else a

/-- `scaled_integer<nest<T>, power<e>>` with the wrappers between the scaled layer and the integer removed -/
def bareSc (t : Ty) : Ty :=
  match t with
  | .sc r e x => (match innerTy r with | some i => .sc (.int i) e x | none => t)
  | o => (match innerTy o with | some i => .int i | none => o)

def expOf : Ty → Int
  | .sc _ e _ => e
  | _ => 0

def radixOf : Ty → Nat
  | .sc _ _ x => x
  | _ => 2

/-- a result over bare representations put back into the nest `shape` -/
def rewrapSc (shape : Ty) (v : Num) : Num :=
  match v.1, shape with
  | .sc (.int t) e x, .sc r _ _ => (.sc (withInner r t) e x, v.2)
  | .int t, s => (withInner s t, v.2)
  | _, _ => v

def parseUnOp : String → Option Layered.UnOp
  | "neg" => some .neg | "not" => some .bnot | "pos" => some .pos | _ => none

/-- spec: what the bare built-in expression yields, re-wrapped in the deeper operand's nest -/
def c12SpecBin (op : BinOp) (x y : Num) : Option String := do
  let a ← innerTy x.1; let b ← innerTy y.1
  match cBin op (a, x.2) (b, y.2) with
  | .ok v =>
    let shape := match op with
      | .shl | .shr => x.1
      | _ => deeper x.1 y.1
    some (showNum (withInner shape v.1, v.2))
  | _ => some "UB"

def checkC12 (toks : List String) (res : String) : Option Verdict :=
  match toks with
  | ["bin", op, tl, tr, l, r] => do
    let op ← parseBinOp op; let L ← parseTy tl; let R ← parseTy tr; let l ← l.toInt?; let r ← r.toInt?
    let m := showRes showNum (Layered.bin op (L, l) (R, r))
    let want ← c12SpecBin op (L, l) (R, r)
    some { model := m, spec := some (want == res), branch := "bin/" ++ toks[1]! ++ (if want == "UB" then "/ub" else ""), nontrivial := want != "UB" }
  | ["cmp", op, tl, tr, l, r] => do
    let op ← parseCmpOp op; let L ← parseTy tl; let R ← parseTy tr; let l ← l.toInt?; let r ← r.toInt?
    let a ← innerTy L; let b ← innerTy R
    let m := showRes showBool (Layered.cmp op (L, l) (R, r))
    let want := showBool (cCmp op (a, l) (b, r))
    some { model := m, spec := some (want == res), branch := "cmp/" ++ toks[1]! }
  | ["un", op, tl, l] => do
    let u ← parseUnOp op; let L ← parseTy tl; let l ← l.toInt?
    let a ← innerTy L
    let m := showRes showNum (Layered.un u (L, l))
    let bare := match u with
      | .neg => cNeg (a, l) | .bnot => cNot (a, l) | .pos => cPos (a, l)
    let want := match bare with
      | .ok v => showNum (withInner L v.1, v.2)
      | _ => "UB"
    some { model := m, spec := some (want == res), branch := "un/" ++ op ++ (if want == "UB" then "/ub" else ""), nontrivial := want != "UB" }
  | ["asg", op, tl, tr, l, r] => do
    let op ← parseBinOp op; let L ← parseTy tl; let R ← parseTy tr; let l ← l.toInt?; let r ← r.toInt?
    let a ← innerTy L; let b ← innerTy R
    let m := showRes showNum (Layered.compound op (L, l) (R, r))
    let want := match cBin op (a, l) (b, r) with
      | .ok v => showNum (L, (convert a v).2)
      | _ => "UB"
    some { model := m, spec := some (want == res), branch := "asg/" ++ toks[1]! ++ (if want == "UB" then "/ub" else ""), nontrivial := want != "UB" }
  | ["cvte", ta, tb, l] => do
    -- conversion between scaled nests / to a built-in integer: the hand-written code multiplies the representation by
    -- radix^(eA-eB) or divides it by radix^(eB-eA) (truncating toward zero) and converts to the destination's type
    let A ← parseTy ta; let B ← parseTy tb; let l ← l.toInt?
    let d ← innerTy B
    let ea : Int := match A with | .sc _ e _ => e | _ => 0
    let eb : Int := match B with | .sc _ e _ => e | _ => 0
    let ρ : Nat := radixOf A
    -- (a built-in destination is the representation of the same conversion to exponent 0)
    let m := match B with
      | .int D => showRes showNum ((Layered.cast (.sc (.int D) 0 ρ) (A, l)).map fun w => (Ty.int D, w.2))
      | _ => showRes showNum (Layered.cast B (A, l))
    let t : Int := if ea ≥ eb then l * (ρ : Int) ^ (ea - eb).toNat else l.tdiv ((ρ : Int) ^ (eb - ea).toNat)
    let spec : Option Bool := if d.inRange t && ea < eb then some (res == showNum (B, t)) else none
    some { model := m, spec := spec, branch := "cvte/" ++ (if ea < eb then "down" else "up"), nontrivial := spec.isSome }
  | ["asge", op, tl, tr, l, r] => do
    -- compound assignment on scaled nests with any exponents: `a op= b` must be `a op b` (exact per C01/C02
    -- whenever the intermediate is exact) converted back to `a`'s type, truncating toward zero (C04)
    let op ← parseBinOp op; let L ← parseTy tl; let R ← parseTy tr; let l ← l.toInt?; let r ← r.toInt?
    let a ← innerTy L
    let ea : Int := match L with | .sc _ e _ => e | _ => 0
    let eb : Int := match R with | .sc _ e _ => e | _ => 0
    let m := showRes showNum (Layered.compound op (L, l) (R, r))
    let ρ : Nat := radixOf L
    let p2 (e : Int) : Rat := if e ≥ 0 then (ρ : Rat) ^ e.toNat else 1 / ((ρ : Rat) ^ (-e).toNat)
    let va : Rat := (l : Rat) * p2 ea; let vb : Rat := (r : Rat) * p2 eb
    let exactV : Option Rat := match op with
      | .add => some (va + vb) | .sub => some (va - vb) | .mul => some (va * vb)
      | .div => if r == 0 then none else some (((l.tdiv r : Int) : Rat) * p2 (ea - eb))
      | .mod => if r == 0 then none else some (((l.tmod r : Int) : Rat) * p2 ea)
      | _ => none
    let spec : Option Bool := do
      let v ← exactV
      -- the intermediate `a op b` is exact (no wrap in the promoted representation)
      let w ← match Layered.bin op (L, l) (R, r) with | .ok w => some w | _ => none
      let ew : Int := match w.1 with | .sc _ e _ => e | _ => 0
      if (w.2 : Rat) * p2 ew != v then none else
      let q : Rat := v / p2 ea
      let t : Int := if q < 0 then -((-q).floor) else q.floor
      if a.inRange t then some (res == showNum (L, t)) else none
    some { model := m, spec := spec, branch := "asge/" ++ toks[1]! ++ (if ea != eb then "/mixed" else "/same"), nontrivial := spec.isSome }
  | ["ince", kind, tl, l] => do
    -- ++ / -- on a scaled nest with any exponent and radix: `x op= 1` (the built-in 1 has exponent 0), the
    -- expression returns the new (prefix) or old (postfix) value.  Oracle: the exact `x ± 1` at x's resolution
    -- (truncated toward zero when 1 is below the resolution) whenever the intermediate is exact.
    let L ← parseTy tl; let l ← l.toInt?
    let a ← innerTy L
    let isInc := kind == "pre+" || kind == "post+"
    let isPre := kind == "pre+" || kind == "pre-"
    let op : BinOp := if isInc then .add else .sub
    let ea : Int := match L with | .sc _ e _ => e | _ => 0
    let ρ : Nat := radixOf L
    let p2 (e : Int) : Rat := if e ≥ 0 then (ρ : Rat) ^ e.toNat else 1 / ((ρ : Rat) ^ (-e).toNat)
    let one : Num := (.int i32, 1)
    let m : Res (Num × Num) := do
      let n ← Layered.compound op (L, l) one
      pure (n, if isPre then n else (L, l))
    let showPair (p : Num × Num) : String := showNum p.1 ++ "|" ++ showNum p.2
    let spec : Option Bool := do
      let v : Rat := (l : Rat) * p2 ea + (if isInc then 1 else -1)
      let w ← match Layered.bin op (L, l) one with | .ok w => some w | _ => none
      let ew : Int := match w.1 with | .sc _ e _ => e | _ => 0
      if (w.2 : Rat) * p2 ew != v then none else
      let q : Rat := v / p2 ea
      let t : Int := if q < 0 then -((-q).floor) else q.floor
      if a.inRange t then some (res == showNum (L, t) ++ "|" ++ showNum (L, if isPre then t else l)) else none
    some { model := showRes showPair m, spec := spec, branch := "ince/" ++ kind, nontrivial := spec.isSome }
  | ["bine", op, tl, tr, l, r] => do
    -- binary operators between scaled nests with different exponents.  Oracle 1: the same expression on
    -- scaled_integer over the bare built-in representations (the model's built-in branch), re-wrapped.
    -- Oracle 2 (independent of the model): the exact value at the documented exponent whenever the aligned
    -- operands and the result fit (C01 / C02)
    let op ← parseBinOp op; let L ← parseTy tl; let R ← parseTy tr; let l ← l.toInt?; let r ← r.toInt?
    let a ← innerTy L; let b ← innerTy R
    let m := showRes showNum (Layered.bin op (L, l) (R, r))
    let bare := Layered.bin op (bareSc L, l) (bareSc R, r)
    let want : Option String := match bare with
      | .ill _ => none
      | o => some (showRes showNum (o.map (rewrapSc (deeper L R))))
    let ea := expOf L; let eb := expOf R
    let T := usualArith a b
    let pw (k : Int) : Int := (radixOf L : Int) ^ k.toNat
    let conv := T.wrap l == l && T.wrap r == r
    let exact : Option (Int × Int) := match op with
      | .add | .sub =>
        let c := min ea eb
        let al := l * pw (ea - c); let ar := r * pw (eb - c)
        let e := if op == .add then al + ar else al - ar
        if (promote a).inRange al && (promote b).inRange ar && T.inRange al && T.inRange ar && T.inRange e then some (c, e) else none
      | .mul => if conv && T.inRange (l * r) then some (ea + eb, l * r) else none
      | .div => if r != 0 && conv && !(T.signed && l == T.lowest && r == -1) then some (ea - eb, l.tdiv r) else none
      | .mod => if r != 0 && conv && !(T.signed && l == T.lowest && r == -1) then some (ea, l.tmod r) else none
      | _ => none
    let okExact : Bool := match exact with
      | none => true
      | some (e, v) => (match res.splitOn ":" with
        | [ty, x] => (match parseTy ty, x.toInt? with
          | some (.sc _ e' _), some x => e' == e && x == v
          | _, _ => false)
        | _ => false)
    let spec : Option Bool := match want with
      | none => none
      | some w => some (w == res && okExact)
    some { model := m, spec := spec, branch := "bine/" ++ toks[1]! ++ (if ea != eb then "/mixed" else "/same") ++ (if exact.isSome then "" else "/nofit"),
           nontrivial := exact.isSome }
  | ["cmpe", op, tl, tr, l, r] => do
    let op ← parseCmpOp op; let L ← parseTy tl; let R ← parseTy tr; let l ← l.toInt?; let r ← r.toInt?
    let a ← innerTy L; let b ← innerTy R
    let m := showRes showBool (Layered.cmp op (L, l) (R, r))
    let bare := Layered.cmp op (bareSc L, l) (bareSc R, r)
    let ea := expOf L; let eb := expOf R
    let c := min ea eb
    let pw (k : Int) : Int := (radixOf L : Int) ^ k.toNat
    let al := l * pw (ea - c); let ar := r * pw (eb - c)
    let PL := promote a; let PR := promote b
    let fits := PL.inRange al && PR.inRange ar
    let byValue := a.signed == b.signed || (l ≥ 0 && r ≥ 0)
    -- by value (the mathematical order) when the aligned operands fit and no signed/unsigned conversion interferes
    let wantV : Bool := match op with
      | .lt => decide (al < ar) | .le => decide (al ≤ ar) | .gt => decide (al > ar) | .ge => decide (al ≥ ar)
      | .eq => decide (al = ar) | .ne => decide (al ≠ ar)
    let spec : Option Bool := match bare with
      | .ill _ => none
      | o => some (showRes showBool o == res && (!(fits && byValue) || res == showBool wantV))
    some { model := m, spec := spec, branch := "cmpe/" ++ toks[1]! ++ (if ea != eb then "/mixed" else "/same"), nontrivial := fits }
  | ["inc", kind, tl, l] => do
    let L ← parseTy tl; let l ← l.toInt?
    let a ← innerTy L
    let isInc := kind == "pre+" || kind == "post+"
    let isPre := kind == "pre+" || kind == "pre-"
    let op : BinOp := if isInc then .add else .sub
    -- model: `x op= 1` on the wrapper, the expression returns the new (prefix) or old (postfix) value
    let m : Res (Num × Num) := do
      let n ← Layered.compound op (L, l) (.int i32, 1)
      pure (n, if isPre then n else (L, l))
    let showPair (p : Num × Num) : String := showNum p.1 ++ "|" ++ showNum p.2
    -- spec: adding / subtracting one on the bare integer, converted back to its type
    let want : String := match cBin op (a, l) (i32, 1) with
      | .ok v => let nv := (convert a v).2
                 showNum (L, nv) ++ "|" ++ showNum (L, if isPre then nv else l)
      | _ => "UB"
    some { model := showRes showPair m, spec := some (want == res), branch := "inc/" ++ kind ++ (if want == "UB" then "/ub" else ""), nontrivial := want != "UB" }
  | ["kernel", name, tt, wt, e1, e2, l, r] => do
    let T ← parseIntTy tt; let W ← parseIntTy wt; let e1 ← e1.toInt?; let e2 ← e2.toInt?; let l ← l.toInt?; let r ← r.toInt?
    let a : Num := (.sc (.int T) e1 2, l); let a2 : Num := (.sc (.int T) e1 2, r); let b : Num := (.sc (.int T) e2 2, r)
    let WA : Ty := .sc (.int W) e1 2
    let cnl : Res Num := match name with
      | "mulwiden" => do let wa ← Layered.cast WA a; Layered.bin .mul wa a2
      | "mixadd" => Layered.bin .add a b
      | "average" => do
          let wa ← Layered.cast WA a
          let s ← Layered.bin .add wa a2
          -- `>> constant<1>`: same representation, exponent one lower
          match s.1 with
          | .sc rr e x => pure (.sc rr (e - 1) x, s.2)
          | _ => .ill "unexpected"
      | "square" => do let wa ← Layered.cast WA a; Layered.bin .mul wa wa
      | _ => .ill "unknown kernel"
    -- the hand-written shift-and-operate code on bare integers
    let hand : Res TV := match name with
      | "mulwiden" => cBin .mul (convert W (T, l)) (T, r)
      | "mixadd" =>
        if e1 ≤ e2 then do let p ← cBin .shl (T, 1) (i32, e2 - e1); let q ← cBin .mul (T, r) (convert T p); cBin .add (T, l) q
        else do let p ← cBin .shl (T, 1) (i32, e1 - e2); let q ← cBin .mul (T, l) (convert T p); cBin .add q (T, r)
      | "average" => cBin .add (convert W (T, l)) (T, r)
      | "square" => cBin .mul (convert W (T, l)) (convert W (T, l))
      | _ => .ill "unknown kernel"
    let model : String := match cnl with
      | .ok v => showNum v ++ "|" ++ showRes showTV hand
      | o => showRes showNum o
    -- spec: the CNL expression and the hand-written code agree in value and representation type
    let spec : Option Bool :=
      match res.splitOn "|" with
      | [c, h] =>
        (match c.splitOn ":", h.splitOn ":" with
         | [ct, cv], [ht, hv] => some (cv == hv && (parseTy ct).bind innerTy == parseIntTy ht)
         | _, _ => if h == "UB" then none else some false)
      | _ => if res == "UB" then (match hand with | .ok _ => some false | _ => some true) else some false
    some { model := model, spec := spec, branch := "kernel/" ++ name, nontrivial := true }
  | _ => none

end Cnl.Drv
