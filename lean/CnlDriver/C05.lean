import CnlDriver.CS
import CnlModel.Elastic
import CnlModel.ElasticScaled
import CnlModel.ElasticWide
/-! `C05` table: elastic_integer operators over built-in narrowest types. -/
namespace Cnl.Drv
open Cnl Cnl.Elastic

def showENum (x : ENum) : String :=
  let rep := match repTy x.digits x.narrowest with
    | some r => r.toString
    | none => "?"
  s!"el({x.digits},{x.narrowest.toString})/{rep}:{x.value}"

/-- parse `el(D,N)/rep:v` into digits, narrowest signedness and value -/
def parseElRes (res : String) : Option (Nat × Bool × Int) :=
  match res.splitOn ":" with
  | [ty, v] =>
    match (ty.splitOn "/").head?.bind (fun t => parseTy t) with
    | some (.el d (.int n)) => v.toInt?.map (fun v => (d, n.signed, v))
    | _ => none
  | _ => none

def withinDigits (d : Nat) (signed : Bool) (v : Int) : Bool :=
  decide ((if signed then -(2^d - 1 : Int) else 0) ≤ v) && decide (v ≤ 2^d - 1)

def exactBin (op : BinOp) (l r : Int) : Int :=
  match op with
  | .add => l + r | .sub => l - r | .mul => l * r | .div => l.tdiv r | .mod => l.tmod r
  | _ => 0

def pow2Q (e : Int) : Rat := if e ≥ 0 then (2 : Rat) ^ e.toNat else 1 / ((2 : Rat) ^ (-e).toNat)

def showESNum (x : ElasticScaled.ESNum) : String :=
  let rep := match repTy x.digits x.narrowest with
    | some r => r.toString
    | none => "?"
  s!"sc(el({x.digits},{x.narrowest.toString}),{x.exp},2)/{rep}:{x.value}"

/-- parse `sc(el(D,N),E,2)/rep:v` into digits, narrowest signedness, exponent and value -/
def parseEsRes (res : String) : Option (Nat × Bool × Int × Int) :=
  match res.splitOn ":" with
  | [ty, v] =>
    match (ty.splitOn "/").head?.bind (fun t => parseTy t) with
    | some (.sc (.el d (.int n)) e 2) => v.toInt?.map (fun v => (d, n.signed, e, v))
    | _ => none
  | _ => none

def hexDigit5 (c : Char) : Option Nat :=
  if '0' ≤ c && c ≤ '9' then some (c.toNat - '0'.toNat)
  else if 'a' ≤ c && c ≤ 'f' then some (c.toNat - 'a'.toNat + 10)
  else none

/-- `0x1f`, `-0x1f` or decimal -/
def parseIntX5 (s : String) : Option Int :=
  let (neg, cs) := match s.toList with
    | '-' :: r => (true, r)
    | r => (false, r)
  match cs with
  | '0' :: 'x' :: ds =>
    if ds.isEmpty then none else
    (ds.foldlM (fun (acc : Nat) c => (hexDigit5 c).map (fun d => acc * 16 + d)) 0).map
      (fun (n : Nat) => if neg then -(n : Int) else (n : Int))
  | _ => s.toInt?

def showHex5 (v : Int) : String :=
  if v < 0 then "-0x" ++ String.ofList (Nat.toDigits 16 v.natAbs) else "0x" ++ String.ofList (Nat.toDigits 16 v.natAbs)

def showENumX (x : ENum) : String := s!"el({x.digits},{x.narrowest.toString}):{showHex5 x.value}"

-- results that need multi-word storage: `Elastic.xBin`, `Elastic.xNeg` (`CnlModel.ElasticWide`)

/-- parse `el(D,N):hex` -/
def parseElResX (res : String) : Option (Nat × Bool × Int) :=
  match res.splitOn ":" with
  | [ty, v] =>
    match parseTy ty with
    | some (.el d (.int n)) => (parseIntX5 v).map (fun v => (d, n.signed, v))
    | _ => none
  | _ => none

/-- known-defect class of an input (none after the repairs) -/
def c05Class (op : BinOp) (x y : ENum) : String :=
  match op with
  | .div | .mod =>
    match policy op x.digits x.narrowest.signed y.digits y.narrowest.signed with
    | some (d, sg) =>
      match repTy d ⟨max x.narrowest.bits y.narrowest.bits, sg⟩ with
      | some rep => if max x.digits y.digits > rep.digits then "C05.divmod_operands_narrowed" else ""
      | none => ""
    | none => ""
  | _ => ""

def checkC05 (toks : List String) (res : String) : Option Verdict :=
  match toks with
  | ["bin", op, dl, nl, dr, nr, l, r] => do
    let op ← parseBinOp op; let dl ← dl.toNat?; let nl ← parseIntTy nl; let dr ← dr.toNat?; let nr ← parseIntTy nr
    let l ← l.toInt?; let r ← r.toInt?
    let x : ENum := ⟨dl, nl, l⟩; let y : ENum := ⟨dr, nr, r⟩
    let m := binOp op x y
    let guard := decide x.InRange && decide y.InRange && !((op == .div || op == .mod) && r == 0)
    let spec : Option Bool := if !guard then none else
      match parseElRes res with
      | some (d, sg, v) => some (v == exactBin op l r && withinDigits d sg v)
      | none => some false
    some { model := showRes showENum m, spec := spec, cls := c05Class op x y, branch := "bin/" ++ toks[1]!, nontrivial := guard }
  | ["cmp", op, dl, nl, dr, nr, l, r] => do
    let op ← parseCmpOp op; let dl ← dl.toNat?; let nl ← parseIntTy nl; let dr ← dr.toNat?; let nr ← parseIntTy nr
    let l ← l.toInt?; let r ← r.toInt?
    let x : ENum := ⟨dl, nl, l⟩; let y : ENum := ⟨dr, nr, r⟩
    let want : Bool := match op with
      | .lt => decide (l < r) | .le => decide (l ≤ r) | .gt => decide (l > r) | .ge => decide (l ≥ r)
      | .eq => decide (l = r) | .ne => decide (l ≠ r)
    let guard := decide x.InRange && decide y.InRange
    some { model := showRes showBool (cmp op x y), spec := if guard then some (showBool want == res) else none,
           branch := "cmp/" ++ toks[1]!, nontrivial := guard }
  | ["neg", dl, nl, l] => do
    let dl ← dl.toNat?; let nl ← parseIntTy nl; let l ← l.toInt?
    let x : ENum := ⟨dl, nl, l⟩
    let spec : Option Bool := if !decide x.InRange then none else
      match parseElRes res with
      | some (d, sg, v) => some (v == -l && withinDigits d sg v)
      | none => some false
    some { model := showRes showENum (neg x), spec := spec, branch := "neg", nontrivial := decide x.InRange }
  | ["shlc", dl, nl, k, l] => do
    let dl ← dl.toNat?; let nl ← parseIntTy nl; let k ← k.toNat?; let l ← l.toInt?
    let x : ENum := ⟨dl, nl, l⟩
    let spec : Option Bool := if !decide x.InRange then none else
      match parseElRes res with
      | some (d, sg, v) => some (v == l * 2^k && withinDigits d sg v)
      | none => some false
    some { model := showRes showENum (shlConst x k), spec := spec, branch := "shlc", nontrivial := decide x.InRange }
  | ["shrc", dl, nl, k, l] => do
    let dl ← dl.toNat?; let nl ← parseIntTy nl; let k ← k.toNat?; let l ← l.toInt?
    let x : ENum := ⟨dl, nl, l⟩
    let spec : Option Bool := if !decide x.InRange then none else
      match parseElRes res with
      | some (d, sg, v) => some (v == l / 2^k && withinDigits d sg v)
      | none => some false
    let cls := if l < 0 && l / 2^k < -(2^(dl - k) - 1 : Int) then "C05.shr_negative_below_declared_range" else ""
    some { model := showRes showENum (shrConst x k), spec := spec, cls := cls, branch := "shrc", nontrivial := decide x.InRange }
  | ["xbin", op, dl, nl, dr, nr, l, r] => do
    let op ← parseBinOp op; let dl ← dl.toNat?; let nl ← parseIntTy nl; let dr ← dr.toNat?; let nr ← parseIntTy nr
    let l ← parseIntX5 l; let r ← parseIntX5 r
    let x : ENum := ⟨dl, nl, l⟩; let y : ENum := ⟨dr, nr, r⟩
    let guard := decide x.InRange && decide y.InRange && !((op == .div || op == .mod) && r == 0)
    let spec : Option Bool := if !guard then none else
      match parseElResX res with
      | some (d, sg, v) => some (v == exactBin op l r && withinDigits d sg v)
      | none => some false
    some { model := showRes showENumX (Elastic.xBin op x y), spec := spec, branch := "xbin/" ++ toks[1]!, nontrivial := guard }
  | ["xident", dl, nl, dr, nr, l, r] => do
    -- `(n / d) * d + n % d` evaluated in elastic arithmetic (multi-word storage included): must give `n` back
    let dl ← dl.toNat?; let nl ← parseIntTy nl; let dr ← dr.toNat?; let nr ← parseIntTy nr
    let l ← parseIntX5 l; let r ← parseIntX5 r
    let x : ENum := ⟨dl, nl, l⟩; let y : ENum := ⟨dr, nr, r⟩
    let guard := decide x.InRange && decide y.InRange && r != 0
    let spec : Option Bool := if !guard then none else
      match parseElResX res with
      | some (d, sg, v) => some (v == l && withinDigits d sg v)
      | none => some false
    some { model := showRes showENumX (Elastic.xDivModIdentity x y), spec := spec, branch := "xident", nontrivial := guard }
  | ["xcmp", op, dl, nl, dr, nr, l, r] => do
    let op ← parseCmpOp op; let dl ← dl.toNat?; let nl ← parseIntTy nl; let dr ← dr.toNat?; let nr ← parseIntTy nr
    let l ← parseIntX5 l; let r ← parseIntX5 r
    let x : ENum := ⟨dl, nl, l⟩; let y : ENum := ⟨dr, nr, r⟩
    let want : Bool := match op with
      | .lt => decide (l < r) | .le => decide (l ≤ r) | .gt => decide (l > r) | .ge => decide (l ≥ r)
      | .eq => decide (l = r) | .ne => decide (l ≠ r)
    let guard := decide x.InRange && decide y.InRange
    -- (the comparison of multi-word operands is by value: model = oracle where the built-in model does not apply)
    let m := match cmp op x y with | .ill _ => .ok want | o => o
    some { model := showRes showBool m, spec := if guard then some (showBool want == res) else none,
           branch := "xcmp/" ++ toks[1]!, nontrivial := guard }
  | ["xneg", dl, nl, l] => do
    let dl ← dl.toNat?; let nl ← parseIntTy nl; let l ← parseIntX5 l
    let x : ENum := ⟨dl, nl, l⟩
    let spec : Option Bool := if !decide x.InRange then none else
      match parseElResX res with
      | some (d, sg, v) => some (v == -l && withinDigits d sg v)
      | none => some false
    some { model := showRes showENumX (Elastic.xNeg x), spec := spec, branch := "xneg", nontrivial := decide x.InRange }
  | ["scaledn", dl, nl, k, l] => do
    -- `_impl::scale<-k>` of an elastic_integer (elastic_integer/scale.h): the quotient by 2^k, truncated
    let dl ← dl.toNat?; let nl ← parseIntTy nl; let k ← k.toNat?; let l ← l.toInt?
    let x : ENum := ⟨dl, nl, l⟩
    let spec : Option Bool := if !decide x.InRange then none else
      match parseElRes res with
      | some (d, sg, v) => some (v == l.tdiv (2^k) && withinDigits d sg v && d == dl - k)
      | none => some false
    some { model := showRes showENum (ElasticScaled.scaleDown x k), spec := spec, branch := "scaledn", nontrivial := decide x.InRange }
  | ["sbin", op, dl, nl, el, dr, nr, er, l, r] => do
    let op ← parseBinOp op; let dl ← dl.toNat?; let nl ← parseIntTy nl; let el ← el.toInt?
    let dr ← dr.toNat?; let nr ← parseIntTy nr; let er ← er.toInt?; let l ← l.toInt?; let r ← r.toInt?
    let x : ElasticScaled.ESNum := ⟨dl, nl, el, l⟩; let y : ElasticScaled.ESNum := ⟨dr, nr, er, r⟩
    let guard := decide x.InRange && decide y.InRange && !((op == .div || op == .mod) && r == 0)
    let spec : Option Bool := if !guard then none else
      match parseEsRes res with
      | some (d, sg, e, v) =>
        let lhs : Rat := (v : Rat) * pow2Q e
        let a : Rat := (l : Rat) * pow2Q el; let b : Rat := (r : Rat) * pow2Q er
        let okv : Bool := match op with
          | .add => lhs == a + b | .sub => lhs == a - b | .mul => lhs == a * b
          | .div => v == l.tdiv r && e == el - er
          | .mod => v == l.tmod r && e == el
          | _ => false
        some (okv && withinDigits d sg v)
      | none => some false
    some { model := showRes showESNum (ElasticScaled.binOp op x y), spec := spec, branch := "sbin/" ++ toks[1]!, nontrivial := guard }
  | ["sconst", op, side, dl, nl, el, c, l] => do
    -- elastic_scaled_integer `op` cnl::constant<c> (side `r`: constant on the right, `l`: on the left)
    let op ← parseBinOp op; let dl ← dl.toNat?; let nl ← parseIntTy nl; let el ← el.toInt?
    let c ← c.toInt?; let l ← l.toInt?
    let cl := side == "l"
    let x : ElasticScaled.ESNum := ⟨dl, nl, el, l⟩
    -- the exact value of the constant as significand * 2^tz (2-adic valuation)
    let tz := ElasticScaled.trailingBits 200 c.natAbs
    let s : Int := c / 2^tz
    let divisor : Int := if cl then l else s
    -- `+ -` scale the constant's built-in representation in its own type when its exponent is the larger one: built-in
    -- arithmetic, not constrained by this property when it overflows
    let m := ElasticScaled.constBin op cl x c
    let builtinOvf : Bool := match m with | .ub _ => (op == .add || op == .sub) && (tz : Int) > el | _ => false
    let guard := decide x.InRange && !((op == .div || op == .mod) && divisor == 0) && !builtinOvf
    let spec : Option Bool := if !guard then none else
      match parseEsRes res with
      | some (d, sg, e, v) =>
        let lhs : Rat := (v : Rat) * pow2Q e
        let a : Rat := (l : Rat) * pow2Q el; let b : Rat := (c : Rat)
        let okv : Bool := match op with
          | .add => lhs == a + b
          | .sub => lhs == (if cl then b - a else a - b)
          | .mul => lhs == a * b
          | .div => if cl then v == s.tdiv l && e == (tz : Int) - el else v == l.tdiv s && e == el - (tz : Int)
          | _ => false
        some (okv && withinDigits d sg v)
      | none => some false
    some { model := showRes showESNum m, spec := spec, branch := "sconst/" ++ toks[1]! ++ "/" ++ side, nontrivial := guard }
  | ["scmp", op, dl, nl, el, dr, nr, er, l, r] => do
    let op ← parseCmpOp op; let dl ← dl.toNat?; let nl ← parseIntTy nl; let el ← el.toInt?
    let dr ← dr.toNat?; let nr ← parseIntTy nr; let er ← er.toInt?; let l ← l.toInt?; let r ← r.toInt?
    let x : ElasticScaled.ESNum := ⟨dl, nl, el, l⟩; let y : ElasticScaled.ESNum := ⟨dr, nr, er, r⟩
    let a : Rat := (l : Rat) * pow2Q el; let b : Rat := (r : Rat) * pow2Q er
    let want : Bool := match op with
      | .lt => decide (a < b) | .le => decide (a ≤ b) | .gt => decide (a > b) | .ge => decide (a ≥ b)
      | .eq => decide (a = b) | .ne => decide (a ≠ b)
    let guard := decide x.InRange && decide y.InRange
    some { model := showRes showBool (ElasticScaled.cmp op x y), spec := if guard then some (showBool want == res) else none,
           branch := "scmp/" ++ toks[1]!, nontrivial := guard }
  | ["sneg", dl, nl, el, l] => do
    let dl ← dl.toNat?; let nl ← parseIntTy nl; let el ← el.toInt?; let l ← l.toInt?
    let x : ElasticScaled.ESNum := ⟨dl, nl, el, l⟩
    let spec : Option Bool := if !decide x.InRange then none else
      match parseEsRes res with
      | some (d, sg, e, v) => some (v == -l && e == el && withinDigits d sg v)
      | none => some false
    some { model := showRes showESNum (ElasticScaled.neg x), spec := spec, branch := "sneg", nontrivial := decide x.InRange }
  | _ => none

end Cnl.Drv
