import CnlDriver.CS
/-! `C05` driver table (stub). -/
namespace Cnl.Drv
open Cnl

def checkC05 (_toks : List String) (_res : String) : Option Verdict := none

end Cnl.Drv
