import CnlDriver.C01
/-! table in CnlDriver.C01 -/
