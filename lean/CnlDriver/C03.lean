import CnlDriver.CS
/-! `C03` driver table (stub). -/
namespace Cnl.Drv
open Cnl

def checkC03 (_toks : List String) (_res : String) : Option Verdict := none

end Cnl.Drv
