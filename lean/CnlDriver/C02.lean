import CnlDriver.CS
/-! `C02` driver table (stub). -/
namespace Cnl.Drv
open Cnl

def checkC02 (_toks : List String) (_res : String) : Option Verdict := none

end Cnl.Drv
