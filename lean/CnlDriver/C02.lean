import CnlDriver.C01
import CnlModel.ScaledWrapped
/-! `C02` table proper (built-in representations) is in CnlDriver.C01.  `C02w`: `/`, `%`, the identity and
`cnl::quotient` on scaled_integer over wrapped representations (harness/props/C02w.h):

    C02w ebin div|mod <radix> <DL> <NL> <eL> <DR> <NR> <eR> <l> <r> => sc(el(D,N),e,radix)/<storage>:<v>
    C02w eident <radix> <DL> <NL> <eL> <DR> <NR> <eR> <l> <r>       => 0|1      ((a/b)*b + a%b == a)
    C02w equot  2       <DL> <NL> <eL> <DR> <NR> <eR> <l> <r>       => sc(el(D,N),e,2)/<storage>:<v>
    C02w ebs r|l s|p div|mod <radix> <DL> <NL> <eL> <T> <eT> <l> <b> => sc(el(D,N),e,radix)/<storage>:<v>
    C02w ebident r|l s|p <radix> <DL> <NL> <eL> <T> <eT> <l> <b>     => 0|1
    C02w ebquot r|l s|p 2 <DL> <NL> <eL> <T> <eT> <l> <b>            => sc(el(D,N),e,2)/<storage>:<v>
         (an elastic_integer representation against a built-in one: `s` a scaled_integer<T, power<eT>>, `p` a plain T
          (eT = 0); `r` elastic OP built-in, `l` built-in OP elastic; <l> is always the elastic representation)
    C02w obin div|mod <tag> <radix> <L> <eL> <R> <eR> <l> <r>       => sc(ov(T,tag),e,radix):<v> | TRAP+ | THROW+ | UB
    C02w oident <tag> <radix> <L> <eL> <R> <eR> <l> <r>             => 0|1
    C02w oquot  <tag> 2 <L> <eL> <R> <eR> <l> <r>                   => sc(ov(D,tag),e,2):<v>

Oracle = the property's contract on the represented values, independent of the model: for a non-zero divisor
(and operands the representation holds: within the declared digits of an elastic_integer; kept by the usual
arithmetic conversions for overflow_integer, and not `lowest / -1`) the quotient's representation is
`l.tdiv r` at exponent `eL - eR`, the remainder's is `l.tmod r` at exponent `eL` (so it has the sign of the dividend
and a magnitude below the divisor's, and `(a/b)*b + a%b = a`), same radix, the result lies within the digits its
type declares, and no signal is raised; the C++ identity evaluates to true; `quotient` is `(l·2^k).tdiv r` at
exponent `eL - eR - k` (`k` = digits of the divisor's representation) and fits the result type.
Under a *checked* overflow tag operands of different signedness are not constrained here: what the tagged
division does with them is the open class `C06.div_mixed_signedness` of C06 ("where rep division itself is
defined"). -/
namespace Cnl.Drv
open Cnl Cnl.Elastic Cnl.ElasticScaled

def showESNumR (radix : Nat) (x : ESNum) : String :=
  let rep := match repTy x.digits x.narrowest with
    | some r => r.toString
    | none => "?"
  s!"sc(el({x.digits},{x.narrowest.toString}),{x.exp},{radix})/{rep}:{x.value}"

/-- parse `sc(el(D,N),E,radix)/rep:v` into digits, narrowest signedness, exponent, radix and value -/
def parseEsResR (res : String) : Option (Nat × Bool × Int × Nat × Int) :=
  match res.splitOn ":" with
  | [ty, v] =>
    match (ty.splitOn "/").head?.bind (fun t => parseTy t) with
    | some (.sc (.el d (.int n)) e rx) => v.toInt?.map (fun v => (d, n.signed, e, rx, v))
    | _ => none
  | _ => none

def withinDigits2 (d : Nat) (signed : Bool) (v : Int) : Bool :=
  decide ((if signed then -(2^d - 1 : Int) else 0) ≤ v) && decide (v ≤ 2^d - 1)

structure EArgs where
  radix : Nat
  x : ESNum
  y : ESNum

def parseEArgs (toks : List String) : Option EArgs :=
  match toks with
  | [rx, dl, nl, el, dr, nr, er, l, r] => do
    let rx ← rx.toNat?; let dl ← dl.toNat?; let nl ← parseIntTy nl; let el ← el.toInt?
    let dr ← dr.toNat?; let nr ← parseIntTy nr; let er ← er.toInt?; let l ← l.toInt?; let r ← r.toInt?
    some ⟨rx, ⟨dl, nl, el, l⟩, ⟨dr, nr, er, r⟩⟩
  | _ => none

def EArgs.guard (a : EArgs) : Bool := decide a.x.InRange && decide a.y.InRange && a.y.value != 0
def EArgs.mix (a : EArgs) : String :=
  (if a.x.narrowest.signed then "s" else "u") ++ (if a.y.narrowest.signed then "s" else "u")
/-- an unsigned operand filling the whole width of its storage with the top bit set -/
def EArgs.full (a : EArgs) : String :=
  let f (z : ESNum) : Bool := !z.narrowest.signed && (repTy z.digits z.narrowest).any (fun t => t.bits == z.digits)
    && decide (z.value ≥ 2^(z.digits - 1))
  if f a.x || f a.y then "/full-width-top-bit" else ""

/-- an elastic_integer representation against a built-in one (`ebs`, `ebident`, `ebquot`) -/
structure BArgs where
  left : Bool      -- the built-in operand is the left one
  plain : Bool     -- a plain integer rather than a scaled_integer over it
  radix : Nat
  x : ESNum
  T : IntTy
  eT : Int
  b : Int

def parseBArgs (side kind : String) (toks : List String) : Option BArgs :=
  match toks with
  | [rx, dl, nl, el, t, er, l, b] => do
    let rx ← rx.toNat?; let dl ← dl.toNat?; let nl ← parseIntTy nl; let el ← el.toInt?
    let T ← parseIntTy t; let er ← er.toInt?; let l ← l.toInt?; let b ← b.toInt?
    if (side != "r" && side != "l") || (kind != "s" && kind != "p") || (kind == "p" && er != 0) then none
    some ⟨side == "l", kind == "p", rx, ⟨dl, nl, el, l⟩, T, er, b⟩
  | _ => none

/-- dividend and divisor: representation values and exponents -/
def BArgs.num (a : BArgs) : Int := if a.left then a.b else a.x.value
def BArgs.den (a : BArgs) : Int := if a.left then a.x.value else a.b
def BArgs.eN (a : BArgs) : Int := if a.left then a.eT else a.x.exp
def BArgs.eD (a : BArgs) : Int := if a.left then a.x.exp else a.eT
/-- the elastic operand within its declared digits, the built-in one a value of its type other than the lowest of a
signed type (`lowest / -1`), the divisor not zero -/
def BArgs.guard (a : BArgs) : Bool :=
  decide a.x.InRange && a.T.inRange a.b && !(a.T.signed && a.b == a.T.lowest) && a.den != 0
def BArgs.label (a : BArgs) : String :=
  (if a.left then "l" else "r") ++ (if a.plain then "/plain" else "/scaled") ++ "/" ++
  (if a.x.narrowest.signed then "s" else "u") ++ (if a.T.signed then "s" else "u") ++
  (if a.b < 0 then "/neg-builtin" else "") ++ (if a.x.value < 0 then "/neg-elastic" else "")

structure OArgs where
  tag : OvTag
  radix : Nat
  L : IntTy
  eL : Int
  R : IntTy
  eR : Int
  l : Int
  r : Int

def parseOArgs (toks : List String) : Option OArgs :=
  match toks with
  | [tg, rx, lt, el, rt, er, l, r] => do
    let tg ← parseOvTag tg; let rx ← rx.toNat?; let L ← parseIntTy lt; let el ← el.toInt?; let R ← parseIntTy rt
    let er ← er.toInt?; let l ← l.toInt?; let r ← r.toInt?
    some ⟨tg, rx, L, el, R, er, l, r⟩
  | _ => none

def OArgs.x (a : OArgs) : Num := ScaledWrapped.scOv a.L a.tag a.eL a.radix a.l
def OArgs.y (a : OArgs) : Num := ScaledWrapped.scOv a.R a.tag a.eR a.radix a.r
/-- both operands survive the usual arithmetic conversions, the divisor is not zero; under a checked tag the
operands have the same signedness -/
def OArgs.base (a : OArgs) : Bool :=
  let T := usualArith a.L a.R
  a.r != 0 && T.wrap a.l == a.l && T.wrap a.r == a.r && (a.tag == .nat || a.L.signed == a.R.signed)
def OArgs.guard (a : OArgs) : Bool :=
  let T := usualArith a.L a.R
  a.base && !(T.signed && a.l == T.lowest && a.r == -1)
def OArgs.limit (a : OArgs) : String :=
  let T := usualArith a.L a.R
  if a.r == -1 && a.l == -T.max then "/minus-max-by-minus-one"
  else if a.r == -1 && a.l == T.lowest then "/lowest-by-minus-one"
  else if a.l == a.L.lowest || a.l == a.L.max || a.r == a.R.lowest || a.r == a.R.max then "/limit" else ""

/-- the undefined tag's `unreachable(message)` is an `abort(message)` in the (non-release) configuration of the
check, printed with its polarity -/
def showResO {α : Type} (tag : OvTag) (f : α → String) (m : Res α) : String :=
  match tag, m with
  | .und, .unreachable "positive overflow" => "TRAP+"
  | .und, .unreachable "negative overflow" => "TRAP-"
  | _, _ => showRes f m

/-- parse `sc(ov(T,tag),e,radix):v` -/
def parseScOvRes (res : String) : Option (IntTy × OvTag × Int × Nat × Int) :=
  match res.splitOn ":" with
  | [ty, v] =>
    match parseTy ty, v.toInt? with
    | some (.sc (.ov (.int t) tg) e x), some v => some (t, tg, e, x, v)
    | _, _ => none
  | _ => none

def checkC02w (toks : List String) (res : String) : Option Verdict :=
  match toks with
  | "ebin" :: ops :: rest => do
    let op ← parseBinOp ops; let a ← parseEArgs rest
    if op != .div && op != .mod then none
    let (wantE, wantV) : Int × Int :=
      if op == .div then (a.x.exp - a.y.exp, a.x.value.tdiv a.y.value) else (a.x.exp, a.x.value.tmod a.y.value)
    let spec : Option Bool := if !a.guard then none else
      match parseEsResR res with
      | some (d, sg, e, rx, v) => some (e == wantE && v == wantV && rx == a.radix && withinDigits2 d sg v)
      | none => some false
    some { model := showRes (showESNumR a.radix) (ElasticScaled.binOp op a.x a.y), spec := spec,
           branch := "ebin/" ++ ops ++ "/" ++ a.mix ++ a.full ++ (if a.y.value < 0 then "/neg-divisor" else ""), nontrivial := a.guard }
  | "eident" :: rest => do
    let a ← parseEArgs rest
    some { model := showRes showBool (ScaledWrapped.identE a.x a.y), spec := if a.guard then some (res == "1") else none,
           branch := "eident/" ++ a.mix ++ a.full, nontrivial := a.guard }
  | "equot" :: rest => do
    let a ← parseEArgs rest
    let wantV := (a.x.value * 2^a.y.digits).tdiv a.y.value
    let spec : Option Bool := if !a.guard then none else
      match parseEsResR res with
      | some (d, sg, e, rx, v) => some (e == a.x.exp - a.y.exp - a.y.digits && v == wantV && rx == 2 && withinDigits2 d sg v)
      | none => some false
    some { model := showRes (showESNumR 2) (ScaledWrapped.quotientE a.x a.y), spec := spec,
           branch := "equot/" ++ a.mix ++ a.full, nontrivial := a.guard }
  | "ebs" :: side :: kind :: ops :: rest => do
    let op ← parseBinOp ops; let a ← parseBArgs side kind rest
    if op != .div && op != .mod then none
    let (wantE, wantV) : Int × Int :=
      if op == .div then (a.eN - a.eD, a.num.tdiv a.den) else (a.eN, a.num.tmod a.den)
    let spec : Option Bool := if !a.guard then none else
      match parseEsResR res with
      | some (d, sg, e, rx, v) => some (e == wantE && v == wantV && rx == a.radix && withinDigits2 d sg v)
      | none => some false
    some { model := showRes (showESNumR a.radix) (ScaledWrapped.binOpB op a.left a.x a.T a.eT a.b), spec := spec,
           branch := "ebs/" ++ ops ++ "/" ++ a.label, nontrivial := a.guard }
  | "ebident" :: side :: kind :: rest => do
    let a ← parseBArgs side kind rest
    some { model := showRes showBool (ScaledWrapped.identB a.left a.x a.T a.eT a.b), spec := if a.guard then some (res == "1") else none,
           branch := "ebident/" ++ a.label, nontrivial := a.guard }
  | "ebquot" :: side :: kind :: rest => do
    let a ← parseBArgs side kind rest
    let k : Nat := if a.left then a.x.digits else a.T.digits
    let wantV := (a.num * 2^k).tdiv a.den
    let spec : Option Bool := if !a.guard then none else
      match parseEsResR res with
      | some (d, sg, e, rx, v) => some (e == a.eN - a.eD - k && v == wantV && rx == 2 && withinDigits2 d sg v)
      | none => some false
    some { model := showRes (showESNumR 2) (ScaledWrapped.quotientB a.left a.x a.T a.eT a.b), spec := spec,
           branch := "ebquot/" ++ a.label, nontrivial := a.guard }
  | "obin" :: ops :: rest => do
    let op ← parseBinOp ops; let a ← parseOArgs rest
    if op != .div && op != .mod then none
    let (wantE, wantV) : Int × Int := if op == .div then (a.eL - a.eR, a.l.tdiv a.r) else (a.eL, a.l.tmod a.r)
    let spec : Option Bool := if !a.guard then none else
      match parseScOvRes res with
      | some (t, tg, e, x, v) => some (e == wantE && v == wantV && x == a.radix && tg == a.tag && t == usualArith a.L a.R)
      | none => some false
    some { model := showResO a.tag showNum (Layered.bin op a.x a.y), spec := spec,
           branch := "obin/" ++ ops ++ "/" ++ a.tag.toString ++ a.limit, nontrivial := a.guard }
  | "oident" :: rest => do
    let a ← parseOArgs rest
    some { model := showResO a.tag showBool (ScaledWrapped.identL a.x a.y), spec := if a.guard then some (res == "1") else none,
           branch := "oident/" ++ a.tag.toString ++ a.limit, nontrivial := a.guard }
  | "oquot" :: rest => do
    let a ← parseOArgs rest
    let wantV := (a.l * 2^a.R.digits).tdiv a.r
    let spec : Option Bool := if !a.base then none else
      match parseScOvRes res with
      | some (t, tg, e, _, v) => some (e == a.eL - a.eR - a.R.digits && v == wantV && t.inRange wantV && tg == a.tag)
      | none => some false
    some { model := showResO a.tag (fun (x : IntTy × Int × Int) => s!"sc(ov({x.1.toString},{a.tag.toString}),{x.2.1},2):{x.2.2}")
                      (ScaledWrapped.quotientO a.tag a.L a.eL a.R a.eR a.l a.r),
           spec := spec, branch := "oquot/" ++ a.tag.toString, nontrivial := a.base }
  | _ => none

end Cnl.Drv
