import CnlDriver.CS
/-! `C08` driver table (stub). -/
namespace Cnl.Drv
open Cnl

def checkC08 (_toks : List String) (_res : String) : Option Verdict := none

end Cnl.Drv
