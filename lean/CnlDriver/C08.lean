import CnlDriver.CS
import CnlModel.Layered
import CnlSpec.Rounding
/-! `C08` table: rounding_integer operators over built-in representations; numbers with a rounding tag and an elastic
and/or overflow layer (`nst`, `ovr`: value-level model, validated type strings). -/
namespace Cnl.Drv
open Cnl Cnl.Spec

def modeOf : RdMode → RoundMode
  | .nat => .truncate | .nrst => .nearestAway | .tpi => .nearestUp | .ninf => .floor

/-- `C08 bin <op> <mode> <L> <R> <l> <r>` : `rounding_integer<L,mode> op rounding_integer<R,mode>` -/
def checkC08 (toks : List String) (res : String) : Option Verdict :=
  match toks with
  | ["bin", ops, mode, lt, rt, l, r] => do
    let op ← parseBinOp ops; let mode ← parseRdMode mode; let L ← parseIntTy lt; let R ← parseIntTy rt
    let l ← l.toInt?; let r ← r.toInt?
    let x : Num := (.rd (.int L) mode, l); let y : Num := (.rd (.int R) mode, r)
    let m := Layered.bin op x y
    let T := usualArith L R
    -- the property speaks of the exact rational l / r of the operand values
    let a := l; let b := r
    let spec : Option Bool :=
      match op with
      | .div =>
        if b == 0 then none
        else if T.wrap l != l || T.wrap r != r then
          -- a conversion of the usual arithmetic conversions changes an operand's value: only the
          -- built-in (native) behaviour is specified
          (if mode == .nat then
            match cBin op (L, l) (R, r) with
            | .ok v => some (res == s!"rd({v.1.toString},{mode.toString}):{v.2}")
            | _ => none
           else none)
        else
        let q := roundDiv (modeOf mode) a b
        if T.inRange q then some (res == s!"rd({T.toString},{mode.toString}):{q}") else none
      | _ =>
        -- every other operator behaves exactly like the built-in one
        match cBin op (L, l) (R, r) with
        | .ok v => some (res == s!"rd({v.1.toString},{mode.toString}):{v.2}")
        | _ => none
    let tie := op == .div && b != 0 && (2 * (a.tmod b)).natAbs == b.natAbs
    let nearLimit := (2 * a.natAbs + b.natAbs : Int) > 2 * T.max
    let cls := ""
    some { model := showRes showNum m, spec := spec, cls := cls,
           branch := ops ++ "/" ++ mode.toString ++ (if tie then "/tie" else "") ++ (if nearLimit && op == .div then "/nearlimit" else ""),
           nontrivial := spec.isSome }
  | ["asg", ops, mode, lt, rt, l, r] => do
    -- compound assignment `a op= b` (b a rounding_integer or a built-in integer): `a = static_cast<A>(a op b)`,
    -- the operator still rounds as the tag prescribes
    let op ← parseBinOp ops; let mode ← parseRdMode mode; let L ← parseIntTy lt; let R ← parseIntTy rt
    let l ← l.toInt?; let r ← r.toInt?
    -- (the conversion back to `A` converts the representation; the layered cast only knows native tags)
    let m : Res Num := do
      let w ← Layered.bin op (.rd (.int L) mode, l) (.rd (.int R) mode, r)
      match w.1 with
      | .rd (.int T) _ => pure (.rd (.int L) mode, (convert L (T, w.2)).2)
      | _ => .ill "unexpected result type"
    let T := usualArith L R
    let conv := T.wrap l == l && T.wrap r == r
    let spec : Option Bool :=
      match op with
      | .div =>
        if r == 0 || !conv then none else
        let q := roundDiv (modeOf mode) l r
        if T.inRange q then some (res == s!"rd({L.toString},{mode.toString}):{L.wrap q}") else none
      | _ =>
        match cBin op (L, l) (R, r) with
        | .ok v => some (res == s!"rd({L.toString},{mode.toString}):{L.wrap v.2}")
        | _ => none
    some { model := showRes showNum m, spec := spec, branch := "asg/" ++ ops ++ "/" ++ mode.toString, nontrivial := spec.isSome }
  | ["msi", mode, kind, v, r] => do
    -- make_static_integer<RoundingTag>(constant<V>{}) (digits = bit length of |V|) or (int) (31 digits), divided by an int:
    -- static_integer<D, RoundingTag> = overflow_integer<elastic_integer<D, rounding_integer<wide_integer<31,int>, RoundingTag>>, undefined>
    let md ← parseRdMode mode; let v ← v.toInt?; let r ← r.toInt?
    let d : Nat := if kind == "c" then Nat.log2 v.natAbs + 1 else 31
    let ty := s!"ov(el({d},rd(wd(31,i32),{md.toString})),und)"
    let q := roundDiv (modeOf md) v r
    let m := s!"{ty}:{v}|{ty}:{q}"
    -- the number made carries the requested rounding mode, and its quotient is the correctly rounded one
    some { model := m, spec := some (res == m), branch := "msi/" ++ md.toString ++ "/" ++ kind,
           nontrivial := v.tmod r != 0 }
  | ["nst", ops, mode, kind, ls, rs, l, r] => do
    -- numbers with an elastic layer and a rounding tag (either nest order), static_integer, static_number (value-level
    -- model: the elastic policy gives the result's digits and signedness, the value is the rounded quotient / the
    -- truncated remainder of the operand VALUES; a built-in int / unsigned operand is lifted to 31 signed / 32 unsigned digits)
    let op ← parseBinOp ops; let md ← parseRdMode mode; let l ← l.toInt?; let r ← r.toInt?
    let ds : String → Option (Nat × Bool) := fun s =>
      if s == "bi" then some (31, true) else if s == "bu" then some (32, false)
      else (s.drop 1).toString.toNat?.map (fun d => (d, s.startsWith "s"))
    let (dl, sl) ← ds ls; let (dr, sr) ← ds rs
    if r == 0 then none else
    let sg := sl || sr
    let d ← (match op with | .div => some dl | .mod => some (min dl dr) | _ => none)
    let v := if op == .div then roundDiv (modeOf md) l r else l.tmod r
    let n := if sg then "i32" else "u32"
    let w := if sg then s!"wd(31,i32)" else s!"wd(32,u32)"
    let ty ← (match kind with
      | "re" => some s!"rd(el({d},{n}),{md.toString})"
      | "er" => some s!"el({d},rd({n},{md.toString}))"
      | "si" => some s!"ov(el({d},rd({w},{md.toString})),und)"
      | "sn" => some s!"sc(ov(el({d},rd({w},{md.toString})),und),0,2)"
      | _ => none)
    let m := s!"{ty}:{v}"
    let tie := op == .div && (2 * (l.tmod r)).natAbs == r.natAbs
    let mix := (if sl then "s" else "u") ++ (if sr then "s" else "u") ++ (if r < 0 then "/negdivisor" else "")
    some { model := m, spec := some (res == m), branch := s!"nst/{kind}/{ops}/{md.toString}/{mix}" ++ (if tie then "/tie" else ""),
           nontrivial := op != .div || l.tmod r != 0 }
  | ["ovr", ops, mode, otag, nest, lt, rt, l, r] => do
    -- overflow_integer<rounding_integer<T,RTag>,OTag> (or) / rounding_integer<overflow_integer<T,OTag>,RTag> (ro), T narrower
    -- than int: the operation is carried out in int, where every rounded quotient is representable: no signal
    let op ← parseBinOp ops; let md ← parseRdMode mode; let ot ← parseOvTag otag
    let L ← parseIntTy lt; let R ← parseIntTy rt; let l ← l.toInt?; let r ← r.toInt?
    if r == 0 || L.bits ≥ 32 || R.bits ≥ 32 then none else
    let v ← (match op with | .div => some (roundDiv (modeOf md) l r) | .mod => some (l.tmod r) | _ => none)
    let ty := if nest == "or" then s!"ov(rd(i32,{md.toString}),{ot.toString})" else s!"rd(ov(i32,{ot.toString}),{md.toString})"
    let m := s!"{ty}:{v}"
    let corner := l == L.lowest && r == -1 && L.signed
    some { model := m, spec := some (res == m), branch := s!"ovr/{nest}/{ops}/{md.toString}/{otag}" ++ (if corner then "/lowest_by_minus1" else ""),
           nontrivial := true }
  | ["cmp", ops, mode, lt, rt, l, r] => do
    -- comparisons behave exactly like the built-in ones (whichever operand is wrapped)
    let op ← parseCmpOp ops; let mode ← parseRdMode mode; let L ← parseIntTy lt; let R ← parseIntTy rt
    let l ← l.toInt?; let r ← r.toInt?
    let m := Layered.cmp op (.rd (.int L) mode, l) (.rd (.int R) mode, r)
    some { model := showRes showBool m, spec := some (showBool (cCmp op (L, l) (R, r)) == res), branch := "cmp/" ++ ops ++ "/" ++ mode.toString }
  | _ => none

end Cnl.Drv
