import CnlDriver.CS
import CnlModel.Layered
import CnlSpec.Rounding
/-! `C08` table: rounding_integer operators over built-in representations. -/
namespace Cnl.Drv
open Cnl Cnl.Spec

def modeOf : RdMode → RoundMode
  | .nat => .truncate | .nrst => .nearestAway | .tpi => .nearestUp | .ninf => .floor

/-- `C08 bin <op> <mode> <L> <R> <l> <r>` : `rounding_integer<L,mode> op rounding_integer<R,mode>` -/
def checkC08 (toks : List String) (res : String) : Option Verdict :=
  match toks with
  | ["bin", ops, mode, lt, rt, l, r] => do
    let op ← parseBinOp ops; let mode ← parseRdMode mode; let L ← parseIntTy lt; let R ← parseIntTy rt
    let l ← l.toInt?; let r ← r.toInt?
    let x : Num := (.rd (.int L) mode, l); let y : Num := (.rd (.int R) mode, r)
    let m := Layered.bin op x y
    let T := usualArith L R
    -- the property speaks of the exact rational l / r of the operand values
    let a := l; let b := r
    let spec : Option Bool :=
      match op with
      | .div =>
        if b == 0 then none
        else if T.wrap l != l || T.wrap r != r then
          -- a conversion of the usual arithmetic conversions changes an operand's value: only the
          -- built-in (native) behaviour is specified
          (if mode == .nat then
            match cBin op (L, l) (R, r) with
            | .ok v => some (res == s!"rd({v.1.toString},{mode.toString}):{v.2}")
            | _ => none
           else none)
        else
        let q := roundDiv (modeOf mode) a b
        if T.inRange q then some (res == s!"rd({T.toString},{mode.toString}):{q}") else none
      | _ =>
        -- every other operator behaves exactly like the built-in one
        match cBin op (L, l) (R, r) with
        | .ok v => some (res == s!"rd({v.1.toString},{mode.toString}):{v.2}")
        | _ => none
    let tie := op == .div && b != 0 && (2 * (a.tmod b)).natAbs == b.natAbs
    let nearLimit := (2 * a.natAbs + b.natAbs : Int) > 2 * T.max
    let cls := ""
    some { model := showRes showNum m, spec := spec, cls := cls,
           branch := ops ++ "/" ++ mode.toString ++ (if tie then "/tie" else "") ++ (if nearLimit && op == .div then "/nearlimit" else ""),
           nontrivial := spec.isSome }
  | ["asg", ops, mode, lt, rt, l, r] => do
    -- compound assignment `a op= b` (b a rounding_integer or a built-in integer): `a = static_cast<A>(a op b)`,
    -- the operator still rounds as the tag prescribes
    let op ← parseBinOp ops; let mode ← parseRdMode mode; let L ← parseIntTy lt; let R ← parseIntTy rt
    let l ← l.toInt?; let r ← r.toInt?
    -- (the conversion back to `A` converts the representation; the layered cast only knows native tags)
    let m : Res Num := do
      let w ← Layered.bin op (.rd (.int L) mode, l) (.rd (.int R) mode, r)
      match w.1 with
      | .rd (.int T) _ => pure (.rd (.int L) mode, (convert L (T, w.2)).2)
      | _ => .ill "unexpected result type"
    let T := usualArith L R
    let conv := T.wrap l == l && T.wrap r == r
    let spec : Option Bool :=
      match op with
      | .div =>
        if r == 0 || !conv then none else
        let q := roundDiv (modeOf mode) l r
        if T.inRange q then some (res == s!"rd({L.toString},{mode.toString}):{L.wrap q}") else none
      | _ =>
        match cBin op (L, l) (R, r) with
        | .ok v => some (res == s!"rd({L.toString},{mode.toString}):{L.wrap v.2}")
        | _ => none
    some { model := showRes showNum m, spec := spec, branch := "asg/" ++ ops ++ "/" ++ mode.toString, nontrivial := spec.isSome }
  | ["msi", mode, kind, v, r] => do
    -- make_static_integer<RoundingTag>(constant<V>{}) (digits = bit length of |V|) or (int) (31 digits), divided by an int:
    -- static_integer<D, RoundingTag> = overflow_integer<elastic_integer<D, rounding_integer<wide_integer<31,int>, RoundingTag>>, undefined>
    let md ← parseRdMode mode; let v ← v.toInt?; let r ← r.toInt?
    let d : Nat := if kind == "c" then Nat.log2 v.natAbs + 1 else 31
    let ty := s!"ov(el({d},rd(wd(31,i32),{md.toString})),und)"
    let q := roundDiv (modeOf md) v r
    let m := s!"{ty}:{v}|{ty}:{q}"
    -- the number made carries the requested rounding mode, and its quotient is the correctly rounded one
    some { model := m, spec := some (res == m), branch := "msi/" ++ md.toString ++ "/" ++ kind,
           nontrivial := v.tmod r != 0 }
  | ["cmp", ops, mode, lt, rt, l, r] => do
    -- comparisons behave exactly like the built-in ones (whichever operand is wrapped)
    let op ← parseCmpOp ops; let mode ← parseRdMode mode; let L ← parseIntTy lt; let R ← parseIntTy rt
    let l ← l.toInt?; let r ← r.toInt?
    let m := Layered.cmp op (.rd (.int L) mode, l) (.rd (.int R) mode, r)
    some { model := showRes showBool m, spec := some (showBool (cCmp op (L, l) (R, r)) == res), branch := "cmp/" ++ ops ++ "/" ++ mode.toString }
  | _ => none

end Cnl.Drv
