import CnlDriver.C13
/-!
`C14` driver table: the text denotes the value.  Same lines and the same model as `C13`
(`evalCharconv`); the oracle parses the *implementation's* characters with `CnlSpec.Decimal`
(independent of the printer) and compares with the exact value `rep · radix^exponent`:

* integers: the canonical numeral in the requested base — `numeralValue` = value, no leading zero;
* scaled_integer: `decimalValue` has the sign of the value, never exceeds its magnitude and is short of it
  by less than one unit of the last printed digit — plus, only if the exact expansion has more than 18
  significant digits (or does not terminate), the precision allowance `|v|·(|e|+1)·u/max(significand type)` with
  `u = 100` for the radixes 2…10 and `u = 10·radix` above (theorem `C14.descale_invariant`: each lossy division costs
  at most `10·max(radix,10)/max` of the value; at most `|e|+1` divisions are lossy for the radixes 2…10
  (`C14.descale_lossy_count`), and above ten the losses of the divisions that precede one multiplication
  sum to less than `10·radix/max`, each significand being ten times the next);
  and it is exact whenever the exact expansion has at most 18 significant digits and its shortest
  fixed or scientific text fits the buffer;
* `fix` lines: `to_chars_static`, `to_string`, `operator<<` show the text of `to_chars` at capacity
  (array padded with NULs), and that text denotes the value.
-/
namespace Cnl.Drv
open Cnl Cnl.Charconv Cnl.Spec

/-- text of a successful implementation result -/
def tcImplText (len : Nat) (res : String) : Option (List Char) :=
  match parseImplTCR res with
  | some r =>
    match r.ok, r.ptr with
    | true, some p => if p ≤ len then some (((r.bytes.drop 4).take len).take p) else none
    | _, _ => none
  | none => none

def tcIntDenotes (base : Nat) (v : Int) (text : List Char) : Bool :=
  match numeralValue base text with
  | some (neg, mag) =>
    let digits := if neg then text.drop 1 else text
    decide ((if neg then -(mag : Int) else (mag : Int)) = v) && (neg == decide (v < 0)) &&
      (digits.head? != some '0' || digits.length == 1)
  | none => false

/-- is exactness demanded (expansion of at most 18 significant digits whose shortest text fits)? -/
def tcExactDemanded (num den : Nat) (neg : Bool) (len : Nat) : Bool :=
  match finiteExpansion num den 200 0 with
  | some (m, x) =>
    let (m', z) := stripZeros 200 m
    let n := numDigits10 200 m'
    decide (n ≤ 18) && decide ((if neg then 1 else 0) + shortestExactLen n (x + z) ≤ len)
  | none => false

def tcShortExpansion (num den : Nat) : Bool :=
  match finiteExpansion num den 200 0 with
  | some (m, _) => decide (numDigits10 200 (stripZeros 200 m).1 ≤ 18)
  | none => false

def tcScDenotes (T : IntTy) (e : Int) (radix : Nat) (rep : Int) (len : Nat) (text : List Char) : Bool :=
  match decimalValue text with
  | none => false
  | some d =>
    if rep = 0 then d.mant == 0 && !d.neg
    else
      let (num, den) := exactFrac rep.natAbs radix e
      let short := tcShortExpansion num den
      let allowNum := if short then 0 else (e.natAbs + 1) * (if radix ≤ 10 then 100 else 10 * radix)
      (d.neg == decide (rep < 0)) && d.within num den allowNum (sigTy T).max.toNat &&
        (!(tcExactDemanded num den (decide (rep < 0)) len) || d.exactly num den)

/-- known-defect class of C14: an expansion of at most 18 significant digits is not printed exactly because
`descale` took a lossy division (only 64-bit and wider reps can reach it) -/
def tcLossyShort (T : IntTy) (e : Int) (radix : Nat) (rep : Int) : Bool :=
  match descale (sigTy T) rep e radix with
  | .ok d => decide (d.lossy > 0) &&
      (let (num, den) := exactFrac rep.natAbs radix e; tcShortExpansion num den)
  | _ => false

/-- `to_chars_static<Base>` lines: the text denotes the value, the rest of the array is NULs -/
def c14Fixb (m tag cls br : String) (base : Nat) (v : Int) (res : String) : Option Verdict :=
  let spec : Option Bool := match res.splitOn ":" with
    | n :: rest@(_ :: _) =>
      let arr := tcDecChars (":".intercalate rest).toList
      match n.toNat? with
      | some n => some (tcIntDenotes base v (arr.take n) && (arr.drop n).all (· == Char.ofNat 0) && decide (arr.length > n))
      | none => none
    | _ => none    -- no text produced: C13's concern
  let _ := tag; let _ := cls
  some { model := m, spec := spec, cls := "", branch := br, nontrivial := spec.isSome }

def checkC14 (toks : List String) (res : String) : Option Verdict := do
  let (m, tag, br) ← evalCharconv toks
  let cls := if tag.isEmpty then "" else "C14." ++ tag
  match toks with
  | ["int", t, base, len, v] =>
    let T ← parseIntTy t; let base ← base.toNat?; let len ← len.toNat?; let v ← v.toInt?
    let _ := T
    let spec : Option Bool :=
      if tag.isEmpty then (tcImplText len res).map (tcIntDenotes base v)
      else some false
    some { model := m, spec := spec, cls := cls, branch := br, nontrivial := spec.isSome }
  | ["sc", t, len, rep] =>
    let .sc T e x ← parseTcTyK t | none
    let len ← len.toNat?; let rep ← rep.toInt?
    let spec : Option Bool :=
      if tag.isEmpty then (tcImplText len res).map (tcScDenotes T e x rep len)
      else some false
    let cls := if cls.isEmpty && tcLossyShort T e x rep then "C14.lossy_rescaling_of_short_expansion" else cls
    some { model := m, spec := spec, cls := cls, branch := br, nontrivial := spec.isSome }
  | ["cap", _] => some { model := m, spec := none, branch := br, nontrivial := false }
  | ["capb", _, _] => some { model := m, spec := none, branch := br, nontrivial := false }
  | ["capwb", _, _, _] => some { model := m, spec := none, branch := br, nontrivial := false }
  | ["oss", _, _] => some { model := m, spec := some (res == m), cls := cls, branch := br }
  | ["fixbw", d, base, name] =>
    let d ← d.toNat?; let base ← base.toNat?; let v ← tcWideVal d name
    c14Fixb m tag cls br base v res
  | ["fixb", _, base, v] =>
    let base ← base.toNat?; let v ← v.toInt?
    c14Fixb m tag cls br base v res
  | ["fix", t, v] =>
    let v ← v.toInt?
    let k ← parseTcTyK t
    let good := match res.splitOn "|" with
      | [st, s, o, tc] =>
        (match st.splitOn ":" with
          | n :: rest =>
            let arr := tcDecChars (":".intercalate rest).toList
            let n := n.toNat?.getD 0
            let txt := arr.take n
            (arr.drop n).all (· == Char.ofNat 0) && decide (arr.length > n) &&
            txt == tcDecChars s.toList && txt == tcDecChars o.toList &&
            (match parseImplTCR tc with
              | some r =>
                let len := r.bytes.length - 8
                tcImplText len tc == some txt &&
                (match k with
                  | .int _ => tcIntDenotes 10 v txt
                  | .sc T e x => tcScDenotes T e x v len txt)
              | none => false)
          | _ => false)
      | _ => false
    let cls := match k with
      | .sc T e x => if cls.isEmpty && tcLossyShort T e x v then "C14.lossy_rescaling_of_short_expansion" else cls
      | _ => cls
    some { model := m, spec := some good, cls := cls, branch := br }
  | _ => none

end Cnl.Drv
