import CnlDriver.CS
/-! `C14` driver table (stub). -/
namespace Cnl.Drv
open Cnl

def checkC14 (_toks : List String) (_res : String) : Option Verdict := none

end Cnl.Drv
