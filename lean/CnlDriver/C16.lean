import CnlDriver.CS
/-! `C16` driver table (stub). -/
namespace Cnl.Drv
open Cnl

def checkC16 (_toks : List String) (_res : String) : Option Verdict := none

end Cnl.Drv
