import CnlDriver.CS
import CnlModel.Fraction
import CnlSpec.Fraction
/-!
`C16` driver table: `cnl::fraction` over built-in integer components.

    C16 bin   <add|sub|mul|div> <fr(N,D)> <fr(N,D)> n1 d1 n2 d2 => fr(N',D'):n/d | UB
    C16 cmp6  <fr> <fr> n1 d1 n2 d2            => six characters (== != < > <= >=), each 1, 0 or U
    C16 un    <neg|pos|abs|reduce|canonical> <fr> n d => fr(N',D'):n/d | UB
    C16 gcd   <fr> n d                          => T:v | UB
    C16 hash  <fr> n d                          => u64:h | UB          (libstdc++ identity hash of the components)
    C16 hasheq <fr> <fr> n1 d1 n2 d2            => two characters: a == b, hash(a) == hash(b)
    C16 flt   <f32|f64|f80> <fr> n d            => f64:[-]m*2^e | f64:[-]0 | f64:[-]inf | f64:nan

The oracle is exact rational arithmetic (`CnlSpec.Fraction.value`, core `Rat`) applied to the
*implementation's* result; it never looks at the model.
-/
namespace Cnl.Drv
open Cnl Cnl.Fraction Cnl.FractionSpec

def parseFracTy (s : String) : Option (IntTy × IntTy) :=
  match parseTy s with
  | some (.fr (.int n) (.int d)) => some (n, d)
  | _ => none

def showFrac (f : Frac) : String :=
  "fr(" ++ f.nt.toString ++ "," ++ f.dt.toString ++ "):" ++ toString f.n ++ "/" ++ toString f.d

/-- parse `fr(N,D):n/d` -/
def parseFracRes (s : String) : Option Frac :=
  match s.splitOn ":" with
  | [t, v] =>
    match parseFracTy t, v.splitOn "/" with
    | some (nt, dt), [n, d] => do let n ← n.toInt?; let d ← d.toInt?; pure ⟨nt, dt, n, d⟩
    | _, _ => none
  | _ => none

def showFVal (ty : String) : FVal → String
  | .fin s 0 _ => ty ++ ":" ++ (if s then "-" else "") ++ "0"
  | .fin s m e => ty ++ ":" ++ (if s then "-" else "") ++ toString m ++ "*2^" ++ toString e
  | .inf s => ty ++ ":" ++ (if s then "-" else "") ++ "inf"
  | .nan => ty ++ ":nan"

/-- parse `[-]m*2^e`, `[-]0` into a rational -/
def parseFltRat (s : String) : Option Rat :=
  match s.splitOn ":" with
  | [_, v] =>
    if v == "0" || v == "-0" then some 0
    else match v.splitOn "*2^" with
      | [m, e] => do
        let m ← m.toInt?; let e ← e.toInt?
        pure (if e ≥ 0 then (m : Rat) * ((2 : Rat) ^ e.toNat) else (m : Rat) / ((2 : Rat) ^ e.natAbs))
      | _ => none
  | _ => none

def precOf : String → Option Nat
  | "f32" => some 24 | "f64" => some 53 | "f80" => some 64 | _ => none

def resChar (r : Res Bool) : Char :=
  match r with
  | .ok true => '1'
  | .ok false => '0'
  | _ => 'U'

def cmpOps : List CmpOp := [.eq, .ne, .lt, .gt, .le, .ge]

def val (a : Frac) : Rat := value a.n a.d

/-- the gcd precondition and exact divisions of `reduce`/`canonical` (oracle-side guard):
magnitudes representable in the common type, lowest terms representable in the result types -/
def canonGuard (a : Frac) (positiveDen : Bool) : Bool :=
  let C := if a.nt = a.dt then a.nt else usualArith a.nt a.dt
  let NT := usualArith a.nt C
  let DT := usualArith a.dt C
  let g : Int := Int.gcd a.n a.d
  let rn := a.n / g
  let rd := a.d / g
  a.d != 0 && a.nt.inRange a.n && a.dt.inRange a.d
    && C.inRange a.n.natAbs && C.inRange a.d.natAbs
    && NT.inRange a.n && NT.inRange g && DT.inRange a.d && DT.inRange g
    && (!positiveDen || (NT.inRange (-rn) && DT.inRange (-rd) && NT.inRange rn && DT.inRange rd))

def signedSmall (a : Frac) : Bool := a.nt.signed && a.dt.signed && a.nt.bits < 32 && a.dt.bits < 32

/-- is `r` the fraction `want` in lowest terms (and with positive denominator if asked)? -/
def lowestOk (want : Rat) (r : Frac) (positiveDen : Bool) : Bool :=
  r.d != 0 && value r.n r.d == want && Int.gcd r.n r.d == 1 && (!positiveDen || (r.d > 0 && (r.n, r.d) == (want.num, (want.den : Int))))

/-- histogram suffix: is one of the two products within two bits of the top of the type it is computed in
(`/tight`), and is that type unsigned (`/uns`)? -/
def tightSuffix (x y : TV) (x' y' : TV) : String :=
  let t (p q : TV) : Bool := (p.2 * q.2).natAbs ≥ 2 ^ ((usualArith p.1 q.1).digits - 2)
  let u := !(usualArith x.1 y.1).signed || !(usualArith x'.1 y'.1).signed
  (if t x y || t x' y' then "/tight" else "") ++ (if u then "/uns" else "")

def checkC16 (toks : List String) (res : String) : Option Verdict :=
  match toks with
  | ["bin", op, ta, tb, n1, d1, n2, d2] => do
    let (an, ad) ← parseFracTy ta; let (bn, bd) ← parseFracTy tb
    let n1 ← n1.toInt?; let d1 ← d1.toInt?; let n2 ← n2.toInt?; let d2 ← d2.toInt?
    let a : Frac := ⟨an, ad, n1, d1⟩; let b : Frac := ⟨bn, bd, n2, d2⟩
    let (m, guard, want) ← match op with
      | "add" => some (add a b, decide (AddGuard a.num a.den b.num b.den), val a + val b)
      | "sub" => some (sub a b, decide (SubGuard a.num a.den b.num b.den), val a - val b)
      | "mul" => some (mul a b, decide (MulGuard a.num a.den b.num b.den), val a * val b)
      | "div" => some (div a b, decide (DivGuard a.num a.den b.num b.den) && n2 != 0, val a / val b)
      | _ => none
    let guard := guard && d1 != 0 && d2 != 0
    let spec := if guard then
        match parseFracRes res with
        | some r => some (r.d != 0 && value r.n r.d == want)
        | none => some false
      else none
    some { model := showRes showFrac m, spec := spec, branch := "bin/" ++ op ++ (if guard then
               (if op == "mul" then tightSuffix a.num b.num a.den b.den else tightSuffix a.num b.den a.den (if op == "div" then b.num else b.den))
             else if m.isOk then "/unguarded" else "/ub"),
           nontrivial := guard }
  | ["cmp6", ta, tb, n1, d1, n2, d2] => do
    let (an, ad) ← parseFracTy ta; let (bn, bd) ← parseFracTy tb
    let n1 ← n1.toInt?; let d1 ← d1.toInt?; let n2 ← n2.toInt?; let d2 ← d2.toInt?
    let a : Frac := ⟨an, ad, n1, d1⟩; let b : Frac := ⟨bn, bd, n2, d2⟩
    let m := String.ofList (cmpOps.map (fun o => resChar (cmp o a b)))
    let guard := decide (CmpGuard a.num a.den b.num b.den) && d1 != 0 && d2 != 0
    let want := String.ofList (cmpOps.map (fun o => if cmpRat o (val a) (val b) then '1' else '0'))
    let negs := (if d1 < 0 then "n" else "p") ++ (if d2 < 0 then "n" else "p")
    some { model := m, spec := if guard then some (res == want) else none,
           branch := "cmp6/" ++ (if guard then negs ++ (if val a == val b then "/equal" else "") ++ tightSuffix a.num b.den b.num a.den else "unguarded"), nontrivial := guard }
  | ["un", op, ta, n, d] => do
    let (an, ad) ← parseFracTy ta
    let n ← n.toInt?; let d ← d.toInt?
    let a : Frac := ⟨an, ad, n, d⟩
    let r := parseFracRes res
    match op with
    | "neg" =>
      let guard := decide (NegFits a.num) && decide (WF a.den) && d != 0
      some { model := showRes showFrac (neg a), spec := if guard then some (match r with | some r => r.d != 0 && value r.n r.d == -(val a) | none => false) else none,
             branch := "un/neg" ++ (if guard then "" else "/unguarded"), nontrivial := guard }
    | "pos" =>
      let guard := decide (WF a.num) && decide (WF a.den) && decide ((promote an).InRange n) && decide ((promote ad).InRange d) && d != 0
      some { model := showRes showFrac (pos a), spec := if guard then some (match r with | some r => r.d != 0 && value r.n r.d == val a | none => false) else none,
             branch := "un/pos" ++ (if guard then "" else "/unguarded"), nontrivial := guard }
    | "abs" =>
      let guard := decide (WF a.num) && decide (WF a.den) && an.inRange (-n) && ad.inRange (-d) && d != 0
      let want := if val a < 0 then -(val a) else val a
      some { model := showRes showFrac (Fraction.abs a), spec := if guard then some (match r with | some r => r.d > 0 && r.n ≥ 0 && value r.n r.d == want | none => false) else none,
             branch := "un/abs" ++ (if guard then "" else "/unguarded"), nontrivial := guard }
    | "reduce" | "canonical" =>
      let pd := op == "canonical"
      let guard := canonGuard a pd
      let m := if pd then canonical a else reduce a
      let spec := if guard then some (match r with | some r => lowestOk (val a) r pd | none => false)
        else match r with
          | some r => if signedSmall a && d != 0 then some (lowestOk (val a) r pd) else none
          | none => none
      some { model := showRes showFrac m, spec := spec,
             branch := "un/" ++ op ++ (if guard then (if d < 0 then "/negden" else "") else if m.isOk then "/unguarded" else "/ub"), nontrivial := guard }
    | _ => none
  | ["gcd", ta, n, d] => do
    let (an, ad) ← parseFracTy ta
    let n ← n.toInt?; let d ← d.toInt?
    let a : Frac := ⟨an, ad, n, d⟩
    let C := if an = ad then an else usualArith an ad
    let guard := C.inRange n.natAbs && C.inRange d.natAbs
    let want := showTV (C, (Int.gcd n d : Int))
    some { model := showRes showTV (gcd a), spec := if guard then some (res == want) else none,
           branch := "gcd" ++ (if guard then "" else "/unguarded"), nontrivial := guard }
  | ["hash", ta, n, d] => do
    let (an, ad) ← parseFracTy ta
    let n ← n.toInt?; let d ← d.toInt?
    let a : Frac := ⟨an, ad, n, d⟩
    let m := hashWith 64 (stdHashInt 64) (stdHashInt 64) a
    some { model := showRes (fun h => "u64:" ++ toString h) m, spec := none, branch := "hash" ++ (if m.isOk then "" else "/ub"), nontrivial := m.isOk }
  | ["hasheq", ta, tb, n1, d1, n2, d2] => do
    let (an, ad) ← parseFracTy ta; let (bn, bd) ← parseFracTy tb
    let n1 ← n1.toInt?; let d1 ← d1.toInt?; let n2 ← n2.toInt?; let d2 ← d2.toInt?
    let a : Frac := ⟨an, ad, n1, d1⟩; let b : Frac := ⟨bn, bd, n2, d2⟩
    let e := cmp .eq a b
    let ha := hashWith 64 (stdHashInt 64) (stdHashInt 64) a
    let hb := hashWith 64 (stdHashInt 64) (stdHashInt 64) b
    let hc : Char := match ha, hb with
      | .ok x, .ok y => if x == y then '1' else '0'
      | _, _ => 'U'
    let m := String.ofList [resChar e, hc]
    -- the hash/equality contract belongs to one `std::hash<T>` specialisation: same fraction type on both sides
    let guardEq := decide (CmpGuard a.num a.den b.num b.den) && d1 != 0 && d2 != 0 && ta == tb
    let guardH := canonGuard a true && canonGuard b true
    let eqWant := val a == val b
    let spec : Option Bool :=
      if !guardEq then none
      else match res.toList with
        | [ec, hcI] =>
          if ec != (if eqWant then '1' else '0') then some false
          else if !eqWant then some true
          else if hcI == '1' then some true
          else if hcI == '0' then some false
          else if guardH then some false else none
        | _ => some false
    some { model := m, spec := spec, branch := "hasheq/" ++ (if !guardEq then "unguarded" else if eqWant then "equal" else "different"),
           nontrivial := guardEq && eqWant }
  | ["flt", ft, ta, n, d] => do
    let (an, ad) ← parseFracTy ta
    let prec ← precOf ft
    let n ← n.toInt?; let d ← d.toInt?
    let a : Frac := ⟨an, ad, n, d⟩
    let m := toFloat prec a
    -- oracle: the result is within half a unit in the last place of the exact quotient
    -- (exactness of the int→float conversions is part of the guard)
    let exactOperands := n.natAbs < 2 ^ prec && d.natAbs < 2 ^ prec
    let spec : Option Bool :=
      if d == 0 || !exactOperands then none
      else match parseFltRat res with
        | some r =>
          let q := val a
          if q == 0 then some (r == 0)
          else
            -- ulp of the binade that holds |q|: 2^(floor(log2 |q|) - prec + 1)
            let aq := if q < 0 then -q else q
            let lg : Int := (Nat.log2 aq.num.natAbs : Int) - (Nat.log2 aq.den : Int)
            let lg := if aq < (if lg ≥ 0 then (2 : Rat) ^ lg.toNat else 1 / (2 : Rat) ^ lg.natAbs) then lg - 1 else lg
            let ue : Int := lg - (prec : Int) + 1
            let ulp : Rat := if ue ≥ 0 then (2 : Rat) ^ ue.toNat else 1 / (2 : Rat) ^ ue.natAbs
            let diff := if r - q < 0 then q - r else r - q
            some (diff * 2 ≤ ulp)
        | none => some false
    some { model := showFVal ft m, spec := spec, branch := "flt/" ++ ft ++ (if d == 0 then "/zeroden" else ""), nontrivial := d != 0 }
  | _ => none

end Cnl.Drv
