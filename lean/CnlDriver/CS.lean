import CnlDriver.Proto
/-! `CS` — the C-semantics table: validates `CnlModel.CInt` against the compilers. -/
namespace Cnl.Drv
open Cnl

def parseBinOp : String → Option BinOp
  | "add" => some .add | "sub" => some .sub | "mul" => some .mul | "div" => some .div | "mod" => some .mod
  | "and" => some .band | "or" => some .bor | "xor" => some .bxor | "shl" => some .shl | "shr" => some .shr
  | _ => none
def parseCmpOp : String → Option CmpOp
  | "lt" => some .lt | "le" => some .le | "gt" => some .gt | "ge" => some .ge | "eq" => some .eq | "ne" => some .ne
  | _ => none

/-- `CS <op> <L> <R> <l> <r>` -/
def checkCS (toks : List String) : Option Verdict :=
  match toks with
  | [op, lt, rt, l, r] => do
    let L ← parseIntTy lt; let R ← parseIntTy rt; let l ← l.toInt?; let r ← r.toInt?
    let x : TV := (L, l); let y : TV := (R, r)
    match parseBinOp op, parseCmpOp op with
    | some b, _ =>
      let m := cBin b x y
      some { model := showRes showTV m, branch := op ++ (if m.isOk then "" else "/ub") }
    | _, some c => some { model := showBool (cCmp c x y), branch := op }
    | _, _ =>
      match op with
      | "neg" => let m := cNeg x; some { model := showRes showTV m, branch := op ++ (if m.isOk then "" else "/ub") }
      | "not" => some { model := showRes showTV (cNot x), branch := op }
      | "pos" => some { model := showRes showTV (cPos x), branch := op }
      | "cvt" => some { model := showTV (convert R x), branch := op }
      | _ => none
  | _ => none

end Cnl.Drv
