import CnlDriver.CS
import CnlModel.Exp2
/-! `C20` driver table. -/
namespace Cnl.Drv
open Cnl

def showExp2 (r : Res Int) : String := showRes (fun v => toString v) r

def checkC20 (toks : List String) (_res : String) : Option Verdict :=
  match toks with
  | ["exp2", ty, e, r] => do
    let t ← parseIntTy ty; let e ← e.toInt?; let r ← r.toInt?
    let f : Exp2.Fmt := ⟨t.bits, t.signed, e⟩
    some { model := showExp2 (Exp2.exp2 f r), branch := "exp2" }
  | _ => none

end Cnl.Drv
