import CnlDriver.CS
/-! `C20` driver table (stub). -/
namespace Cnl.Drv
open Cnl

def checkC20 (_toks : List String) (_res : String) : Option Verdict := none

end Cnl.Drv
