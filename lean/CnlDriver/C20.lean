import CnlDriver.CS
import CnlModel.Exp2
import CnlSpec.Exp2
import CnlModel.Numbers
import CnlSpec.Numbers
/-! `C20` driver table: `cnl::exp2` (model + certified-floor oracle) and the `<numbers>` constants. -/
namespace Cnl.Drv
open Cnl

def showExp2 (r : Res Int) : String := showRes (fun v => toString v) r

/-- `x = rep · 2^E` is an integer -/
def exp2Integral (E rep : Int) : Bool := if E < 0 then rep % 2^(-E).toNat == 0 else true

/-- the property's demand on a result `v` given the true floor `want` -/
def exp2Accept (E rep : Int) (want : Nat) (v : Int) : Bool :=
  decide ((v - want).natAbs ≤ 1) && (!(exp2Integral E rep && decide ((Spec.Exp2.expArg E rep).2 ≥ 0)) || v == want)

/-- known-defect classes (functions of format and input only) -/
def exp2Class (f : Exp2.Fmt) (rep : Int) (want : Nat) : String :=
  -- (the classes `exp2_unsigned_rep_sign_compare` and `exp2_positive_exponent_floor_wraps` are repaired: a recurrence is a violation)
  -- what the code did with the coefficients of the header as first verified (derived inside Lean from the literals)
  match Exp2.exp2With (Exp2.derivedCoeffs f.bits) f rep with
  | .ok v =>
    if exp2Accept f.exp rep want v then ""
    else if f.bits ≤ 16 then "C20.exp2_error_exceeds_1lsb"
    -- 32-bit unsigned reps reach the polynomial only since the sign-compare repair; signed 32-bit reps have no known deviation
    else if f.bits == 32 && !f.signed then "C20.exp2_error_exceeds_1lsb_unsigned32"
    else ""
  | _ => ""

def checkC20 (toks : List String) (res : String) : Option Verdict :=
  match toks with
  | ["exp2", ty, e, r] => do
    let t ← parseIntTy ty; let e ← e.toInt?; let r ← r.toInt?
    let f : Exp2.Fmt := ⟨t.bits, t.signed, e⟩
    let m := showExp2 (Exp2.exp2 f r)
    let fmtS := ty ++ "/" ++ toString e
    if t.bits > 32 then some { model := m, spec := none, branch := "exp2/" ++ fmtS ++ "/beyond-32-bit", nontrivial := false } else
    match Spec.Exp2.ref? t.bits e r with
    | some want =>
      if (want : Int) ≤ t.max then
        let ok := match res.toInt? with
          | some v => exp2Accept e r want v
          | none => false
        let dev := match res.toInt? with
          | some v => let d := (v - want).natAbs; if d ≤ 4 then toString d else ">4"
          | none => res
        some { model := m, spec := some ok, cls := if ok then "" else exp2Class f r want,
               branch := "exp2/" ++ fmtS ++ "/dev=" ++ dev ++ (if exp2Integral e r then "/integral" else ""),
               nontrivial := true }
      else some { model := m, spec := none, branch := "exp2/" ++ fmtS ++ "/unrepresentable", nontrivial := false }
    | none => some { model := m, spec := none,
                     branch := "exp2/" ++ fmtS ++ (if Spec.Exp2.tooBig t.bits e r then "/unrepresentable" else "/oracle-undecided"), nontrivial := false }
  | ["num", name, ty, e] => do
    let t ← parseIntTy ty; let e ← e.toInt?
    let m := showExp2 (Numbers.stored name t e)
    let c ← res.toInt?
    -- exact oracle for the algebraic constants, 60-digit reference for the others
    let (ok, how) := match Spec.Numbers.within1Alg name e c with
      | some b => (some b, "exact")
      | none => (Spec.Numbers.within1Ref name e c, "ref60")
    let trunc := match Spec.Numbers.truncRef name e c with
      | some true => "/truncated" | some false => "/rounded-up" | none => ""
    some { model := m, spec := ok, branch := "num/" ++ name ++ "/" ++ how ++ trunc, nontrivial := true }
  | _ => none

end Cnl.Drv
