import CnlDriver.CS
/-! `C04` driver table (stub). -/
namespace Cnl.Drv
open Cnl

def checkC04 (_toks : List String) (_res : String) : Option Verdict := none

end Cnl.Drv
