import CnlDriver.C01
import CnlModel.Wrap
import CnlModel.ElasticNarrow
/-! `C04` table proper is in CnlDriver.C01.  `C04w`: `wrap`/`unwrap` and `from_rep`/`to_rep` are exact inverses.

    C04w wrap <T> <V> <v> => <wrap<T>(v)>|<unwrap(wrap<T>(v))>|<wrap<T>(unwrap(wrap<T>(v)))>
    C04w rep  <T> <V> <v> => <from_rep<T>(v)>|<to_rep(from_rep<T>(v))>|<from_rep<T>(to_rep(from_rep<T>(v)))>

Oracle (the property's last sentence): the second field is the argument itself (type and value) whenever the first
field holds the argument's value; the third field equals the first.

    C04w ecvt <Src> <Dst> <v> => <Dst>:<innermost value of static_cast<Dst>(Src holding representation v)>

`Src` a `scaled_integer` over an `elastic_integer` or over a native-rounding nest around one, `Dst` such a type or a built-in
integer (model `CnlModel.ElasticNarrow`).  Oracle: the result has the destination type and holds the source value truncated
toward zero at the destination's resolution, checked by multiplication (`ElasticNarrow.TruncTo`), exact when digits are added;
unconstrained when the destination cannot hold that value. -/
namespace Cnl.Drv
open Cnl

def c04wPure : Ty → Bool
  | .int _ => true
  | .sc r _ _ => c04wPure r
  | .ov r _ => c04wPure r
  | .rd r _ => c04wPure r
  | _ => false

def c04wOracle (strictTy : Bool) (V : IntTy) (v : Int) (res : String) : Option Bool :=
  match res.splitOn "|" with
  | [a, b, c] =>
    -- value carried by the first field
    match (a.splitOn ":").getLast?, b.splitOn ":" with
    | some va, [tb, vb] =>
      if va.toInt? == some v then
        -- the inverse gives the argument back: its value, and its type too unless the archetype fixes its own
        -- storage type (elastic_integer)
        some (vb.toInt? == some v && (tb == V.toString || !strictTy) && c == a)
      else some (c == a)   -- the archetype's own storage could not hold the argument: only the re-wrap is constrained
    | _, _ => some false
  | _ => some false

def checkC04w (toks : List String) (res : String) : Option Verdict :=
  match toks with
  | ["wrap", t, vt, v] => do
    let T ← parseTy t; let V ← parseIntTy vt; let v ← v.toInt?
    let m : Option String := do
      let w ← Wrap.wrap T (V, v)
      let u ← Wrap.unwrap w
      let w2 ← Wrap.wrap T u
      pure (showNum w ++ "|" ++ showTV u ++ "|" ++ showNum w2)
    some { model := m.getD "ILL(not modelled)", spec := c04wOracle (c04wPure T) V v res,
           branch := "wrap/" ++ (if Wrap.leafTy T == some V then "same-rep" else "other-rep") }
  | ["rep", t, vt, v] => do
    let T ← parseTy t; let V ← parseIntTy vt; let v ← v.toInt?
    let m : Option String := do
      let x ← Wrap.fromRep T (V, v)
      let r ← Wrap.toRep x
      let x2 ← Wrap.fromRep T r
      pure (showNum x ++ "|" ++ showTV r ++ "|" ++ showNum x2)
    some { model := m.getD "ILL(not modelled)", spec := c04wOracle (c04wPure T && T.depth > 0) V v res, branch := "rep" }
  | ["ecvt", st, dt, v] => do
    let S ← parseTy st; let D ← parseTy dt; let v ← v.toInt?
    let (rep, eS) ← (match S with | .sc r e 2 => some (r, e) | _ => none)
    let eD ← ElasticNarrow.expOf D
    let (n, _) ← ElasticNarrow.elInfo rep
    let k := eD - eS
    let m := ElasticNarrow.convert S D v
    -- the oracle: type and value fields of the implementation's result
    let parts := res.splitOn ":"
    let exactFits : Bool := m.isSome
    let spec : Option Bool :=
      if !exactFits then none else
      match parts with
      | [t, r] =>
        match r.toInt? with
        | some r =>
          some (t == dt &&
            (if 0 ≤ k then decide (ElasticNarrow.TruncTo v k.toNat r) else r == v * 2 ^ (-k).toNat))
        | none => some false
      | _ => some false
    let word : Int := if n ≤ 7 then 8 else if n ≤ 15 then 16 else if n ≤ 31 then 32 else if n ≤ 63 then 64 else 128
    let kind := (match rep with | .el _ _ => "elastic" | .ov (.el _ (.int _)) _ => "safe" | _ => "static_number")
    some { model := (m.map showNum).getD "ILL(not modelled)", spec := spec,
           branch := "ecvt/" ++ kind ++ (match D with | .int _ => "->int" | _ => "->scaled") ++
             (if k ≤ 0 then "/widen" else if k ≥ word then "/drops>=word" else if k ≥ (n : Int) then "/drops-all-digits" else "/narrow"),
           nontrivial := k > 0 }
  | _ => none

end Cnl.Drv
