import CnlDriver.CS
/-! `C06` driver table (stub). -/
namespace Cnl.Drv
open Cnl

def checkC06 (_toks : List String) (_res : String) : Option Verdict := none

end Cnl.Drv
