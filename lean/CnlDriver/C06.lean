import CnlDriver.CS
import CnlModel.Layered
import CnlSpec.Overflow
import CnlModel.OverflowFloat
import CnlDriver.FloatIO
/-! `C06` / `C07` tables: tagged arithmetic and conversion on built-in operands. -/
namespace Cnl.Drv
open Cnl Cnl.Overflow

def parsePath : String → Option Path
  | "builtin" => some .builtin | "portable" => some .portable | _ => none

/-- what the property demands of a checked operation whose exact result is `e` in type `T` -/
def c06Want (tag : OvTag) (T : IntTy) (e : Int) : String := showRes showTV (Spec.checkedWant tag T e)

def sgnS (t : IntTy) : String := if t.signed then "s" else "u"

/-- known-defect classes (call site: operator x signedness mix x path), see known_findings.json -/
def c06Class (path : Path) (kind : String) (op : String) (L R : IntTy) (l r : Int) : String :=
  let mixed := L.signed != R.signed
  if kind == "bin" || kind == "wbin" then
    -- (the shift classes shl_zero_by_wide_count, shl_minus_one_to_lowest, shr_count_ge_width are
    -- repaired: a recurrence is a violation)
    if op == "shl" || op == "shr" then ""
    else if op == "div" then (if mixed then "C06.div_mixed_signedness" else "")
    else if mixed && path == .portable then "C06.portable_mixed_signedness"
    else ""
  else ""

structure C06Case where
  model : Res TV
  want : Option String     -- none: the property does not constrain this input
  cls : String
  branch : String
  style : String := ""     -- how the harness prints a value: "" `T:v`, "ov" `ov(T,tag):v`, "<e>,<r>" `sc(ov(T,tag),e,r):v`

/-- what the tags demand of a chain of scaling steps on a variable of type `overflow_integer<S, tag>` followed by
the conversion to `D`: every step is the exact operation (`true`: multiply, `false`: divide toward zero) followed by
the tag's reaction in the variable's type -/
def chainWant (tag : OvTag) (S D : IntTy) : List (Bool × Int) → Int → Res TV
  | [], x => Spec.checkedWant tag D x
  | (isMul, p) :: rest, x =>
    match Spec.checkedWant tag S (if isMul then x * p else x.tdiv p) with
    | .ok y => chainWant tag S D rest y.2
    | o => o

def c06Eval (toks : List String) : Option C06Case :=
  match toks with
  | [kind, path, tag, op, lt, rt, l, r] =>
    if kind != "bin" && kind != "wbin" then none else do
    let path ← parsePath path; let tag ← parseOvTag tag; let bop ← parseBinOp op
    let L ← parseIntTy lt; let R ← parseIntTy rt; let l ← l.toInt?; let r ← r.toInt?
    let T := binResultTy bop L R
    let exact : Option Int :=
      if bop == .shl && l == 0 && r ≥ 0 then some 0
      else if bop == .shr then (if r < 0 then none else if r > 400 then some (if l < 0 then -1 else 0) else some (l / 2^r.toNat))
      else if bop == .shl && r > 400 then some (l * 2^400)   -- far outside every range, same polarity as l * 2^r
      else Spec.exactBin bop l r
    let m := checkedBin path tag bop (L, l) (R, r)
    let ovf := match exact with
      | some e => if e > T.max then "/pos" else if e < T.lowest then "/neg" else ""
      | none => "/na"
    some { model := m, want := exact.map (c06Want tag T), cls := c06Class path kind op L R l r,
           branch := s!"{kind}/{op}/{tag.toString}{ovf}", style := if kind == "wbin" then "ov" else "" }
  | ["neg", _path, tag, lt, l] => do
    let tag ← parseOvTag tag; let L ← parseIntTy lt; let l ← l.toInt?
    let T := promote L
    some { model := checkedNeg tag (L, l), want := some (c06Want tag T (-l)), cls := "",
           branch := s!"neg/{tag.toString}" }
  | ["cvt", _path, tag, st, dt, v] => do
    let tag ← parseOvTag tag; let S ← parseIntTy st; let D ← parseIntTy dt; let v ← v.toInt?
    some { model := checkedConvert tag D (S, v), want := some (c06Want tag D v), cls := "",
           branch := s!"cvt/{tag.toString}" ++ (if D.inRange v then "" else "/ovf") }
  | ["ccvt", _path, tag, st, dt, v] => do
    -- `convert<Tag, D>{}(constant<V>{})`, `S = decltype(V)`: the exact value of the constant decides
    let tag ← parseOvTag tag; let S ← parseIntTy st; let D ← parseIntTy dt; let v ← v.toInt?
    some { model := checkedConvert tag D (S, v), want := some (c06Want tag D v), cls := "",
           branch := s!"ccvt/{tag.toString}" ++ (if v > D.max then "/pos" else if v < D.lowest then "/neg" else "") ++
             (if S.signed != D.signed then "/mixed" else "") }
  | ["wcvt", _path, tag, kind, st, dt, v] => do
    -- an overflow_integer converted as a number: constructor from a related / unrelated wrapper or a built-in,
    -- assignment, function argument, conversion operator to a built-in (`wb`: prints the bare value)
    let tag ← parseOvTag tag; let S ← parseIntTy st; let D ← parseIntTy dt; let v ← v.toInt?
    guard (["ww", "wa", "wf", "wb", "bw", "rw", "ew", "cw"].contains kind)
    some { model := wrapperConvert tag D (S, v), want := some (c06Want tag D v), cls := "",
           branch := s!"wcvt/{kind}/{tag.toString}" ++ (if v > D.max then "/pos" else if v < D.lowest then "/neg" else "") ++
             (if S.signed && !D.signed && S.digits ≤ D.digits then "/s2u_wide" else ""),
           style := if kind == "wb" then "" else "ov" }
  | ["sxr", path, tag, st, es, rs, dt, ed, rd, v] => do
    -- scaled_integer<S, power<eS, rS>> -> scaled_integer<overflow_integer<D, tag>, power<eD, rD>>, rS ≠ rD
    let path ← parsePath path; let tag ← parseOvTag tag; let S ← parseIntTy st; let D ← parseIntTy dt
    let eS ← es.toInt?; let rS ← rs.toNat?; let eD ← ed.toInt?; let rD ← rd.toNat?; let v ← v.toInt?
    guard (rS != rD)
    let stages : List (Bool × Int) :=
      (if eS > 0 then [(true, (rS : Int) ^ eS.toNat)] else []) ++ (if eD < 0 then [(true, (rD : Int) ^ (-eD).toNat)] else []) ++
      (if eS < 0 then [(false, (rS : Int) ^ (-eS).toNat)] else []) ++ (if eD > 0 then [(false, (rD : Int) ^ eD.toNat)] else [])
    let want := chainWant tag S D stages v
    let sig := match want with | .ok _ => "" | _ => "/signal"
    some { model := radixConvert path tag S eS rS D eD rD v, want := some (showRes showTV want), cls := "",
           branch := s!"sxr/{tag.toString}/{rS}to{rD}{sig}", style := s!"{eD},{rD}" }
  | ["cvtf", _path, tag, fm, dt, x] => do
    let tag ← parseOvTag tag; let f ← FloatIO.parseFmt fm; let D ← parseIntTy dt; let x ← Fmt.ofHex? f x
    -- exact result: the value truncated toward zero
    -- overflow iff the real value itself lies outside the destination's range; otherwise truncation
    let want : Option String := match x.toRat? with
      | some q =>
        let t : Int := if q < 0 then -((-q).floor) else q.floor
        if q > (D.max : Rat) then some (c06Want tag D (D.max + 1))
        else if q < (D.lowest : Rat) then some (c06Want tag D (D.lowest - 1))
        else some (c06Want tag D t)
      | none => none
    -- (float_at_limit_not_flagged is repaired: no class; a recurrence is a violation)
    let ovf := match x.toRat? with
      | some q => if q > (D.max : Rat) then "/pos" else if q < (D.lowest : Rat) then "/neg" else ""
      | none => "/na"
    some { model := checkedConvertFloat tag f D x, want := want, cls := "", branch := s!"cvtf/{tag.toString}/{fm}{ovf}" }
  | _ => none

/-- the wrapped variants print `ov(T,tag):v` / `sc(ov(T,tag),e,r):v` instead of `T:v` -/
def c06Show (style : String) (tag : String) (s : String) : String :=
  if style == "" then s else
  match s.splitOn ":" with
  | [t, v] => if style == "ov" then s!"ov({t},{tag}):{v}" else s!"sc(ov({t},{tag}),{style}):{v}"
  | _ => s

/-- `winc <path> <tag> <pre+|pre-|post+|post-> <T> <l>`: `++`/`--` on overflow_integer<T, tag> is `x += 1` under the
tag (tagged addition in the promoted type, then the tagged conversion back to `T`); the implementation prints
`<new value>|<returned value>` or the reaction.  Returns (model, want, branch). -/
def c06Winc (toks : List String) : Option (String × String × String) :=
  match toks with
  | ["winc", path, tag, kind, t, l] => do
    let path ← parsePath path; let tg ← parseOvTag tag; let T ← parseIntTy t; let l ← l.toInt?
    let isInc := kind == "pre+" || kind == "post+"
    let isPre := kind == "pre+" || kind == "pre-"
    let op : BinOp := if isInc then .add else .sub
    let m : Res (Int × Int) := do
      let r ← checkedBin path tg op (T, l) (i32, 1)
      let n ← checkedConvert tg T r
      pure (n.2, if isPre then n.2 else l)
    let showP (p : Int × Int) : String := s!"{p.1}|{p.2}"
    let e : Int := if isInc then l + 1 else l - 1
    let want : String := match Spec.checkedWant tg T e with
      | .ok v => showP (v.2, if isPre then v.2 else l)
      | o => showRes showTV o
    some (showRes showP m, want, s!"winc/{kind}/{tag}" ++ (if T.inRange e then "" else "/ovf"))
  | _ => none

def checkC06 (toks : List String) (res : String) : Option Verdict :=
  match c06Winc toks with
  | some (m, want, br) => some { model := m, spec := some (want == res), branch := br, nontrivial := true }
  | none => do
  let c ← c06Eval toks
  let tag := toks.getD 2 ""
  let m := c06Show c.style tag (showRes showTV c.model)
  let spec := c.want.map (fun w => c06Show c.style tag w == res)
  some { model := m, spec := spec, cls := c.cls, branch := c.branch, nontrivial := c.want.isSome }

end Cnl.Drv
