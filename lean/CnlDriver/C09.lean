import CnlDriver.CS
import CnlDriver.FloatIO
import CnlModel.RoundCvt
import CnlModel.RoundWrap
import CnlModel.RoundElastic
/-! `C09` table: narrowing conversions under a rounding tag. -/
namespace Cnl.Drv
open Cnl

/-- the integer the mode selects from the exact rational `q` -/
def roundQ (mode : RdMode) (q : Rat) : Int :=
  match mode with
  | .ninf => q.floor
  | .nat => if q < 0 then -((-q).floor) else q.floor
  | .tpi => (q + (1/2 : Rat)).floor
  | .nrst => if q < 0 then -((-q + (1/2 : Rat)).floor) else (q + (1/2 : Rat)).floor

def pow2Rat (e : Int) : Rat := if e ≥ 0 then ((2 : Rat) ^ e.toNat) else 1 / ((2 : Rat) ^ (-e).toNat)

/-- is the floating-point sum `x + y` in format `f` inexact (rounded)? -/
def addInexact (f : Fmt) (x y : FVal) : Bool :=
  match x.toRat?, y.toRat?, (f.add x y).toRat? with
  | some a, some b, some c => a + b != c
  | _, _, _ => false

def isIntegerQ (q : Rat) : Bool := (q.floor : Rat) == q

/-- the rounding mode carried by a nest of wrappers (the outermost rounding layer; native if there is none) -/
def rdModeOf : Ty → RdMode
  | .rd _ m => m
  | .ov r _ => rdModeOf r
  | .el _ n => rdModeOf n
  | .wd _ n => rdModeOf n
  | .sc r _ _ => rdModeOf r
  | _ => .nat

def checkC09 (toks : List String) (res : String) : Option Verdict :=
  match toks with
  | ["f2i", mode, fm, dt, x] => do
    let mode ← parseRdMode mode; let f ← FloatIO.parseFmt fm; let D ← parseIntTy dt; let x ← Fmt.ofHex? f x
    let m := RoundCvt.floatToInt mode f D x
    let spec : Option Bool := match x.toRat? with
      | none => none
      | some q => let w := roundQ mode q
                  if D.inRange w then some (res == s!"{D.toString}:{w}") else none
    let frac : String := match x.toRat? with
      | some q => let d := q - (q.floor : Rat); if d == (1/2 : Rat) then "/tie" else if d == 0 then "/int" else ""
      | none => "/nonfinite"
    let halfF := f.ofDyadic false 1 (-1)
    let halfL := x87ext.ofDyadic false 1 (-1)
    let xl := x87ext.cvt x
    let cls :=
      if mode == .tpi && addInexact f x halfF then "C09.ties_up_float_bias_in_source_precision"
      else if mode == .nrst && addInexact x87ext xl (if fCmp .ge x (f.ofInt 0) then halfL else halfL.neg) then "C09.nearest_long_double_bias_rounds"
      else ""
    some { model := showRes (fun v => s!"{D.toString}:{v}") m, spec := spec, cls := cls,
           branch := s!"f2i/{toks[1]!}/{fm}{frac}", nontrivial := spec.isSome }
  | ["s2s", mode, st, es, dt, ed, v] => do
    let mode ← parseRdMode mode; let S ← parseIntTy st; let es ← es.toInt?; let D ← parseIntTy dt; let ed ← ed.toInt?; let v ← v.toInt?
    let m := RoundCvt.scaledToScaled mode S es D ed v
    let q : Rat := (v : Rat) * pow2Rat (es - ed)
    let w := roundQ mode q
    -- the value must be the rounded one whenever the destination representation can hold it
    -- (the type of the returned object is compared with the model, not judged by the property)
    let spec : Option Bool := if D.inRange w then some ((res.splitOn ":").getLast? == some (toString w)) else none
    -- the bias `from ± half` is computed in the promoted source type and overflows near its limits
    let T := promote S
    let h : Int := (2 : Int)^((ed - es).toNat - 1)
    let biased : Int := if mode == .nrst && v < 0 then v - h else v + h
    let cls :=
      if mode == .nrst && ed > es && es > 0 && !(promote S).inRange (v * 2^es.toNat) then "C09.scaled_nearest_sign_test_overflows"
      else if (mode == .nrst || mode == .tpi) && ed > es && (ed - es).toNat ≥ S.digits then "C09.scaled_half_unit_exceeds_source_rep"
      else if (mode == .nrst || mode == .tpi) && ed > es && !T.inRange biased then "C09.scaled_bias_overflow_near_limits" else ""
    some { model := showRes (fun r => s!"sc({r.1.toString},{ed},2):{r.2}") m, spec := spec, cls := cls,
           branch := s!"s2s/{toks[1]!}" ++ (if ed > es then "/narrow" else "/exact"), nontrivial := spec.isSome }
  | ["w2w", mode, st, es, dt, ed, v] => do
    -- scaled_integer<rounding_integer<S, Tag>, power<es>> -> scaled_integer<rounding_integer<D, Tag>, power<ed>>
    let mode ← parseRdMode mode; let S ← parseIntTy st; let es ← es.toInt?; let D ← parseIntTy dt; let ed ← ed.toInt?; let v ← v.toInt?
    let m := RoundWrap.convert mode S es D ed v
    let q : Rat := (v : Rat) * pow2Rat (es - ed)
    let w := roundQ mode q
    let spec : Option Bool := if D.inRange w then some ((res.splitOn ":").getLast? == some (toString w)) else none
    -- (`1 << k` with k = digits of the promoted signed representation is its most negative number: the repaired
    -- class C09.wrapped_power_is_int_min is no longer excused, default_scale<-k> asserts 0 < divisor)
    some { model := showRes (fun r => s!"sc(rd({r.1.toString},{toks[1]!}),{ed},2):{r.2}") m, spec := spec, cls := "",
           branch := s!"w2w/{toks[1]!}" ++ (if ed > es then "/narrow" else "/exact"), nontrivial := spec.isSome }
  | ["s2i", mode, st, es, dt, v] => do
    -- scaled_integer -> plain integer: through scaled_integer<Result> (exponent 0), then to_rep
    let mode ← parseRdMode mode; let S ← parseIntTy st; let es ← es.toInt?; let D ← parseIntTy dt; let v ← v.toInt?
    -- the operator's declared return type is `Result`: the representation is converted to it
    let m := (RoundCvt.scaledToScaled mode S es D 0 v).map (fun r => (D, D.wrap r.2))
    let q : Rat := (v : Rat) * pow2Rat es
    let w := roundQ mode q
    let spec : Option Bool := if D.inRange w then some ((res.splitOn ":").getLast? == some (toString w)) else none
    let T := promote S
    let h : Int := (2 : Int)^((0 - es).toNat - 1)
    let biased : Int := if mode == .nrst && v < 0 then v - h else v + h
    let cls :=
      if (mode == .nrst || mode == .tpi) && 0 > es && (0 - es).toNat ≥ S.digits then "C09.scaled_half_unit_exceeds_source_rep"
      else if (mode == .nrst || mode == .tpi) && 0 > es && !T.inRange biased then "C09.scaled_bias_overflow_near_limits" else ""
    some { model := showRes showTV m, spec := spec, cls := cls, branch := s!"s2i/{toks[1]!}", nontrivial := spec.isSome }
  | ["f2s", mode, fm, dt, ed, x] => do
    let mode ← parseRdMode mode; let f ← FloatIO.parseFmt fm; let D ← parseIntTy dt; let ed ← ed.toInt?; let x ← Fmt.ofHex? f x
    let m := RoundCvt.floatToScaled mode f D ed x
    let spec : Option Bool := match x.toRat? with
      | none => none
      | some q => let w := roundQ mode (q * pow2Rat (-ed))
                  if D.inRange w then some (res == s!"sc({D.toString},{ed},2):{w}") else none
    let halfS := ScaledFloat.powerValueF f 2 (ed - 1)
    let cls := match mode, x.toRat? with
      | .ninf, some q => if q < 0 && !isIntegerQ (q * pow2Rat (-ed)) then "C09.neg_inf_float_to_scaled_truncates" else ""
      | .tpi, some q =>
        if addInexact f x halfS then "C09.float_to_scaled_bias_rounds"
        else if q * pow2Rat (-ed) + (1/2 : Rat) < 0 && !isIntegerQ (q * pow2Rat (-ed) + (1/2 : Rat)) then "C09.ties_up_float_to_scaled_truncates_after_bias" else ""
      | .nrst, some _ =>
        if addInexact f x (if fCmp .ge x (f.ofInt 0) then halfS else halfS.neg) then "C09.float_to_scaled_bias_rounds" else ""
      | _, _ => ""
    some { model := showRes (fun r => s!"sc({D.toString},{ed},2):{r}") m, spec := spec, cls := cls,
           branch := s!"f2s/{toks[1]!}/{fm}", nontrivial := spec.isSome }
  | ["e2e", how, nt, ds, es, dd, ed, v] => do
    -- elastic_scaled_integer<ds, power<es>, N> -> elastic_scaled_integer<dd, power<ed>, N>; how = cast | a rounding tag
    let N ← parseIntTy nt; let ds ← ds.toNat?; let es ← es.toInt?; let dd ← dd.toNat?; let ed ← ed.toInt?; let v ← v.toInt?
    let howm : Option RdMode ← if how == "cast" then some none else (parseRdMode how).map some
    let m := RoundElastic.convert howm ⟨ds, N, es, v⟩ dd N ed
    let mode := howm.getD .nat
    let w := roundQ mode ((v : Rat) * pow2Rat (es - ed))
    -- the value must be the rounded one whenever the destination (dd digits) can hold it
    let hi : Int := 2^dd - 1
    let lo : Int := if N.signed then -hi else 0
    let spec : Option Bool := if lo ≤ w && w ≤ hi then some ((res.splitOn ":").getLast? == some (toString w)) else none
    -- the destination's unit 2^k does not fit the storage of the source: half() wraps
    let k := (ed - es).toNat
    let cls := match Elastic.repTy ds N with
      | some rep => if (mode == .nrst || mode == .tpi) && ed > es && k ≥ rep.digits then "C09.scaled_half_unit_exceeds_source_rep" else ""
      | none => ""
    let kl := if ed ≤ es then "exact" else if k == 31 || k == 32 || k == 63 || k == 64 then s!"k{k}" else if k < 31 then "k<31" else if k < 63 then "k33-62" else "k>64"
    some { model := showRes (fun (r : ElasticScaled.ESNum) => s!"sc(el({r.digits},{r.narrowest.toString}),{r.exp},2):{r.value}") m,
           spec := spec, cls := cls,
           branch := s!"e2e/{how}/{if N.signed then "sgn" else "uns"}/{kl}", nontrivial := spec.isSome }
  | ["w2i", ty, dt, v] => do
    -- a scaled_integer whose representation carries the rounding mode -> fundamental integer (static_cast<D>)
    let t ← parseTy ty; let D ← parseIntTy dt; let v ← v.toInt?
    match t with
    | .sc rep e 2 =>
      let (m, mode, kind) : Res TV × RdMode × String := match rep with
        | .rd (.int S) mode => (RoundElastic.toIntWrapped mode S e D v, mode, "rd")
        | .ov (.el dg (.rd (.wd _ (.int N)) mode)) tag => (RoundElastic.toIntStatic ⟨mode, tag⟩ N dg e D v, mode, "static")
        | r => (RoundElastic.toIntNest r e D v, rdModeOf r, "nest")
      let q : Rat := (v : Rat) * pow2Rat e
      let w := roundQ mode q
      -- static_number: a rounded value of magnitude above 2^(digits − k) − 1 is lost in the intermediate
      -- static_integer<digits − k> (open class C11.rounded_value_exceeds_intermediate_digits of property C11, not a
      -- class of C09): the model follows the implementation there, the oracle does not judge those inputs
      let c11 : Bool := match rep with
        | .ov (.el dg _) _ => e < 0 && w.natAbs > 2^(dg - (-e).toNat) - 1
        | _ => false
      let spec : Option Bool := if c11 then none else if D.inRange w then some (res == s!"{D.toString}:{w}") else none
      let showM : Res TV → String := fun m => match m with
        | .unreachable "positive overflow" => "TRAP+"     -- the undefined tag's unreachable(message), as the hook reports it
        | .unreachable "negative overflow" => "TRAP-"
        | m => showRes showTV m
      let frac : String := let d := q - (q.floor : Rat); if d == (1/2 : Rat) then "/tie" else if d == 0 then "/int" else if q < 0 then "/neg" else "/pos"
      some { model := showM m, spec := spec, cls := "",
             branch := s!"w2i/{kind}/{mode.toString}{frac}" ++ (if c11 then "/c11-intermediate-digits" else ""), nontrivial := spec.isSome }
    | _ => none
  | _ => none

end Cnl.Drv
