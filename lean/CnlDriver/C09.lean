import CnlDriver.CS
/-! `C09` driver table (stub). -/
namespace Cnl.Drv
open Cnl

def checkC09 (_toks : List String) (_res : String) : Option Verdict := none

end Cnl.Drv
