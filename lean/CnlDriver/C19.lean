import CnlDriver.CS
/-! `C19` driver table (stub). -/
namespace Cnl.Drv
open Cnl

def checkC19 (_toks : List String) (_res : String) : Option Verdict := none

end Cnl.Drv
