import CnlDriver.CS
import CnlModel.Sqrt
import CnlSpec.Sqrt
/-!
`C19` driver table: `cnl::sqrt` on built-in integers, elastic_integer, wide_integer and
scaled_integer over any of these, and on overflow_integer / rounding_integer over any of these
(result additionally `TRAP+ TRAP- THROW+ THROW-`: a report by the overflow tag, never correct on an
input the property covers).

    C19 sqrt <type> <x> => <result type>:<r> | UB | UNREACHABLE | TIMEOUT
    C19 sweep32 <i32|u32> <lo> <hi> <count> <fails> => ok       (thorough in-harness exhaustive sweep, summary;
                                                                  every input it rejects is also printed as an
                                                                  ordinary `C19 sqrt` line)

`<x>` and `<r>` are the innermost representation values, decimal, or `0x…` hexadecimal when the
innermost type is a multi-word `wide_integer`.  The oracle (`CnlSpec.Sqrt`) is applied to the
*implementation's* result and never looks at the model: floor-of-root inequality in ℤ for
integers, additionally the digit bound for elastic_integer, and the inequality between the
denoted rationals (core `Rat`) for scaled_integer.  Inputs outside the property's quantifier
(negative values; representation values beyond an elastic/wide type's digits) get `spec = none`.
-/
namespace Cnl.Drv.C19
open Cnl Cnl.Drv Cnl.Sqrt Cnl.SqrtSpec

def hexDigit (c : Char) : Option Nat :=
  if '0' ≤ c ∧ c ≤ '9' then some (c.toNat - '0'.toNat)
  else if 'a' ≤ c ∧ c ≤ 'f' then some (c.toNat - 'a'.toNat + 10)
  else none

def parseHexNat (cs : List Char) : Option Nat :=
  if cs.isEmpty then none
  else cs.foldl (fun acc c => do let a ← acc; let d ← hexDigit c; pure (a * 16 + d)) (some 0)

/-- decimal, or `[-]0x…` hexadecimal -/
def parseVal (s : String) : Option Int :=
  match s.toList with
  | '0' :: 'x' :: r => (parseHexNat r).map Int.ofNat
  | '-' :: '0' :: 'x' :: r => (parseHexNat r).map (fun n => -Int.ofNat n)
  | _ => s.toInt?

def hexOfNat (n : Nat) : String := String.ofList (Nat.toDigits 16 n)
def showHex (v : Int) : String := if v < 0 then "-0x" ++ hexOfNat v.natAbs else "0x" ++ hexOfNat v.natAbs

/-- values of multi-word wide types are printed in hexadecimal -/
def usesHex : Ty → Bool
  | .wd D (.int N) => decide (D > (if N.signed then 127 else 128))
  | .sc r _ _ => usesHex r
  | .ov r _ => usesHex r
  | .rd r _ => usesHex r
  | _ => false

def showNum19 (x : Num) : String :=
  x.1.toString ++ ":" ++ (if usesHex x.1 then showHex x.2 else toString x.2)

/-- is `x` a value of the type the property quantifies over (non-negative, within the digits)? -/
def inProperty : Ty → Int → Bool
  | .int T, x => decide (0 ≤ x ∧ x ≤ T.max)
  | .el D (.int _), x => decide (0 ≤ x ∧ x < 2 ^ D)
  | .wd D (.int _), x => decide (0 ≤ x ∧ x < 2 ^ D)
  | .sc r _ _, x => inProperty r x
  | .ov r _, x => inProperty r x
  | .rd r _, x => inProperty r x
  | _, _ => false

/-- the property's demand on input `(t, x)` and the implementation's result `(rt, r)` -/
def c19Oracle : Ty → Int → Ty → Int → Bool
  | .int _, x, .int _, r => decide (IsFloorSqrt x r)
  | .el D (.int _), x, .el D' (.int _), r => decide (IsFloorSqrt x r ∧ D' = (D + 1) / 2 ∧ FitsDigits D' r)
  | .wd _ (.int _), x, .wd _ (.int _), r => decide (IsFloorSqrt x r)
  | .sc rep e radix, x, .sc rep' e' radix', r =>
    decide (radix = radix' ∧ IsScaledFloorSqrt x e radix r e') && c19Oracle rep x rep' r
  -- overflow_integer / rounding_integer: same kind of number (same tag / mode) holding the floor of the root
  | .ov rep tag, x, .ov rep' tag', r => decide (tag = tag') && c19Oracle rep x rep' r
  | .rd rep mode, x, .rd rep' mode', r => decide (mode = mode') && c19Oracle rep x rep' r
  | _, _, _, _ => false

def parseNumRes (s : String) : Option Num :=
  match s.splitOn ":" with
  | [t, v] => do let t ← parseTy t; let v ← parseVal v; pure (t, v)
  | _ => none

def branchOf : Ty → String
  | .int T => "int/" ++ T.toString
  | .el _ _ => "el"
  | .wd _ _ => "wd"
  | .sc r _ _ => "sc/" ++ branchOf r
  | .ov r tag => "ov-" ++ tag.toString ++ "/" ++ branchOf r
  | .rd r _ => "rd/" ++ branchOf r
  | _ => "other"

end Cnl.Drv.C19

namespace Cnl.Drv
open Cnl Cnl.Sqrt Cnl.SqrtSpec Cnl.Drv.C19

def checkC19 (toks : List String) (res : String) : Option Verdict :=
  match toks with
  | ["sqrt", ty, x] => do
    let t ← parseTy ty; let x ← parseVal x
    let m := showRes showNum19 (sqrtNum t x)
    let inP := inProperty t x
    let spec : Option Bool :=
      if inP then
        match parseNumRes res with
        | some (rt, r) => some (c19Oracle t x rt r)
        | none => some false          -- UB / UNREACHABLE / TIMEOUT on an input the property covers
      else none
    some { model := m, spec := spec,
           branch := branchOf t ++ (if inP then "" else if x < 0 then "/negative" else "/beyond-digits"),
           nontrivial := inP && x ≥ 2 }
  | ["sweep32", _, lo, hi, count, fails] => do
    -- summary of the in-harness exhaustive search (the harness evaluated the inequality in 64-bit
    -- arithmetic itself): every value of the range was tried and none was rejected
    let lo ← lo.toNat?; let hi ← hi.toNat?; let count ← count.toNat?; let fails ← fails.toNat?
    some { model := "ok", spec := some (fails == 0 && count == hi - lo), branch := "sweep32", nontrivial := false }
  | _ => none

end Cnl.Drv
