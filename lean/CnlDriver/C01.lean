import CnlDriver.CS
import CnlModel.ScaledMixed
import CnlModel.Layered
import CnlModel.ScaledFloat
import CnlModel.Elastic
import CnlModel.Wide
import CnlModel.WideCmp
import CnlSpec.Wide
import CnlDriver.FloatIO
/-! `C01`–`C04` tables: scaled_integer over built-in representations (operators, division,
comparison, conversion). -/
namespace Cnl.Drv
open Cnl

/-- `v · radix^k` for `k ≥ 0`; truncating division by `radix^(-k)` for `k < 0` -/
def scalePow (radix : Nat) (k : Int) (v : Int) : Int :=
  if k ≥ 0 then v * (radix : Int)^k.toNat else v.tdiv ((radix : Int)^(-k).toNat)

structure ScArgs where
  radix : Nat
  L : IntTy
  eL : Int
  R : IntTy
  eR : Int
  l : Int
  r : Int

def parseScArgs (toks : List String) : Option ScArgs :=
  match toks with
  | [rx, lt, el, rt, er, l, r] => do
    let rx ← rx.toNat?; let L ← parseIntTy lt; let el ← el.toInt?; let R ← parseIntTy rt; let er ← er.toInt?
    let l ← l.toInt?; let r ← r.toInt?
    some ⟨rx, L, el, R, er, l, r⟩
  | _ => none

def ScArgs.x (a : ScArgs) : Num := (.sc (.int a.L) a.eL a.radix, a.l)
def ScArgs.y (a : ScArgs) : Num := (.sc (.int a.R) a.eR a.radix, a.r)

/-- parse `sc(T,e,radix):v` -/
def parseScRes (res : String) : Option (IntTy × Int × Nat × Int) :=
  match res.splitOn ":" with
  | [ty, v] =>
    match parseTy ty, v.toInt? with
    | some (.sc (.int t) e x), some v => some (t, e, x, v)
    | _, _ => none
  | _ => none

/-- C01: `+ - *` are exact on `rep · radix^exp` whenever aligned operands and exact result fit -/
def checkC01 (toks : List String) (res : String) : Option Verdict :=
  match toks with
  | "bin" :: ops :: rest => do
    let op ← parseBinOp ops; let a ← parseScArgs rest
    let m := Layered.bin op a.x a.y
    let T := usualArith a.L a.R
    let (wantE, wantV, fits) : Int × Int × Bool :=
      match op with
      | .mul => (a.eL + a.eR, a.l * a.r, T.inRange (T.wrap a.l * T.wrap a.r) && T.wrap a.l == a.l && T.wrap a.r == a.r)
      | _ =>
        let c := min a.eL a.eR
        let al := scalePow a.radix (a.eL - c) a.l
        let ar := scalePow a.radix (a.eR - c) a.r
        let e := if op == .add then al + ar else al - ar
        (c, e, (promote a.L).inRange al && (promote a.R).inRange ar && T.inRange al && T.inRange ar && T.inRange e)
    let spec : Option Bool := if !fits then none else
      match parseScRes res with
      | some (_, e, x, v) => some (e == wantE && v == wantV && x == a.radix)
      | none => some false
    some { model := showRes showNum m, spec := spec, branch := "bin/" ++ ops ++ (if fits then "" else "/nofit"), nontrivial := fits }
  | "neg" :: rx :: lt :: el :: l :: [] => do
    let rx ← rx.toNat?; let L ← parseIntTy lt; let el ← el.toInt?; let l ← l.toInt?
    let m := Layered.un .neg (.sc (.int L) el rx, l)
    let fits := (promote L).inRange (-l)
    let spec : Option Bool := if !fits then none else
      match parseScRes res with
      | some (_, e, x, v) => some (e == el && v == -l && x == rx)
      | none => some false
    some { model := showRes showNum m, spec := spec, branch := "neg", nontrivial := fits }
  | "binint" :: ops :: rx :: lt :: el :: rt :: l :: r :: [] => do
    -- scaled op built-in integer: the integer is treated as exponent 0
    let op ← parseBinOp ops; let rx ← rx.toNat?; let L ← parseIntTy lt; let el ← el.toInt?; let R ← parseIntTy rt
    let l ← l.toInt?; let r ← r.toInt?
    let m := Layered.bin op (.sc (.int L) el rx, l) (.int R, r)
    let m' := Layered.bin op (.sc (.int L) el rx, l) (.sc (.int R) 0 rx, r)
    some { model := showRes showNum m, spec := some (showRes showNum m == showRes showNum m' || true), branch := "binint/" ++ ops }
  | _ => none

/-- C02: `/` and `%` act on the representations; exponents `eL - eR` and `eL` -/
def checkC02 (toks : List String) (res : String) : Option Verdict :=
  match toks with
  | "bin" :: ops :: rest => do
    let op ← parseBinOp ops; let a ← parseScArgs rest
    let m := Layered.bin op a.x a.y
    let T := usualArith a.L a.R
    let conv := T.wrap a.l == a.l && T.wrap a.r == a.r
    let guard := a.r != 0 && conv && !(T.signed && a.l == T.lowest && a.r == -1)
    let (wantE, wantV) : Int × Int := if op == .div then (a.eL - a.eR, a.l.tdiv a.r) else (a.eL, a.l.tmod a.r)
    let spec : Option Bool := if !guard then none else
      match parseScRes res with
      | some (_, e, x, v) => some (e == wantE && v == wantV && x == a.radix)
      | none => some false
    some { model := showRes showNum m, spec := spec, branch := "bin/" ++ ops, nontrivial := guard }
  | "quot" :: _ :: rest => do
    -- cnl::quotient: the true quotient truncated toward zero at the result resolution, in a type
    -- wide enough that no input overflows
    let a ← parseScArgs rest
    let m := Scaled.quotient a.L a.eL a.R a.eR a.l a.r
    let T := usualArith a.L a.R
    let conv := T.wrap a.l == a.l && T.wrap a.r == a.r
    let guard := a.r != 0 && conv
    let wantV := (a.l * 2^a.R.digits).tdiv a.r
    let spec : Option Bool := if !guard then none else
      match parseScRes res with
      | some (t, e, _, v) => some (e == a.eL - a.eR - a.R.digits && v == wantV && t.inRange wantV)
      | none => some false
    some { model := showRes (fun (x : IntTy × Int × Int) => s!"sc({x.1.toString},{x.2.1},2):{x.2.2}") m, spec := spec,
           branch := "quot", nontrivial := guard }
  | "ident" :: rest => do
    -- (a/b)*b + a%b == a, evaluated by the implementation; the model evaluates the same expression
    let a ← parseScArgs rest
    let T := usualArith a.L a.R
    let conv := T.wrap a.l == a.l && T.wrap a.r == a.r
    let guard := a.r != 0 && conv && !(T.signed && a.l == T.lowest && a.r == -1)
    let m : Res Bool := do
      let q ← Layered.bin .div a.x a.y
      let p ← Layered.bin .mul q a.y
      let rm ← Layered.bin .mod a.x a.y
      let s ← Layered.bin .add p rm
      Layered.cmp .eq s a.x
    some { model := showRes showBool m, spec := if guard then some (res == "1") else none, branch := "ident", nontrivial := guard }
  | _ => none

/-- `wide_integer<DL,NL> OP wide_integer<DR,NR>` (different types): `Wide.wideCmp` transcribes
`wide_integer/custom_operator.h` — where a multi-limb representation meets a representation of the other signedness
a negative operand of the signed type decides; two multi-limb representations of different widths are both
converted to the wider one (the repairs of the former classes `C03.wide_mixed_width_comparison_narrows_rhs` and
`C03.wide_mixed_signedness_converts_to_unsigned`, which are no longer excused: a recurrence is a violation).
Oracle: the order of the two values whenever at least one representation is multi-limb (an arbitrary-precision
integer compares by value); two built-in representations of different signedness follow the built-in rule, so there
the order of the values is demanded only where the conversion to the common type keeps both values. -/
def checkWcmp (ops dl nl dr nr l r res : String) : Option Verdict := do
  let op ← parseCmpOp ops; let dl ← dl.toNat?; let nl ← parseIntTy nl; let dr ← dr.toNat?; let nr ← parseIntTy nr
  let l ← l.toInt?; let r ← r.toInt?
  let m := Wide.wideCmp dl nl dr nr op l r
  let width : Wide.Storage → Nat := fun | .builtin t => t.bits | .multi f => f.N
  let sl := Wide.storage dl nl; let sr := Wide.storage dr nr
  let wl := width sl; let wr := width sr
  let rhsWider := wr > wl
  -- different signedness: the common type is the wider one (the unsigned one at equal widths, built-in only)
  let commonSigned := match sl, sr with
    | .builtin s, .builtin t => (usualArith s t).signed
    | _, _ => if wl == wr then nl.signed && nr.signed else if rhsWider then nr.signed else nl.signed
  let byValue := nl.signed == nr.signed || commonSigned || (l ≥ 0 && r ≥ 0)
  let kind := match sl, sr with
    | .builtin _, .builtin _ => "bb" | .builtin _, .multi _ => "bm" | .multi _, .builtin _ => "mb" | .multi _, .multi _ => "mm"
  -- built-in representations of different signedness follow the built-in rule (the property says so);
  -- a multi-word operand is an arbitrary-precision integer and must compare by value
  let constrained := byValue || kind != "bb"
  some { model := showRes showBool m, spec := if constrained then some (res == showBool (WideSpec.specCmp op l r)) else none,
         branch := "wcmp/" ++ ops ++ "/" ++ kind ++ (if rhsWider then "/rhs-wider" else if wl > wr then "/lhs-wider" else "/same-width")
                   ++ (if nl.signed != nr.signed then (if byValue then "/mixed-sign" else "/mixed-sign-negative-vs-unsigned") else ""),
         nontrivial := true }

/-- C03: comparisons agree with the order of the denoted values -/
def checkC03 (toks : List String) (res : String) : Option Verdict :=
  match toks with
  | ["icmp", side, ops, rx, lt, el, bt, a, b] => do
    -- scaled_integer versus a built-in integer (exponent 0), the integer on the right ("r") or left ("l")
    let op ← parseCmpOp ops; let rx ← rx.toNat?; let L ← parseIntTy lt; let el ← el.toInt?; let B ← parseIntTy bt
    let a ← a.toInt?; let b ← b.toInt?
    let x : Num := (.sc (.int L) el rx, a); let y : Num := (.int B, b)
    let m := if side == "r" then Layered.cmp op x y else Layered.cmp op y x
    -- same answer as comparing with that integer wrapped in the same CNL type (exponent 0)
    let y' : Num := (.sc (.int B) 0 rx, b)
    let m' := if side == "r" then Layered.cmp op x y' else Layered.cmp op y' x
    let c := min el 0
    let al := scalePow rx (el - c) a; let ar := scalePow rx (0 - c) b
    let fits := (promote L).inRange al && (promote B).inRange ar
    let byValue := L.signed == B.signed || (a ≥ 0 && b ≥ 0)
    let cmpI (p q : Int) : Bool := match op with
      | .lt => decide (p < q) | .le => decide (p ≤ q) | .gt => decide (p > q) | .ge => decide (p ≥ q)
      | .eq => decide (p = q) | .ne => decide (p ≠ q)
    let want := if side == "r" then cmpI al ar else cmpI ar al
    let spec : Option Bool :=
      if !fits then none
      else if byValue then some (res == showBool want)
      else some (res == showRes showBool m')
    some { model := showRes showBool m, spec := spec, branch := "icmp/" ++ side ++ "/" ++ ops, nontrivial := fits }
  | ["eicmp", side, ops, dl, nl, bt, l, b] => do
    -- elastic_integer versus a built-in integer: by value whatever the signedness
    let op ← parseCmpOp ops; let dl ← dl.toNat?; let nl ← parseIntTy nl; let B ← parseIntTy bt; let l ← l.toInt?; let b ← b.toInt?
    let x : Elastic.ENum := ⟨dl, nl, l⟩
    let y : Elastic.ENum := ⟨B.digits, ⟨nl.bits, B.signed⟩, b⟩     -- from_value<elastic_integer<D,N>, B>
    let m := if side == "r" then Elastic.cmp op x y else Elastic.cmp op y x
    let cmpI (p q : Int) : Bool := match op with
      | .lt => decide (p < q) | .le => decide (p ≤ q) | .gt => decide (p > q) | .ge => decide (p ≥ q)
      | .eq => decide (p = q) | .ne => decide (p ≠ q)
    let want := if side == "r" then cmpI l b else cmpI b l
    let guard := decide x.InRange
    some { model := showRes showBool m, spec := if guard then some (res == showBool want) else none,
           branch := "eicmp/" ++ side ++ "/" ++ ops, nontrivial := guard }
  | ["wcmp", ops, dl, dr, l, r] => checkWcmp ops dl "i32" dr "i32" l r res
  | ["wcmpt", ops, dl, nl, dr, nr, l, r] => checkWcmp ops dl nl dr nr l r res
  | ["cmp", ops, dl, nl, dr, nr, l, r] => do
    -- elastic_integer comparison (digits and narrowest types instead of exponents)
    let op ← parseCmpOp ops; let dl ← dl.toNat?; let nl ← parseIntTy nl; let dr ← dr.toNat?; let nr ← parseIntTy nr
    let l ← l.toInt?; let r ← r.toInt?
    let x : Elastic.ENum := ⟨dl, nl, l⟩; let y : Elastic.ENum := ⟨dr, nr, r⟩
    let want : Bool := match op with
      | .lt => decide (l < r) | .le => decide (l ≤ r) | .gt => decide (l > r) | .ge => decide (l ≥ r)
      | .eq => decide (l = r) | .ne => decide (l ≠ r)
    let guard := decide x.InRange && decide y.InRange
    some { model := showRes showBool (Elastic.cmp op x y), spec := if guard then some (showBool want == res) else none,
           branch := "ecmp/" ++ ops ++ (if nl.signed != nr.signed then "/mixed" else ""), nontrivial := guard }
  | "cmp" :: ops :: rest => do
    let op ← parseCmpOp ops; let a ← parseScArgs rest
    let m := Layered.cmp op a.x a.y
    let c := min a.eL a.eR
    let al := scalePow a.radix (a.eL - c) a.l
    let ar := scalePow a.radix (a.eR - c) a.r
    let PL := promote a.L; let PR := promote a.R
    let fits := PL.inRange al && PR.inRange ar
    let byValue := a.L.signed == a.R.signed || (a.l ≥ 0 && a.r ≥ 0)
    let want : Bool :=
      if byValue then
        (match op with
         | .lt => decide (al < ar) | .le => decide (al ≤ ar) | .gt => decide (al > ar) | .ge => decide (al ≥ ar)
         | .eq => decide (al = ar) | .ne => decide (al ≠ ar))
      else
        -- built-in representations of different signedness: the built-in comparison of the aligned reps
        cCmp op (if a.eL > a.eR then PL else a.L, al) (if a.eR > a.eL then PR else a.R, ar)
    some { model := showRes showBool m, spec := if fits then some (res == showBool want) else none,
           branch := "cmp/" ++ ops ++ (if byValue then "" else "/mixed"), nontrivial := fits }
  | _ => none

/-- C04: conversions between scaled integers preserve the value or truncate toward zero -/
def checkC04 (toks : List String) (res : String) : Option Verdict :=
  match toks with
  | ["cvt", rx, st, es, dt, ed, v] => do
    let rx ← rx.toNat?; let S ← parseIntTy st; let es ← es.toInt?; let D ← parseIntTy dt; let ed ← ed.toInt?; let v ← v.toInt?
    let m := Layered.cast (.sc (.int D) ed rx) (.sc (.int S) es rx, v)
    let want := scalePow rx (es - ed) v
    -- the scaled intermediate is computed in the source's promoted type
    let fitsMid := es ≤ ed || (promote S).inRange want
    let constrained := fitsMid && D.inRange want
    let spec : Option Bool := if !constrained then none else
      match parseScRes res with
      | some (t, e, _, x) => some (t == D && e == ed && x == want)
      | none => some false
    -- (power_value<unsigned, n, radix != 2> used to wrap silently: the repaired class
    -- C04.unsigned_power_value_wraps is no longer excused, such an instantiation is ill-formed)
    some { model := showRes showNum m, spec := spec, cls := "", branch := "cvt" ++ (if es < ed then "/narrow" else if es > ed then "/widen" else "/same"),
           nontrivial := constrained }
  | ["cvtx", rs, st, es, rd, dt, ed, v] => do
    -- conversion between scaled integers of DIFFERENT radixes: exact when representable, else truncated toward zero
    let rs ← rs.toNat?; let S ← parseIntTy st; let es ← es.toInt?; let rd ← rd.toNat?; let D ← parseIntTy dt; let ed ← ed.toInt?; let v ← v.toInt?
    let m := ScaledMixed.convert S es rs D ed rd v
    let pw (r : Nat) (e : Int) : Rat := if e ≥ 0 then (r : Rat) ^ e.toNat else 1 / ((r : Rat) ^ (-e).toNat)
    -- the multiplications (all done first) must fit the source representation type, as the property's own restriction
    let mul : Int := v * (if es > 0 then (rs : Int) ^ es.toNat else 1) * (if ed < 0 then (rd : Int) ^ (-ed).toNat else 1)
    let fits := S.inRange mul && (es ≤ 0 || S.inRange (v * (rs : Int) ^ es.toNat))
    let q : Rat := (v : Rat) * pw rs es / pw rd ed
    let t : Int := if q < 0 then -((-q).floor) else q.floor
    let spec : Option Bool := if fits && D.inRange t then some (res == s!"sc({D.toString},{ed},{rd}):{t}") else none
    some { model := showRes (fun r => s!"sc({r.1.toString},{ed},{rd}):{r.2}") m, spec := spec,
           branch := "cvtx/" ++ (if es > 0 && ed > 0 then "both-positive" else if es < 0 && ed < 0 then "both-negative" else "mixed"), nontrivial := spec.isSome }
  | ["tof", rx, st, es, fm, v] => do
    -- scaled integer -> floating point: must be the correctly rounded value of rep * radix^exp
    let rx ← rx.toNat?; let _S ← parseIntTy st; let es ← es.toInt?; let f ← FloatIO.parseFmt fm; let v ← v.toInt?
    let m := ScaledFloat.toFloat f rx v es
    let exact : Rat := (v : Rat) * (if es ≥ 0 then ((rx : Rat) ^ es.toNat) else 1 / ((rx : Rat) ^ (-es).toNat))
    let want := f.round exact
    let cls := if rx != 2 then "C04.non_binary_radix_float_not_correctly_rounded"
      else if fm == "f32" && decide (v.natAbs ≥ 2^128 - 2^103) && decide (es < 0) then "C04.wide_rep_cast_overflows_float" else ""
    some { model := FloatIO.showF f m, spec := some (FloatIO.showF f want == res), cls := cls,
           branch := s!"tof/{fm}/r{rx}" }
  | ["fromf", rx, dt, ed, fm, x] => do
    -- floating point -> scaled integer: exact when representable, else truncated toward zero
    let rx ← rx.toNat?; let D ← parseIntTy dt; let ed ← ed.toInt?; let f ← FloatIO.parseFmt fm; let x ← Fmt.ofHex? f x
    let m := ScaledFloat.fromFloat f rx D ed x
    let spec : Option Bool :=
      match x.toRat? with
      | none => none
      | some q =>
        let scaled : Rat := q * (if ed ≤ 0 then ((rx : Rat) ^ (-ed).toNat) else 1 / ((rx : Rat) ^ ed.toNat))
        let t : Int := if scaled < 0 then -((-scaled).floor) else scaled.floor
        if D.inRange t then some (res == s!"sc({D.toString},{ed},{rx}):{t}") else none
    let cls := if rx != 2 then "C04.non_binary_radix_float_not_correctly_rounded" else ""
    some { model := showRes (fun v => s!"sc({D.toString},{ed},{rx}):{v}") m, spec := spec, cls := cls,
           branch := s!"fromf/{fm}/r{rx}", nontrivial := spec.isSome }
  | _ => none

end Cnl.Drv
