import CnlDriver.CS
/-! `C01` driver table (stub). -/
namespace Cnl.Drv
open Cnl

def checkC01 (_toks : List String) (_res : String) : Option Verdict := none

end Cnl.Drv
