import CnlDriver.CS
import CnlModel.ScaledReps
/-! `C01w`: `+ - *` and unary minus of scaled_integer over wrapped representations (harness/props/C01w.h, model
`CnlModel/ScaledReps.lean`):

    C01w obin add|sub|mul <tag> <radix> <L> <eL> <R> <eR> <l> <r>        => sc(ov(T,tag),e,radix):<v> | TRAP+- | THROW+- | UB
    C01w oneg <tag> <radix> <L> <eL> <l>                                 => the same
    C01w oebin add|sub|mul <tag> <DL> <NL> <eL> <DR> <NR> <eR> <l> <r>   => sc(ov(el(D,N),tag),e,2)/<storage>:<v>
    C01w oeneg <tag> <DL> <NL> <eL> <l>                                  => the same
    C01w ebi r|l add|sub|mul <DL> <NL> <eL> <B> <l> <b>                  => sc(el(D,N),e,2)/<storage>:<v>
    C01w wbin add|sub|mul <radix> <DL> <NL> <eL> <DR> <NR> <eR> <l> <r>  => sc(wd(D,N),e,radix):<hex>   (multi-word storage, hex values)
    C01w cbin r|l add|sub|mul <L> <eL> <V> <l>                           => sc(T,e,2):<v>               (constant<V> operand)
    C01w cebin r|l add|sub|mul <DL> <NL> <eL> <V> <l>                    => sc(el(D,N),e,2)/<storage>:<v>

Oracle = the property's exact real arithmetic, independent of the model: whenever the exponent-aligned operands
and the exact result fit the (promoted) representation — for elastic representations: whenever the operands lie
within their declared digits, the result type being wide enough by construction — the implementation must return
a *value* (no trap, throw, saturation or undefined behaviour, whatever the overflow tag) whose representation is
exactly the aligned sum / difference, the product, or the negation, at the exponent `min eL eR` (`+ -`),
`eL + eR` (`*`), `eL` (unary minus), of the same radix and overflow tag, and within the digits its type declares.
Where the exact result does not fit an overflow-checked representation the reaction is C06's business: `none`. -/
namespace Cnl.Drv
open Cnl Cnl.Elastic Cnl.ElasticScaled

def c01wScalePow (radix : Nat) (k : Int) (v : Int) : Int := v * (radix : Int)^k.toNat

/-- the undefined tag's `unreachable(message)` is an `abort(message)` in the configuration of the check -/
def c01wShowRes {α : Type} (f : α → String) (m : Res α) : String :=
  match m with
  | .unreachable "positive overflow" => "TRAP+"
  | .unreachable "negative overflow" => "TRAP-"
  | _ => showRes f m

/-- parse `sc(ov(T,tag),e,radix):v` -/
def c01wParseScOv (res : String) : Option (IntTy × OvTag × Int × Nat × Int) :=
  match res.splitOn ":" with
  | [ty, v] =>
    match parseTy ty, v.toInt? with
    | some (.sc (.ov (.int t) tg) e x), some v => some (t, tg, e, x, v)
    | _, _ => none
  | _ => none

def c01wWithin (d : Nat) (signed : Bool) (v : Int) : Bool :=
  decide ((if signed then -(2^d - 1 : Int) else 0) ≤ v) && decide (v ≤ 2^d - 1)

def c01wStorage (x : ESNum) : String :=
  match repTy x.digits x.narrowest with
  | some r => r.toString
  | none => "?"

def c01wShowES (x : ESNum) : String :=
  s!"sc(el({x.digits},{x.narrowest.toString}),{x.exp},2)/{c01wStorage x}:{x.value}"

def c01wShowOES (tag : OvTag) (x : ESNum) : String :=
  s!"sc(ov(el({x.digits},{x.narrowest.toString}),{tag.toString}),{x.exp},2)/{c01wStorage x}:{x.value}"

/-- parse `sc(el(D,N),E,2)/rep:v` or `sc(ov(el(D,N),tag),E,2)/rep:v`: digits, narrowest signedness, tag, exponent, value -/
def c01wParseES (res : String) : Option (Nat × Bool × Option OvTag × Int × Int) :=
  match res.splitOn ":" with
  | [ty, v] =>
    match (ty.splitOn "/").head?.bind (fun t => parseTy t) with
    | some (.sc (.el d (.int n)) e 2) => v.toInt?.map (fun v => (d, n.signed, none, e, v))
    | some (.sc (.ov (.el d (.int n)) tg) e 2) => v.toInt?.map (fun v => (d, n.signed, some tg, e, v))
    | _ => none
  | _ => none

def c01wSign (t : IntTy) : String := if t.signed then "s" else "u"

def c01wHexDigit (c : Char) : Option Nat :=
  if '0' ≤ c && c ≤ '9' then some (c.toNat - '0'.toNat)
  else if 'a' ≤ c && c ≤ 'f' then some (c.toNat - 'a'.toNat + 10)
  else none

/-- `0x1f`, `-0x1f` -/
def c01wParseX (s : String) : Option Int :=
  let (isNeg, cs) := match s.toList with
    | '-' :: r => (true, r)
    | r => (false, r)
  match cs with
  | '0' :: 'x' :: ds =>
    if ds.isEmpty then none else
    (ds.foldlM (fun (acc : Nat) c => (c01wHexDigit c).map (fun d => acc * 16 + d)) 0).map
      (fun (n : Nat) => if isNeg then -(n : Int) else (n : Int))
  | _ => none

def c01wShowX (v : Int) : String :=
  (if v < 0 then "-0x" else "0x") ++ String.ofList (Nat.toDigits 16 v.natAbs)

def c01wShowW (radix : Nat) (x : ScaledReps.WNum) : String :=
  s!"sc(wd({x.digits},{x.narrowest.toString}),{x.exp},{radix}):{c01wShowX x.value}"

/-- parse `sc(wd(D,N),e,radix):hex` -/
def c01wParseW (res : String) : Option (Nat × IntTy × Int × Nat × Int) :=
  match res.splitOn ":" with
  | [ty, v] =>
    match parseTy ty, c01wParseX v with
    | some (.sc (.wd d (.int n)) e x), some v => some (d, n, e, x, v)
    | _, _ => none
  | _ => none

/-- exact comparison of `a·2^ea` with `b·2^eb` -/
def c01wSameReal (a ea b eb : Int) : Bool :=
  let m := min ea eb
  a * (2 : Int)^(ea - m).toNat == b * (2 : Int)^(eb - m).toNat

def checkC01w (toks : List String) (res : String) : Option Verdict :=
  match toks with
  | ["obin", ops, tg, rx, lt, el, rt, er, l, r] => do
    let op ← parseBinOp ops; let tag ← parseOvTag tg; let rx ← rx.toNat?; let L ← parseIntTy lt; let eL ← el.toInt?
    let R ← parseIntTy rt; let eR ← er.toInt?; let l ← l.toInt?; let r ← r.toInt?
    if op != .add && op != .sub && op != .mul then none
    let m := ScaledReps.binO op (ScaledReps.scOv L tag eL rx l) (ScaledReps.scOv R tag eR rx r)
    let T := usualArith L R
    let (wantE, wantV, fits) : Int × Int × Bool :=
      match op with
      | .mul => (eL + eR, l * r, T.inRange (l * r) && T.wrap l == l && T.wrap r == r)
      | _ =>
        let c := min eL eR
        let al := c01wScalePow rx (eL - c) l
        let ar := c01wScalePow rx (eR - c) r
        let e := if op == .add then al + ar else al - ar
        (c, e, (promote L).inRange al && (promote R).inRange ar && T.inRange al && T.inRange ar && T.inRange e)
    let spec : Option Bool := if !fits then none else
      match c01wParseScOv res with
      | some (t, tg', e, x, v) => some (e == wantE && v == wantV && x == rx && tg' == tag && t == T)
      | none => some false
    some { model := c01wShowRes showNum m, spec := spec,
           branch := "obin/" ++ ops ++ "/" ++ tg ++ "/" ++ c01wSign L ++ c01wSign R ++ (if eL == eR then "" else "/aligned") ++ (if fits then "" else "/nofit"),
           nontrivial := fits }
  | ["oneg", tg, rx, lt, el, l] => do
    let tag ← parseOvTag tg; let rx ← rx.toNat?; let L ← parseIntTy lt; let eL ← el.toInt?; let l ← l.toInt?
    let m := ScaledReps.negO (ScaledReps.scOv L tag eL rx l)
    let P := promote L
    let fits := P.inRange (-l)
    let spec : Option Bool := if !fits then none else
      match c01wParseScOv res with
      | some (t, tg', e, x, v) => some (e == eL && v == -l && x == rx && tg' == tag && t == P)
      | none => some false
    some { model := c01wShowRes showNum m, spec := spec,
           branch := "oneg/" ++ tg ++ "/" ++ c01wSign L ++ (if P != L then "/promoted" else "") ++ (if fits then "" else "/nofit"),
           nontrivial := fits }
  | ["oebin", ops, tg, dl, nl, el, dr, nr, er, l, r] => do
    let op ← parseBinOp ops; let tag ← parseOvTag tg; let dl ← dl.toNat?; let nl ← parseIntTy nl; let eL ← el.toInt?
    let dr ← dr.toNat?; let nr ← parseIntTy nr; let eR ← er.toInt?; let l ← l.toInt?; let r ← r.toInt?
    let x : ESNum := ⟨dl, nl, eL, l⟩; let y : ESNum := ⟨dr, nr, eR, r⟩
    let guard := decide x.InRange && decide y.InRange
    let c := min eL eR
    let (wantE, wantV) : Int × Int := match op with
      | .mul => (eL + eR, l * r)
      | .add => (c, c01wScalePow 2 (eL - c) l + c01wScalePow 2 (eR - c) r)
      | _ => (c, c01wScalePow 2 (eL - c) l - c01wScalePow 2 (eR - c) r)
    let spec : Option Bool := if !guard then none else
      match c01wParseES res with
      | some (d, sg, some tg', e, v) => some (e == wantE && v == wantV && tg' == tag && c01wWithin d sg v)
      | _ => some false
    some { model := c01wShowRes (c01wShowOES tag) (ScaledReps.binOE tag op x y), spec := spec,
           branch := "oebin/" ++ ops ++ "/" ++ tg ++ "/" ++ c01wSign nl ++ c01wSign nr ++ (if wantV < 0 then "/negative" else ""),
           nontrivial := guard }
  | ["oeneg", tg, dl, nl, el, l] => do
    let tag ← parseOvTag tg; let dl ← dl.toNat?; let nl ← parseIntTy nl; let eL ← el.toInt?; let l ← l.toInt?
    let x : ESNum := ⟨dl, nl, eL, l⟩
    let guard := decide x.InRange
    let spec : Option Bool := if !guard then none else
      match c01wParseES res with
      | some (d, sg, some tg', e, v) => some (e == eL && v == -l && tg' == tag && c01wWithin d sg v)
      | _ => some false
    some { model := c01wShowRes (c01wShowOES tag) (ScaledReps.negOE tag x), spec := spec,
           branch := "oeneg/" ++ tg ++ "/" ++ c01wSign nl, nontrivial := guard }
  | ["ebi", side, ops, dl, nl, el, bt, l, b] => do
    let op ← parseBinOp ops; let dl ← dl.toNat?; let nl ← parseIntTy nl; let eL ← el.toInt?; let B ← parseIntTy bt
    let l ← l.toInt?; let b ← b.toInt?
    if op != .add && op != .sub && op != .mul then none
    let x : ESNum := ⟨dl, nl, eL, l⟩
    let s : ScaledReps.Opnd := .es x; let t : ScaledReps.Opnd := .builtin B b
    let m := if side == "r" then ScaledReps.binOpB nl op s t else ScaledReps.binOpB nl op t s
    let c := min eL 0
    -- the built-in operand is scaled in its own promoted type (only when the exponents differ, and not for `*`)
    let ab := c01wScalePow 2 (0 - c) b
    let guard := decide x.InRange && (op == .mul || eL == 0 || (promote B).inRange ab)
    let al := c01wScalePow 2 (eL - c) l
    let (wantE, wantV) : Int × Int := match op with
      | .mul => (eL, l * b)
      | .add => (c, al + ab)
      | _ => (c, if side == "r" then al - ab else ab - al)
    let spec : Option Bool := if !guard then none else
      match c01wParseES res with
      | some (d, sg, none, e, v) => some (e == wantE && v == wantV && c01wWithin d sg v)
      | _ => some false
    let wider := decide (dl > max nl.bits B.digits)
    some { model := c01wShowRes c01wShowES m, spec := spec,
           branch := "ebi/" ++ side ++ "/" ++ ops ++ "/" ++ c01wSign nl ++ c01wSign B ++ (if b < 0 then "/negative-builtin" else "")
                     ++ (if wider then "/elastic-wider" else ""),
           nontrivial := guard }
  | ["wbin", ops, rx, dl, nl, el, dr, nr, er, l, r] => do
    let op ← parseBinOp ops; let rx ← rx.toNat?; let dl ← dl.toNat?; let nl ← parseIntTy nl; let eL ← el.toInt?
    let dr ← dr.toNat?; let nr ← parseIntTy nr; let eR ← er.toInt?; let l ← c01wParseX l; let r ← c01wParseX r
    if op != .add && op != .sub && op != .mul then none
    let m := ScaledReps.wwBin rx op ⟨dl, nl, eL, l⟩ ⟨dr, nr, eR, r⟩
    let sg := nl.signed || nr.signed
    let c := min eL eR
    let al := c01wScalePow rx (eL - c) l
    let ar := c01wScalePow rx (eR - c) r
    let (wantE, wantV) : Int × Int := match op with
      | .mul => (eL + eR, l * r)
      | .add => (c, al + ar)
      | _ => (c, al - ar)
    -- the aligned operands fit the digits of their own type, the exact result the digits of the result type
    let fits := c01wWithin dl nl.signed l && c01wWithin dr nr.signed r
                && (op == .mul || (c01wWithin dl nl.signed al && c01wWithin dr nr.signed ar))
                && c01wWithin (max dl dr) sg wantV
    let spec : Option Bool := if !fits then none else
      match c01wParseW res with
      | some (d, n, e, x, v) => some (e == wantE && v == wantV && x == rx && d == max dl dr && n.signed == sg)
      | none => some false
    some { model := c01wShowRes (c01wShowW rx) m, spec := spec,
           branch := "wbin/" ++ ops ++ "/radix" ++ toString rx ++ "/" ++ c01wSign nl ++ c01wSign nr ++ (if eL == eR then "" else "/aligned") ++ (if fits then "" else "/nofit"),
           nontrivial := fits }
  | ["cbin", side, ops, lt, el, v, l] => do
    let op ← parseBinOp ops; let L ← parseIntTy lt; let eL ← el.toInt?; let v ← v.toInt?; let l ← l.toInt?
    if op != .add && op != .sub && op != .mul then none
    let left := side == "l"
    let m := ScaledReps.binC op left (.sc (.int L) eL 2, l) v
    -- the constant is `cv · 2^tz` held in a signed built-in of max(31, used digits - tz) digits
    let tz : Nat := Parse.trailingBits v
    let cv := v / (2 : Int)^tz
    let C : IntTy := if Parse.usedDigits v - tz ≤ 31 then i32 else i64
    let T := usualArith L C
    let c := min eL (tz : Int)
    let al := c01wScalePow 2 (eL - c) l
    let ac := c01wScalePow 2 ((tz : Int) - c) cv
    let (wantE, wantV, fits) : Int × Int × Bool := match op with
      | .mul => (eL + tz, l * cv, T.inRange (l * cv) && T.inRange l && T.inRange cv)
      | _ =>
        let e := if op == .add then al + ac else if left then ac - al else al - ac
        (c, e, (promote L).inRange al && C.inRange ac && T.inRange al && T.inRange ac && T.inRange e)
    -- exact real arithmetic: result · 2^e = l · 2^eL op V, at the exponent the operator rule fixes
    let spec : Option Bool := if !fits then none else
      match res.splitOn ":" with
      | [ty, rv] =>
        match parseTy ty, rv.toInt? with
        | some (.sc (.int t) e 2), some rv => some (e == wantE && rv == wantV && t.inRange rv && c01wSameReal rv e wantV wantE)
        | _, _ => some false
      | _ => some false
    some { model := c01wShowRes showNum m, spec := spec,
           branch := "cbin/" ++ side ++ "/" ++ ops ++ "/" ++ c01wSign L ++ (if v < 0 then "/negative-constant" else "") ++ (if wantV < 0 then "/negative-result" else "")
                     ++ (if fits then "" else "/nofit"),
           nontrivial := fits }
  | ["cebin", side, ops, dl, nl, el, v, l] => do
    let op ← parseBinOp ops; let dl ← dl.toNat?; let nl ← parseIntTy nl; let eL ← el.toInt?; let v ← v.toInt?; let l ← l.toInt?
    if op != .add && op != .sub && op != .mul then none
    let left := side == "l"
    let x : ESNum := ⟨dl, nl, eL, l⟩
    let m := ScaledReps.binCE op left x v
    let tz : Nat := Parse.trailingBits v
    let cv := v / (2 : Int)^tz
    let C : IntTy := if Parse.usedDigits v - tz ≤ 31 then i32 else i64
    let c := min eL (tz : Int)
    let al := c01wScalePow 2 (eL - c) l
    let ac := c01wScalePow 2 ((tz : Int) - c) cv
    -- the constant's representation is scaled in its own type (only when the exponents differ, and not for `*`)
    let guard := decide x.InRange && (op == .mul || eL == tz || C.inRange ac)
    let (wantE, wantV) : Int × Int := match op with
      | .mul => (eL + tz, l * cv)
      | .add => (c, al + ac)
      | _ => (c, if left then ac - al else al - ac)
    let spec : Option Bool := if !guard then none else
      match c01wParseES res with
      | some (d, sg, none, e, rv) => some (e == wantE && rv == wantV && c01wWithin d sg rv)
      | _ => some false
    some { model := c01wShowRes c01wShowES m, spec := spec,
           branch := "cebin/" ++ side ++ "/" ++ ops ++ "/" ++ c01wSign nl ++ (if v < 0 then "/negative-constant" else "") ++ (if wantV < 0 then "/negative-result" else ""),
           nontrivial := guard }
  | _ => none

end Cnl.Drv
