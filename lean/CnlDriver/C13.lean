import CnlDriver.CS
import CnlModel.Charconv
import CnlSpec.Decimal
/-!
`C13` driver table: `to_chars` stays inside `[first,last)` and reports failure cleanly.

Lines (the same translation units serve C13 and C14; only the table name differs):

    int <T> <base> <len> <v>      => <ec>:<ptr>:<buffer>     cnl::to_chars on a built-in integer
    sc  sc(T,E,R) <len> <rep>     => <ec>:<ptr>:<buffer>     cnl::to_chars on scaled_integer<T, power<E,R>>
    cap <type>                    => <n>                     to_chars_capacity<type>{}()
    fix <type> <v>                => <length>:<array>|<to_string>|<operator<<>|<ec>:<ptr>:<buffer at capacity>
    fixb <T> <base> <v>           => <length>:<array>                                   to_chars_static<base>(v)
    fixbw <D> <base> <name>       => <length>:<array>         to_chars_static<base> on wide_integer<D, int>; the value is named
                                                              (max, -max, lowest, 1, -1, half, -half)
    capb <T> <base>               => <n>                      to_chars_capacity<T>{}(base)
    capwb <D> <s|u> <base>        => <n>                      to_chars_capacity<wide_integer<D, int|unsigned>>{}(base)

`<ec>` is `ok` or `big` (value_too_large), `<ptr>` the offset of the returned pointer from `first`
(`null` for a null pointer), `<buffer>` the bytes of 4 guard cells, the `len` cells and 4 guard cells
after the call (printable bytes as themselves, others `\hh`; untouched cells `#`, guards `@`; a
trailing `!far` if a guard byte further away changed).  The model predicts every byte.
-/
namespace Cnl.Drv
open Cnl Cnl.Charconv

def tcHexDigit (n : Nat) : Char := if n < 10 then Char.ofNat (48 + n) else Char.ofNat (87 + n)

def tcEncChar (c : Char) : List Char :=
  if c.toNat > 0x20 ∧ c.toNat < 0x7f ∧ c ≠ '\\' ∧ c ≠ '|' then [c]
  else ['\\', tcHexDigit (c.toNat / 16 % 16), tcHexDigit (c.toNat % 16)]

def tcEncChars (cs : List Char) : String := String.ofList (cs.flatMap tcEncChar)

def tcHexVal (c : Char) : Nat :=
  if '0' ≤ c ∧ c ≤ '9' then c.toNat - 48 else if 'a' ≤ c ∧ c ≤ 'f' then c.toNat - 87 else 0

def tcDecChars : List Char → List Char
  | '\\' :: a :: b :: r => Char.ofNat (tcHexVal a * 16 + tcHexVal b) :: tcDecChars r
  | c :: r => c :: tcDecChars r
  | [] => []

def tcGuardStr : String := "@@@@"

def tcShowTCR (r : TCR) : String :=
  let ec := if r.ok then "ok" else "big"
  let p := match r.ptr with
    | some p => toString p
    | none => "null"
  ec ++ ":" ++ p ++ ":" ++ tcGuardStr ++ tcEncChars (r.buf.cells.map (fun c => c.getD '#')) ++ tcGuardStr

/-- an implementation result `<ec>:<ptr>:<buffer>` -/
structure ImplTCR where
  ok : Bool
  ptr : Option Nat
  bytes : List Char
  far : Bool

def parseImplTCR (res : String) : Option ImplTCR :=
  match res.splitOn ":" with
  | ec :: p :: rest =>
    let body := ":".intercalate rest
    let far := body.endsWith "!far"
    let body := if far then (body.dropEnd 4).toString else body
    let ok? := if ec == "ok" then some true else if ec == "big" then some false else none
    let ptr? : Option (Option Nat) := if p == "null" then some none else p.toNat?.map some
    match ok?, ptr? with
    | some ok, some ptr => some ⟨ok, ptr, tcDecChars body.toList, far⟩
    | _, _ => none
  | _ => none

/-- C13 on one call: nothing outside `[first,last)` changed; success ⇒ `0 < p ≤ len`, exactly `[0,p)`
written; failure ⇒ pointer = `last` -/
def c13Contract (len : Nat) (res : String) : Bool :=
  match parseImplTCR res with
  | none => false
  | some r =>
    let g := tcGuardStr.toList
    r.far == false && r.bytes.length == len + 8 && r.bytes.take 4 == g && r.bytes.drop (len + 4) == g &&
    (let body := (r.bytes.drop 4).take len
     match r.ok, r.ptr with
     | true, some p => decide (0 < p) && decide (p ≤ len) && (body.take p).all (· != '#') && (body.drop p).all (· == '#')
     | false, some p => p == len
     | _, none => false)

inductive TcTyK where
  | int (T : IntTy)
  | sc (T : IntTy) (e : Int) (radix : Nat)

def parseTcTyK (s : String) : Option TcTyK :=
  match parseTy s with
  | some (.int T) => some (.int T)
  | some (.sc (.int T) e x) => some (.sc T e x)
  | _ => none

/-- the text of a result at capacity, as the `fix` line shows it -/
def tcShowFix (cap : Int) (text : Res (List Char)) (tc : Res TCR) : String :=
  match text, tc with
  | .ok t, .ok r =>
    let arr := t ++ List.replicate (cap.toNat + 1 - t.length) (Char.ofNat 0)
    toString t.length ++ ":" ++ tcEncChars arr ++ "|" ++ tcEncChars t ++ "|" ++ tcEncChars t ++ "|" ++ tcShowTCR r
  | .ok _, o => showRes (fun _ => "") o
  | o, _ => showRes (fun _ => "") o

def tcBranchOf (r : Res TCR) (sci : Bool) : String :=
  match r with
  | .ok t => if t.ok then (if sci then "ok/scientific" else "ok/fixed") else "too_large"
  | .unreachable _ => "assert"
  | .diverges => "diverges"
  | .oob _ => "oob"
  | _ => "ub"

def tcHasE (r : Res TCR) : Bool :=
  match r with
  | .ok t => t.buf.cells.contains (some 'e')
  | _ => false

-- (the classes `most_negative_integer` and `input_radix_above_ten` are repaired — /repo commits in
-- `findings/C13.json` —: no line is assigned to them any more, so a recurrence is a VIOLATION)

/-- `wide_integer<D, int>` is modelled as a signed type of `D + 1` bits, `wide_integer<D, unsigned>` as `D` bits -/
def tcWideTy (d : Nat) (sg : String) : IntTy := if sg == "s" then ⟨d + 1, true⟩ else ⟨d, false⟩

/-- the named values of the `fixbw` lines (`max = 2^D - 1`, `lowest = -2^D`, `half = 2^(D-1)`) -/
def tcWideVal (d : Nat) (name : String) : Option Int :=
  match name with
  | "max" => some (2 ^ d - 1)
  | "-max" => some (-(2 ^ d - 1))
  | "lowest" => some (-(2 ^ d))
  | "1" => some 1
  | "-1" => some (-1)
  | "half" => some (2 ^ (d - 1))
  | "-half" => some (-(2 ^ (d - 1)))
  | _ => none

/-- `to_chars_static<base>(v)`: `<length>:<array of capacity(base) + 1 cells>` -/
def tcFixb (T : IntTy) (base : Nat) (v : Int) (br : String) : String × String × String :=
  let tx := intStaticTextBase T base v
  let m := match tx with
    | .ok txt =>
      let arr := txt ++ List.replicate (intCapacityB T base + 1 - txt.length) (Char.ofNat 0)
      toString txt.length ++ ":" ++ tcEncChars arr
    | o => showRes (fun _ => "") o
  -- (the classes `static_capacity_ignores_base` and `most_negative_integer` are repaired: a recurrence is a VIOLATION)
  (m, "", br ++ (if tx.isOk then "ok" else "assert"))

/-- the longest numeral of a type in a base: the lowest value for a signed type (sign included), else the maximum -/
def tcLongest (T : IntTy) (base : Nat) : Nat :=
  max (intText base T.lowest).length (intText base T.max).length

/-- model evaluation of a protocol line, shared by C13 and C14:
`(model string, known-defect tag, branch, len)` -/
def evalCharconv (toks : List String) : Option (String × String × String) :=
  match toks with
  | ["int", t, base, len, v] => do
    let T ← parseIntTy t; let base ← base.toNat?; let len ← len.toNat?; let v ← v.toInt?
    let r := intToChars T (Buf.fresh len) v base
    some (showRes tcShowTCR r, "",
      "int/" ++ (match r with | .ok t => (if t.ok then "ok" else "too_large") | _ => "assert"))
  | ["sc", t, len, rep] => do
    let .sc T e x ← parseTcTyK t | none
    let len ← len.toNat?; let rep ← rep.toInt?
    let r := scaledToChars T e x len rep
    some (showRes tcShowTCR r, "", "sc/" ++ tcBranchOf r (tcHasE r))
  | ["capw", d, sg] => do
    -- to_chars_capacity<wide_integer<D, int|unsigned>>: same formula over the declared digits
    let d ← d.toNat?
    let T : IntTy := if sg == "s" then ⟨d + 1, true⟩ else ⟨d, false⟩
    some (toString (intCapacity T), "", "cap/wide")
  | ["capwb", d, sg, base] => do
    let d ← d.toNat?; let base ← base.toNat?
    some (toString (intCapacityB (tcWideTy d sg) base), "", "capb/wide")
  | ["capb", t, base] => do
    let T ← parseIntTy t; let base ← base.toNat?
    some (toString (intCapacityB T base), "", "capb/int")
  | ["fixbw", d, base, name] => do
    let d ← d.toNat?; let base ← base.toNat?; let v ← tcWideVal d name
    some (tcFixb (tcWideTy d "s") base v "fixbw/")
  | ["oss", d, name] => do
    -- operator<< of wide_integer<D, int> (the vendored multi-word inserter): the decimal numeral of the named value
    let d ← d.toNat?; let v ← tcWideVal d name
    some (tcEncChars (intText 10 v), "", "oss/wide")
  | ["cap", t] => do
    match ← parseTcTyK t with
    | .int T => some (toString (intCapacity T), "", "cap/int")
    | .sc T e x => some (toString (scaledCapacity T e x), "", "cap/sc")
  | ["fix", t, v] => do
    let v ← v.toInt?
    match ← parseTcTyK t with
    | .int T =>
      let tx := intStaticText T v
      some (tcShowFix (intCapacity T) tx (intToChars T (Buf.fresh (intCapacity T)) v 10), "", "fix/int")
    | .sc T e x =>
      let tx := scaledStaticText T e x v
      some (tcShowFix (scaledCapacity T e x) tx (scaledToChars T e x (scaledCapacity T e x).toNat v), "", "fix/sc")
  | ["fixb", t, base, v] => do
    let T ← parseIntTy t; let base ← base.toNat?; let v ← v.toInt?
    some (tcFixb T base v "fixb/")
  | _ => none

/-- to_chars_static<Base> succeeds for every value: `<length>:<array>` with a positive length -/
def tcFixbGood (res : String) : Bool :=
  match res.splitOn ":" with
  | n :: _ :: _ => (n.toNat?.getD 0) > 0
  | _ => false

def checkC13 (toks : List String) (res : String) : Option Verdict := do
  let (m, tag, br) ← evalCharconv toks
  let cls := if tag.isEmpty then "" else "C13." ++ tag
  match toks with
  | ["int", _, _, len, _] =>
    let len ← len.toNat?
    some { model := m, spec := some (c13Contract len res), cls := cls, branch := br, nontrivial := len > 0 }
  | ["sc", _, len, _] =>
    let len ← len.toNat?
    some { model := m, spec := some (c13Contract len res), cls := cls, branch := br, nontrivial := len > 0 }
  | ["cap", _] => some { model := m, spec := none, branch := br, nontrivial := false }
  | ["capw", d, sg] =>
    -- the fixed capacity must hold the longest numeral of the type: all digits of 2^D - 1 plus a sign
    let d ← d.toNat?
    let need := (toString (2^d - 1 : Nat)).length + (if sg == "s" then 1 else 0)
    some { model := m, spec := some ((res.toNat?.getD 0) ≥ need), branch := br }
  | ["capb", t, base] =>
    -- the fixed capacity must hold the longest numeral of the type in that base
    let T ← parseIntTy t; let base ← base.toNat?
    some { model := m, spec := some ((res.toNat?.getD 0) ≥ tcLongest T base), branch := br }
  | ["capwb", d, sg, base] =>
    let d ← d.toNat?; let base ← base.toNat?
    some { model := m, spec := some ((res.toNat?.getD 0) ≥ tcLongest (tcWideTy d sg) base), branch := br }
  | ["oss", _, _] => some { model := m, spec := some (res == m), cls := cls, branch := br }
  | ["fixb", _, _, _] => some { model := m, spec := some (tcFixbGood res), cls := cls, branch := br }
  | ["fixbw", _, _, _] => some { model := m, spec := some (tcFixbGood res), cls := cls, branch := br }
  | ["fix", _, _] =>
    -- the fixed-capacity variants succeed for every value: four fields, the last an `ok` result inside its buffer
    let good := match res.splitOn "|" with
      | [st, _, _, tc] =>
        (match st.splitOn ":" with
          | n :: _ => (n.toNat?.getD 0) > 0
          | _ => false) &&
        (match parseImplTCR tc with
          | some r => r.ok && c13Contract (r.bytes.length - 8) tc
          | none => false)
      | _ => false
    some { model := m, spec := some good, cls := cls, branch := br }
  | _ => none

end Cnl.Drv
