import CnlDriver.CS
/-! `C13` driver table (stub). -/
namespace Cnl.Drv
open Cnl

def checkC13 (_toks : List String) (_res : String) : Option Verdict := none

end Cnl.Drv
