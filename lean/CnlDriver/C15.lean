import CnlDriver.CS
import CnlDriver.FloatIO
import CnlModel.Parse
import CnlModel.Elastic
import CnlModel.Deduce
import CnlSpec.Token
import CnlSpec.MakeFraction
/-!
`C15` driver table: literals, run-time `parse`, constant-driven deduction.

    C15 scan <token>                    => <neg> <base> <stride> <first> <bits> <digits> <frac>
    C15 parse <T> <token>               => <T>:<value>
    C15 lit <c|wide|cnl|cnl2> <token>   => <type>:<rep>:<value> | c(i128):<value>:D<digits> | REJECTED
    C15 mk <function> <c(T)|T> <value>  => <type>:<rep>:<value>
    C15 fv|fvt <archetype> <c|T> <value> => <type>:<rep>:<value>      from_value (helper function | public trait)
    C15 ctad fraction <T|f32|f64|f80> <value|hex float> => fr(N,D):<numerator>/<denominator>
    C15 ctad fraction2 <N> <n> <D> <d>  => fr(N,D):<numerator>/<denominator>
    C15 ctad <alias> <c|T> <value>      => <type>:<rep>:<value>      alias templates without a deduction guide

The oracle is `CnlSpec.Token` (grammar + positional value) and never looks at the model.
-/
namespace Cnl.Drv
open Cnl Cnl.Parse Cnl.Deduce Cnl.FloatIO

def showParams (p : Params) : String :=
  s!"{if p.isNegative then 1 else 0} {p.base} {p.stride} {p.firstNumeral} {p.numBits} {p.numDigits} {p.numFrac}"

def showMade (m : Made) : String := s!"{m.ty.toString}:{m.rep.name}:{m.value}"

/-- compile-time results: an ill-formed program is the observable `REJECTED` -/
def showLit {α : Type} (f : α → String) : Res α → String
  | .ok a => f a
  | .ill _ => "REJECTED"
  | r => showRes f r

def parseStorage (s : String) : Option (Storage × String) :=
  match parseTy s with
  | some (.int t) => some (.builtin t, s)
  | some (.wd d (.int ⟨32, true⟩)) => some (wideRep d, s)
  | _ => none

def i128max : Nat := 2 ^ 127 - 1

/-- known-defect classes (see findings/C15.json).  The classes of the repaired defects
(`C15.udl_round_integer_with_fraction`, `C15.octal_separator_after_prefix`,
`C15.static_negative_power_of_two`, `C15.signed_trailing_radix_point`) are gone: a recurrence is a
violation. -/
def clsEstimate := "C15.decimal_width_estimate"
def clsStaticLowest := "C15.static_number_lowest_value"

/-- a signed one-digit octal token (`-07`, `-0'7`): read as the decimal `07`, same value -/
def signedOctalDigit (t : Token.Token) : Bool := t.signed && t.body.base == 8 && t.body.digits.length == 1

/-- `<type>:<rep>:<value>` -/
def splitMade (res : String) : Option (Ty × String × Int) :=
  match res.splitOn ":" with
  | [t, r, v] => do let t ← parseTy t; let v ← v.toInt?; pure (t, r, v)
  | _ => none

/-- digits, exponent, radix promised by a result type; `none` for the digits of a plain built-in rep -/
def shape : Ty → Option (Option Nat × Int × Nat)
  | .sc r e x => match shape r with
    | some (d, 0, _) => some (d, e, x)
    | _ => none
  | .el d _ => some (some d, 0, 2)
  | .wd d _ => some (some d, 0, 2)
  | .ov r _ => shape r
  | .rd r _ => shape r
  | .int _ => some (none, 0, 2)
  | _ => none

/-- the implementation's result `res` denotes exactly `want` and its type can hold it -/
def holdsExactly (res : String) (want : Rat) : Bool :=
  match splitMade res with
  | some (t, rep, v) =>
    match shape t with
    | some (d, e, x) =>
      Token.scaledValue v x e == want &&
      (match d with
       | some d => decide (-(2 ^ d : Int) ≤ v ∧ v < 2 ^ d)
       | none => match parseIntTy rep with
         | some it => it.inRange v
         | none => false)
    | none => false
  | none => false

/-- a `wide_tag` in the type: its nominal digit count says nothing about a deduced built-in representation -/
def hasWd : Ty → Bool
  | .wd _ _ => true
  | .ov r _ => hasWd r
  | .rd r _ => hasWd r
  | .sc r _ _ => hasWd r
  | _ => false

/-- `from_value` results: the result denotes exactly `want`, the printed representation type holds the value, and so
does the digit count of an elastic type -/
def holdsDeduced (res : String) (want : Rat) : Bool :=
  match splitMade res with
  | some (t, rep, v) =>
    match shape t, parseIntTy rep with
    | some (d, e, x), some it =>
      Token.scaledValue v x e == want && it.inRange v &&
      (match d with
       | some d => hasWd t || decide (-(2 ^ d : Int) ≤ v ∧ v < 2 ^ d)
       | none => true)
    | _, _ => false
  | none => false

/-- `fr(N,D):<n>/<d>` -/
def splitFrac (res : String) : Option (IntTy × IntTy × Int × Int) :=
  match res.splitOn ":" with
  | [t, nd] => match parseTy t, nd.splitOn "/" with
    | some (.fr (.int N) (.int D)), [n, d] => do let n ← n.toInt?; let d ← d.toInt?; pure (N, D, n, d)
    | _, _ => none
  | _ => none

def clsCtadDefault := "C15.ctad_default_arguments"

def parseAlias : String → Option Alias
  | "scaled_integer" => some .scaled
  | "elastic_integer" => some .elastic
  | "overflow_integer" => some .overflow
  | "rounding_integer" => some .rounding
  | "wide_integer" => some .wide
  | "static_integer" => some .staticInt
  | _ => none

def parseInit (src v : String) : Option Init := do
  let v ← v.toInt?
  if src == "c" then pure (.const v) else do
    let S ← parseIntTy src
    if S.inRange v then pure (.val S v) else none

/-- fuel of the `make_fraction` model (as in the C17 table) -/
def ctadFuel : Nat := 4000

/-- `Cnl.C15.Located` as a Boolean: the scanner found base, sign, stride and exactly the digits of
the grammar (the hypothesis of the `parse_exact_*_of_located` theorems, proved for every well-formed token by
`Cnl.C15.located_of_wellFormed` and still evaluated on every token of every run) -/
def located (cs : List Char) (t : Token.Token) : Bool :=
  match scanString cs with
  | .ok p =>
    ((p.base == 10 && p.stride == 18) || (p.base == 16 && p.stride == 15) || (p.base == 8 && p.stride == 21) || (p.base == 2 && p.stride == 63)) &&
    p.isNegative == t.negative &&
    t.body.digits.all (· < t.body.base) &&
    -- a signed single-digit octal token is read as decimal by the code: same digits, same value
    (p.base == t.body.base || (t.signed && t.body.base == 8 && t.body.digits.length == 1 && p.base == 10)) &&
    (match readDigits p.base (cs.drop p.firstNumeral) p.numDigits with
     | .ok (ds, _) => ds == t.body.digits || (t.body.base == 8 && p.base == 10 && ds == 0 :: t.body.digits)
     | _ => false)
  | _ => false

def checkFv (fvk arch src v res : String) : Option Verdict := do
  let A ← parseTy arch
  let init ← parseInit src v
  let model := showLit showMade (fromValue A init)
  let kind := match A with
    | .int _ => "int" | .sc _ _ x => s!"sc{x}" | .el _ _ => "el" | .wd _ _ => "wd" | .ov _ _ => "ov" | .rd _ _ => "rd" | _ => "other"
  some { model, spec := some (holdsDeduced res (init.value : Rat)), branch := s!"{fvk}/{kind}/{if src == "c" then "c" else "v"}" }

def checkC15 (toks : List String) (res : String) : Option Verdict :=
  match toks with
  | ["scan", tok] =>
    let cs := tok.toList
    let m := scanString cs
    let model := showRes showParams m
    match Token.token cs with
    | none => some { model, branch := "scan/malformed", nontrivial := false }
    | some t =>
      let sig := Token.positional t.body.base t.body.digits
      let nums := (res.splitOn " ").filterMap String.toNat?
      let ok : Bool := match nums with
        | [_, base, _, _, bits, digits, frac] =>
          decide (sig < 2 ^ bits) && located cs t &&
          (signedOctalDigit t || (base == t.body.base && digits == t.body.digits.length && frac == t.body.frac))
        | _ => false
      let short : Bool := match nums with
        | [_, _, _, _, bits, _, _] => t.body.base == 10 && decide (sig ≥ 2 ^ bits)
        | _ => false
      some { model, spec := some ok, cls := if short then clsEstimate else "",
             branch := s!"scan/base{t.body.base}" ++ (if t.body.hasPoint then "/frac" else "") }
  | ["parse", ty, tok] => do
    let (S, tyName) ← parseStorage ty
    let cs := tok.toList
    let m := parse S cs
    let model := showRes (fun v => s!"{tyName}:{v}") m
    match Token.token cs with
    | none => some { model, branch := "parse/malformed", nontrivial := false }
    | some t =>
      if t.isInteger && S.holds t.significand then
        some { model, spec := some (res == s!"{tyName}:{t.significand}"), cls := "",
               branch := s!"parse/base{t.body.base}/chunks{t.body.digits.length / (if t.body.base == 10 then 18 else if t.body.base == 16 then 15 else if t.body.base == 8 then 21 else 63)}" }
      else
        some { model, branch := if t.isInteger then "parse/does-not-fit" else "parse/fraction", nontrivial := false }
  | ["lit", kind, tok] =>
    let cs := tok.toList
    let t? := match Token.token cs with
      | some t => if t.signed then none else some t
      | none => none
    match kind with
    | "c" =>
      let model := showLit (fun (v, d) => s!"c(i128):{v}:D{d}") (litC cs)
      match t? with
      | some t =>
        let sig := t.significand.toNat
        if t.isInteger && sig ≤ i128max then
          let ok := res == s!"c(i128):{sig}:D{Token.bitLength sig}"
          let short := t.body.base == 10 && (match scanString cs with
            | .ok p => decide (sig ≥ 2 ^ p.numBits) | _ => false)
          some { model, spec := some ok, cls := if short then clsEstimate else "", branch := "lit/c" }
        else some { model, branch := "lit/c/unrepresentable", nontrivial := false }
      | none => some { model, branch := "lit/c/malformed", nontrivial := false }
    | "wide" =>
      let model := showLit showMade (litWide cs)
      match t? with
      | some t =>
        if t.isInteger then
          let short := t.body.base == 10 && (match scanString cs with
            | .ok p => decide (t.significand.toNat ≥ 2 ^ p.numBits) | _ => false)
          some { model, spec := some (holdsExactly res t.value), cls := if short then clsEstimate else "",
                 branch := "lit/wide/" ++ (match litWide cs with | .ok m => m.rep.name | _ => "rejected") }
        else some { model, branch := "lit/wide/fraction", nontrivial := false }
      | none => some { model, branch := "lit/wide/malformed", nontrivial := false }
    | "cnl" | "cnl2" =>
      let m := if kind == "cnl" then litCnl cs else litCnl2 cs
      let model := showLit showMade m
      match t? with
      | some t =>
        let sig := t.significand.toNat
        let out := if kind == "cnl" then t.body.base else 2
        let representable := kind == "cnl" || t.body.base != 10 || sig % 5 ^ t.body.frac == 0
        if representable && sig ≤ i128max / out then
          let short := t.body.base == 10 && (match scanString cs with
            | .ok p => decide (sig ≥ 2 ^ p.numBits) | _ => false)
          some { model, spec := some (holdsExactly res t.value),
                 cls := if short then clsEstimate else "",
                 branch := s!"lit/{kind}" ++ (if t.body.hasPoint then "/frac" else "") }
        else some { model, branch := s!"lit/{kind}/unrepresentable", nontrivial := false }
      | none => some { model, branch := s!"lit/{kind}/malformed", nontrivial := false }
    | _ => none
  | ["fv", arch, src, v] => checkFv "fv" arch src v res
  | ["fvt", arch, src, v] => checkFv "fvt" arch src v res
  | ["ctad", "fraction", src, xs] =>
    match parseIntTy src with
    | some S => do
      let v ← xs.toInt?
      let model := s!"{(fractionGuideInt S).toString}:{v}/1"
      let ok := match splitFrac res with
        | some (N, D, n, d) => N.inRange n && D.inRange d && d != 0 && n == v * d
        | none => false
      some { model, spec := some ok, branch := s!"ctad/fraction/{src}" }
    | none => do
      let F ← parseFmt src
      let x ← F.ofHex? xs
      let I ← fractionGuideFloat F.prec
      let r := MakeFraction.makeFractionX F I x ctadFuel
      let model := showRes (fun p => s!"{(fractionGuideInt I).toString}:{p.1.num}/{p.1.den}") r
      -- the guide's promise: a fraction of the deduced type that converts back to the very initializer.  The search
      -- itself is property C17: inputs in one of its defect classes are not judged here.
      let c17 : Bool := match MakeFractionSpec.classify F I x ctadFuel with
        | none => false
        | some .notExactRoundTrip => false
        | some _ => true
      if !MakeFractionSpec.inDomain I x || c17 then
        some { model, branch := s!"ctad/fraction/{src}/" ++ (if c17 then "c17-class" else "out-of-domain"), nontrivial := false }
      else
        let ok := match splitFrac res with
          | some (N, D, n, d) =>
            N.inRange n && D.inRange d && decide (0 < d) && fCmp .eq (MakeFraction.fracToF F ⟨n, d⟩) x
          | none => false
        some { model, spec := some ok, branch := s!"ctad/fraction/{src}" }
  | ["ctad", "fraction2", nt, n, dt, d] => do
    let N ← parseIntTy nt; let D ← parseIntTy dt; let n ← n.toInt?; let d ← d.toInt?
    let model := s!"{(Ty.fr (.int N) (.int D)).toString}:{n}/{d}"
    let ok := match splitFrac res with
      | some (N', D', n', d') => N'.inRange n' && D'.inRange d' && n' == n && d' == d
      | none => false
    some { model, spec := some ok, branch := "ctad/fraction2" }
  | ["ctad", alias, src, v] => do
    let a ← parseAlias alias
    let init ← parseInit src v
    let model := showLit showMade (ctadAlias a init)
    -- no deduction takes place: the default arguments hold the initializer only if `int` does (and, for
    -- static_integer<31>, if it is not the lowest `int`)
    let fits := i32.inRange init.value && !(a == .staticInt && init.value == i32.lowest)
    some { model, spec := some (holdsExactly res (init.value : Rat)), cls := if fits then "" else clsCtadDefault,
           branch := s!"ctad/{alias}/{if src == "c" then "c" else "v"}" ++ (if fits then "" else "/default-too-narrow") }
  | ["mk", fn, "c", v] => do
    let v ← v.toInt?
    let m ← match fn with
      | "elastic_integer" => some (makeElasticInteger v)
      | "elastic_scaled_integer" => some (makeElasticScaledInteger v)
      | "scaled_integer" => some (makeScaledInteger v)
      | "static_integer" => some (makeStaticInteger v)
      | "static_number" => some (makeStaticNumber v)
      | _ => none
    let model := showLit showMade m
    -- promise: the type holds v exactly; trailing zero bits are in the exponent (scaled kinds);
    -- the digit count is the number of used digits
    let tz := Token.trailingZeros v.natAbs
    let scaled := fn == "elastic_scaled_integer" || fn == "scaled_integer" || fn == "static_number"
    let promised : Bool := match splitMade res with
      | some (t, _, x) => match shape t with
        | some (d, e, _) =>
          (e == (if scaled then (tz : Int) else 0)) &&
          (match d with
           | some d => d == Token.bitLength x.natAbs || d == max (Token.bitLength x.natAbs) 1
           | none => true)
        | none => false
      | none => false
    let ok := holdsExactly res (v : Rat) && promised
    some { model, spec := some ok, cls := "", branch := s!"mk/{fn}/c" }
  | ["mk", fn, nt, "c", v] => do
    -- make_*<Narrowest>(constant): the same deduction with an explicit narrowest type; the storage follows
    -- set_digits (Elastic.repTy)
    let N ← parseIntTy nt; let v ← v.toInt?
    let tz := trailingBits v
    let m : Res Made ← match fn with
      | "elastic_integer" =>
        let d := constantDigits v
        some (match Elastic.repTy d N with
          | some r => .ok ⟨.el d (.int N), .builtin r, v⟩ | none => .ill "digits exceed the widest integer")
      | "elastic_scaled_integer" =>
        let d := max (constantDigits v - tz) 1
        some (match Elastic.repTy d N with
          | some r => .ok ⟨.sc (.el d (.int N)) tz 2, .builtin r, shiftOut v tz⟩ | none => .ill "digits exceed the widest integer")
      | _ => none
    let model := showLit showMade m
    let scaled := fn == "elastic_scaled_integer"
    let promised : Bool := match splitMade res with
      | some (t, _, x) => match shape t with
        | some (d, e, _) =>
          (e == (if scaled then (Token.trailingZeros v.natAbs : Int) else 0)) &&
          (match d with
           | some d => d == Token.bitLength x.natAbs || d == max (Token.bitLength x.natAbs) 1
           | none => true)
        | none => false
      | none => false
    -- the representation must really hold the value: its type has at least the promised digits
    let repHolds : Bool := match (res.splitOn ":") with
      | [_, r, x] => (match parseIntTy r, x.toInt? with | some rt, some xv => rt.inRange xv | _, _ => false)
      | _ => false
    let ok := holdsExactly res (v : Rat) && promised && repHolds
    some { model, spec := some ok, branch := s!"mk/{fn}/{nt}" }
  | ["mk", fn, ty, v] => do
    let T ← parseIntTy ty
    let v ← v.toInt?
    let m ← makeFromValue fn T v
    let model := showLit showMade m
    let lowest := T.signed && v == T.lowest && fn == "static_number"
    some { model, spec := some (holdsExactly res (v : Rat)), cls := if lowest then clsStaticLowest else "", branch := s!"mk/{fn}/{ty}" }
  | _ => none

end Cnl.Drv
