import CnlDriver.CS
/-! `C15` driver table (stub). -/
namespace Cnl.Drv
open Cnl

def checkC15 (_toks : List String) (_res : String) : Option Verdict := none

end Cnl.Drv
