import CnlModel.Ty
/-!
# Line protocol: tokens, type strings, result strings (driver side only; not part of any model)
-/
namespace Cnl.Drv
open Cnl

/-- generic s-expression `name` or `name(arg,...)` -/
inductive SX where
  | atom (s : String)
  | app (f : String) (args : List SX)
deriving Repr, Inhabited

partial def parseSX (cs : List Char) : Option (SX × List Char) :=
  let rec name (cs : List Char) (acc : List Char) : List Char × List Char :=
    match cs with
    | c :: r => if c == '(' || c == ')' || c == ',' then (acc.reverse, cs) else name r (c :: acc)
    | [] => (acc.reverse, [])
  let (n, rest) := name cs []
  match rest with
  | '(' :: r =>
    let rec args (cs : List Char) (acc : List SX) : Option (List SX × List Char) :=
      match parseSX cs with
      | none => none
      | some (a, r) =>
        match r with
        | ',' :: r' => args r' (a :: acc)
        | ')' :: r' => some ((a :: acc).reverse, r')
        | _ => none
    match args r [] with
    | some (as, r') => some (.app (String.ofList n) as, r')
    | none => none
  | _ => if n.isEmpty then none else some (.atom (String.ofList n), rest)

def parseIntTy (s : String) : Option IntTy :=
  match s.toList with
  | 'i' :: r => (String.ofList r).toNat?.map (fun b => ⟨b, true⟩)
  | 'u' :: r => (String.ofList r).toNat?.map (fun b => ⟨b, false⟩)
  | _ => none

def parseOvTag : String → Option OvTag
  | "nat" => some .nat | "sat" => some .sat | "thr" => some .thr | "trp" => some .trp | "und" => some .und
  | _ => none
def parseRdMode : String → Option RdMode
  | "nat" => some .nat | "nrst" => some .nrst | "tpi" => some .tpi | "ninf" => some .ninf
  | _ => none

partial def SX.toTy : SX → Option Ty
  | .atom "f32" => some (.flt 24)
  | .atom "f64" => some (.flt 53)
  | .atom "f80" => some (.flt 64)
  | .atom s => (parseIntTy s).map .int
  | .app "el" [.atom d, n] => do let d ← d.toNat?; let n ← n.toTy; pure (.el d n)
  | .app "wd" [.atom d, n] => do let d ← d.toNat?; let n ← n.toTy; pure (.wd d n)
  | .app "ov" [r, .atom t] => do let r ← r.toTy; let t ← parseOvTag t; pure (.ov r t)
  | .app "rd" [r, .atom m] => do let r ← r.toTy; let m ← parseRdMode m; pure (.rd r m)
  | .app "sc" [r, .atom e, .atom x] => do let r ← r.toTy; let e ← e.toInt?; let x ← x.toNat?; pure (.sc r e x)
  | .app "fr" [n, d] => do let n ← n.toTy; let d ← d.toTy; pure (.fr n d)
  | _ => none

def parseTy (s : String) : Option Ty :=
  match parseSX s.toList with
  | some (sx, []) => sx.toTy
  | _ => none

def _root_.Cnl.OvTag.toString : OvTag → String
  | .nat => "nat" | .sat => "sat" | .thr => "thr" | .trp => "trp" | .und => "und"
def _root_.Cnl.RdMode.toString : RdMode → String
  | .nat => "nat" | .nrst => "nrst" | .tpi => "tpi" | .ninf => "ninf"

partial def _root_.Cnl.Ty.toString : Ty → String
  | .int t => t.toString
  | .flt 24 => "f32" | .flt 53 => "f64" | .flt _ => "f80"
  | .el d n => s!"el({d},{n.toString})"
  | .wd d n => s!"wd({d},{n.toString})"
  | .ov r t => s!"ov({r.toString},{t.toString})"
  | .rd r m => s!"rd({r.toString},{m.toString})"
  | .sc r e x => s!"sc({r.toString},{e},{x})"
  | .fr n d => s!"fr({n.toString},{d.toString})"

/-- canonical result strings -/
def showTV (x : TV) : String := x.1.toString ++ ":" ++ toString x.2

def showRes {α : Type} (f : α → String) : Res α → String
  | .ok a => f a
  | .ub _ => "UB"
  | .trap true => "TRAP+"
  | .trap false => "TRAP-"
  | .throws true => "THROW+"
  | .throws false => "THROW-"
  | .unreachable _ => "UNREACHABLE"
  | .oob _ => "OOB"
  | .diverges => "TIMEOUT"
  | .ill m => "ILL(" ++ m ++ ")"

def showNum (x : Num) : String := x.1.toString ++ ":" ++ toString x.2

def showBool (b : Bool) : String := if b then "1" else "0"

/-- outcome of checking one protocol line -/
structure Verdict where
  model : String            -- the model's result, canonical
  /-- spec verdict on the implementation's result: none = property does not constrain this case -/
  spec : Option Bool := none
  /-- known-defect class the input falls in ("" = none) -/
  cls : String := ""
  /-- model branch label for the histogram -/
  branch : String := ""
  /-- non-trivial by the property's rule -/
  nontrivial : Bool := true

end Cnl.Drv
