import CnlDriver.CS
import CnlModel.Static
import CnlSpec.Rounding
import CnlModel.RoundCvt
import CnlModel.OverflowFloat
import CnlDriver.FloatIO
/-! `C11` table: static_number operations, shifts and short histories. -/
namespace Cnl.Drv
open Cnl Cnl.Static

def showSN (x : SNum) : String := s!"sn({x.digits},{x.exp}):{x.value}"

def modeOf11 : RdMode → Spec.RoundMode
  | .nat => .truncate | .nrst => .nearestAway | .tpi => .nearestUp | .ninf => .floor

/-- ideal evaluation: exact integers at known exponents; a signal is `none` with a polarity -/
inductive Ideal where
  | val (exp : Int) (v : Int)
  | signal (pos : Bool)
  | undef            -- the property does not constrain the input (zero divisor)
deriving Repr

def idealBin (mode : RdMode) (op : BinOp) (a b : Ideal) : Ideal :=
  match a, b with
  | .val ea va, .val eb vb =>
    match op with
    | .add | .sub =>
      let e := min ea eb
      let x := va * 2^(ea - e).toNat; let y := vb * 2^(eb - e).toNat
      .val e (if op == .add then x + y else x - y)
    | .mul => .val (ea + eb) (va * vb)
    | .div => if vb == 0 then .undef else .val (ea - eb) (Spec.roundDiv (modeOf11 mode) va vb)
    -- the remainder of the truncating division (sign of the dividend), at the dividend's exponent
    | .mod => if vb == 0 then .undef else .val ea (Int.tmod va vb)
    | _ => .undef
  | .signal p, _ => .signal p
  | _, .signal p => .signal p
  | _, _ => .undef

/-- narrowing assignment to `D` digits at exponent `E` -/
def idealCvt (mode : RdMode) (tag : OvTag) (D : Nat) (E : Int) (a : Ideal) : Ideal :=
  match a with
  | .val e v =>
    let w : Int := if E ≤ e then v * 2^(e - E).toNat else Spec.roundDiv (modeOf11 mode) v (2^(E - e).toNat)
    -- the saturated tag's way of signalling is the clamped value, which later operations consume
    if w > 2^D - 1 then (if tag == .sat then .val E (2^D - 1) else .signal true)
    else if w < -(2^D - 1 : Int) then (if tag == .sat then .val E (-(2^D - 1 : Int)) else .signal false)
    else .val E w
  | o => o

def showIdeal (tag : OvTag) (D : Nat) : Ideal → Option String
  | .val e v => some s!"sn({D},{e}):{v}"
  | .signal p =>
    (match tag with
     | .sat => none   -- saturation: judged by value below
     | .thr => some (if p then "THROW+" else "THROW-")
     | .trp => some (if p then "TRAP+" else "TRAP-")
     | _ => none)
  | .undef => none

def parseSN (s : String) : Option (Nat × Int × Int) :=
  -- sn(D,E):v
  match s.splitOn ":" with
  | [t, v] =>
    match (t.drop 3).toString.dropEnd 1 |>.toString.splitOn "," with
    | [d, e] => do let d ← d.toNat?; let e ← e.toInt?; let v ← v.toInt?; some (d, e, v)
    | _ => none
  | _ => none

/-- the implementation's result agrees with the ideal: same value and exponent (digits are the
model's business), or the prescribed signal; under saturation the clamped declared limit -/
def isSignal (res : String) : Bool := res == "TRAP+" || res == "TRAP-" || res == "THROW+" || res == "THROW-"

def judge (tag : OvTag) (ideal : Ideal) (satD : Nat) (res : String) : Option Bool :=
  match ideal with
  | .undef => none
  | .val e v =>
    -- a trap / exception is never *silently* wrong: under the throwing and trapping tags an
    -- (even spurious) overflow signal satisfies the property; a value must be the exact one
    if (tag == .thr || tag == .trp) && isSignal res then some true else
    match parseSN res with
    | some (_, e', v') => some (e == e' && v == v')
    | none => some false
  | .signal p =>
    match tag with
    | .sat =>
      match parseSN res with
      | some (_, _, v') => some (v' == (if p then (2^satD - 1 : Int) else -(2^satD - 1 : Int)))
      | none => some false
    | .thr => some (res == (if p then "THROW+" else "THROW-"))
    | .trp => some (res == (if p then "TRAP+" else "TRAP-"))
    -- the undefined tag calls `unreachable("positive overflow" / "negative overflow")`, which outside
    -- CNL_RELEASE builds is `abort(message)`: the harness observes it like a trap, with its polarity
    | .und => some (res == (if p then "TRAP+" else "TRAP-"))
    | _ => none

/-- known-defect classes of a narrowing conversion from `d1` digits at `e1` to exponent `e3` -/
def c11CvtClass (mode : RdMode) (d1 : Nat) (e1 e3 : Int) (a : Int) : String :=
  if e3 ≤ e1 then "" else
  let k := (e3 - e1).toNat
  if k > d1 then "C11.narrowing_drops_all_digits"
  else
    let q := Spec.roundDiv (modeOf11 mode) a (2^k)
    if q.natAbs > 2^(d1 - k) - 1 then "C11.rounded_value_exceeds_intermediate_digits" else ""

/-- a returned number must also lie in the range `±(2^digits − 1)` its own type declares -/
def inDeclaredRange (res : String) : Bool :=
  match parseSN res with
  | some (d, _, v) => decide (v.natAbs ≤ 2^d - 1)
  | none => true

/-- exact mathematics of one shift, independent of the model: `x·2^k` fits the result's digits or is
signalled; `x >> k` is `⌊x / 2^k⌋` and never signals; a constant count on a static_number moves
the exponent only -/
def idealShift (tag : OvTag) (isShl : Bool) (bare : Bool) (constCount : Bool) (D : Nat) (e : Int) (x k : Int) : Ideal :=
  if constCount && !bare then .val (if isShl then e + k else e - k) x
  else if k < 0 then .undef
  -- operands have fewer than 4096 digits: beyond that count nothing changes (`x·2^k` fits only for
  -- `x = 0`, `⌊x / 2^k⌋` is `0` or `−1`), so the power is not computed for counts like `INT_MAX`
  else if !isShl then .val e (x / 2^(min k.toNat 4096))
  else
    let w := x * 2^(min k.toNat 4096)
    let rd : Nat := if constCount then D + k.toNat else D
    if w > 2^rd - 1 then (if tag == .sat then .val e (2^rd - 1) else .signal true)
    else if w < -(2^rd - 1 : Int) then (if tag == .sat then .val e (-(2^rd - 1 : Int)) else .signal false)
    else .val e w

/-- the model's outcome as the harness prints it; the undefined tag's `unreachable(message)` is an
`abort(message)` in the (non-release) configuration of the check, printed with its polarity -/
def showRes11 (tag : OvTag) (m : Res SNum) : String :=
  match tag, m with
  | .und, .unreachable "positive overflow" => "TRAP+"
  | .und, .unreachable "negative overflow" => "TRAP-"
  | _, _ => showRes showSN m


/-! ### typed lines: any narrowest type, multi-word storage, built-in operands (values in hex) -/

def hexDigit11 (c : Char) : Option Nat :=
  if '0' ≤ c && c ≤ '9' then some (c.toNat - '0'.toNat)
  else if 'a' ≤ c && c ≤ 'f' then some (c.toNat - 'a'.toNat + 10)
  else none

/-- `0x1f`, `-0x1f` or decimal -/
def parseIntX (s : String) : Option Int :=
  let (neg, cs) := match s.toList with
    | '-' :: r => (true, r)
    | r => (false, r)
  match cs with
  | '0' :: 'x' :: ds =>
    if ds.isEmpty then none else
    (ds.foldlM (fun (acc : Nat) c => (hexDigit11 c).map (fun d => acc * 16 + d)) 0).map
      (fun (n : Nat) => if neg then -(n : Int) else (n : Int))
  | _ => s.toInt?

def hexNat11 (n : Nat) : String := String.ofList (Nat.toDigits 16 n)

def showHex11 (v : Int) : String := if v < 0 then "-0x" ++ hexNat11 v.natAbs else "0x" ++ hexNat11 v.natAbs

def showTN (t : TNum) : String := s!"sn({t.x.digits},{t.x.exp},{t.n.toString}):{showHex11 t.x.value}"

/-- `sn(D,E,N):hex` -/
def parseTN (s : String) : Option (Nat × Int × IntTy × Int) :=
  match s.splitOn ":" with
  | [t, v] =>
    match (t.drop 3).toString.dropEnd 1 |>.toString.splitOn "," with
    | [d, e, n] => do let d ← d.toNat?; let e ← e.toInt?; let n ← parseIntTy n; let v ← parseIntX v; some (d, e, n, v)
    | _ => none
  | _ => none

def showResT (tag : OvTag) (m : Res TNum) : String :=
  match tag, m with
  | .und, .unreachable "positive overflow" => "TRAP+"
  | .und, .unreachable "negative overflow" => "TRAP-"
  | _, _ => showRes showTN m

/-- narrowing assignment to `D` digits of the given signedness at exponent `E` -/
def idealCvtS (mode : RdMode) (tag : OvTag) (signed : Bool) (D : Nat) (E : Int) (a : Ideal) : Ideal :=
  match a with
  | .val e v =>
    let w : Int := if E ≤ e then v * 2^(e - E).toNat else Spec.roundDiv (modeOf11 mode) v (2^(E - e).toNat)
    let lo : Int := if signed then -(2^D - 1 : Int) else 0
    if w > 2^D - 1 then (if tag == .sat then .val E (2^D - 1) else .signal true)
    else if w < lo then (if tag == .sat then .val E lo else .signal false)
    else .val E w
  | o => o

/-- the implementation's result against the ideal; a terminal saturation is judged against the limits
`[satLo, 2^satD − 1]`; a returned value must lie in the range its own type declares (non-negative under an
unsigned narrowest type) -/
def judgeT (tag : OvTag) (ideal : Ideal) (satD : Nat) (satSigned : Bool) (res : String) (rangeToo : Bool := true) :
    Option Bool :=
  let inRange : Bool := match parseTN res with
    | some (d, _, n, v) => !rangeToo || (decide (v.natAbs ≤ 2^d - 1) && (n.signed || decide (0 ≤ v)))
    | none => true
  match ideal with
  | .undef => none
  | .val e v =>
    if (tag == .thr || tag == .trp) && isSignal res then some true else
    match parseTN res with
    | some (_, e', _, v') => some (e == e' && v == v' && inRange)
    | none => some false
  | .signal p =>
    match tag with
    | .sat =>
      match parseTN res with
      | some (_, _, _, v') =>
        some (v' == (if p then (2^satD - 1 : Int) else if satSigned then -(2^satD - 1 : Int) else 0) && inRange)
      | none => some false
    | .thr => some (res == (if p then "THROW+" else "THROW-"))
    | .trp => some (res == (if p then "TRAP+" else "TRAP-"))
    | .und => some (res == (if p then "TRAP+" else "TRAP-"))
    | _ => none

def cmpWant11 (op : CmpOp) (x y : Int) : Bool :=
  match op with
  | .lt => decide (x < y) | .le => decide (x ≤ y) | .gt => decide (x > y) | .ge => decide (x ≥ y)
  | .eq => decide (x = y) | .ne => decide (x ≠ y)

/-- the built-in operand of a static_number with a negative exponent `e` is scaled by `2^-e` in its own promoted
type: class `C11.builtin_operand_scaled_in_its_own_type` when that product does not fit -/
def mixScaleClass (op : String) (e : Int) (bt : IntTy) (b : Int) : String :=
  if !(e ≥ 0 || op == "mul" || op == "div" || op == "mod") && !(promote bt).inRange (b * 2^(-e).toNat) then
    "C11.builtin_operand_scaled_in_its_own_type"
  -- `from_value` gives a built-in operand the symmetric range of `digits T` digits: the most negative value is outside it
  else if bt.signed && b == bt.lowest then "C11.builtin_operand_most_negative"
  else ""

/-- `+ − * /` and `%` on typed static numbers -/
def binT (c : Cfg) (op : BinOp) (x y : TNum) : Res TNum := if op == .mod then remT c x y else binOpT c op x y
def binO (c : Cfg) (n : IntTy) (op : BinOp) (s t : Opnd) : Res TNum := if op == .mod then remO c n s t else binOpO c n op s t

/-- a binary operator on operands of two narrowest types (`asg = false`), or the compound assignment `x OP= y`: the
operator, then the conversion of its result to the left operand's type -/
def tbin2V (asg : Bool) (n1 n2 : IntTy) (mode : RdMode) (tag : OvTag) (op : BinOp) (d1 : Nat) (e1 : Int) (d2 : Nat) (e2 : Int)
    (a b : Int) (res br : String) : Verdict :=
  let c : Cfg := ⟨mode, tag⟩
  let q := binT c op ⟨n1, ⟨d1, e1, a⟩⟩ ⟨n2, ⟨d2, e2, b⟩⟩
  let i0 := idealBin mode op (.val e1 a) (.val e2 b)
  let nt := !((op == .div || op == .mod) && b == 0)
  if asg then
    let m := q >>= convertT c n1 d1 e1
    let cls := match q with
      | .ok z => c11CvtClass mode z.x.digits z.x.exp e1 z.x.value
      | _ => ""
    { model := showResT tag m, spec := judgeT tag (idealCvtS mode tag n1.signed d1 e1 i0) d1 n1.signed res, cls := cls,
      branch := br, nontrivial := nt }
  else { model := showResT tag q, spec := judgeT tag i0 0 true res, branch := br, nontrivial := nt }

def checkC11T (toks : List String) (res : String) : Option Verdict :=
  match toks with
  | [kind, nw1, nw2, mode, tag, ops, d1, e1, d2, e2, a, b] => do
    -- `tbin2` / `tasg2`: the operands have the narrowest types `nw1` and `nw2`; `tcmp2`: comparison
    guard (kind == "tbin2" || kind == "tasg2" || kind == "tcmp2")
    let n1 ← parseIntTy nw1; let n2 ← parseIntTy nw2; let mode ← parseRdMode mode; let tag ← parseOvTag tag
    let d1 ← d1.toNat?; let e1 ← e1.toInt?; let d2 ← d2.toNat?; let e2 ← e2.toInt?; let a ← parseIntX a; let b ← parseIntX b
    let br := kind ++ "/" ++ nw1 ++ "/" ++ nw2 ++ "/" ++ ops
    if kind == "tcmp2" then do
      let op ← parseCmpOp ops
      let m := cmpT op ⟨n1, ⟨d1, e1, a⟩⟩ ⟨n2, ⟨d2, e2, b⟩⟩
      let e := min e1 e2
      let want := cmpWant11 op (a * 2^(e1 - e).toNat) (b * 2^(e2 - e).toNat)
      some { model := showRes showBool m, spec := some (res == showBool want), branch := br }
    else do
      let op ← parseBinOp ops
      some (tbin2V (kind == "tasg2") n1 n2 mode tag op d1 e1 d2 e2 a b res br)
  | ["tbin", nw, mode, tag, ops, d1, e1, d2, e2, a, b] => do
    let n ← parseIntTy nw; let mode ← parseRdMode mode; let tag ← parseOvTag tag; let op ← parseBinOp ops
    let d1 ← d1.toNat?; let e1 ← e1.toInt?; let d2 ← d2.toNat?; let e2 ← e2.toInt?; let a ← parseIntX a; let b ← parseIntX b
    let m := binT ⟨mode, tag⟩ op ⟨n, ⟨d1, e1, a⟩⟩ ⟨n, ⟨d2, e2, b⟩⟩
    let ideal := idealBin mode op (.val e1 a) (.val e2 b)
    some { model := showResT tag m, spec := judgeT tag ideal 0 true res, branch := "tbin/" ++ nw ++ "/" ++ ops,
           nontrivial := !((op == .div || op == .mod) && b == 0) }
  | ["tcmp", nw, _mode, _tag, ops, d1, e1, d2, e2, a, b] => do
    let n ← parseIntTy nw; let op ← parseCmpOp ops
    let d1 ← d1.toNat?; let e1 ← e1.toInt?; let d2 ← d2.toNat?; let e2 ← e2.toInt?; let a ← parseIntX a; let b ← parseIntX b
    let m := cmpT op ⟨n, ⟨d1, e1, a⟩⟩ ⟨n, ⟨d2, e2, b⟩⟩
    let e := min e1 e2
    let want := cmpWant11 op (a * 2^(e1 - e).toNat) (b * 2^(e2 - e).toNat)
    some { model := showRes showBool m, spec := some (res == showBool want), branch := "tcmp/" ++ nw ++ "/" ++ ops }
  | ["tneg", nw, _mode, tag, d1, e1, a] => do
    let n ← parseIntTy nw; let tag ← parseOvTag tag; let d1 ← d1.toNat?; let e1 ← e1.toInt?; let a ← parseIntX a
    let m := negT ⟨n, ⟨d1, e1, a⟩⟩
    some { model := showResT tag m, spec := judgeT tag (.val e1 (-a)) 0 true res, branch := "tneg/" ++ nw }
  | ["tcvt", nw, mode, tag, d1, e1, d3, e3, a] => do
    let n ← parseIntTy nw; let mode ← parseRdMode mode; let tag ← parseOvTag tag
    let d1 ← d1.toNat?; let e1 ← e1.toInt?; let d3 ← d3.toNat?; let e3 ← e3.toInt?; let a ← parseIntX a
    let m := convertT ⟨mode, tag⟩ n d3 e3 ⟨n, ⟨d1, e1, a⟩⟩
    let ideal := idealCvtS mode tag n.signed d3 e3 (.val e1 a)
    some { model := showResT tag m, spec := judgeT tag ideal d3 n.signed res, cls := c11CvtClass mode d1 e1 e3 a,
           branch := "tcvt/" ++ nw ++ (if e3 > e1 then "/round" else "/exact") }
  | ["tchain", nw, mode, tag, kind, d1, e1, d2, e2, d3, e3, a, b] => do
    let n ← parseIntTy nw; let mode ← parseRdMode mode; let tag ← parseOvTag tag
    let d1 ← d1.toNat?; let e1 ← e1.toInt?; let d2 ← d2.toNat?; let e2 ← e2.toInt?; let d3 ← d3.toNat?; let e3 ← e3.toInt?
    let a ← parseIntX a; let b ← parseIntX b
    let c : Cfg := ⟨mode, tag⟩
    let x : TNum := ⟨n, ⟨d1, e1, a⟩⟩; let y : TNum := ⟨n, ⟨d2, e2, b⟩⟩
    let ia : Ideal := .val e1 a; let ib : Ideal := .val e2 b
    let cvtCls (r : Res TNum) : String := match r with
      | .ok q => c11CvtClass mode q.x.digits q.x.exp e3 q.x.value
      | _ => ""
    let br := "tchain/" ++ nw ++ "/" ++ kind
    match kind with
    | "mul_add" =>
      let m : Res TNum := do
        let cc ← convertT c n d3 e3 x
        let p ← binOpT c .mul x y
        binOpT c .add p cc
      let ideal := idealBin mode .add (idealBin mode .mul ia ib) (idealCvtS mode tag n.signed d3 e3 ia)
      some { model := showResT tag m, spec := judgeT tag ideal d3 n.signed res, cls := c11CvtClass mode d1 e1 e3 a, branch := br }
    | "sub_div_cvt" =>
      let q : Res TNum := do let s ← binOpT c .sub x y; binOpT c .div s y
      let m := q >>= convertT c n d3 e3
      let ideal := idealCvtS mode tag n.signed d3 e3 (idealBin mode .div (idealBin mode .sub ia ib) ib)
      some { model := showResT tag m, spec := judgeT tag ideal d3 n.signed res, cls := cvtCls q, branch := br, nontrivial := b != 0 }
    | "mul_div" =>
      let m : Res TNum := do let p ← binOpT c .mul x y; binOpT c .div p y
      let ideal := idealBin mode .div (idealBin mode .mul ia ib) ib
      some { model := showResT tag m, spec := judgeT tag ideal 0 true res, branch := br, nontrivial := b != 0 }
    | "mul_sub" =>
      let m : Res TNum := do let p ← binOpT c .mul x y; binOpT c .sub p x
      let ideal := idealBin mode .sub (idealBin mode .mul ia ib) ia
      some { model := showResT tag m, spec := judgeT tag ideal 0 true res, branch := br }
    | "mul_gt" =>
      let m : Res Bool := do let p ← binOpT c .mul x y; cmpT .gt p x
      let e := min (e1 + e2) e1
      let want := cmpWant11 .gt (a * b * 2^(e1 + e2 - e).toNat) (a * 2^(e1 - e).toNat)
      some { model := showRes showBool m, spec := some (res == showBool want), branch := br }
    | "mul_cvt" =>
      let q := binOpT c .mul x y
      let m := q >>= convertT c n d3 e3
      let ideal := idealCvtS mode tag n.signed d3 e3 (idealBin mode .mul ia ib)
      some { model := showResT tag m, spec := judgeT tag ideal d3 n.signed res, cls := cvtCls q, branch := br }
    | "sub_cvt" =>
      let q := binOpT c .sub x y
      let m := q >>= convertT c n d3 e3
      let ideal := idealCvtS mode tag n.signed d3 e3 (idealBin mode .sub ia ib)
      some { model := showResT tag m, spec := judgeT tag ideal d3 n.signed res, cls := cvtCls q, branch := br }
    | "add_sub_cvt" =>
      let q : Res TNum := do let s ← binOpT c .add x y; binOpT c .sub s y
      let m := q >>= convertT c n d3 e3
      let ideal := idealCvtS mode tag n.signed d3 e3 (idealBin mode .sub (idealBin mode .add ia ib) ib)
      some { model := showResT tag m, spec := judgeT tag ideal d3 n.signed res, cls := cvtCls q, branch := br }
    | _ => none
  | ["mixb", nw, mode, tag, ops, d, e, side, bt, a, b] => do
    -- static (x) built-in: `side` = L: the built-in operand `b` of type `bt` is on the left
    let n ← parseIntTy nw; let mode ← parseRdMode mode; let tag ← parseOvTag tag; let op ← parseBinOp ops
    let d ← d.toNat?; let e ← e.toInt?; let bt ← parseIntTy bt; let a ← parseIntX a; let b ← parseIntX b
    let s : Opnd := .stat ⟨n, ⟨d, e, a⟩⟩; let t : Opnd := .builtin bt b
    let left := side == "L"
    let m := if left then binO ⟨mode, tag⟩ n op t s else binO ⟨mode, tag⟩ n op s t
    let ideal := if left then idealBin mode op (.val 0 b) (.val e a) else idealBin mode op (.val e a) (.val 0 b)
    -- the exact value is all the property asks of a result whose built-in operand was the most negative number
    some { model := showResT tag m, spec := judgeT tag ideal 0 true res (!(bt.signed && b == bt.lowest)), cls := mixScaleClass ops e bt b,
           branch := "mixb/" ++ nw ++ "/" ++ ops ++ "/" ++ side ++ "/" ++ toks[8]!, nontrivial := a != 0 && b != 0 }
  | ["mixa", nw, mode, tag, ops, d, e, bt, a, b] => do
    -- `x OP= b` with a built-in `b`: the operator, then the conversion back to the type of `x`
    let n ← parseIntTy nw; let mode ← parseRdMode mode; let tag ← parseOvTag tag; let op ← parseBinOp ops
    let d ← d.toNat?; let e ← e.toInt?; let bt ← parseIntTy bt; let a ← parseIntX a; let b ← parseIntX b
    let c : Cfg := ⟨mode, tag⟩
    let q := binO c n op (.stat ⟨n, ⟨d, e, a⟩⟩) (.builtin bt b)
    let m := q >>= convertT c n d e
    let ideal := idealCvtS mode tag n.signed d e (idealBin mode op (.val e a) (.val 0 b))
    let cls0 := mixScaleClass ops e bt b
    let cls := if cls0 != "" then cls0 else match q with
      | .ok z => c11CvtClass mode z.x.digits z.x.exp e z.x.value
      | _ => ""
    some { model := showResT tag m, spec := judgeT tag ideal d n.signed res, cls := cls,
           branch := "mixa/" ++ nw ++ "/" ++ ops ++ "/" ++ toks[7]!, nontrivial := a != 0 && b != 0 }
  | ["mixc", nw, ops, d, e, side, bt, a, b] => do
    let n ← parseIntTy nw; let op ← parseCmpOp ops
    let d ← d.toNat?; let e ← e.toInt?; let bt ← parseIntTy bt; let a ← parseIntX a; let b ← parseIntX b
    let s : Opnd := .stat ⟨n, ⟨d, e, a⟩⟩; let t : Opnd := .builtin bt b
    let left := side == "L"
    let m := if left then cmpO n op t s else cmpO n op s t
    let e0 := min e 0
    let av := a * 2^(e - e0).toNat; let bv := b * 2^(0 - e0).toNat
    let want := if left then cmpWant11 op bv av else cmpWant11 op av bv
    some { model := showRes showBool m, spec := some (res == showBool want), cls := mixScaleClass "cmp" e bt b,
           branch := "mixc/" ++ nw ++ "/" ++ ops ++ "/" ++ side ++ "/" ++ toks[6]!, nontrivial := a != 0 && b != 0 }
  | _ => none

def checkC11 (toks : List String) (res : String) : Option Verdict :=
  match toks with
  | ["shift", ops, mode, tag, d, es, ck, x, k] => do
    -- `x OP count`; `es` is the exponent of a static_number or `i` for a bare static_integer; count kinds:
    -- int / si (run-time: built-in, static_integer), const (cnl::constant), aint / aconst (compound assignment)
    let op ← parseBinOp ops; let mode ← parseRdMode mode; let tag ← parseOvTag tag
    let d ← d.toNat?; let x ← x.toInt?; let k ← k.toInt?
    let bare := es == "i"
    let e ← if bare then some (0 : Int) else es.toInt?
    guard (op == .shl || op == .shr)
    let isShl := op == .shl
    let c : Cfg := ⟨mode, tag⟩
    let xs : SNum := ⟨d, e, x⟩
    let constCount := ck == "const" || ck == "aconst"
    let assign := ck == "aint" || ck == "aconst"
    guard (ck == "int" || ck == "si" || constCount || assign)
    let sh : Res SNum :=
      if !constCount then shiftRT c op xs k
      else if bare then (if k < 0 then .ill "negative constant count" else shiftConstInt c op xs k.toNat)
      else shiftConstNum op xs k
    let m := if assign then shiftAssign c sh xs else sh
    let i0 := idealShift tag isShl bare constCount d e x k
    let ideal := if assign then idealCvt mode tag d e i0 else i0
    let satD : Nat := if assign || !constCount then d else d + k.toNat
    -- the conversion back of a compound assignment inherits the narrowing classes
    let cvtCls := if assign then (match sh with | .ok z => c11CvtClass mode z.digits z.exp e z.value | _ => "") else ""
    let floorV := x / 2^(min k.toNat 4096)
    let cls :=
      if cvtCls != "" then cvtCls
      else if !isShl && constCount && bare && !assign && k ≥ 0 && floorV < -(2^(d - k.toNat) - 1 : Int) then
        "C11.shr_constant_below_declared_range"
      else ""
    let spec := match judge tag ideal satD res with
      | some true => some (inDeclaredRange res)
      | o => o
    some { model := showRes11 tag m, spec := spec, cls := cls,
           branch := "shift/" ++ ops ++ "/" ++ ck ++ (if bare then "/si" else "/sn") ++ "/" ++ toks[3]!,
           nontrivial := x != 0 && k != 0 }
  | ["bin", mode, tag, ops, d1, e1, d2, e2, a, b] => do
    let mode ← parseRdMode mode; let tag ← parseOvTag tag; let op ← parseBinOp ops
    let d1 ← d1.toNat?; let e1 ← e1.toInt?; let d2 ← d2.toNat?; let e2 ← e2.toInt?; let a ← a.toInt?; let b ← b.toInt?
    let c : Cfg := ⟨mode, tag⟩
    let m := if op == .mod then (remT c ⟨narrowest, ⟨d1, e1, a⟩⟩ ⟨narrowest, ⟨d2, e2, b⟩⟩).map (·.x) else binOp c op ⟨d1, e1, a⟩ ⟨d2, e2, b⟩
    let ideal := idealBin mode op (.val e1 a) (.val e2 b)
    some { model := showRes showSN m, spec := judge tag ideal 0 res, branch := "bin/" ++ ops ++ "/" ++ toks[1]!,
           nontrivial := !((op == .div || op == .mod) && b == 0) }
  | ["cmp", _mode, _tag, ops, d1, e1, d2, e2, a, b] => do
    let op ← parseCmpOp ops
    let d1 ← d1.toNat?; let e1 ← e1.toInt?; let d2 ← d2.toNat?; let e2 ← e2.toInt?; let a ← a.toInt?; let b ← b.toInt?
    let m := cmp op ⟨d1, e1, a⟩ ⟨d2, e2, b⟩
    let e := min e1 e2
    let x := a * 2^(e1 - e).toNat; let y := b * 2^(e2 - e).toNat
    let want : Bool := match op with
      | .lt => decide (x < y) | .le => decide (x ≤ y) | .gt => decide (x > y) | .ge => decide (x ≥ y)
      | .eq => decide (x = y) | .ne => decide (x ≠ y)
    some { model := showRes showBool m, spec := some (res == showBool want), branch := "cmp/" ++ ops }
  | ["neg", _mode, _tag, d1, e1, a] => do
    let d1 ← d1.toNat?; let e1 ← e1.toInt?; let a ← a.toInt?
    let m := neg ⟨d1, e1, a⟩
    some { model := showRes showSN m, spec := some (res == s!"sn({d1},{e1}):{-a}"), branch := "neg" }
  | ["cvt", mode, tag, d1, e1, d3, e3, a] => do
    let mode ← parseRdMode mode; let tag ← parseOvTag tag
    let d1 ← d1.toNat?; let e1 ← e1.toInt?; let d3 ← d3.toNat?; let e3 ← e3.toInt?; let a ← a.toInt?
    let m := Static.convert ⟨mode, tag⟩ d3 e3 ⟨d1, e1, a⟩
    let ideal := idealCvt mode tag d3 e3 (.val e1 a)
    some { model := showRes showSN m, spec := judge tag ideal d3 res, cls := c11CvtClass mode d1 e1 e3 a,
           branch := "cvt/" ++ toks[1]! ++ (if e3 > e1 then "/round" else "/exact") }
  | ["fcvt", mode, tag, d, e, fm, x] => do
    -- static_number<D,E>{floating}: scale by 2^-E in the floating type, overflow test on the scaled
    -- floating value against the declared limits, then the rounding conversion into the storage
    let mode ← parseRdMode mode; let tag ← parseOvTag tag; let d ← d.toNat?; let e ← e.toInt?
    let f ← FloatIO.parseFmt fm; let x ← Fmt.ofHex? f x
    let q := f.mul x (ScaledFloat.powerValueF f 2 (-e))
    let hi : Int := 2^d - 1
    let c : Cfg := ⟨mode, tag⟩
    -- the destination of the overflow test is the elastic_integer<d> (symmetric limits)
    let dl := Overflow.DestLimits.elastic d
    let m : Res SNum :=
      if Overflow.isOverflowConvertFloat f dl true q then (narrowDigits c d (hi + 1)).map (fun v => ⟨d, e, v⟩)
      else if Overflow.isOverflowConvertFloat f dl false q then (narrowDigits c d (-hi - 1)).map (fun v => ⟨d, e, v⟩)
      else
        match storage narrowest d with
        | none => .ill "no storage for the digits"
        | some rep => (RoundCvt.floatToInt mode f rep q).map (fun v => ⟨d, e, v⟩)
    -- ideal: the exact value rounded by the mode, then the overflow reaction
    let ideal : Ideal := match x.toRat? with
      | none => .undef
      | some r =>
        let scaled : Rat := r * (if e ≤ 0 then ((2 : Rat) ^ (-e).toNat) else 1 / ((2 : Rat) ^ e.toNat))
        let w : Int := match mode with
          | .ninf => scaled.floor
          | .nat => if scaled < 0 then -((-scaled).floor) else scaled.floor
          | .tpi => (scaled + (1/2 : Rat)).floor
          | .nrst => if scaled < 0 then -((-scaled + (1/2 : Rat)).floor) else (scaled + (1/2 : Rat)).floor
        idealCvt mode tag d e (.val e w)
    -- defect classes inherited from the layers below
    let addInexact (g : Fmt) (a b : FVal) : Bool := match a.toRat?, b.toRat?, (g.add a b).toRat? with
      | some p, some r, some t => p + r != t
      | _, _, _ => false
    let halfF := f.ofDyadic false 1 (-1)
    let halfL := x87ext.ofDyadic false 1 (-1)
    -- (float_at_limit_not_flagged is repaired: no class; a recurrence is a violation)
    let cls :=
      if mode == .tpi && addInexact f q halfF then "C11.float_rounding_inherits_C09"
      else if mode == .nrst && addInexact x87ext (x87ext.cvt q) (if fCmp .ge q (f.ofInt 0) then halfL else halfL.neg) then "C11.float_rounding_inherits_C09"
      else ""
    some { model := showRes showSN m, spec := judge tag ideal d res, cls := cls, branch := "fcvt/" ++ toks[1]! ++ "/" ++ fm, nontrivial := true }
  | ["chain", mode, tag, kind, d1, e1, d2, e2, d3, e3, a, b] => do
    let mode ← parseRdMode mode; let tag ← parseOvTag tag
    let d1 ← d1.toNat?; let e1 ← e1.toInt?; let d2 ← d2.toNat?; let e2 ← e2.toInt?; let d3 ← d3.toNat?; let e3 ← e3.toInt?
    let a ← a.toInt?; let b ← b.toInt?
    let c : Cfg := ⟨mode, tag⟩
    let x : SNum := ⟨d1, e1, a⟩; let y : SNum := ⟨d2, e2, b⟩
    match kind with
    | "mul_add" =>
      -- C c = x; return x * y + c;
      let m : Res SNum := do
        let cc ← Static.convert c d3 e3 x
        let p ← binOp c .mul x y
        binOp c .add p cc
      let ideal := idealBin mode .add (idealBin mode .mul (.val e1 a) (.val e2 b)) (idealCvt mode tag d3 e3 (.val e1 a))
      some { model := showRes showSN m, spec := judge tag ideal d3 res, cls := c11CvtClass mode d1 e1 e3 a, branch := "chain/mul_add", nontrivial := true }
    | "sub_div_cvt" =>
      -- C c = (x - y) / y; return c;
      let m : Res SNum := do
        let s ← binOp c .sub x y
        let q ← binOp c .div s y
        Static.convert c d3 e3 q
      let ideal := idealCvt mode tag d3 e3 (idealBin mode .div (idealBin mode .sub (.val e1 a) (.val e2 b)) (.val e2 b))
      -- the narrowing applies to the model-computed quotient
      let cls := match (do let s ← binOp c .sub x y; binOp c .div s y : Res SNum) with
        | .ok q => c11CvtClass mode q.digits q.exp e3 q.value
        | _ => ""
      some { model := showRes showSN m, spec := judge tag ideal d3 res, cls := cls, branch := "chain/sub_div_cvt", nontrivial := b != 0 }
    | _ => none
  | _ => checkC11T toks res

end Cnl.Drv
