import CnlDriver.CS
/-! `C11` driver table (stub). -/
namespace Cnl.Drv
open Cnl

def checkC11 (_toks : List String) (_res : String) : Option Verdict := none

end Cnl.Drv
