import CnlModel.CFloat
/-!
# Hex-float I/O for the driver (not part of any model)

`parseHexF` reads what C prints with `%a` / `%La` (`0x1.8p+1`, `-0x1.fd03fcp-27`, `0xc.8p-3`,
`0x0.0000000000001p-1022`, `inf`, `-inf`, `nan`, `-nan`) — any normalisation of the leading digit —
into an exact `FVal` (not yet tied to a format); `Fmt.ofHex?` then places it in a format (exact
whenever the printed value is a datum of that format).

`showHexD` / `showHexL` print a finite value exactly as glibc's `printf("%a", double)` and
`printf("%La", long double)` do (float arguments are promoted to double, so `float` uses
`showHexD`), so that model results can be compared verbatim with harness output.
NaN is printed `nan` whatever its sign: harnesses must print NaN sign-stripped.
-/
namespace Cnl.FloatIO
open Cnl

def hexDigit? (c : Char) : Option Nat :=
  if '0' ≤ c ∧ c ≤ '9' then some (c.toNat - '0'.toNat)
  else if 'a' ≤ c ∧ c ≤ 'f' then some (c.toNat - 'a'.toNat + 10)
  else if 'A' ≤ c ∧ c ≤ 'F' then some (c.toNat - 'A'.toNat + 10)
  else none

/-- leading hex digits of `cs` accumulated onto `acc`; returns (value, number of digits, rest) -/
def takeHex (cs : List Char) (acc : Nat) (n : Nat) : Nat × Nat × List Char :=
  match cs with
  | c :: r =>
    match hexDigit? c with
    | some d => takeHex r (acc * 16 + d) (n + 1)
    | none => (acc, n, cs)
  | [] => (acc, n, [])

/-- parse a C hex-float / `inf` / `nan` token into an exact value -/
def parseHexF (s : String) : Option FVal :=
  let cs := s.toList
  let (neg, cs) := match cs with
    | '-' :: r => (true, r)
    | '+' :: r => (false, r)
    | _ => (false, cs)
  match cs with
  | ['i', 'n', 'f'] => some (.inf neg)
  | ['n', 'a', 'n'] => some .nan
  | '0' :: x :: r =>
    if x != 'x' && x != 'X' then none else
    let (ip, ni, r) := takeHex r 0 0
    let (m, nf, r) := match r with
      | '.' :: r' => let (m, nf, r'') := takeHex r' ip 0; (m, nf, r'')
      | _ => (ip, 0, r)
    if ni + nf = 0 then none else
    match r with
    | p :: r =>
      if p != 'p' && p != 'P' then none else
      let r := match r with
        | '+' :: r' => r'
        | _ => r
      match (String.ofList r).toInt? with
      | some e => some (.fin neg m (e - 4 * (nf : Int)))
      | none => none
    | [] => some (.fin neg m (-(4 * (nf : Int))))
  | _ => none

/-- place a parsed value in a format (a rounding; exact when the value is a datum of the format) -/
def _root_.Cnl.Fmt.ofHex? (f : Fmt) (s : String) : Option FVal := (parseHexF s).map f.cvt

def hexChar (d : Nat) : Char := if d < 10 then Char.ofNat ('0'.toNat + d) else Char.ofNat ('a'.toNat + d - 10)

/-- `n` as exactly `k` hex digits (most significant first) -/
def hexFixed (n k : Nat) : List Char :=
  (List.range k).map fun i => hexChar ((n / 16 ^ (k - 1 - i)) % 16)

def stripTrailingZeros (cs : List Char) : List Char := (cs.reverse.dropWhile (· == '0')).reverse

def showExp (e : Int) : String := (if e < 0 then "-" else "+") ++ toString e.natAbs

/-- leading digit, fraction digits, exponent → `0xL.FFFp±E` -/
def assembleHex (neg : Bool) (lead : Nat) (frac : List Char) (e : Int) : String :=
  let fr := stripTrailingZeros frac
  (if neg then "-" else "") ++ "0x" ++ String.singleton (hexChar lead)
    ++ (if fr.isEmpty then "" else "." ++ String.ofList fr) ++ "p" ++ showExp e

/-- glibc `%a` of a double (also of a float, which is promoted): the value must be a binary64 datum -/
def showHexD : FVal → String
  | .nan => "nan"
  | .inf s => if s then "-inf" else "inf"
  | .fin s m e =>
    if m = 0 then (if s then "-0x0p+0" else "0x0p+0") else
    let b := m.log2                      -- bit length − 1
    let E : Int := e + b
    if -1022 ≤ E then
      -- normal: 1.fff…  with 52 fraction bits
      let fr := (m - 2 ^ b) * 2 ^ (52 - b)
      assembleHex s 1 (hexFixed fr 13) E
    else
      let fr := if -1074 ≤ e then m * 2 ^ (e + 1074).toNat else m / 2 ^ (-(e + 1074)).toNat
      assembleHex s 0 (hexFixed fr 13) (-1022)

/-- glibc `%La` of an x87 long double: a full nibble leads (8…f for normal numbers) -/
def showHexL : FVal → String
  | .nan => "nan"
  | .inf s => if s then "-inf" else "inf"
  | .fin s m e =>
    if m = 0 then (if s then "-0x0p+0" else "0x0p+0") else
    let b := m.log2
    let E : Int := e + b
    if -16382 ≤ E then
      let M := if b ≤ 63 then m * 2 ^ (63 - b) else m / 2 ^ (b - 63)
      assembleHex s (M / 2 ^ 60) (hexFixed (M % 2 ^ 60) 15) (E - 3)
    else
      let M := if -16445 ≤ e then m * 2 ^ (e + 16445).toNat else m / 2 ^ (-(e + 16445)).toNat
      assembleHex s (M / 2 ^ 60) (hexFixed (M % 2 ^ 60) 15) (-16385)

/-- format by name: `f32`, `f64`, `f80` -/
def parseFmt : String → Option Fmt
  | "f32" => some binary32
  | "f64" => some binary64
  | "f80" => some x87ext
  | _ => none

/-- print a value of format `f` as the harness prints it (`%a` for float/double, `%La` for long double) -/
def showF (f : Fmt) (x : FVal) : String := if f.prec = 64 then showHexL x else showHexD x

end Cnl.FloatIO
