import CnlDriver.CS
/-! `C07` driver table (stub). -/
namespace Cnl.Drv
open Cnl

def checkC07 (_toks : List String) (_res : String) : Option Verdict := none

end Cnl.Drv
