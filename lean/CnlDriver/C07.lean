import CnlDriver.C06
import CnlDriver.C11
/-! `C07` table: the cases of the `C06` table (CnlDriver.C06: same model, same lines) judged by definedness, plus
`sn …` lines: static_number / static_integer operations in the line format of the `C11` table, evaluated by the
C11 model (`CnlModel/Static.lean`: elastic + rounding inside the overflow layer). -/
namespace Cnl.Drv
open Cnl Cnl.Overflow

/-- an observation that is undefined behaviour, the internal `unreachable` state or a crash -/
def c07Bad (res : String) : Bool :=
  res == "UB" || res == "UNREACHABLE" || res == "SEGV" || res == "ABORT" || res == "TIMEOUT"

/-- C07: the evaluation is defined (no UB, no internal `unreachable`, no crash) -/
def checkC07 (toks : List String) (res : String) : Option Verdict :=
  match toks with
  | "sn" :: rest => do
    -- static numbers: defined, and (where the C11 oracle has no open class) the value the rounding mode and the
    -- overflow tag prescribe — a division that executed signed overflow without trapping shows up as a wrong quotient
    let v ← checkC11 rest res
    let valueOk := if v.cls.isEmpty then v.spec.getD true else true
    some { model := v.model, spec := if v.nontrivial then some (!c07Bad res && valueOk) else none, cls := "", branch := "sn/" ++ v.branch,
           nontrivial := v.nontrivial }
  | _ =>
  match c06Winc toks with
  | some (m, _, br) =>
    some { model := m, spec := some (!c07Bad res), branch := br, nontrivial := true }
  | none => do
  let c ← c06Eval toks
  let tag := toks.getD 2 ""
  let m := c06Show c.style tag (showRes showTV c.model)
  let cls := if c.cls.isEmpty then "" else "C07." ++ (c.cls.drop 4).toString
  some { model := m, spec := c.want.map (fun _ => !c07Bad res), cls := cls, branch := c.branch, nontrivial := c.want.isSome }

end Cnl.Drv
