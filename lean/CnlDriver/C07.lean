import CnlDriver.C06
/-! `C07` table lives in CnlDriver.C06 (same cases, different oracle). -/
