import CnlDriver.CS
import CnlModel.Wide
import CnlModel.WideCmp
import CnlSpec.Wide
import CnlDriver.C10F
/-!
`C10` driver table: `cnl::wide_integer` over multi-limb `uintwide_t`.

Values travel as `x<hex>`: the `N`-bit pattern, most significant digit first, `N/4` digits —
independent of the limb type.  The model runs on limb lists (`Cnl.Wide`), the oracle on `Int`
(`Cnl.WideSpec`, which never mentions limbs).

    storage <ty>                         => multi:<w>:<n>:<s|u> | builtin:<ity>
    bin <op> <ty> <a> <b>                => <ty>:<hex>          op ∈ add sub mul div mod and or xor
                                            (`mul` with ≥ 129 limbs runs the transcribed Karatsuba routine)
    cmp <op> <ty> <a> <b>                => 0|1
    sh <shl|shr> <ty> <count ty> <a> <k> => <ty>:<hex>
    shc <shl|shr|shla|shra> <ty> <count ty> <a> <k> => <ty>:<hex>   count given as `cnl::constant<K>` (`K_c` literals:
                                            count type i128), binary operator / compound assignment (shla, shra)
    un <neg|preinc|predec|postinc|postdec> <ty> <a> => <ty>:<hex>[/<hex after>]
    toint <ty> <T> <a>                   => <T>:<value>
    fromint <ty> <T> <v>                 => <ty>:<hex>
    lim <max|lowest|min|digits> <ty>     => <ty>:<hex> | <digits>
    dec <ty> <a>                         => decimal text (via operator<<)
    chars <ty> <a>                       => decimal text (via cnl::to_chars_static; values within numeric_limits)
    tochars <ty> <len> <a>               => decimal text | E   (cnl::to_chars into a buffer of <len> characters)
    cap <ty>                             => to_chars_capacity (base ten)
    mix <op> <l|r> <ty> <T> <v> <a>      => <result ty>:<hex>  built-in operand v of type T on the left (l) or right (r)
                                            of the wide_integer a; op ∈ add sub mul div mod and
    mixcmp <op> <l|r> <ty> <T> <v> <a>   => 0|1
    w2f <ty> <f32|f64|f80> <a>           => hex float (CnlDriver/C10F.lean)
    f2w <ty> <fmt> <hexfloat>            => <ty>:<hex>
-/
namespace Cnl.Drv
open Cnl Cnl.Wide

def hexVal (c : Char) : Option Nat :=
  if '0' ≤ c ∧ c ≤ '9' then some (c.toNat - 48)
  else if 'a' ≤ c ∧ c ≤ 'f' then some (c.toNat - 87)
  else none

/-- `x<hex>` -/
def parseHex (s : String) : Option Nat :=
  match s.toList with
  | 'x' :: ds => if ds.isEmpty then none else ds.foldlM (fun acc c => (hexVal c).map (fun d => acc * 16 + d)) 0
  | _ => none

def hexDigit (d : Nat) : Char := if d < 10 then Char.ofNat (48 + d) else Char.ofNat (87 + d)

def hexDigits : Nat → Nat → List Char → List Char
  | 0, _, acc => acc
  | k+1, v, acc => hexDigits k (v / 16) (hexDigit (v % 16) :: acc)

def showHex (N : Nat) (v : Nat) : String := String.ofList ('x' :: hexDigits (N / 4) v [])

/-- signed reading of an `N`-bit pattern (driver's own, used by the oracle only) -/
def patToInt (N : Nat) (signed : Bool) (p : Nat) : Int :=
  if signed && decide (p ≥ 2^(N-1)) then (p : Int) - 2^N else p

def wdFmt (ty : Ty) : Option (Wide.Fmt × Nat) :=
  match ty with
  | .wd d (.int t) =>
    match storage d t with
    | .multi f => some (f, d)
    | .builtin _ => none
  | _ => none

def showW (ty : Ty) (f : Wide.Fmt) (a : Limbs) : String := ty.toString ++ ":" ++ showHex f.N (Wide.toNat f.w a)
def showP (ty : Ty) (N : Nat) (x : Int) : String := ty.toString ++ ":" ++ showHex N (WideSpec.pattern N x)

def divLabel (o : DivOut) : String :=
  let p := match o.path with
    | .byZero => "byzero" | .zeroNum => "zeronum" | .less => "less" | .equal => "equal" | .single => "single" | .knuth => "knuth"
  p ++ (if o.stats.addBack > 0 then "+addback" else "") ++ (if o.stats.qhatDec > 0 then "+qdec" else "")

def checkC10 (toks : List String) (res : String) : Option Verdict :=
  match toks with
  | ["storage", ty] => do
    let .wd d (.int t) ← parseTy ty | none
    let m := match storage d t with
      | .multi f => s!"multi:{f.w}:{f.n}:{if f.signed then "s" else "u"}"
      | .builtin b => "builtin:" ++ b.toString
    some { model := m, spec := none, branch := "storage/" ++ (m.splitOn ":").head!, nontrivial := true }
  | ["bin", op, tys, a, b] => do
    let op ← parseBinOp op; let ty ← parseTy tys; let (f, _) ← wdFmt ty
    let pa ← parseHex a; let pb ← parseHex b
    let la := ofNat f.w f.n pa; let lb := ofNat f.w f.n pb
    let m := showRes (showW ty f) (binOp f op la lb)
    let x := patToInt f.N f.signed pa; let y := patToInt f.N f.signed pb
    let want := (WideSpec.specBin f.N f.signed op x y).map (showP ty f.N)
    let label := match op with
      | .div => (match opDiv f la lb with | some o => "div/" ++ divLabel o | none => "div/diverges")
      | .mod => (match opMod f la lb with | some o => "mod/" ++ divLabel o | none => "mod/diverges")
      | .mul => if f.n = 4 then "mul/4limb"
                else if f.n ≥ karaThreshold then (if karaOddSplit f.n then "mul/karatsuba(odd-level-schoolbook)" else "mul/karatsuba")
                else "mul/schoolbook"
      | _ => toks[1]!
    some { model := m, spec := want.map (· == res), branch := label, nontrivial := want.isSome }
  | ["cmp", op, tys, a, b] => do
    let op ← parseCmpOp op; let ty ← parseTy tys; let (f, _) ← wdFmt ty
    let pa ← parseHex a; let pb ← parseHex b
    let m := showBool (cmpOp f op (ofNat f.w f.n pa) (ofNat f.w f.n pb))
    let want := showBool (WideSpec.specCmp op (patToInt f.N f.signed pa) (patToInt f.N f.signed pb))
    some { model := m, spec := some (want == res), branch := "cmp/" ++ toks[1]! }
  | ["sh", dir, tys, cty, a, k] => do
    let ty ← parseTy tys; let (f, _) ← wdFmt ty; let ct ← parseIntTy cty
    let pa ← parseHex a; let k ← k.toInt?
    let la := ofNat f.w f.n pa
    let left := dir == "shl"
    if !left && dir != "shr" then none
    let r := if left then shlOp f la k ct.signed else shrOp f la k ct.signed
    let x := patToInt f.N f.signed pa
    let inRange := 0 ≤ k ∧ k < f.N
    let want := if inRange then (WideSpec.specBin f.N f.signed (if left then .shl else .shr) x k).map (showP ty f.N) else none
    let label := dir ++ (if k < 0 then "/negative" else if k = 0 then "/zero" else if k ≥ f.N then "/exceeds"
                         else if k.toNat % f.w = 0 then "/limbs" else if k.toNat < f.w then "/bits" else "/limbs+bits")
    some { model := showW ty f r, spec := want.map (· == res), branch := label, nontrivial := want.isSome }
  | ["shc", dir, tys, cty, a, k] => do
    -- `wide << constant<K>` forwards `rep << K` with `K` of the constant's value type (`_impl/wide-integer.h`);
    -- `<<=` / `>>=` with a constant go through the binary operator: the same function of the operands
    let ty ← parseTy tys; let (f, _) ← wdFmt ty; let ct ← parseIntTy cty
    let pa ← parseHex a; let k ← k.toInt?
    let la := ofNat f.w f.n pa
    let left := dir == "shl" || dir == "shla"
    if !left && dir != "shr" && dir != "shra" then none
    let r := if left then shlConst f la k ct.signed else shrConst f la k ct.signed
    let x := patToInt f.N f.signed pa
    let inRange := 0 ≤ k ∧ k < f.N
    -- the property's demand, on the integers: x·2^k reduced to N bits / the floor of x/2^k
    let want := if inRange then some (showP ty f.N (if left then WideSpec.wrapTwos f.N f.signed (x * 2^k.toNat) else x / 2^k.toNat)) else none
    let label := "shc/" ++ dir ++ (if k < 0 then "/negative" else if k = 0 then "/zero" else if k ≥ f.N then "/exceeds"
                         else if k ≥ 256 then "/256-and-more" else if k.toNat % f.w = 0 then "/limbs" else if k.toNat < f.w then "/bits" else "/limbs+bits")
    some { model := showW ty f r, spec := want.map (· == res), branch := label, nontrivial := want.isSome }
  | ["un", op, tys, a] => do
    let ty ← parseTy tys; let (f, _) ← wdFmt ty
    let pa ← parseHex a
    let la := ofNat f.w f.n pa
    let x := patToInt f.N f.signed pa
    let w2 := fun (v : Int) => showHex f.N (WideSpec.pattern f.N (WideSpec.wrapTwos f.N f.signed v))
    let h := fun (l : Limbs) => showHex f.N (Wide.toNat f.w l)
    let pre := ty.toString ++ ":"
    let (m, want) ← match op with
      | "neg" => some (pre ++ h (negate f.w la), pre ++ w2 (-x))
      | "preinc" => some (pre ++ h (preinc f.w la), pre ++ w2 (x + 1))
      | "predec" => some (pre ++ h (predec f.w la), pre ++ w2 (x - 1))
      | "postinc" => some (pre ++ h la ++ "/" ++ h (preinc f.w la), pre ++ w2 x ++ "/" ++ w2 (x + 1))
      | "postdec" => some (pre ++ h la ++ "/" ++ h (predec f.w la), pre ++ w2 x ++ "/" ++ w2 (x - 1))
      | _ => none
    some { model := m, spec := some (want == res), branch := "un/" ++ op }
  | ["toint", tys, t, a] => do
    let ty ← parseTy tys; let (f, _) ← wdFmt ty; let t ← parseIntTy t
    let pa ← parseHex a
    let m := showTV (t, toBuiltin f t (ofNat f.w f.n pa))
    let want := showTV (t, t.wrap (patToInt f.N f.signed pa))
    some { model := m, spec := some (want == res), branch := "toint/" ++ toks[2]! }
  | ["fromint", tys, t, v] => do
    let ty ← parseTy tys; let (f, _) ← wdFmt ty; let t ← parseIntTy t
    let v ← v.toInt?
    let m := showW ty f (fromBuiltin f t v)
    let want := showP ty f.N (WideSpec.wrapTwos f.N f.signed v)
    some { model := m, spec := some (want == res), branch := "fromint/" ++ toks[2]! }
  | ["lim", what, tys] => do
    let ty ← parseTy tys; let (f, d) ← wdFmt ty
    match what with
    | "max" => some { model := showW ty f (limMax f d), spec := some (showP ty f.N (WideSpec.limMax d) == res), branch := "lim/max" }
    | "lowest" => some { model := showW ty f (limLowest f d), spec := some (showP ty f.N (WideSpec.limLowest d f.signed) == res), branch := "lim/lowest" }
    | "min" => some { model := showW ty f (limMin f), spec := none, branch := "lim/min(library-convention)", nontrivial := false }
    | "digits" => some { model := toString d, spec := some (toString d == res), branch := "lim/digits" }
    | _ => none
  | ["dec", tys, a] => do
    let ty ← parseTy tys; let (f, _) ← wdFmt ty
    let pa ← parseHex a
    let m := wrDec f (ofNat f.w f.n pa)
    let x := patToInt f.N f.signed pa
    let want := WideSpec.decimal x
    -- the first-principles `decimalText` of the theorems must agree with Lean's own conversion
    some { model := m, spec := some (want == res && WideSpec.decimalText x == want), branch := "dec" }
  | ["chars", tys, a] => do
    let ty ← parseTy tys; let (f, _) ← wdFmt ty
    let pa ← parseHex a
    let m := match toChars f (ofNat f.w f.n pa) with
      | some s => s
      | none => "TIMEOUT"
    let want := WideSpec.decimal (patToInt f.N f.signed pa)
    some { model := m, spec := some (want == res), branch := "chars" }
  | ["tochars", tys, len, a] => do
    let ty ← parseTy tys; let (f, _) ← wdFmt ty
    let len ← len.toNat?; let pa ← parseHex a
    let m := match toCharsBuf f len (ofNat f.w f.n pa) with
      | some (some s) => s
      | some none => "E"
      | none => "TIMEOUT"
    let s := WideSpec.decimal (patToInt f.N f.signed pa)
    let want := if s.length ≤ len then s else "E"
    some { model := m, spec := some (want == res), branch := if s.length ≤ len then (if s.length = len then "tochars/exact-fit" else "tochars/fits") else "tochars/too-small" }
  | ["cap", tys] => do
    let ty ← parseTy tys; let (f, d) ← wdFmt ty
    -- the property's demand: the fixed-capacity conversion never fails, i.e. the capacity holds the longest numeral
    let need := Nat.max (WideSpec.decimal (WideSpec.limMax d)).length (WideSpec.decimal (WideSpec.limLowest d f.signed)).length
    let ok := match res.toNat? with | some c => decide (need ≤ c) | none => false
    some { model := toString (toCharsCapacity d f.signed), spec := some ok, branch := "cap" }
  | ["mix", ops, side, tys, t, v, a] => do
    let op ← parseBinOp ops; let ty ← parseTy tys; let (f, d) ← wdFmt ty; let t ← parseIntTy t
    let .wd _ (.int nw) := ty | none
    let v ← v.toInt?; let pa ← parseHex a
    if side != "l" && side != "r" then none
    let left := side == "l"
    let tyR := Ty.wd d (.int (mixNarrowest nw t))
    let (g, _) ← wdFmt tyR
    let m := showRes (showW tyR g) (mixArith f g t op left v (ofNat f.w f.n pa))
    let x := patToInt f.N f.signed pa
    let (l, r) := if left then (v, x) else (x, v)
    -- the property's demand: the operator on the two values, reduced to the result type's range (none: zero divisor)
    let want := (WideSpec.specBin g.N g.signed op l r).map (showP tyR g.N)
    -- two open defect classes (findings/C10.json), attributed only where the model of the unchanged code itself
    -- departs from the demand (any other departure is a correspondence mismatch or an unlisted violation):
    -- * a signed built-in operand next to an UNSIGNED multi-limb wide_integer is computed in the unsigned format and
    --   then reinterpreted / zero-extended in the signed result type (no mixed-signedness operators in uintwide_t);
    -- * `negative wide % unsigned T`, T no wider than a limb: uintwide_t's limb-returning overload yields
    --   2^w − |rem| (`Cnl.Wide.modSmall`)
    let signMixed := !f.signed && t.signed
    let modSmallNeg := takesModSmall f t op left && decide (x < 0)
    let departs := match want with | some w => m != w | none => false
    let cls := if !departs then "" else if modSmallNeg then "C10.mod_small_unsigned_builtin_negative_dividend"
               else if signMixed then "C10.signed_builtin_unsigned_wide" else ""
    some { model := m, spec := want.map (· == res), nontrivial := want.isSome, cls := cls,
           branch := "mix/" ++ ops ++ "/" ++ side ++ (if takesModSmall f t op left then "/limb-returning-overload" else "")
                     ++ (if signMixed then "/sign-mixed" else "") ++ (if cls != "" then "(known-defect)" else "") }
  | ["mixcmp", ops, side, tys, t, v, a] => do
    let op ← parseCmpOp ops; let ty ← parseTy tys; let (f, d) ← wdFmt ty; let t ← parseIntTy t
    let .wd _ (.int nw) := ty | none
    let v ← v.toInt?; let pa ← parseHex a
    if side != "l" && side != "r" then none
    let left := side == "l"
    let x := patToInt f.N f.signed pa
    let (l, r) := if left then (v, x) else (x, v)
    let m := showRes showBool (mixCmp d nw t op left v x)
    some { model := m, spec := some (showBool (WideSpec.specCmp op l r) == res),
           branch := "mixcmp/" ++ ops ++ "/" ++ side ++ (if f.signed != t.signed then "/sign-mixed" else "") }
  | "w2f" :: _ => checkC10F toks res
  | "f2w" :: _ => checkC10F toks res
  | _ => none

end Cnl.Drv
