import CnlDriver.CS
/-! `C10` driver table (stub). -/
namespace Cnl.Drv
open Cnl

def checkC10 (_toks : List String) (_res : String) : Option Verdict := none

end Cnl.Drv
