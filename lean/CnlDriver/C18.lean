import CnlDriver.CS
import CnlModel.Bits
import CnlSpec.Bits
/-! `C18` table: bit and digit-counting utilities.

`C18 <function> <cfg> <T> <x> [<s>|<radix>] => <result>`; `cfg` = `ig` (GCC, intrinsics), `ic` (Clang,
intrinsics), `gen` (generic definitions only).  The model's answer is compared verbatim with the
implementation's; the spec oracle (`CnlSpec.Bits`) judges the implementation's result on its own.
`C18 sweep32 <cfg> <lo> <hi> <calls> => <mismatches>` is the summary line of the supplementary in-harness
search of the thorough tier (not a model comparison: the expected count is 0). -/
namespace Cnl.Drv
open Cnl Cnl.Bits

private def c18ParseCfg : String → Option Cfg
  | "ig" => some ⟨true, false⟩
  | "ic" => some ⟨true, true⟩
  | "gen" => some ⟨false, false⟩
  | _ => none

private def showI (n : Int) : String := "i32:" ++ toString n
private def showU (w : Nat) (n : Nat) : String := "u" ++ toString w ++ ":" ++ toString n
private def specI (want : Int) (res : String) : Option Bool := some (res == showI want)

def checkC18 (toks : List String) (res : String) : Option Verdict :=
  match toks with
  | ["sweep32", _, _, _, _] => some { model := "0", spec := some (res == "0"), branch := "sweep32", nontrivial := true }
  | [fn, cfg, ty, xs] => do
    let c ← c18ParseCfg cfg; let T ← parseIntTy ty; let v ← xs.toInt?
    let w := T.bits
    if !T.inRange v || w == 0 then none
    let x := v.toNat
    let tag := fn ++ "/" ++ cfg ++ "/" ++ ty
    let cnt (m : Res Int) (want : Int) (cls : String := "") : Option Verdict :=
      some { model := showRes showI m, spec := specI want res, branch := tag, cls := if res == showI want then "" else cls }
    if T.signed then
      match fn with
      | "countl_rsb" => cnt (countlRsb c w v) (Spec.Bits.countlRsb w v)
      | "countl_rb" => cnt (countlRb c T v) (Spec.Bits.countlRsb w v)
      | "countr_used" => cnt (countrUsed c T v) (Spec.Bits.valueBits v)
      | "used_digits" => cnt (usedDigits T v 2) (Spec.Bits.valueBits v)
      | "leading_bits" => cnt (leadingBits T v) (Spec.Bits.leadingBits w true v)
      | "trailing_bits" => cnt (trailingBits c T v) (Spec.Bits.trailingBits w v)
      | _ => none
    else
      match fn with
      | "countl_zero" => cnt (countlZero c w x) (Spec.Bits.countlZero w x)
      | "countl_one" => cnt (countlOne c w x) (Spec.Bits.countlOne w x)
      | "countr_zero" => cnt (countrZero c w x) (Spec.Bits.countrZero w x)
      | "countr_one" => cnt (countrOne c w x) (Spec.Bits.countrOne w x)
      | "popcount" => cnt (popcount c w x) (Spec.Bits.popcount w x)
      | "log2p1" => cnt (log2p1 c w x) (Spec.Bits.bitLength x)
      | "ispow2" =>
        some { model := showRes showBool (ispow2 w x), spec := some (res == showBool (Spec.Bits.isPow2 x)), branch := tag }
      | "floor2" =>
        some { model := showRes (showU w) (floor2 c w x), spec := some (res == showU w (Spec.Bits.floor2 x)), branch := tag }
      | "ceil2" =>
        let m := showRes (showU w) (ceil2 c w x)
        match Spec.Bits.ceil2 w x with
        | some p => some { model := m, spec := some (res == showU w p), branch := tag }
        | none => some { model := m, spec := none, branch := tag ++ "/out-of-contract", nontrivial := false }
      | "countl_rb" => cnt (countlRb c T v) (Spec.Bits.countlZero w x)
      | "countr_used" => cnt (countrUsed c T v) (Spec.Bits.bitLength x)
      | "used_digits" => cnt (usedDigits T v 2) (Spec.Bits.bitLength x)
      | "leading_bits" => cnt (leadingBits T v) (Spec.Bits.leadingBits w false v)
      | "trailing_bits" => cnt (trailingBits c T v) (Spec.Bits.trailingBits w v)
      | _ => none
  | [fn, cfg, ty, xs, ss] => do
    let _c ← c18ParseCfg cfg; let T ← parseIntTy ty; let v ← xs.toInt?; let s ← ss.toNat?
    let w := T.bits
    if !T.inRange v || w == 0 then none
    let x := v.toNat
    let tag := fn ++ "/" ++ cfg ++ "/" ++ ty
    match fn with
    | "rotl" =>
      if T.signed then none else
      some { model := showRes (showU w) (rotl w x s), spec := some (res == showU w (Spec.Bits.rotl w x s)),
             branch := tag ++ (if s % w == 0 then "/multiple-of-width" else "") }
    | "rotr" =>
      if T.signed then none else
      some { model := showRes (showU w) (rotr w x s), spec := some (res == showU w (Spec.Bits.rotr w x s)),
             branch := tag ++ (if s % w == 0 then "/multiple-of-width" else "") }
    | "used_digits_r" =>
      let n := (if v < 0 then -v - 1 else v).toNat
      some { model := showRes showI (usedDigits T v s), spec := specI (Spec.Bits.radixDigits s n (w + 1)) res, branch := tag }
    | _ => none
  | _ => none

end Cnl.Drv
