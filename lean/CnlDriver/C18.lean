import CnlDriver.CS
/-! `C18` driver table (stub). -/
namespace Cnl.Drv
open Cnl

def checkC18 (_toks : List String) (_res : String) : Option Verdict := none

end Cnl.Drv
