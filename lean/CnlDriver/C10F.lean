import CnlDriver.Proto
import CnlDriver.FloatIO
import CnlModel.WideFloat
import CnlSpec.WideFloat
/-!
`C10` driver table, floating-point conversions of `cnl::wide_integer` (multi-limb `uintwide_t`).
Dispatched from `checkC10` for the two line kinds

    w2f <ty> <f32|f64|f80> <a>           => <hex float>        static_cast<F>(wide_integer)
    f2w <ty> <f32|f64|f80> <hex float>   => <ty>:<hex>         wide_integer{F}

Wide values travel as `x<hex>` (the `N`-bit pattern), floats as C hex floats (`%a` / `%La`).
The model (`Cnl.WideFloat`) runs limb by limb / operation by operation in `CnlModel.CFloat`; the oracle
(`Cnl.WideFloatSpec`) works on the mathematical integer.  `long double` is x87 double-extended.
-/
namespace Cnl.Drv.C10F
open Cnl Cnl.Wide Cnl.Drv

def hexVal (c : Char) : Option Nat :=
  if '0' ≤ c ∧ c ≤ '9' then some (c.toNat - 48)
  else if 'a' ≤ c ∧ c ≤ 'f' then some (c.toNat - 87)
  else none

/-- `x<hex>` -/
def parseHex (s : String) : Option Nat :=
  match s.toList with
  | 'x' :: ds => if ds.isEmpty then none else ds.foldlM (fun acc c => (hexVal c).map (fun d => acc * 16 + d)) 0
  | _ => none

def hexDigit (d : Nat) : Char := if d < 10 then Char.ofNat (48 + d) else Char.ofNat (87 + d)

def hexDigits : Nat → Nat → List Char → List Char
  | 0, _, acc => acc
  | k+1, v, acc => hexDigits k (v / 16) (hexDigit (v % 16) :: acc)

def showHex (N : Nat) (v : Nat) : String := String.ofList ('x' :: hexDigits (N / 4) v [])

def patToInt (N : Nat) (signed : Bool) (p : Nat) : Int :=
  if signed && decide (p ≥ 2^(N-1)) then (p : Int) - 2^N else p

def wdFmt (ty : Ty) : Option Wide.Fmt :=
  match ty with
  | .wd d (.int t) =>
    match storage d t with
    | .multi f => some f
    | .builtin _ => none
  | _ => none

def showW (ty : Ty) (f : Wide.Fmt) (a : Limbs) : String := ty.toString ++ ":" ++ showHex f.N (Wide.toNat f.w a)
def showP (ty : Ty) (N : Nat) (x : Int) : String := ty.toString ++ ":" ++ showHex N (WideSpec.pattern N x)

/-- `long double` of the platform under test -/
def ldFmt : Cnl.Fmt := x87ext

end Cnl.Drv.C10F

namespace Cnl.Drv
open Cnl Cnl.Wide Cnl.Drv.C10F

def checkC10F (toks : List String) (res : String) : Option Verdict :=
  match toks with
  | ["w2f", tys, fs, a] => do
    let ty ← parseTy tys; let f ← wdFmt ty; let F ← FloatIO.parseFmt fs
    let pa ← parseHex a
    let la := ofNat f.w f.n pa
    let m := FloatIO.showF F (WideFloat.toFloat ldFmt F f la)
    let v := patToInt f.N f.signed pa
    let ok := match F.ofHex? res with
      | some r => WideFloatSpec.toFloatOk F v r
      | none => false
    let kind :=
      if WideFloatSpec.representable F v then "exact"
      else if FloatIO.showF F (WideFloatSpec.nearest F v) == res then
        (if (WideFloatSpec.nearest F v).isInf then "overflow" else "rounded/nearest")
      else "rounded/other-neighbour"
    some { model := m, spec := some ok, branch := "w2f/" ++ fs ++ "/" ++ kind }
  | ["f2w", tys, fs, xs] => do
    let ty ← parseTy tys; let f ← wdFmt ty; let F ← FloatIO.parseFmt fs
    let x ← F.ofHex? xs
    let m := showRes (showW ty f) (WideFloat.fromFloat f F x)
    let want := (WideFloatSpec.fromFloat f.N f.signed x).map (showP ty f.N)
    let kind := match x with
      | .fin s mm e =>
        let t := truncInt s mm e
        if t = 0 then "zero"
        else if WideSpec.wrapTwos f.N f.signed t = t then
          (if e < 0 then "truncated" else "integer")
        else if t.natAbs % 2^f.N = 0 then "wraps/shifted-out" else "wraps"
      | _ => "nonfinite"
    some { model := m, spec := want.map (· == res), branch := "f2w/" ++ fs ++ "/" ++ kind, nontrivial := want.isSome }
  | _ => none

end Cnl.Drv
